/-
  Helper lemmas for the threshold metrics (C19): finite sums over `List.range`, `np.unique`, run lengths,
  label maxima, quantile counts.
-/
import IbicusModel.Model.Metrics
import Mathlib.Tactic.Linarith
import Mathlib.Tactic.Ring
import Mathlib.Tactic.FieldSimp
import Mathlib.Tactic.Positivity
import Mathlib.Data.List.Basic
import Mathlib.Data.List.Nodup
import Mathlib.Data.List.Range
import Mathlib.Algebra.BigOperators.Group.List.Basic
import Mathlib.Algebra.Order.Field.Basic

namespace Lemmas.Metrics
open Model.Metrics

/-! ### sums over a range -/

section sums
variable {α : Type} [AddCommMonoid α]

@[simp] theorem sumR_zero (f : Nat → α) : sumR 0 f = 0 := by simp [sumR]

theorem sumR_succ (n : Nat) (f : Nat → α) : sumR (n + 1) f = sumR n f + f n := by
  simp [sumR, List.range_succ]

theorem sumR_congr (n : Nat) (f g : Nat → α) (h : ∀ k, k < n → f k = g k) : sumR n f = sumR n g := by
  induction n with
  | zero => simp
  | succ n ih =>
    rw [sumR_succ, sumR_succ, ih (fun k hk => h k (by omega)), h n (by omega)]

theorem sumR_add (n : Nat) (f g : Nat → α) : sumR n (fun k => f k + g k) = sumR n f + sumR n g := by
  induction n with
  | zero => simp
  | succ n ih => rw [sumR_succ, sumR_succ, sumR_succ, ih]; exact add_add_add_comm _ _ _ _

theorem sumR_const_zero (n : Nat) : sumR n (fun _ => (0 : α)) = 0 := by
  induction n with
  | zero => simp
  | succ n ih => rw [sumR_succ, ih]; simp

/-- Fubini for two ranges -/
theorem sumR_comm (n m : Nat) (f : Nat → Nat → α) :
    sumR n (fun a => sumR m (fun b => f a b)) = sumR m (fun b => sumR n (fun a => f a b)) := by
  induction n with
  | zero => simp [sumR_const_zero]
  | succ n ih =>
    rw [sumR_succ, ih, ← sumR_add]
    apply sumR_congr; intro b _; rw [sumR_succ]

/-- a list sum and a range sum commute -/
theorem listSum_sumR_comm {β : Type} (U : List β) (n : Nat) (g : β → Nat → α) :
    (U.map (fun y => sumR n (g y))).sum = sumR n (fun t => (U.map (fun y => g y t)).sum) := by
  induction U with
  | nil => simp [sumR_const_zero]
  | cons a U ih => simp only [List.map_cons, List.sum_cons, ih, ← sumR_add]

/-- select-then-sum = sum of the masked values -/
theorem sum_filter_range (n : Nat) (p : Nat → Bool) (f : Nat → α) :
    (((List.range n).filter p).map f).sum = sumR n (fun t => if p t then f t else 0) := by
  induction n with
  | zero => simp
  | succ n ih =>
    rw [sumR_succ, List.range_succ, List.filter_append, List.map_append, List.sum_append, ih]
    cases h : p n <;> simp [h]

/-- exactly one element of a duplicate-free list equals `a` -/
theorem sum_ite_eq_of_nodup {β : Type} [DecidableEq β] (U : List β) (a : β) (c : α) (hn : U.Nodup) (ha : a ∈ U) :
    (U.map (fun y => if a = y then c else 0)).sum = c := by
  induction U with
  | nil => simp at ha
  | cons b U ih =>
    rw [List.nodup_cons] at hn
    rcases List.mem_cons.mp ha with rfl | hmem
    · have : (U.map (fun y => if a = y then c else 0)).sum = 0 := by
        apply List.sum_eq_zero
        intro x hx
        rw [List.mem_map] at hx
        obtain ⟨y, hy, rfl⟩ := hx
        have : a ≠ y := fun e => hn.1 (e ▸ hy)
        simp [this]
      simp [this]
    · have hne : a ≠ b := fun e => hn.1 (e ▸ hmem)
      simp [hne, ih hn.2 hmem]

theorem sum_ite_eq_zero_of_not_mem {β : Type} [DecidableEq β] (U : List β) (a : β) (c : α) (ha : a ∉ U) :
    (U.map (fun y => if a = y then c else 0)).sum = 0 := by
  apply List.sum_eq_zero
  intro x hx
  rw [List.mem_map] at hx
  obtain ⟨y, hy, rfl⟩ := hx
  have : a ≠ y := fun e => ha (e ▸ hy)
  simp [this]

end sums

theorem sumIJ_congr {α : Type} [AddCommMonoid α] (I J : Nat) (f g : Nat → Nat → α)
    (h : ∀ i j, i < I → j < J → f i j = g i j) : sumIJ I J f = sumIJ I J g := by
  unfold sumIJ
  apply sumR_congr; intro i hi; apply sumR_congr; intro j hj; exact h i j hi hj

theorem sum3_congr {α : Type} [AddCommMonoid α] (T I J : Nat) (f g : Nat → Nat → Nat → α)
    (h : ∀ t i j, t < T → i < I → j < J → f t i j = g t i j) : sum3 T I J f = sum3 T I J g := by
  unfold sum3
  apply sumR_congr; intro t ht; apply sumIJ_congr; intro i j hi hj; exact h t i j ht hi hj

/-- the time axis can be summed last -/
theorem sum3_time_inner {α : Type} [AddCommMonoid α] (T I J : Nat) (f : Nat → Nat → Nat → α) :
    sum3 T I J f = sumIJ I J (fun i j => sumR T (fun t => f t i j)) := by
  unfold sum3 sumIJ
  rw [sumR_comm]
  apply sumR_congr; intro i _
  rw [sumR_comm]

/-! ### `np.unique` -/

theorem mem_uniq (l : List Int) (a : Int) : a ∈ uniq l ↔ a ∈ l := by
  induction l with
  | nil => simp [uniq]
  | cons b t ih =>
    unfold uniq
    by_cases hb : t.contains b = true
    · simp only [hb, if_true, ih, List.mem_cons]
      rw [List.contains_iff_mem] at hb
      constructor
      · intro h; exact Or.inr h
      · rintro (rfl | h)
        · exact hb
        · exact h
    · rw [if_neg hb, List.mem_cons, List.mem_cons, ih]

theorem nodup_uniq (l : List Int) : (uniq l).Nodup := by
  induction l with
  | nil => simp [uniq]
  | cons b t ih =>
    unfold uniq
    by_cases hb : t.contains b = true
    · rw [if_pos hb]; exact ih
    · rw [if_neg hb, List.nodup_cons]
      refine ⟨?_, ih⟩
      rw [mem_uniq]
      intro h
      exact hb (List.contains_iff_mem.mpr h)

theorem mem_unique (l : List Int) (a : Int) : a ∈ unique l ↔ a ∈ l := by
  unfold unique
  rw [(List.mergeSort_perm _ _).mem_iff, mem_uniq]

theorem nodup_unique (l : List Int) : (unique l).Nodup := by
  unfold unique
  rw [(List.mergeSort_perm _ _).nodup_iff]
  exact nodup_uniq l

theorem sorted_unique (l : List Int) : (unique l).Pairwise (fun a b => a ≤ b) := by
  unfold unique
  have := List.pairwise_mergeSort (le := fun (a b : Int) => decide (a ≤ b))
    (fun a b c hab hbc => by simp only [decide_eq_true_eq] at *; omega)
    (fun a b => by simp only [Bool.or_eq_true, decide_eq_true_eq]; omega) (uniq l)
  simpa using this

/-! ### splitting a time sum by years -/

theorem sumYear_eq {α : Type} [AddCommMonoid α] (yr : Nat → Int) (T : Nat) (y : Int) (f : Nat → α) :
    sumYear yr T y f = sumR T (fun t => if yr t = y then f t else 0) := by
  unfold sumYear
  rw [sum_filter_range]
  apply sumR_congr; intro t _; simp

/-- **years partition the time axis**: for any duplicate-free list of years that contains the year of every time
    step, the per-year sums add up to the sum over all time steps (any number of years ≥ 1, any order of time). -/
theorem sum_years {α : Type} [AddCommMonoid α] (U : List Int) (yr : Nat → Int) (T : Nat) (f : Nat → α)
    (hn : U.Nodup) (hm : ∀ t, t < T → yr t ∈ U) :
    (U.map (fun y => sumYear yr T y f)).sum = sumR T f := by
  have : (U.map (fun y => sumYear yr T y f)).sum = (U.map (fun y => sumR T (fun t => if yr t = y then f t else 0))).sum := by
    congr 1; apply List.map_congr_left; intro y _; exact sumYear_eq yr T y f
  rw [this, listSum_sumR_comm]
  apply sumR_congr; intro t ht
  exact sum_ite_eq_of_nodup U (yr t) (f t) hn (hm t ht)

theorem yr_mem_unique (yr : Nat → Int) (T t : Nat) (ht : t < T) : yr t ∈ unique (yearList yr T) := by
  rw [mem_unique]; unfold yearList
  exact List.mem_map.mpr ⟨t, List.mem_range.mpr ht, rfl⟩

/-! ### run lengths: the `diff / where / [::2]` trick is the run-length encoder of the `True`-runs -/

/-- transitions of a Boolean series whose predecessor is `prev` -/
def transFrom (prev : Bool) : List Bool → List Bool
  | [] => []
  | b :: t => (prev != b) :: transFrom b t

theorem changes_cons (a : Bool) (t : List Bool) : changes (a :: t) = transFrom a t := by
  induction t generalizing a with
  | nil => rfl
  | cons b t ih => simp only [changes, transFrom, ih]

theorem whereFrom_snoc_ne_nil (k : Int) (l : List Bool) : whereFrom k (l ++ [true]) ≠ [] := by
  induction l generalizing k with
  | nil => simp [whereFrom]
  | cons b t ih =>
    simp only [List.cons_append, whereFrom]
    split
    · simp
    · exact ih (k + 1)

theorem everyOther_diff_cons2 (s k : Int) (Q : List Int) (hQ : Q ≠ []) :
    everyOther (diff (s :: k :: Q)) = (k - s) :: everyOther (diff Q) := by
  cases Q with
  | nil => exact absurd rfl hQ
  | cons q Q' => simp only [diff, everyOther]

/-- the invariant of the scan: outside a run (`prev = false`) and inside a run that started at position `s` -/
theorem spell_scan (l : List Bool) : ∀ k : Int,
    everyOther (diff (whereFrom k (transFrom false l ++ [true]))) = (rleAux 0 l).map (fun (n : Nat) => (n : Int)) ∧
    ∀ (s : Int) (c : Nat), 0 < c → k - s = c →
      everyOther (diff (s :: whereFrom k (transFrom true l ++ [true]))) = (rleAux c l).map (fun (n : Nat) => (n : Int)) := by
  induction l with
  | nil =>
    intro k
    refine ⟨by simp [transFrom, whereFrom, diff, everyOther, rleAux], ?_⟩
    intro s c hc hk
    have : c ≠ 0 := by omega
    simp [transFrom, whereFrom, diff, everyOther, rleAux, this, hk]
  | cons b t ih =>
    intro k
    obtain ⟨ihA, ihB⟩ := ih (k + 1)
    cases b with
    | false =>
      refine ⟨?_, ?_⟩
      · simp only [transFrom, bne_self_eq_false, List.cons_append, whereFrom, Bool.false_eq_true, if_false, rleAux, if_true]
        exact ihA
      · intro s c hc hk
        have hc0 : c ≠ 0 := by omega
        simp only [transFrom, Bool.true_bne, Bool.not_false, List.cons_append, whereFrom, if_true, rleAux, hc0, if_false,
          List.map_cons]
        rw [everyOther_diff_cons2 _ _ _ (whereFrom_snoc_ne_nil _ _), ihA, hk]
    | true =>
      refine ⟨?_, ?_⟩
      · simp only [transFrom, Bool.false_bne, List.cons_append, whereFrom, if_true, rleAux]
        exact ihB k 1 (by omega) (by omega)
      · intro s c hc hk
        simp only [transFrom, bne_self_eq_false, List.cons_append, whereFrom, Bool.false_eq_true, if_false, rleAux]
        exact ihB s (c + 1) (by omega) (by push_cast; omega)

theorem rleAux_sum (l : List Bool) : ∀ c : Nat, (rleAux c l).sum = c + l.count true := by
  induction l with
  | nil => intro c; by_cases hc : c = 0 <;> simp [rleAux, hc]
  | cons b t ih =>
    intro c
    cases b with
    | false =>
      by_cases hc : c = 0
      · simp [rleAux, hc, ih]
      · simp [rleAux, hc, ih]
    | true => simp [rleAux, ih]; omega

theorem rleAux_pos (l : List Bool) : ∀ c : Nat, ∀ n ∈ rleAux c l, 0 < n := by
  induction l with
  | nil => intro c n hn; by_cases hc : c = 0 <;> simp [rleAux, hc] at hn; omega
  | cons b t ih =>
    intro c n hn
    cases b with
    | false =>
      by_cases hc : c = 0
      · simp only [rleAux, hc, if_true] at hn; exact ih 0 n hn
      · simp only [rleAux, hc, if_false, List.mem_cons] at hn
        rcases hn with rfl | hn
        · omega
        · exact ih 0 n hn
    | true => simp only [rleAux] at hn; exact ih _ n hn

/-! ### maxima over ranges, labels -/

theorem maxR_succ (n : Nat) (f : Nat → Nat) : maxR (n + 1) f = max (maxR n f) (f n) := by
  simp [maxR, List.range_succ, List.foldl_append]

theorem le_maxR (n : Nat) (f : Nat → Nat) (k : Nat) (hk : k < n) : f k ≤ maxR n f := by
  induction n with
  | zero => omega
  | succ n ih =>
    rw [maxR_succ]
    by_cases h : k < n
    · exact le_trans (ih h) (le_max_left _ _)
    · have : k = n := by omega
      subst this; exact le_max_right _ _

theorem maxR_le (n : Nat) (f : Nat → Nat) (b : Nat) (h : ∀ k, k < n → f k ≤ b) : maxR n f ≤ b := by
  induction n with
  | zero => simp [maxR]
  | succ n ih =>
    rw [maxR_succ]
    exact max_le (ih (fun k hk => h k (by omega))) (h n (by omega))

theorem maxLabel_eq (m : Mask) (lab : Nat → Nat → Nat → Nat) (T I J k : Nat) (law : LabelLaw m lab T I J k) :
    maxLabel lab T I J = k := by
  apply le_antisymm
  · unfold maxLabel
    apply maxR_le; intro t ht; apply maxR_le; intro i hi; apply maxR_le; intro j hj
    exact law.le_k t i j ht hi hj
  · by_cases hk : k = 0
    · omega
    · obtain ⟨t, i, j, ht, hi, hj, hl⟩ := law.nonempty k (by omega) (le_refl _)
      unfold maxLabel
      rw [← hl]
      refine le_trans ?_ (le_maxR T _ t ht)
      refine le_trans ?_ (le_maxR I _ i hi)
      exact le_maxR J (fun j => lab t i j) j hj

theorem single_le_sumR (n : Nat) (f : Nat → Nat) (k : Nat) (hk : k < n) : f k ≤ sumR n f := by
  induction n with
  | zero => omega
  | succ n ih =>
    rw [sumR_succ]
    by_cases h : k < n
    · have := ih h; omega
    · have : k = n := by omega
      subst this; omega

theorem single_le_sum3 (T I J : Nat) (f : Nat → Nat → Nat → Nat) (t i j : Nat) (ht : t < T) (hi : i < I) (hj : j < J) :
    f t i j ≤ sum3 T I J f := by
  unfold sum3 sumIJ
  refine le_trans ?_ (single_le_sumR T _ t ht)
  refine le_trans ?_ (single_le_sumR I _ i hi)
  exact single_le_sumR J (fun j => f t i j) j hj

theorem sumR_ite_succ (k a c : Nat) :
    sumR k (fun l => if a = l + 1 then c else 0) = if 1 ≤ a ∧ a ≤ k then c else 0 := by
  induction k with
  | zero =>
    have : ¬ (1 ≤ a ∧ a ≤ 0) := by omega
    rw [if_neg this, sumR_zero]
  | succ k ih =>
    rw [sumR_succ, ih]
    split_ifs <;> omega

/-- a range sum and the sum over the whole array commute -/
theorem sumR_sum3_comm {α : Type} [AddCommMonoid α] (k T I J : Nat) (g : Nat → Nat → Nat → Nat → α) :
    sumR k (fun l => sum3 T I J (g l)) = sum3 T I J (fun t i j => sumR k (fun l => g l t i j)) := by
  unfold sum3 sumIJ
  rw [sumR_comm]
  apply sumR_congr; intro t _
  rw [sumR_comm]
  apply sumR_congr; intro i _
  rw [sumR_comm]

/-! ### how many sample values lie beyond a linear-interpolation quantile -/

open Model.Stats in
theorem sortQ_perm (x : List Rat) : (sortQ x).Perm x := List.mergeSort_perm _ _

open Model.Stats in
theorem sortQ_length (x : List Rat) : (sortQ x).length = x.length := (sortQ_perm x).length_eq

open Model.Stats in
theorem sortQ_sorted (x : List Rat) : (sortQ x).Pairwise (fun a b => a ≤ b) := by
  have := List.pairwise_mergeSort (le := fun (a b : Rat) => decide (a ≤ b))
    (fun a b c hab hbc => by simp only [decide_eq_true_eq] at *; exact le_trans hab hbc)
    (fun a b => by simp only [Bool.or_eq_true, decide_eq_true_eq]; exact le_total a b) x
  simpa [sortQ] using this

open Model.Stats in
theorem sortQ_strict (x : List Rat) (hn : x.Nodup) : (sortQ x).Pairwise (fun a b => a < b) := by
  have h1 := sortQ_sorted x
  have h2 : (sortQ x).Pairwise (fun a b => a ≠ b) := (sortQ_perm x).nodup_iff.mpr hn
  exact (h1.and h2).imp (fun ⟨a, b⟩ => lt_of_le_of_ne a b)

theorem strict_getElem_le (s : List Rat) (hs : s.Pairwise (fun a b => a < b)) (a b : Nat) (ha : a < s.length)
    (hb : b < s.length) (hab : a ≤ b) : s[a] ≤ s[b] := by
  by_cases h : a = b
  · subst h; exact le_refl _
  · exact le_of_lt (List.pairwise_iff_getElem.mp hs a b ha hb (by omega))

/-- a predicate that is false on the first `g` positions and true afterwards keeps `length − g` elements -/
theorem count_false_then_true (s : List Rat) (p : Rat → Bool) (g : Nat) (hg : g ≤ s.length)
    (hlo : ∀ a (h : a < s.length), a < g → p s[a] = false)
    (hhi : ∀ a (h : a < s.length), g ≤ a → p s[a] = true) : (s.filter p).length = s.length - g := by
  have A : (s.take g).filter p = [] := by
    rw [List.filter_eq_nil_iff]
    intro v hv
    obtain ⟨a, ha, rfl⟩ := List.mem_iff_getElem.mp hv
    rw [List.length_take] at ha
    rw [List.getElem_take, hlo a (by omega) (by omega)]; simp
  have B : (s.drop g).filter p = s.drop g := by
    rw [List.filter_eq_self]
    intro v hv
    obtain ⟨a, ha, rfl⟩ := List.mem_iff_getElem.mp hv
    rw [List.length_drop] at ha
    rw [List.getElem_drop, hhi (g + a) (by omega) (by omega)]
  calc (s.filter p).length = ((s.take g ++ s.drop g).filter p).length := by rw [List.take_append_drop]
    _ = s.length - g := by rw [List.filter_append, A, B, List.nil_append, List.length_drop]

/-- a predicate that is true on the first `g` positions and false afterwards keeps `g` elements -/
theorem count_true_then_false (s : List Rat) (p : Rat → Bool) (g : Nat) (hg : g ≤ s.length)
    (hlo : ∀ a (h : a < s.length), a < g → p s[a] = true)
    (hhi : ∀ a (h : a < s.length), g ≤ a → p s[a] = false) : (s.filter p).length = g := by
  have A : (s.take g).filter p = s.take g := by
    rw [List.filter_eq_self]
    intro v hv
    obtain ⟨a, ha, rfl⟩ := List.mem_iff_getElem.mp hv
    rw [List.length_take] at ha
    rw [List.getElem_take, hlo a (by omega) (by omega)]
  have B : (s.drop g).filter p = [] := by
    rw [List.filter_eq_nil_iff]
    intro v hv
    obtain ⟨a, ha, rfl⟩ := List.mem_iff_getElem.mp hv
    rw [List.length_drop] at ha
    rw [List.getElem_drop, hhi (g + a) (by omega) (by omega)]; simp
  calc (s.filter p).length = ((s.take g ++ s.drop g).filter p).length := by rw [List.take_append_drop]
    _ = g := by rw [List.filter_append, A, B, List.append_nil, List.length_take]; omega

theorem floor_le' (q : Rat) : (q.floor : Rat) ≤ q := Rat.le_floor_iff.mp (le_refl _)

theorem lt_floor_add_one' (q : Rat) : q < (q.floor : Rat) + 1 := by
  have h : q.floor < q.floor + 1 := by omega
  have := Rat.floor_lt_iff.mp h
  push_cast at this; exact this

open Model.Stats in
/-- where the `linear` quantile sits in a strictly increasing sample:
    either it is the maximum (`q (n−1) = n−1`), or it lies in `[s[f], s[f+1])` with `f = ⌊(n−1) q⌋` and
    equals `s[f]` iff `(n−1) q` is an integer -/
theorem quantileLinear_bracket (s : List Rat) (hs : s.Pairwise (fun a b => a < b)) (hne : s ≠ []) (q : Rat)
    (hq0 : 0 ≤ q) (hq1 : q ≤ 1) :
    let vi := ((s.length : Rat) - 1) * q
    ∃ f : Nat, (f : Int) = vi.floor ∧ ∃ hf : f < s.length, s[f] ≤ quantileLinear s q ∧
      (s[f] = quantileLinear s q ↔ vi = (f : Rat)) ∧ (∀ h : f + 1 < s.length, quantileLinear s q < s[f + 1]) := by
  intro vi
  have hlen : 0 < s.length := List.length_pos_iff.mpr hne
  have hn1 : (0 : Rat) ≤ (s.length : Rat) - 1 := by
    have : (1 : Rat) ≤ (s.length : Rat) := by exact_mod_cast hlen
    linarith
  have hvi0 : 0 ≤ vi := mul_nonneg hn1 hq0
  have hvi1 : vi ≤ (s.length : Rat) - 1 := by
    have := mul_le_mul_of_nonneg_left hq1 hn1
    simpa using this
  have hfl0 : 0 ≤ vi.floor := Rat.le_floor_iff.mpr (by simpa using hvi0)
  have hfl := floor_le' vi
  have hfu := lt_floor_add_one' vi
  refine ⟨vi.floor.toNat, by omega, ?_⟩
  have hcast : ((vi.floor.toNat : Nat) : Rat) = (vi.floor : Rat) := by
    have : ((vi.floor.toNat : Nat) : Int) = vi.floor := by omega
    exact_mod_cast congrArg (fun z : Int => (z : Rat)) this
  by_cases htop : vi ≥ (s.length : Rat) - 1
  · -- the maximum
    have hvi : vi = (s.length : Rat) - 1 := le_antisymm hvi1 htop
    have hfloor : vi.floor = (s.length : Int) - 1 := by
      have a : (s.length : Int) - 1 ≤ vi.floor := Rat.le_floor_iff.mpr (by rw [hvi]; push_cast; exact le_refl _)
      have b : vi.floor < (s.length : Int) - 1 + 1 := Rat.floor_lt_iff.mpr (by rw [hvi]; push_cast; linarith)
      omega
    have hidx : vi.floor.toNat = s.length - 1 := by omega
    have hf : vi.floor.toNat < s.length := by omega
    have hQ : quantileLinear s q = s[vi.floor.toNat] := by
      unfold quantileLinear pyIdx
      simp only [show ((s.length : Rat) - 1) * q = vi from rfl, htop, if_true]
      simp only [show ((-1 : Int) < 0) from by omega, if_true, hidx]
      rw [List.getD_eq_getElem?_getD, List.getElem?_eq_getElem (by omega)]
      simp
    refine ⟨hf, by rw [hQ], ?_, ?_⟩
    · rw [hQ]; simp only [true_iff]; rw [hcast, hfloor, hvi]; push_cast; ring
    · intro h; omega
  · -- an interior position
    have htop' : vi < (s.length : Rat) - 1 := lt_of_not_ge htop
    have hflt : vi.floor < (s.length : Int) - 1 := Rat.floor_lt_iff.mpr (by push_cast; exact htop')
    have hf1 : vi.floor.toNat + 1 < s.length := by omega
    have hf : vi.floor.toNat < s.length := by omega
    have hQ : quantileLinear s q =
        s[vi.floor.toNat] + (s[vi.floor.toNat + 1] - s[vi.floor.toNat]) * (vi - (vi.floor : Rat)) := by
      unfold quantileLinear pyIdx lerp
      simp only [show ((s.length : Rat) - 1) * q = vi from rfl, htop, if_false, not_lt.mpr hvi0]
      have e1 : ¬ (vi.floor < 0) := by omega
      have e2 : ¬ (vi.floor + 1 < 0) := by omega
      have e3 : (vi.floor + 1).toNat = vi.floor.toNat + 1 := by omega
      simp only [e1, e2, if_false, e3]
      rw [List.getD_eq_getElem?_getD, List.getD_eq_getElem?_getD, List.getElem?_eq_getElem hf,
        List.getElem?_eq_getElem hf1]
      simp
    have hlt : s[vi.floor.toNat] < s[vi.floor.toNat + 1] :=
      List.pairwise_iff_getElem.mp hs _ _ hf hf1 (by omega)
    have hfr0 : 0 ≤ vi - (vi.floor : Rat) := by linarith
    have hfr1 : vi - (vi.floor : Rat) < 1 := by linarith
    refine ⟨hf, ?_, ?_, ?_⟩
    · rw [hQ]; nlinarith
    · rw [hQ, hcast]
      constructor
      · intro h
        have : (s[vi.floor.toNat + 1] - s[vi.floor.toNat]) * (vi - (vi.floor : Rat)) = 0 := by linarith
        rcases mul_eq_zero.mp this with h0 | h0
        · linarith
        · linarith
      · intro h
        have h0 : vi - (vi.floor : Rat) = 0 := by linarith
        rw [h0]; ring
    · intro _; rw [hQ]; nlinarith

theorem cast_list_sum (l : List Nat) : (l.map (fun (n : Nat) => (n : Int))).sum = ((l.sum : Nat) : Int) := by
  induction l with
  | nil => simp
  | cons a t ih => simp only [List.map_cons, List.sum_cons, ih, Nat.cast_add]

/-! ### further helpers used by `Props/C19` -/

theorem cast_sumR (n : Nat) (f : Nat → Nat) : ((sumR n f : Nat) : Rat) = sumR n (fun k => ((f k : Nat) : Rat)) := by
  induction n with
  | zero => simp
  | succ n ih => rw [sumR_succ, sumR_succ, Nat.cast_add, ih]

theorem cast_sumR_int (n : Nat) (f : Nat → Nat) : ((sumR n f : Nat) : Int) = sumR n (fun k => ((f k : Nat) : Int)) := by
  induction n with
  | zero => simp
  | succ n ih => rw [sumR_succ, sumR_succ, Nat.cast_add, ih]

theorem inst_le_one (m : Mask) (t i j : Nat) : inst m t i j ≤ 1 := by
  unfold inst; split <;> omega

theorem sumR_le (n : Nat) (f : Nat → Nat) (h : ∀ k, k < n → f k ≤ 1) : sumR n f ≤ n := by
  induction n with
  | zero => simp
  | succ n ih =>
    rw [sumR_succ]
    have := ih (fun k hk => h k (by omega))
    have := h n (by omega)
    omega

theorem total_eq_sum_countAt (m : Mask) (T I J : Nat) : total m T I J = sumIJ I J (fun i j => countAt m T i j) := by
  unfold total countAt
  exact sum3_time_inner T I J (inst m)

theorem listSum_sumIJ_comm {β : Type} (U : List β) (I J : Nat) (g : β → Nat → Nat → Nat) :
    (U.map (fun y => sumIJ I J (g y))).sum = sumIJ I J (fun i j => (U.map (fun y => g y i j)).sum) := by
  unfold sumIJ
  rw [listSum_sumR_comm]
  apply sumR_congr; intro i _
  rw [listSum_sumR_comm]

theorem mapM_some {α β : Type} (l : List α) (g : α → β) : l.mapM (fun c => some (g c)) = some (l.map g) := by
  induction l with
  | nil => rfl
  | cons a t ih => simp [List.mapM_cons, ih]

theorem sum_cells {α : Type} [AddCommMonoid α] (I J : Nat) (f : Nat × Nat → α) :
    ((cells I J).map f).sum = sumIJ I J (fun i j => f (i, j)) := by
  unfold cells sumIJ
  induction I with
  | zero => simp
  | succ I ih =>
    rw [List.range_succ, List.flatMap_append, List.map_append, List.sum_append, ih, sumR_succ]
    simp [sumR, Function.comp_def]

theorem column_count (m : Mask) (T i j : Nat) : (column m T i j).count true = countAt m T i j := by
  unfold column countAt
  induction T with
  | zero => simp
  | succ T ih =>
    rw [List.range_succ, List.map_append, List.count_append, ih, sumR_succ]
    cases h : m T i j <;> simp [inst, h]

theorem column_ne_nil (m : Mask) (T i j : Nat) (hT : 0 < T) : column m T i j ≠ [] := by
  unfold column
  intro h
  have := congrArg List.length h
  simp at this; omega

theorem filter_ne_zero_sum (l : List Rat) : (l.filter (fun e => decide (e ≠ 0))).sum = l.sum := by
  induction l with
  | nil => rfl
  | cons a t ih =>
    by_cases h : a = 0
    · rw [List.filter_cons_of_neg (by simp [h]), ih, List.sum_cons, h, zero_add]
    · rw [List.filter_cons_of_pos (by simp [h]), List.sum_cons, List.sum_cons, ih]

theorem sumR_mul_right (n : Nat) (f : Nat → Rat) (c : Rat) : sumR n f * c = sumR n (fun k => f k * c) := by
  induction n with
  | zero => simp
  | succ n ih => rw [sumR_succ, sumR_succ, add_mul, ih]

theorem sumR_nonneg (n : Nat) (f : Nat → Rat) (h : ∀ k, k < n → 0 ≤ f k) : 0 ≤ sumR n f := by
  induction n with
  | zero => simp
  | succ n ih =>
    rw [sumR_succ]
    have := ih (fun k hk => h k (by omega))
    have := h n (by omega)
    linarith

theorem sumR_mono (n : Nat) (f g : Nat → Rat) (h : ∀ k, k < n → f k ≤ g k) : sumR n f ≤ sumR n g := by
  induction n with
  | zero => simp
  | succ n ih =>
    rw [sumR_succ, sumR_succ]
    have := ih (fun k hk => h k (by omega))
    have := h n (by omega)
    linarith

theorem count_map_range (n : Nat) (f : Nat → Rat) (p : Rat → Bool) :
    (((List.range n).map f).filter p).length = sumR n (fun k => if p (f k) then 1 else 0) := by
  induction n with
  | zero => simp
  | succ n ih =>
    rw [List.range_succ, List.map_append, List.filter_append, List.length_append, ih, sumR_succ]
    cases h : p (f n) <;> simp [h]

theorem count_flatMap_range (n : Nat) (g : Nat → List Rat) (p : Rat → Bool) :
    (((List.range n).flatMap g).filter p).length = sumR n (fun k => ((g k).filter p).length) := by
  induction n with
  | zero => simp
  | succ n ih =>
    rw [List.range_succ, List.flatMap_append, List.filter_append, List.length_append, ih, sumR_succ]
    simp

/-- counting in the flattened array = counting over the grid -/
theorem flat_count (x : Data) (T I J : Nat) (p : Rat → Bool) :
    ((flat x (List.range T) I J).filter p).length = sum3 T I J (fun t i j => if p (x t i j) then 1 else 0) := by
  unfold flat sum3 sumIJ
  rw [count_flatMap_range]
  apply sumR_congr; intro t _
  rw [count_flatMap_range]
  apply sumR_congr; intro i _
  exact count_map_range J (fun j => x t i j) p

/-! ### storage order: sums over the time axis do not depend on it -/

theorem map_reindex {α : Type} (perm : List Nat) (g : Nat → α) :
    (List.range perm.length).map (reindex perm g) = perm.map g := by
  apply List.ext_getElem
  · simp
  · intro k h1 h2
    simp only [List.length_map, List.length_range] at h1
    simp [reindex, List.getD_eq_getElem?_getD, List.getElem?_eq_getElem h1]

theorem perm_length {perm : List Nat} {T : Nat} (hp : perm.Perm (List.range T)) : perm.length = T := by
  rw [hp.length_eq, List.length_range]

/-- a sum over the time axis is the same in every storage order -/
theorem sumR_reindex {α : Type} [AddCommMonoid α] (perm : List Nat) (T : Nat) (hp : perm.Perm (List.range T))
    (g : Nat → α) : sumR T (reindex perm g) = sumR T g := by
  unfold sumR
  have h := map_reindex perm g
  rw [perm_length hp] at h
  rw [h]
  exact (hp.map g).sum_eq

theorem perm_lt {perm : List Nat} {T : Nat} (hp : perm.Perm (List.range T)) (t : Nat) (ht : t < T) :
    perm.getD t 0 < T := by
  have hl := perm_length hp
  have : perm.getD t 0 ∈ perm := by
    rw [List.getD_eq_getElem?_getD, List.getElem?_eq_getElem (by omega)]
    exact List.getElem_mem _
  exact List.mem_range.mp (hp.mem_iff.mp this)

theorem sumYear_reindex {α : Type} [AddCommMonoid α] (perm : List Nat) (T : Nat) (hp : perm.Perm (List.range T))
    (yr : Nat → Int) (y : Int) (f : Nat → α) :
    sumYear (reindex perm yr) T y (reindex perm f) = sumYear yr T y f := by
  rw [sumYear_eq, sumYear_eq]
  exact sumR_reindex perm T hp (fun t => if yr t = y then f t else 0)

theorem unique_perm (l1 l2 : List Int) (h : l1.Perm l2) : unique l1 = unique l2 := by
  have hperm : (unique l1).Perm (unique l2) := by
    rw [List.perm_ext_iff_of_nodup (nodup_unique l1) (nodup_unique l2)]
    intro a
    rw [mem_unique, mem_unique, h.mem_iff]
  exact hperm.eq_of_pairwise (fun a b _ _ hab hba => Int.le_antisymm hab hba) (sorted_unique l1) (sorted_unique l2)

theorem unique_years_reindex (perm : List Nat) (T : Nat) (hp : perm.Perm (List.range T)) (yr : Nat → Int) :
    unique (yearList (reindex perm yr) T) = unique (yearList yr T) := by
  apply unique_perm
  unfold yearList
  have h := map_reindex perm yr
  rw [perm_length hp] at h
  rw [h]
  exact hp.map yr

/-! ### counting through positions in the sorted sample -/

theorem count_index_pred (s : List Rat) (p : Rat → Bool) : ∀ (q : Nat → Bool),
    (∀ k (hk : k < s.length), p s[k] = q k) → (s.filter p).length = ((List.range s.length).filter q).length := by
  induction s with
  | nil => intro q _; simp
  | cons a t ih =>
    intro q h
    have h0 : p a = q 0 := h 0 (by simp)
    have ht := ih (fun k => q (k + 1)) (fun k hk => by
      have := h (k + 1) (by simp; omega)
      simpa using this)
    rw [List.length_cons, List.range_succ_eq_map, List.filter_cons, List.filter_cons, List.filter_map, h0]
    cases q 0 <;> simp [ht, Function.comp_def]

theorem count_range_window (n a b : Nat) :
    ((List.range n).filter (fun k => decide (a ≤ k ∧ k < b))).length = min b n - a := by
  induction n with
  | zero => simp
  | succ n ih =>
    rw [List.range_succ, List.filter_append, List.length_append, ih]
    by_cases h : a ≤ n ∧ n < b
    · simp [h]; omega
    · simp [h]; omega

theorem count_range_outside (n g f : Nat) (h : g ≤ f + 1) :
    ((List.range n).filter (fun k => decide (k < g ∨ f + 1 ≤ k))).length = min g n + (n - (f + 1)) := by
  induction n with
  | zero => simp
  | succ n ih =>
    rw [List.range_succ, List.filter_append, List.length_append, ih]
    by_cases h' : n < g ∨ f + 1 ≤ n
    · simp [h']; omega
    · simp [h']; omega

open Model.Stats in
/-- positions relative to the `linear` quantile in a strictly increasing sample: with `f = ⌊(n−1) q⌋`,
    `s[k] > Q ↔ k ≥ f + 1` and `s[k] < Q ↔ k < g`, `g = f` if `(n−1) q` is an integer and `f + 1` otherwise -/
theorem quantile_index (s : List Rat) (hs : s.Pairwise (fun a b => a < b)) (hne : s ≠ []) (q : Rat)
    (hq0 : 0 ≤ q) (hq1 : q ≤ 1) :
    let vi := ((s.length : Rat) - 1) * q
    ∃ f g : Nat, (f : Int) = vi.floor ∧ f < s.length ∧ g = (if (vi.floor : Rat) = vi then f else f + 1) ∧
      (∀ k (hk : k < s.length), decide (s[k] > quantileLinear s q) = decide (f + 1 ≤ k)) ∧
      (∀ k (hk : k < s.length), decide (s[k] < quantileLinear s q) = decide (k < g)) := by
  intro vi
  obtain ⟨f, hf, hlt, hlo, heq, hhi⟩ := quantileLinear_bracket s hs hne q hq0 hq1
  have hfr : ((f : Nat) : Rat) = (vi.floor : Rat) := by
    have := congrArg (fun z : Int => (z : Rat)) hf
    simpa using this
  refine ⟨f, _, hf, hlt, rfl, ?_, ?_⟩
  · intro k hk
    rw [decide_eq_decide]
    constructor
    · intro hgt
      by_contra hc
      have := strict_getElem_le s hs k f hk hlt (by omega)
      linarith
    · intro hge
      have h1 := hhi (by omega)
      have := strict_getElem_le s hs (f + 1) k (by omega) hk hge
      linarith
  · intro k hk
    rw [decide_eq_decide]
    by_cases hint : (vi.floor : Rat) = vi
    · have hQ : s[f] = quantileLinear s q := heq.mpr (by rw [hfr]; exact hint.symm)
      rw [if_pos hint, ← hQ]
      constructor
      · intro hl
        by_contra hc
        have := strict_getElem_le s hs f k hlt hk (by omega)
        linarith
      · intro hkf
        exact List.pairwise_iff_getElem.mp hs k f hk hlt hkf
    · have hQ : s[f] ≠ quantileLinear s q := fun h => hint (by rw [← hfr]; exact (heq.mp h).symm)
      have hQlt : s[f] < quantileLinear s q := lt_of_le_of_ne hlo hQ
      rw [if_neg hint]
      constructor
      · intro hl
        by_contra hc
        have h1 := hhi (by omega)
        have := strict_getElem_le s hs (f + 1) k (by omega) hk (by omega)
        linarith
      · intro hkf
        have := strict_getElem_le s hs k f hk hlt (by omega)
        linarith

theorem floor_mono (a b : Rat) (h : a ≤ b) : a.floor ≤ b.floor :=
  Rat.le_floor_iff.mpr (le_trans (floor_le' a) h)

theorem sumR_mono_nat (n : Nat) (f g : Nat → Nat) (h : ∀ k, k < n → f k ≤ g k) : sumR n f ≤ sumR n g := by
  induction n with
  | zero => simp
  | succ n ih =>
    rw [sumR_succ, sumR_succ]
    have := ih (fun k hk => h k (by omega))
    have := h n (by omega)
    omega

theorem sumR_const_nat (n c : Nat) : sumR n (fun _ => c) = n * c := by
  induction n with
  | zero => simp
  | succ n ih => rw [sumR_succ, ih]; ring

theorem count_flatMap_list (ts : List Nat) (g : Nat → List Rat) (p : Rat → Bool) :
    ((ts.flatMap g).filter p).length = (ts.map (fun t => ((g t).filter p).length)).sum := by
  induction ts with
  | nil => simp
  | cons a t ih => simp [List.flatMap_cons, List.filter_append, ih]

theorem flat_count_list (x : Data) (ts : List Nat) (I J : Nat) (p : Rat → Bool) :
    ((flat x ts I J).filter p).length = (ts.map (fun t => sumIJ I J (fun i j => if p (x t i j) then 1 else 0))).sum := by
  unfold flat
  rw [count_flatMap_list]
  congr 1
  apply List.map_congr_left
  intro t _
  unfold sumIJ
  rw [count_flatMap_range]
  apply sumR_congr; intro i _
  exact count_map_range J (fun j => x t i j) p

end Lemmas.Metrics
