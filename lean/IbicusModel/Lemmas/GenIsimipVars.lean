/-
  Tier A (C10): the settings dictionaries regenerated from `ibicus/debias/_isimip_options.py` give exactly the
  configurations of `Model.IsimipVars.boundedVariables`, and no other variable of the dictionary is bounded.
-/
import IbicusModel.Gen.IsimipVars
import IbicusModel.Model.IsimipVars

namespace Lemmas.GenIsimipVars
open Model.Isimip Model.IsimipVars

deriving instance DecidableEq for Model.Isimip.Cfg

/-- the configuration `ISIMIP.from_variable(name)` runs with, from the regenerated dictionaries -/
def genCfg (name : String) : Option Cfg :=
  (lookupVar Gen.IsimipVars.variables name).bind (fun v => toCfg (merge Gen.IsimipVars.general v))
where lookupVar (t : List (String × List (String × Val))) (k : String) : Option (List (String × Val)) :=
  (t.find? (fun p => p.1 == k)).map (·.2)

/-- **Gen = Model**: every bounded variable of the model table has, in the code's dictionaries, exactly its `Cfg` -/
theorem bounded_variables_eq : ∀ r ∈ boundedVariables, genCfg r.1 = some r.2 := by decide +kernel

/-- … and the table is complete: every variable of the code's dictionary that has a bound or a threshold is in it -/
theorem bounded_variables_complete :
    ∀ v ∈ Gen.IsimipVars.variables, (∃ c, genCfg v.1 = some c ∧ (c.hasBound || c.hasThreshold) = true) →
      v.1 ∈ boundedVariables.map (·.1) := by
  intro v hv
  have key : ∀ v ∈ Gen.IsimipVars.variables,
      (match genCfg v.1 with | some c => (c.hasBound || c.hasThreshold) | none => false) = true →
        (boundedVariables.map (·.1)).contains v.1 = true := by decide +kernel
  rintro ⟨c, hc, hb⟩
  have := key v hv (by rw [hc]; exact hb)
  simpa using this

end Lemmas.GenIsimipVars
