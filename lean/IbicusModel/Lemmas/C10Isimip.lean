/-
  C10 helpers, part 2 (ISIMIP): what step 5 (bounded trend transfer) and step 6 (bound assignment + quantile
  mapping of the remaining entries) of `Model.Isimip` can write.
-/
import IbicusModel.Lemmas.C10

namespace Lemmas.C10
open Model.Isimip Model.Stats Model.IsimipFreq Lemmas.Stats

/-! ### step 5 -/

/-- the bounded trend transfer ends with `np.maximum(a, np.minimum(v, b))` -/
theorem boundedTransfer_range (a b qO qH qF : Rat) (hab : a ≤ b) :
    a ≤ boundedTransfer a b qO qH qF ∧ boundedTransfer a b qO qH qF ≤ b := by
  unfold boundedTransfer
  simp only []
  exact ⟨le_max_left _ _, max_le hab (min_le_right _ _)⟩

theorem step5TransferTrend_bounded_range (c : Cfg) (o : Oracles) (obs H F out : List Rat) (a b : Rat)
    (hm : c.trendMethod = .bounded) (ha : c.lowerBound = .fin a) (hb : c.upperBound = .fin b) (hab : a ≤ b)
    (h : step5TransferTrend c o obs H F = .ok out) : ∀ v ∈ out, a ≤ v ∧ v ≤ b := by
  unfold step5TransferTrend at h
  split at h
  · exact absurd h (by simp)
  · simp only [hm, ha, hb, ExtRat.toRat] at h
    have h' : out = (obs.zip ((iecdf c.iecdfMethod H (ecdf c.ecdfMethod obs obs)).zip
        (iecdf c.iecdfMethod F (ecdf c.ecdfMethod obs obs)))).map
          (fun t => boundedTransfer a b t.1 t.2.1 t.2.2) := by
      injection h with h; exact h.symm
    intro v hv
    rw [h', List.mem_map] at hv
    obtain ⟨t, -, rfl⟩ := hv
    exact boundedTransfer_range a b _ _ _ hab

/-- `fillWhere` with any right-hand side: a member is a value of the right-hand side or an entry of the buffer -/
theorem fillWhere_mem_weak {α} (xs : List α) (m : List Bool) (vs : List α) {e : α} (h : e ∈ fillWhere xs m vs) :
    e ∈ vs ∨ e ∈ xs := by
  induction xs generalizing m vs with
  | nil => cases m <;> simp [fillWhere] at h
  | cons x t ih =>
    cases m with
    | nil => exact Or.inr (by simpa [fillWhere] using h)
    | cons b m' =>
      cases b
      · simp only [fillWhere, List.mem_cons] at h
        rcases h with rfl | h
        · exact Or.inr List.mem_cons_self
        · rcases ih m' vs h with h | h
          · exact Or.inl h
          · exact Or.inr (List.mem_cons_of_mem _ h)
      · cases vs with
        | nil =>
          simp only [fillWhere, List.mem_cons] at h
          rcases h with rfl | h
          · exact Or.inr List.mem_cons_self
          · rcases ih m' [] h with h | h
            · exact Or.inl h
            · exact Or.inr (List.mem_cons_of_mem _ h)
        | cons w ws =>
          simp only [fillWhere, List.mem_cons] at h
          rcases h with rfl | h
          · exact Or.inl List.mem_cons_self
          · rcases ih m' ws h with h | h
            · exact Or.inl (List.mem_cons_of_mem _ h)
            · exact Or.inr (List.mem_cons_of_mem _ h)

/-- `step5` with the bounded method: pseudo-future observations stay in `[a, b]` when the observations are -/
theorem step5_bounded_range (c : Cfg) (o : Oracles) (obs H F out : List Rat) (a b : Rat)
    (hm : c.trendMethod = .bounded) (ha : c.lowerBound = .fin a) (hb : c.upperBound = .fin b) (hab : a ≤ b)
    (hobs : ∀ v ∈ obs, a ≤ v ∧ v ≤ b)
    (h : step5 c o obs H F = .ok out) : ∀ v ∈ out, a ≤ v ∧ v ≤ b := by
  unfold step5 at h
  split at h
  · dsimp only at h
    split at h
    · cases ht : step5TransferTrend c o (Py.selectWhere obs (maskBetween c obs)) (valuesBetween c H) (valuesBetween c F) with
      | error e => rw [ht] at h; exact absurd h (by simp [bind, Except.bind])
      | ok t =>
        rw [ht] at h
        have h' : out = fillWhere obs (maskBetween c obs) t := by
          simp only [bind, Except.bind, pure, Except.pure] at h
          injection h with h; exact h.symm
        intro v hv
        rw [h'] at hv
        rcases fillWhere_mem_weak _ _ _ hv with hv | hv
        · exact step5TransferTrend_bounded_range c o _ _ _ t a b hm ha hb hab ht v hv
        · exact hobs v hv
    · have h' : out = obs := by injection h with h; exact h.symm
      rw [h']; exact hobs
  · exact step5TransferTrend_bounded_range c o obs H F out a b hm ha hb hab h

/-! ### step 6: the quantile mapping of the entries not sent to a bound -/

/-- **The family's range law** (an oracle law: it holds for scipy's `gamma` / `weibull_min` with `floc` fixed and
    for `beta` with `floc`, `fscale` fixed — trusted base; the rational test double `Model.Isimip.ratSigmoid` is a
    location–scale family on the whole line and does **not** satisfy it): a fit with fixed location has its support in
    `[floc, ∞)`, with fixed location and scale in `[floc, floc + fscale]`; `ppf` maps `(0,1)` into the support. -/
structure RangeLaw (fam : IsiFamily) : Prop where
  lower : ∀ (d : List Rat) (floc : Rat) (fscale : Option Rat) (p : Rat × Rat) (q : Rat),
    fam.fit d (some floc) fscale = some p → 0 < q → q < 1 → floc ≤ fam.ppf p q
  upper : ∀ (d : List Rat) (floc fscale : Rat) (p : Rat × Rat) (q : Rat),
    fam.fit d (some floc) (some fscale) = some p → 0 < q → q < 1 → fam.ppf p q ≤ floc + fscale

/-- the parametric branch keeps values inside the thresholds only if every finite threshold is turned into a fixed
    argument of the fit: an upper threshold needs a lower threshold and a family for which `fscale` is passed
    (the code passes `floc` only for `rice` / `weibull_min`) -/
def ParamOk (c : Cfg) : Prop :=
  c.hasUpperThreshold = true → (c.hasLowerThreshold = true ∧ c.riceOrWeibull = false)

instance (c : Cfg) : Decidable (ParamOk c) := by unfold ParamOk; exact inferInstance

theorem thrCdf_open (v : Rat) : 0 < thrCdf v ∧ thrCdf v < 1 := by
  have h := Props.C16.thresholdCdf_range (1 / 10000000000) v (by norm_num)
  unfold thrCdf
  constructor
  · exact lt_of_lt_of_le (by norm_num) h.1
  · exact lt_of_le_of_lt h.2 (by norm_num)

/-- a `ppf` value of the fit with step 6's fixed arguments is not beyond a threshold -/
theorem ppf_mid (c : Cfg) (fam : IsiFamily) (hlaw : RangeLaw fam) (hp : ParamOk c)
    (floc fscale : Option Rat) (hfa : fixedArgs c = .ok (floc, fscale))
    (d : List Rat) (p : Rat × Rat) (hfit : fam.fit d floc fscale = some p) (q : Rat) (h0 : 0 < q) (h1 : q < 1) :
    Mid c (fam.ppf p q) := by
  unfold fixedArgs at hfa
  unfold ParamOk at hp
  constructor
  · -- lower threshold
    cases hl : c.lowerThreshold with
    | negInf => simp [ExtRat.geOf]
    | posInf =>
      simp [hl, Cfg.hasLowerThreshold, ExtRat.gtNegInf, ExtRat.toRat, bind, Except.bind, Except.map] at hfa
    | fin l =>
      have hfloc : floc = some l := by
        simp only [hl, Cfg.hasLowerThreshold, ExtRat.gtNegInf, ExtRat.toRat, Except.map, if_true, bind, Except.bind,
          pure, Except.pure] at hfa
        split at hfa
        · split at hfa
          · exact absurd hfa (by simp)
          · injection hfa with hfa; injection hfa with h1 h2; exact h1.symm
        · injection hfa with hfa; injection hfa with h1 h2; exact h1.symm
      subst hfloc
      simp only [ExtRat.geOf, decide_eq_true_eq, ge_iff_le]
      exact hlaw.lower d l fscale p q hfit h0 h1
  · -- upper threshold
    cases hu : c.upperThreshold with
    | posInf => simp [ExtRat.leOf]
    | negInf =>
      have hut : c.hasUpperThreshold = true := by simp [Cfg.hasUpperThreshold, hu, ExtRat.ltPosInf]
      obtain ⟨hlt, -⟩ := hp hut
      simp [hu, hlt, hut, ExtRat.toRat, bind, Except.bind, Except.map] at hfa
      cases hl : c.lowerThreshold <;> simp [hl] at hfa
    | fin u =>
      have hut : c.hasUpperThreshold = true := by simp [Cfg.hasUpperThreshold, hu, ExtRat.ltPosInf]
      obtain ⟨hlt, hrw⟩ := hp hut
      cases hl : c.lowerThreshold with
      | negInf => simp [Cfg.hasLowerThreshold, hl, ExtRat.gtNegInf] at hlt
      | posInf => simp [hl, hlt, ExtRat.toRat, bind, Except.bind, Except.map] at hfa
      | fin l =>
        simp only [hl, hu, hlt, hut, hrw, ExtRat.toRat, Except.map, if_true, bind, Except.bind, pure, Except.pure,
          Bool.and_self, Bool.false_eq_true, if_false] at hfa
        injection hfa with hfa
        injection hfa with h1' h2'
        subst h1'; subst h2'
        simp only [ExtRat.leOf, decide_eq_true_eq]
        have := hlaw.upper d l (u - l) p q hfit h0 h1
        linarith

theorem ok_triple {α β γ ε} {a a' : α} {b b' : β} {c c' : γ}
    (h : (Except.ok (a, b, c) : Except ε (α × β × γ)) = .ok (a', b', c')) : a' = a := by
  injection h with h; injection h with h1; exact h1.symm

theorem interpOnLength_length (cdf : List Rat) (m : Nat) : (interpOnLength cdf m).length = m := by
  simp [interpOnLength, interp, linspace_length]

theorem qmapXonY_length (c : Cfg) (x y : List Rat) : (qmapXonY c x y).length = x.length := by
  unfold qmapXonY
  cases c.modeNpqm
  · simp [qmap_length]
  · simp [qmapIsimip, interp, rankAvg]

theorem premap_length (c : Cfg) (Fns Fbt : List Rat) :
    (if (c.hasThreshold && decide (Fbt.length > 0)) = true then qmapXonY c Fns Fbt else Fns).length = Fns.length := by
  split
  · exact qmapXonY_length c Fns Fbt
  · rfl

theorem elaProbabilities_length (o : Oracles) (a b d : List Rat) (ha : a.length = d.length) (hb : b.length = d.length) :
    (elaProbabilities o a b d).length = d.length := by
  simp [elaProbabilities, ha, hb]

/-- what `_step6_adjust_values_between_thresholds` returns: one value per entry, none beyond a threshold -/
theorem adjustBetween_spec (c : Cfg) (fam : IsiFamily) (o : Oracles) (Obt OFbt Hbt Fns Fbt v : List Rat)
    (br : Branch) (pre : Bool)
    (hOF : OFbt ≠ []) (hb : ∀ w ∈ OFbt, Between c w)
    (hfam : c.nonparametricQm = true ∨ (RangeLaw fam ∧ ParamOk c))
    (hexpit : c.eventLikelihoodAdjustment = true → ∀ x, 0 < o.expit x ∧ o.expit x < 1)
    (h : adjustBetween c fam o Obt OFbt Hbt Fns Fbt = .ok (v, br, pre)) :
    v.length = Fns.length ∧ ∀ e ∈ v, Mid c e := by
  have fb : ∀ X : List Rat, X.length = Fns.length → v = qmap c.ecdfMethod c.iecdfMethod X OFbt X →
      v.length = Fns.length ∧ ∀ e ∈ v, Mid c e := by
    intro X hX hv
    subst hv
    exact ⟨by rw [qmap_length, hX], fun e he => (qmap_between c _ _ X OFbt X hOF hb he).mid⟩
  unfold adjustBetween at h
  split at h
  · exact fb Fns rfl (ok_triple h)
  · rename_i hnp
    have hlaw : RangeLaw fam ∧ ParamOk c := by
      rcases hfam with h1 | h1
      · exact absurd h1 hnp
      · exact h1
    dsimp only at h
    split at h
    · exact fb _ (premap_length c Fns Fbt) (ok_triple h)
    · split at h
      · exact fb _ (premap_length c Fns Fbt) (ok_triple h)
      · cases hfa : fixedArgs c with
        | error e => rw [hfa] at h; simp [bind, Except.bind] at h
        | ok fa =>
          obtain ⟨floc, fscale⟩ := fa
          rw [hfa] at h
          simp only [bind, Except.bind] at h
          split at h
          · rename_i fitF fitOF hfitF hfitOF
            split at h
            · exact fb _ (premap_length c Fns Fbt) (ok_triple h)
            · split at h
              · have hv := ok_triple h
                subst hv
                refine ⟨by rw [List.length_map, List.length_map]; exact premap_length c Fns Fbt, ?_⟩
                intro e he
                simp only [List.mem_map] at he
                obtain ⟨q, ⟨x, -, rfl⟩, rfl⟩ := he
                exact ppf_mid c fam hlaw.1 hlaw.2 floc fscale hfa OFbt fitOF hfitOF _ (thrCdf_open _).1 (thrCdf_open _).2
              · rename_i hela
                have hela' : c.eventLikelihoodAdjustment = true := by simpa using hela
                split at h
                · have hv := ok_triple h
                  subst hv
                  refine ⟨?_, ?_⟩
                  · rw [List.length_map, elaProbabilities_length o _ _ _ (interpOnLength_length _ _) (interpOnLength_length _ _)]
                    rw [List.length_map]; exact premap_length c Fns Fbt
                  · intro e he
                    rw [List.mem_map] at he
                    obtain ⟨q, hq, rfl⟩ := he
                    unfold elaProbabilities at hq
                    rw [List.mem_map] at hq
                    obtain ⟨z, -, rfl⟩ := hq
                    exact ppf_mid c fam hlaw.1 hlaw.2 floc fscale hfa OFbt fitOF hfitOF _ (hexpit hela' z).1 (hexpit hela' z).2
                · exact absurd h (by simp)
          · exact fb _ (premap_length c Fns Fbt) (ok_triple h)

end Lemmas.C10
