/-
  C10 helpers, part 2 (ISIMIP): what step 5 (bounded trend transfer) and step 6 (bound assignment + quantile
  mapping of the remaining entries) of `Model.Isimip` can write.
-/
import IbicusModel.Lemmas.C10
import IbicusModel.Lemmas.StatsQmap

namespace Lemmas.C10
open Model.Isimip Model.Stats Model.IsimipFreq Lemmas.Stats

/-! ### step 5 -/

/-- the bounded trend transfer ends with `np.maximum(a, np.minimum(v, b))` -/
theorem boundedTransfer_range (a b qO qH qF : Rat) (hab : a ≤ b) :
    a ≤ boundedTransfer a b qO qH qF ∧ boundedTransfer a b qO qH qF ≤ b := by
  unfold boundedTransfer
  simp only []
  exact ⟨le_max_left _ _, max_le hab (min_le_right _ _)⟩

theorem step5TransferTrend_bounded_range (c : Cfg) (o : Oracles) (obs H F out : List Rat) (a b : Rat)
    (hm : c.trendMethod = .bounded) (ha : c.lowerBound = .fin a) (hb : c.upperBound = .fin b) (hab : a ≤ b)
    (h : step5TransferTrend c o obs H F = .ok out) : ∀ v ∈ out, a ≤ v ∧ v ≤ b := by
  unfold step5TransferTrend at h
  split at h
  · exact absurd h (by simp)
  · simp only [hm, ha, hb, ExtRat.toRat] at h
    have h' : out = (obs.zip ((iecdf c.iecdfMethod H (ecdf c.ecdfMethod obs obs)).zip
        (iecdf c.iecdfMethod F (ecdf c.ecdfMethod obs obs)))).map
          (fun t => boundedTransfer a b t.1 t.2.1 t.2.2) := by
      injection h with h; exact h.symm
    intro v hv
    rw [h', List.mem_map] at hv
    obtain ⟨t, -, rfl⟩ := hv
    exact boundedTransfer_range a b _ _ _ hab

/-- `fillWhere` with any right-hand side: a member is a value of the right-hand side or an entry of the buffer -/
theorem fillWhere_mem_weak {α} (xs : List α) (m : List Bool) (vs : List α) {e : α} (h : e ∈ fillWhere xs m vs) :
    e ∈ vs ∨ e ∈ xs := by
  induction xs generalizing m vs with
  | nil => cases m <;> simp [fillWhere] at h
  | cons x t ih =>
    cases m with
    | nil => exact Or.inr (by simpa [fillWhere] using h)
    | cons b m' =>
      cases b
      · simp only [fillWhere, List.mem_cons] at h
        rcases h with rfl | h
        · exact Or.inr List.mem_cons_self
        · rcases ih m' vs h with h | h
          · exact Or.inl h
          · exact Or.inr (List.mem_cons_of_mem _ h)
      · cases vs with
        | nil =>
          simp only [fillWhere, List.mem_cons] at h
          rcases h with rfl | h
          · exact Or.inr List.mem_cons_self
          · rcases ih m' [] h with h | h
            · exact Or.inl h
            · exact Or.inr (List.mem_cons_of_mem _ h)
        | cons w ws =>
          simp only [fillWhere, List.mem_cons] at h
          rcases h with rfl | h
          · exact Or.inl List.mem_cons_self
          · rcases ih m' ws h with h | h
            · exact Or.inl (List.mem_cons_of_mem _ h)
            · exact Or.inr (List.mem_cons_of_mem _ h)

/-- `step5` with the bounded method: pseudo-future observations stay in `[a, b]` when the observations are -/
theorem step5_bounded_range (c : Cfg) (o : Oracles) (obs H F out : List Rat) (a b : Rat)
    (hm : c.trendMethod = .bounded) (ha : c.lowerBound = .fin a) (hb : c.upperBound = .fin b) (hab : a ≤ b)
    (hobs : ∀ v ∈ obs, a ≤ v ∧ v ≤ b)
    (h : step5 c o obs H F = .ok out) : ∀ v ∈ out, a ≤ v ∧ v ≤ b := by
  unfold step5 at h
  split at h
  · dsimp only at h
    split at h
    · cases ht : step5TransferTrend c o (Py.selectWhere obs (maskBetween c obs)) (valuesBetween c H) (valuesBetween c F) with
      | error e => rw [ht] at h; exact absurd h (by simp [bind, Except.bind])
      | ok t =>
        rw [ht] at h
        have h' : out = fillWhere obs (maskBetween c obs) t := by
          simp only [bind, Except.bind, pure, Except.pure] at h
          injection h with h; exact h.symm
        intro v hv
        rw [h'] at hv
        rcases fillWhere_mem_weak _ _ _ hv with hv | hv
        · exact step5TransferTrend_bounded_range c o _ _ _ t a b hm ha hb hab ht v hv
        · exact hobs v hv
    · have h' : out = obs := by injection h with h; exact h.symm
      rw [h']; exact hobs
  · exact step5TransferTrend_bounded_range c o obs H F out a b hm ha hb hab h

/-! ### step 6: the quantile mapping of the entries not sent to a bound -/

/-- **The family's range law** (an oracle law: it holds for scipy's `gamma` / `weibull_min` with `floc` fixed and
    for `beta` with `floc`, `fscale` fixed — trusted base; the rational test double `Model.Isimip.ratSigmoid` is a
    location–scale family on the whole line and does **not** satisfy it): a fit with fixed location has its support in
    `[floc, ∞)`, with fixed location and scale in `[floc, floc + fscale]`; `ppf` maps `(0,1)` into the support. -/
structure RangeLaw (fam : IsiFamily) : Prop where
  lower : ∀ (d : List Rat) (floc : Rat) (fscale : Option Rat) (p : Rat × Rat) (q : Rat),
    fam.fit d (some floc) fscale = some p → 0 < q → q < 1 → floc ≤ fam.ppf p q
  upper : ∀ (d : List Rat) (floc fscale : Rat) (p : Rat × Rat) (q : Rat),
    fam.fit d (some floc) (some fscale) = some p → 0 < q → q < 1 → fam.ppf p q ≤ floc + fscale

/-- the parametric branch keeps values inside the thresholds only if every finite threshold is turned into a fixed
    argument of the fit: an upper threshold needs a lower threshold and a family for which `fscale` is passed
    (the code passes `floc` only for `rice` / `weibull_min`) -/
def ParamOk (c : Cfg) : Prop :=
  c.hasUpperThreshold = true → (c.hasLowerThreshold = true ∧ c.riceOrWeibull = false)

instance (c : Cfg) : Decidable (ParamOk c) := by unfold ParamOk; exact inferInstance

theorem thrCdf_open (v : Rat) : 0 < thrCdf v ∧ thrCdf v < 1 := by
  have h := Props.C16.thresholdCdf_range (1 / 10000000000) v (by norm_num)
  unfold thrCdf
  constructor
  · exact lt_of_lt_of_le (by norm_num) h.1
  · exact lt_of_le_of_lt h.2 (by norm_num)

/-- a `ppf` value of the fit with step 6's fixed arguments is not beyond a threshold -/
theorem ppf_mid (c : Cfg) (fam : IsiFamily) (hlaw : RangeLaw fam) (hp : ParamOk c)
    (floc fscale : Option Rat) (hfa : fixedArgs c = .ok (floc, fscale))
    (d : List Rat) (p : Rat × Rat) (hfit : fam.fit d floc fscale = some p) (q : Rat) (h0 : 0 < q) (h1 : q < 1) :
    Mid c (fam.ppf p q) := by
  unfold fixedArgs at hfa
  unfold ParamOk at hp
  constructor
  · -- lower threshold
    cases hl : c.lowerThreshold with
    | negInf => simp [ExtRat.geOf]
    | posInf =>
      simp [hl, Cfg.hasLowerThreshold, ExtRat.gtNegInf, ExtRat.toRat, bind, Except.bind, Except.map] at hfa
    | fin l =>
      have hfloc : floc = some l := by
        simp only [hl, Cfg.hasLowerThreshold, ExtRat.gtNegInf, ExtRat.toRat, Except.map, if_true, bind, Except.bind,
          pure, Except.pure] at hfa
        split at hfa
        · split at hfa
          · exact absurd hfa (by simp)
          · injection hfa with hfa; injection hfa with h1 h2; exact h1.symm
        · injection hfa with hfa; injection hfa with h1 h2; exact h1.symm
      subst hfloc
      simp only [ExtRat.geOf, decide_eq_true_eq, ge_iff_le]
      exact hlaw.lower d l fscale p q hfit h0 h1
  · -- upper threshold
    cases hu : c.upperThreshold with
    | posInf => simp [ExtRat.leOf]
    | negInf =>
      have hut : c.hasUpperThreshold = true := by simp [Cfg.hasUpperThreshold, hu, ExtRat.ltPosInf]
      obtain ⟨hlt, -⟩ := hp hut
      simp [hu, hlt, hut, ExtRat.toRat, bind, Except.bind, Except.map] at hfa
      cases hl : c.lowerThreshold <;> simp [hl] at hfa
    | fin u =>
      have hut : c.hasUpperThreshold = true := by simp [Cfg.hasUpperThreshold, hu, ExtRat.ltPosInf]
      obtain ⟨hlt, hrw⟩ := hp hut
      cases hl : c.lowerThreshold with
      | negInf => simp [Cfg.hasLowerThreshold, hl, ExtRat.gtNegInf] at hlt
      | posInf => simp [hl, hlt, ExtRat.toRat, bind, Except.bind, Except.map] at hfa
      | fin l =>
        simp only [hl, hu, hlt, hut, hrw, ExtRat.toRat, Except.map, if_true, bind, Except.bind, pure, Except.pure,
          Bool.and_self, Bool.false_eq_true, if_false] at hfa
        injection hfa with hfa
        injection hfa with h1' h2'
        subst h1'; subst h2'
        simp only [ExtRat.leOf, decide_eq_true_eq]
        have := hlaw.upper d l (u - l) p q hfit h0 h1
        linarith

theorem ok_triple {α β γ ε} {a a' : α} {b b' : β} {c c' : γ}
    (h : (Except.ok (a, b, c) : Except ε (α × β × γ)) = .ok (a', b', c')) : a' = a := by
  injection h with h; injection h with h1; exact h1.symm

theorem interpOnLength_length (cdf : List Rat) (m : Nat) : (interpOnLength cdf m).length = m := by
  simp [interpOnLength, interp, linspace_length]

theorem qmapXonY_length (c : Cfg) (x y : List Rat) : (qmapXonY c x y).length = x.length := by
  unfold qmapXonY
  cases c.modeNpqm
  · simp [qmap_length]
  · simp [qmapIsimip, interp, rankAvg]

theorem premap_length (c : Cfg) (Fns Fbt : List Rat) :
    (if (c.hasThreshold && decide (Fbt.length > 0)) = true then qmapXonY c Fns Fbt else Fns).length = Fns.length := by
  split
  · exact qmapXonY_length c Fns Fbt
  · rfl

theorem elaProbabilities_length (o : Oracles) (a b d : List Rat) (ha : a.length = d.length) (hb : b.length = d.length) :
    (elaProbabilities o a b d).length = d.length := by
  simp [elaProbabilities, ha, hb]

/-- what `_step6_adjust_values_between_thresholds` returns: one value per entry, none beyond a threshold -/
theorem adjustBetween_spec (c : Cfg) (fam : IsiFamily) (o : Oracles) (Obt OFbt Hbt Fns Fbt v : List Rat)
    (br : Branch) (pre : Bool)
    (hOF : OFbt ≠ []) (hb : ∀ w ∈ OFbt, Between c w)
    (hfam : c.nonparametricQm = true ∨ (RangeLaw fam ∧ ParamOk c))
    (hexpit : c.eventLikelihoodAdjustment = true → ∀ x, 0 < o.expit x ∧ o.expit x < 1)
    (h : adjustBetween c fam o Obt OFbt Hbt Fns Fbt = .ok (v, br, pre)) :
    v.length = Fns.length ∧ ∀ e ∈ v, Mid c e := by
  have fb : ∀ X : List Rat, X.length = Fns.length → v = qmap c.ecdfMethod c.iecdfMethod X OFbt X →
      v.length = Fns.length ∧ ∀ e ∈ v, Mid c e := by
    intro X hX hv
    subst hv
    exact ⟨by rw [qmap_length, hX], fun e he => (qmap_between c _ _ X OFbt X hOF hb he).mid⟩
  unfold adjustBetween at h
  split at h
  · exact fb Fns rfl (ok_triple h)
  · rename_i hnp
    have hlaw : RangeLaw fam ∧ ParamOk c := by
      rcases hfam with h1 | h1
      · exact absurd h1 hnp
      · exact h1
    dsimp only at h
    split at h
    · exact fb _ (premap_length c Fns Fbt) (ok_triple h)
    · split at h
      · exact fb _ (premap_length c Fns Fbt) (ok_triple h)
      · cases hfa : fixedArgs c with
        | error e => rw [hfa] at h; simp [bind, Except.bind] at h
        | ok fa =>
          obtain ⟨floc, fscale⟩ := fa
          rw [hfa] at h
          simp only [bind, Except.bind] at h
          split at h
          · rename_i fitF fitOF hfitF hfitOF
            split at h
            · exact fb _ (premap_length c Fns Fbt) (ok_triple h)
            · split at h
              · have hv := ok_triple h
                subst hv
                refine ⟨by rw [List.length_map, List.length_map]; exact premap_length c Fns Fbt, ?_⟩
                intro e he
                simp only [List.mem_map] at he
                obtain ⟨q, ⟨x, -, rfl⟩, rfl⟩ := he
                exact ppf_mid c fam hlaw.1 hlaw.2 floc fscale hfa OFbt fitOF hfitOF _ (thrCdf_open _).1 (thrCdf_open _).2
              · rename_i hela
                have hela' : c.eventLikelihoodAdjustment = true := by simpa using hela
                split at h
                · have hv := ok_triple h
                  subst hv
                  refine ⟨?_, ?_⟩
                  · rw [List.length_map, elaProbabilities_length o _ _ _ (interpOnLength_length _ _) (interpOnLength_length _ _)]
                    rw [List.length_map]; exact premap_length c Fns Fbt
                  · intro e he
                    rw [List.mem_map] at he
                    obtain ⟨q, hq, rfl⟩ := he
                    unfold elaProbabilities at hq
                    rw [List.mem_map] at hq
                    obtain ⟨z, -, rfl⟩ := hq
                    exact ppf_mid c fam hlaw.1 hlaw.2 floc fscale hfa OFbt fitOF hfitOF _ (hexpit hela' z).1 (hexpit hela' z).2
                · exact absurd h (by simp)
          · exact fb _ (premap_length c Fns Fbt) (ok_triple h)

/-! ### step 6: the assembled buffer -/

theorem setBound_ok (xs r : List Rat) (m : List Bool) (b : ExtRat) (hm : m.length = xs.length)
    (h : setBound xs m b = .ok r) :
    ∃ q, r = Py.setWhere xs m q ∧ (m.any id = true → b = .fin q) := by
  unfold setBound at h
  split at h
  · cases b with
    | fin q =>
      simp only [ExtRat.toRat, Except.map] at h
      injection h with h
      exact ⟨q, h.symm, fun _ => rfl⟩
    | negInf => simp [ExtRat.toRat, Except.map] at h
    | posInf => simp [ExtRat.toRat, Except.map] at h
  · rename_i hany
    injection h with h
    refine ⟨0, ?_, fun h' => absurd h' hany⟩
    rw [setWhere_of_not_any xs m 0 hm (by simpa using hany)]
    exact h.symm

theorem step6Full_good (c : Cfg) (fam : IsiFamily) (o : Oracles) (obs obsFut H F : List Rat) (r : Step6Out)
    (hguard : 0 < (valuesBetween c obsFut).length)
    (hfam : c.nonparametricQm = true ∨ (RangeLaw fam ∧ ParamOk c))
    (hexpit : c.eventLikelihoodAdjustment = true → ∀ x, 0 < o.expit x ∧ o.expit x < 1)
    (h : step6Full c fam o obs obsFut H F = .ok r) :
    r.mappedSorted.length = F.length ∧ (∀ e ∈ r.mappedSorted, Good c e) ∧
      r.result = takeIdx r.mappedSorted (rankOf F) := by
  unfold step6Full at h
  simp only [bind, Except.bind] at h
  have hFs : (takeIdx F (argsort F)).length = F.length := by rw [takeIdx_length, argsort_length]
  generalize takeIdx F (argsort F) = Fs at h hFs
  generalize finalCounts _ _ _ = cnt at h
  have hml : (lowerMask cnt.1 Fs.length).length = Fs.length := lowerMask_length _ _
  have hmu : (upperMask cnt.2 Fs.length).length = Fs.length := upperMask_length _ _
  generalize lowerMask cnt.1 Fs.length = mL at h hml
  generalize upperMask cnt.2 Fs.length = mU at h hmu
  cases h1 : setBound Fs mL c.lowerBound with
  | error e => rw [h1] at h; exact absurd h (by simp)
  | ok m1 =>
    rw [h1] at h
    dsimp only at h
    obtain ⟨lo, rfl, hlo⟩ := setBound_ok Fs m1 mL c.lowerBound hml h1
    have hm1 : (Py.setWhere Fs mL lo).length = Fs.length := setWhere_length Fs mL lo hml
    cases h2 : setBound (Py.setWhere Fs mL lo) mU c.upperBound with
    | error e => rw [h2] at h; exact absurd h (by simp)
    | ok m2 =>
      rw [h2] at h
      dsimp only at h
      obtain ⟨hi, rfl, hhi⟩ := setBound_ok _ m2 mU c.upperBound (by rw [hm1, hmu]) h2
      have hm2 : (Py.setWhere (Py.setWhere Fs mL lo) mU hi).length = Fs.length := by
        rw [setWhere_length _ mU hi (by rw [hm1, hmu]), hm1]
      have hmN : (notMask mL mU).length = Fs.length := by rw [notMask_length mL mU (by rw [hml, hmu]), hml]
      -- every member of the final buffer, for any right-hand side with enough values none beyond a threshold
      have final : ∀ vs : List Rat, (notMask mL mU).count true ≤ vs.length → (∀ e ∈ vs, Mid c e) →
          ∀ e ∈ fillWhere (Py.setWhere (Py.setWhere Fs mL lo) mU hi) (notMask mL mU) vs, Good c e := by
        intro vs hc hvs e he
        rcases fillWhere_mem _ _ vs (by rw [hmN, hm2]) hc he with he | he
        · exact Or.inr (Or.inr (hvs e he))
        · rcases bounds_where_not_middle lo hi Fs mL mU hml hmu he with ⟨rfl, ha⟩ | ⟨rfl, ha⟩
          · exact Or.inl (hlo ha)
          · exact Or.inr (Or.inl (hhi ha))
      split at h
      · split at h
        · rename_i hany hpos
          cases h3 : adjustBetween c fam o (valuesBetween c (sortQ obs)) (valuesBetween c (sortQ obsFut))
              (valuesBetween c (sortQ H)) (Py.selectWhere (Py.setWhere (Py.setWhere Fs mL lo) mU hi) (notMask mL mU))
              (valuesBetween c Fs) with
          | error e => rw [h3] at h; exact absurd h (by simp)
          | ok t =>
            obtain ⟨v, br, pre⟩ := t
            rw [h3] at h
            simp only [pure, Except.pure] at h
            injection h with h
            subst h
            dsimp only
            have hne : valuesBetween c (sortQ obsFut) ≠ [] := by
              intro he; rw [he] at hpos; simp at hpos
            obtain ⟨hlen, hmid⟩ := adjustBetween_spec c fam o _ _ _ _ _ v br pre hne
              (valuesBetween_between c _) hfam hexpit h3
            rw [selectWhere_length _ _ (by rw [hmN, hm2])] at hlen
            exact ⟨by rw [fillWhere_length, hm2, hFs], final v (by rw [hlen]) hmid, rfl⟩
        · rename_i hany hpos
          rw [valuesBetween_sortQ_length] at hpos
          exact absurd hguard hpos
      · rename_i hany
        simp only [pure, Except.pure] at h
        injection h with h
        subst h
        dsimp only
        refine ⟨by rw [hm2, hFs], ?_, rfl⟩
        have hc : (notMask mL mU).count true = 0 := by
          rw [List.count_eq_zero]
          intro hmem
          apply hany
          rw [List.any_eq_true]
          exact ⟨true, hmem, rfl⟩
        have := final [] (by rw [hc]; exact Nat.zero_le _) (by intro e he; simp at he)
        rwa [fillWhere_nil] at this
/-- **every value `step6` returns is a bound or a value not beyond a threshold** (guard: there are pseudo-future
    observations between the thresholds — otherwise the code leaves the remaining entries unadjusted) -/
theorem step6_good (c : Cfg) (fam : IsiFamily) (o : Oracles) (obs obsFut H F out : List Rat)
    (hguard : 0 < (valuesBetween c obsFut).length)
    (hfam : c.nonparametricQm = true ∨ (RangeLaw fam ∧ ParamOk c))
    (hexpit : c.eventLikelihoodAdjustment = true → ∀ x, 0 < o.expit x ∧ o.expit x < 1)
    (h : step6 c fam o obs obsFut H F = .ok out) : out.length = F.length ∧ ∀ e ∈ out, Good c e := by
  unfold step6 at h
  cases hr : step6Full c fam o obs obsFut H F with
  | error e => rw [hr] at h; exact absurd h (by simp [Except.map])
  | ok r =>
    rw [hr] at h
    simp only [Except.map] at h
    injection h with h
    obtain ⟨hlen, hgood, hres⟩ := step6Full_good c fam o obs obsFut H F r hguard hfam hexpit hr
    rw [← h, hres]
    refine ⟨by rw [takeIdx_length, rankOf_length], ?_⟩
    intro e he
    exact hgood e (takeIdx_mem _ _ (by rw [hlen]; exact rankOf_valid F) he)

/-! ### the whole window (`_apply_on_window`, steps 3–7) for a variable without detrending -/

/-- the pseudo-future observations of a window: `step5(step4(…))` (step 3 is the identity without detrending) -/
def pseudoFuture (c : Cfg) (o : Oracles) (d : Draws) (obs H F : List Rat) : Except String (List Rat) :=
  (step4 c d obs H F).bind (fun r4 => step5 c o r4.1 r4.2.1 r4.2.2)

/-- the window has pseudo-future observations strictly between the thresholds (the part of `Wet` step 6 needs) -/
def WetWindow (c : Cfg) (o : Oracles) (d : Draws) (obs H F : List Rat) : Prop :=
  match pseudoFuture c o d obs H F with
  | .ok oF => 0 < (valuesBetween c oF).length
  | .error _ => True

instance (c : Cfg) (o : Oracles) (d : Draws) (obs H F : List Rat) : Decidable (WetWindow c o d obs H F) := by
  unfold WetWindow
  split <;> exact inferInstance

theorem applyOnWindow_good (c : Cfg) (fam : IsiFamily) (o : Oracles) (d : Draws) (obs H F out : List Rat)
    (yO yH yF : List Int) (hd : c.detrending = false) (hwet : WetWindow c o d obs H F)
    (hfam : c.nonparametricQm = true ∨ (RangeLaw fam ∧ ParamOk c))
    (hexpit : c.eventLikelihoodAdjustment = true → ∀ x, 0 < o.expit x ∧ o.expit x < 1)
    (h : applyOnWindow c fam o d obs H F yO yH yF = .ok out) : ∀ e ∈ out, Good c e := by
  rw [Lemmas.IsimipModel.applyOnWindow_eq, Lemmas.IsimipModel.step3_of_not_detrending c o hd] at h
  dsimp only at h
  unfold WetWindow pseudoFuture at hwet
  cases h4 : step4 c d obs H F with
  | error e => rw [h4] at h; exact absurd h (by simp [Except.bind])
  | ok r4 =>
    rw [h4] at h hwet
    simp only [Except.bind] at h hwet
    cases h5 : step5 c o r4.1 r4.2.1 r4.2.2 with
    | error e => rw [h5] at h; exact absurd h (by simp)
    | ok oF =>
      rw [h5] at h hwet
      dsimp only at h hwet
      cases h6 : step6 c fam o r4.1 oF r4.2.1 r4.2.2 with
      | error e => rw [h6] at h; exact absurd h (by simp)
      | ok r =>
        rw [h6] at h
        dsimp only at h
        rw [Lemmas.IsimipModel.step7_of_not_detrending c hd] at h
        injection h with h
        subst h
        exact (step6_good c fam o _ _ _ _ _ hwet hfam hexpit h6).2

/-! ### the property's guard and a family that satisfies the range law -/

/-- **`Wet`** (DESIGN §4 C10), for one window: at least two values strictly between the thresholds in `obs`, `cm_hist`,
    `cm_future` and in the pseudo-future observations, and every input inside `[lb, ub]`.  Decidable.
    (Step 6 itself only needs *one* pseudo-future observation between the thresholds: `Wet.pseudo`.) -/
def Wet (c : Cfg) (obs H F obsFut : List Rat) : Prop :=
  2 ≤ (valuesBetween c obs).length ∧ 2 ≤ (valuesBetween c H).length ∧ 2 ≤ (valuesBetween c F).length ∧
  2 ≤ (valuesBetween c obsFut).length ∧ (∀ v ∈ obs ++ H ++ F, InBounds c v)

instance (c : Cfg) (obs H F obsFut : List Rat) : Decidable (Wet c obs H F obsFut) := by
  unfold Wet; exact inferInstance

theorem Wet.pseudo {c : Cfg} {obs H F obsFut : List Rat} (h : Wet c obs H F obsFut) :
    0 < (valuesBetween c obsFut).length := by
  have := h.2.2.2.1; omega

/-- a rational family that honours `floc` / `fscale` and has bounded support: the uniform distribution on
    `[loc, loc + scale]` (`loc` = `floc` or the sample minimum, `scale` = `fscale` or `max − loc`; the fit fails on an
    empty sample and when the scale is not positive).  Witness that `RangeLaw` is satisfiable. -/
def uniformFam : IsiFamily where
  fit := fun d floc fscale =>
    if d.length = 0 then none
    else if fscale.getD (maxQ d - floc.getD (minQ d)) ≤ 0 then none
    else some (floc.getD (minQ d), fscale.getD (maxQ d - floc.getD (minQ d)))
  cdf := fun p x => (x - p.1) / p.2
  ppf := fun p q => p.1 + p.2 * q

theorem uniformFam_fit_some (d : List Rat) (floc : Rat) (fscale : Option Rat) (p : Rat × Rat)
    (h : uniformFam.fit d (some floc) fscale = some p) : p.1 = floc ∧ 0 < p.2 ∧ (∀ s, fscale = some s → p.2 = s) := by
  simp only [uniformFam, Option.getD_some] at h
  split at h
  · exact absurd h (by simp)
  · split at h
    · exact absurd h (by simp)
    · rename_i hs
      injection h with h
      subst h
      refine ⟨rfl, not_le.mp hs, ?_⟩
      intro s hs'; subst hs'; rfl

theorem uniformFam_rangeLaw : RangeLaw uniformFam where
  lower := by
    intro d floc fscale p q hfit h0 h1
    obtain ⟨e1, e2, -⟩ := uniformFam_fit_some d floc fscale p hfit
    show floc ≤ p.1 + p.2 * q
    rw [e1]
    have := mul_pos e2 h0
    linarith
  upper := by
    intro d floc fscale p q hfit h0 h1
    obtain ⟨e1, e2, e3⟩ := uniformFam_fit_some d floc (some fscale) p hfit
    show p.1 + p.2 * q ≤ floc + fscale
    have e4 := e3 fscale rfl
    rw [e1, e4]
    rw [e4] at e2
    nlinarith

/-! ### totality of step 6 (non-vacuity of the guarded statements: under the guards there *is* a run) -/

theorem rhe_zero (b : Int) (hb : 0 < b) : rhe 0 b = 0 := by
  unfold rhe
  simp [hb]

theorem rhe_mul_self (a n : Int) (ha : 0 < a) : rhe (a * n) a = n := by
  unfold rhe
  rw [Int.mul_emod_right, Int.mul_ediv_cancel_left n (ne_of_gt ha)]
  simp [ha]

theorem finalCounts_snd_zero (a n : Int) (hn : 0 ≤ n) : (finalCounts a 0 n).2 = 0 := by
  unfold finalCounts
  split_ifs with h
  · unfold scaleCounts
    have ha : 0 < a := by omega
    simp only [add_zero]
    rw [rhe_mul_self a n ha]; omega
  · rfl

theorem finalCounts_fst_zero (b n : Int) (hn : 0 ≤ n) : (finalCounts 0 b n).1 = 0 := by
  unfold finalCounts
  split_ifs with h
  · unfold scaleCounts
    simp only [zero_mul, zero_add]
    exact rhe_zero b (by omega)
  · rfl

theorem lowerMask_zero (n : Nat) : (lowerMask 0 n).any id = false := by
  simp [lowerMask, pySliceIdx]

theorem upperMask_zero (n : Nat) : (upperMask 0 n).any id = false := by
  have : pySliceIdx (n : Int) n = n := by
    unfold pySliceIdx
    simp
  simp [upperMask, this]

theorem setBound_total (xs : List Rat) (m : List Bool) (b : ExtRat) (h : m.any id = true → ∃ q, b = .fin q) :
    ∃ r, setBound xs m b = .ok r := by
  unfold setBound
  split_ifs with hm
  · obtain ⟨q, rfl⟩ := h hm
    exact ⟨_, rfl⟩
  · exact ⟨_, rfl⟩

/-- thresholds that step 6 can turn into `floc` / `fscale`: finite or absent (not `+inf` below, not `-inf` above) -/
def ThrFinite (c : Cfg) : Prop := c.lowerThreshold ≠ .posInf ∧ c.upperThreshold ≠ .negInf

instance (c : Cfg) : Decidable (ThrFinite c) := inferInstanceAs (Decidable (_ ∧ _))

theorem fixedArgs_total (c : Cfg) (h : ThrFinite c) : ∃ fa, fixedArgs c = .ok fa := by
  obtain ⟨hl, hu⟩ := h
  unfold fixedArgs
  cases hl' : c.lowerThreshold <;> cases hu' : c.upperThreshold <;>
    first
    | exact absurd hl' hl
    | exact absurd hu' hu
    | simp [Cfg.hasLowerThreshold, Cfg.hasUpperThreshold, hl', hu', ExtRat.gtNegInf, ExtRat.ltPosInf, ExtRat.toRat, bind,
        Except.bind, Except.map, pure, Except.pure]

theorem adjustBetween_total (c : Cfg) (fam : IsiFamily) (o : Oracles) (Obt OFbt Hbt Fns Fbt : List Rat)
    (hthr : ThrFinite c) (hela : c.eventLikelihoodAdjustment = false) :
    ∃ t, adjustBetween c fam o Obt OFbt Hbt Fns Fbt = .ok t := by
  obtain ⟨fa, hfa⟩ := fixedArgs_total c hthr
  obtain ⟨floc, fscale⟩ := fa
  unfold adjustBetween
  split
  · exact ⟨_, rfl⟩
  · dsimp only
    split
    · exact ⟨_, rfl⟩
    · split
      · exact ⟨_, rfl⟩
      · rw [hfa]
        simp only [bind, Except.bind]
        split
        · split
          · exact ⟨_, rfl⟩
          · simp only [hela, Bool.not_false, if_true]
            exact ⟨_, rfl⟩
        · exact ⟨_, rfl⟩

/-- **step 6 returns** for every input when each bound that can be written is finite (a side without threshold never
    writes its bound), the thresholds are finite or absent, and the event likelihood adjustment is off -/
theorem step6_total (c : Cfg) (fam : IsiFamily) (o : Oracles) (obs obsFut H F : List Rat)
    (hlb : c.hasLowerThreshold = false ∨ ∃ q, c.lowerBound = .fin q)
    (hub : c.hasUpperThreshold = false ∨ ∃ q, c.upperBound = .fin q)
    (hthr : ThrFinite c) (hela : c.eventLikelihoodAdjustment = false) :
    ∃ out, step6 c fam o obs obsFut H F = .ok out := by
  unfold step6 step6Full
  simp only [bind, Except.bind]
  generalize takeIdx F (argsort F) = Fs
  have hL : (lowerMask (finalCounts
      (if c.hasLowerThreshold = true then
        nrToBound c.biasCorrectFrequencies (maskBeyondLower c (sortQ obs)) (maskBeyondLower c (sortQ H)) (maskBeyondLower c Fs)
      else 0)
      (if c.hasUpperThreshold = true then
        nrToBound c.biasCorrectFrequencies (maskBeyondUpper c (sortQ obs)) (maskBeyondUpper c (sortQ H)) (maskBeyondUpper c Fs)
      else 0) (Fs.length : Int)).1 Fs.length).any id = true → ∃ q, c.lowerBound = .fin q := by
    intro hany
    rcases hlb with h | h
    · rw [h] at hany
      simp only [Bool.false_eq_true, if_false] at hany
      rw [finalCounts_fst_zero _ _ (by omega), lowerMask_zero] at hany
      exact absurd hany (by simp)
    · exact h
  have hU : (upperMask (finalCounts
      (if c.hasLowerThreshold = true then
        nrToBound c.biasCorrectFrequencies (maskBeyondLower c (sortQ obs)) (maskBeyondLower c (sortQ H)) (maskBeyondLower c Fs)
      else 0)
      (if c.hasUpperThreshold = true then
        nrToBound c.biasCorrectFrequencies (maskBeyondUpper c (sortQ obs)) (maskBeyondUpper c (sortQ H)) (maskBeyondUpper c Fs)
      else 0) (Fs.length : Int)).2 Fs.length).any id = true → ∃ q, c.upperBound = .fin q := by
    intro hany
    rcases hub with h | h
    · rw [h] at hany
      simp only [Bool.false_eq_true, if_false] at hany
      rw [finalCounts_snd_zero _ _ (by omega), upperMask_zero] at hany
      exact absurd hany (by simp)
    · exact h
  generalize finalCounts _ _ _ = cnt at hL hU ⊢
  generalize lowerMask cnt.1 Fs.length = mL at hL ⊢
  generalize upperMask cnt.2 Fs.length = mU at hU ⊢
  obtain ⟨m1, h1⟩ := setBound_total Fs mL c.lowerBound hL
  rw [h1]
  dsimp only
  obtain ⟨m2, h2⟩ := setBound_total m1 mU c.upperBound hU
  rw [h2]
  dsimp only
  split_ifs
  · obtain ⟨t, ht⟩ := adjustBetween_total c fam o (valuesBetween c (sortQ obs)) (valuesBetween c (sortQ obsFut))
      (valuesBetween c (sortQ H)) (Py.selectWhere m2 (notMask mL mU)) (valuesBetween c Fs) hthr hela
    rw [ht]
    exact ⟨_, rfl⟩
  · exact ⟨_, rfl⟩
  · exact ⟨_, rfl⟩

/-! ### evaluation helpers for concrete examples: `List.mergeSort` is defined by well-founded recursion and does not
    reduce in the kernel; on sorted input every sort of the model is the identity -/

theorem argsort_of_sorted {l : List Rat} (h : l.Pairwise (· ≤ ·)) : argsort l = List.range l.length := by
  unfold argsort
  have h1 : ((l.zip (List.range l.length)).map Prod.fst).Pairwise (· ≤ ·) := by
    rw [List.map_fst_zip (by simp)]; exact h
  rw [List.pairwise_map] at h1
  have hp : (l.zip (List.range l.length)).Pairwise (fun a b => (decide (a.1 ≤ b.1)) = true) :=
    h1.imp (fun h => by simpa using h)
  rw [List.mergeSort_of_pairwise hp, List.map_snd_zip (by simp)]

theorem rankOf_of_sorted {l : List Rat} (h : l.Pairwise (· ≤ ·)) : rankOf l = List.range l.length := by
  unfold rankOf
  rw [argsort_of_sorted h, argsort_of_sorted (range_cast_sorted _)]
  simp

theorem takeIdx_range (l : List Rat) : takeIdx l (List.range l.length) = l := by
  unfold takeIdx
  exact range_map_getD l

/-! ### the clip of the bounded transfer acts on out-of-range input only -/

/-- the value of the bounded trend transfer before `np.maximum(a, np.minimum(·, b))` -/
def boundedRaw (a b qO qH qF : Rat) : Rat :=
  if (decide (qH < qO) && decide (qF < qH)) || (decide (qH > qO) && decide (qF > qH)) then qO + qF - qH
  else if decide (qH > qO) then a + (qO - a) * (qF - a) / (qH - a)
  else if Py.isclose qH qO then qF
  else b - (b - qO) * (b - qF) / (b - qH)

theorem boundedTransfer_eq_clip (a b qO qH qF : Rat) :
    boundedTransfer a b qO qH qF = max a (min (boundedRaw a b qO qH qF) b) := rfl

/-- **for quantiles inside `[a, b]` the formula never leaves `[a, b]`**: the final clip of the bounded trend transfer
    only acts on out-of-range input (a mutant that drops it is equivalent on the property's inputs) -/
theorem boundedRaw_range (a b qO qH qF : Rat) (hO : a ≤ qO ∧ qO ≤ b) (hH : a ≤ qH ∧ qH ≤ b) (hF : a ≤ qF ∧ qF ≤ b) :
    a ≤ boundedRaw a b qO qH qF ∧ boundedRaw a b qO qH qF ≤ b := by
  unfold boundedRaw
  by_cases hadd : ((decide (qH < qO) && decide (qF < qH)) || (decide (qH > qO) && decide (qF > qH))) = true
  · rw [if_pos hadd]
    simp only [Bool.or_eq_true, Bool.and_eq_true, decide_eq_true_eq] at hadd
    rcases hadd with ⟨h1, h2⟩ | ⟨h1, h2⟩ <;> constructor <;> linarith [hO.1, hO.2, hF.1, hF.2]
  · rw [if_neg hadd]
    simp only [Bool.or_eq_true, Bool.and_eq_true, decide_eq_true_eq, not_or, not_and, not_lt] at hadd
    by_cases hpos : qH > qO
    · rw [if_pos (by simpa using hpos)]
      have hF' : qF ≤ qH := hadd.2 hpos
      have hd : 0 < qH - a := by linarith [hO.1]
      have h0 : 0 ≤ (qO - a) * (qF - a) / (qH - a) :=
        div_nonneg (mul_nonneg (by linarith [hO.1]) (by linarith [hF.1])) (le_of_lt hd)
      have h1 : (qO - a) * (qF - a) / (qH - a) ≤ qO - a := by
        rw [div_le_iff₀ hd]
        exact mul_le_mul_of_nonneg_left (by linarith) (by linarith [hO.1])
      constructor <;> linarith [hO.2]
    · rw [if_neg (by simpa using hpos)]
      by_cases hcl : Py.isclose qH qO = true
      · rw [if_pos hcl]; exact hF
      · rw [if_neg hcl]
        have hne : qH ≠ qO := by
          intro he; rw [he] at hcl; exact hcl (Lemmas.IsimipFreq.isclose_self qO)
        have hneg : qH < qO := lt_of_le_of_ne (not_lt.mp hpos) hne
        have hF' : qH ≤ qF := hadd.1 hneg
        have hd : 0 < b - qH := by linarith [hO.2]
        have h0 : 0 ≤ (b - qO) * (b - qF) / (b - qH) :=
          div_nonneg (mul_nonneg (by linarith [hO.2]) (by linarith [hF.2])) (le_of_lt hd)
        have h1 : (b - qO) * (b - qF) / (b - qH) ≤ b - qO := by
          rw [div_le_iff₀ hd]
          exact mul_le_mul_of_nonneg_left (by linarith) (by linarith [hO.2])
        constructor <;> linarith [hO.1]

theorem boundedTransfer_clip_noop (a b qO qH qF : Rat) (hO : a ≤ qO ∧ qO ≤ b) (hH : a ≤ qH ∧ qH ≤ b)
    (hF : a ≤ qF ∧ qF ≤ b) : boundedTransfer a b qO qH qF = boundedRaw a b qO qH qF := by
  obtain ⟨h1, h2⟩ := boundedRaw_range a b qO qH qF hO hH hF
  rw [boundedTransfer_eq_clip, min_eq_left h2, max_eq_right h1]

end Lemmas.C10
