/-
  General laws of the numeric toolkit (`Model/Stats.lean`) under a change of unit `g x = a·x + b`, `a > 0`
  (C04; the shift `x ↦ x + c` of C02 is the special case `a = 1`):

  * sorting commutes with strictly increasing maps, stable `argsort` / ranks are invariant under them;
  * `minQ`, `maxQ`, `mean` are equivariant;
  * both empirical cdfs are invariant: `ecdf (g • x) (g y) = ecdf x y`;
  * `np.interp` is invariant under an affine change of the knots `xp` and equivariant in the values `fp`;
  * all nine inverse empirical cdfs are equivariant: `iecdf (g • x) p = g (iecdf x p)` (lerp is affine);
  * the non-parametric quantile maps (`qmap`, `qmapExtrap`) and `interpOnLength` are equivariant.

  Everything is stated for `Model.Family.affine a b xs = xs.map (fun x => a * x + b)`.
  Guards are explicit: wherever the model reads a list through `getD · 0` the statement carries the
  hypothesis that makes the index valid (the default `0` is not mapped to `g 0 = b`).
-/
import IbicusModel.Lemmas.StatsQmap
import IbicusModel.Lemmas.Family

namespace Lemmas.StatsAffine
open Model.Stats Model.Family Lemmas.Stats

/-! ### the unit change -/

/-- `g x = a·x + b` -/
def aff (a b : Rat) (x : Rat) : Rat := a * x + b

theorem affine_eq_map (a b : Rat) (xs : List Rat) : affine a b xs = xs.map (aff a b) := rfl

theorem aff_strictMono {a : Rat} (ha : 0 < a) (b : Rat) : StrictMono (aff a b) := by
  intro x y h
  unfold aff
  have := mul_lt_mul_of_pos_left h ha
  linarith

theorem aff_le_iff {a : Rat} (ha : 0 < a) (b x y : Rat) : aff a b x ≤ aff a b y ↔ x ≤ y :=
  (aff_strictMono ha b).le_iff_le

theorem aff_lt_iff {a : Rat} (ha : 0 < a) (b x y : Rat) : aff a b x < aff a b y ↔ x < y :=
  (aff_strictMono ha b).lt_iff_lt

theorem aff_eq_iff {a : Rat} (ha : 0 < a) (b x y : Rat) : aff a b x = aff a b y ↔ x = y :=
  (aff_strictMono ha b).injective.eq_iff

theorem affine_length (a b : Rat) (xs : List Rat) : (affine a b xs).length = xs.length := by
  unfold affine; rw [List.length_map]

theorem affine_ne_nil {a b : Rat} {xs : List Rat} (h : xs ≠ []) : affine a b xs ≠ [] := by
  unfold affine; simpa using h

theorem affine_ne_nil_iff {a b : Rat} {xs : List Rat} : affine a b xs ≠ [] ↔ xs ≠ [] := by
  unfold affine; simp

theorem affine_id (xs : List Rat) : affine 1 0 xs = xs := by
  unfold affine; simp

/-- reading a mapped list through `getD · 0` at a valid index -/
theorem getD_map (g : Rat → Rat) (s : List Rat) (i : Nat) (h : i < s.length) :
    (s.map g).getD i 0 = g (s.getD i 0) := by
  rw [getD_eq _ i (by rw [List.length_map]; exact h), getD_eq s i h, List.getElem_map]

/-! ### sorting, argsort, ranks: strictly increasing maps -/

/-- **sorting commutes with strictly increasing maps** -/
theorem sortQ_map_mono {g : Rat → Rat} (hg : StrictMono g) (l : List Rat) :
    sortQ (l.map g) = (sortQ l).map g := by
  unfold sortQ
  symm
  apply List.map_mergeSort
  intro x _ y _
  simp only [hg.le_iff_le]

theorem sortQ_map_affine {a : Rat} (ha : 0 < a) (b : Rat) (l : List Rat) :
    sortQ (affine a b l) = affine a b (sortQ l) :=
  sortQ_map_mono (aff_strictMono ha b) l

/-- **the stable argsort is invariant under strictly increasing maps** -/
theorem argsort_map_mono {g : Rat → Rat} (hg : StrictMono g) (l : List Rat) :
    argsort (l.map g) = argsort l := by
  unfold argsort
  rw [List.length_map]
  have hz : (l.map g).zip (List.range l.length) = (l.zip (List.range l.length)).map (Prod.map g id) := by
    rw [List.zip_map_left]
  rw [hz]
  rw [← List.map_mergeSort (r := fun (p q : Rat × Nat) => decide (p.1 ≤ q.1))
    (s := fun (p q : Rat × Nat) => decide (p.1 ≤ q.1)) (f := Prod.map g id)]
  · rw [List.map_map]
    rfl
  · intro p _ q _
    simp only [Prod.map_fst, hg.le_iff_le]

theorem argsort_map_affine {a : Rat} (ha : 0 < a) (b : Rat) (l : List Rat) :
    argsort (affine a b l) = argsort l :=
  argsort_map_mono (aff_strictMono ha b) l

/-- **ranks are invariant under strictly increasing maps** -/
theorem rankOf_map_mono {g : Rat → Rat} (hg : StrictMono g) (l : List Rat) :
    rankOf (l.map g) = rankOf l := by
  unfold rankOf
  rw [argsort_map_mono hg]

theorem rankOf_map_affine {a : Rat} (ha : 0 < a) (b : Rat) (l : List Rat) :
    rankOf (affine a b l) = rankOf l :=
  rankOf_map_mono (aff_strictMono ha b) l

/-- `x[idx]` with valid indices commutes with any map -/
theorem takeIdx_map (g : Rat → Rat) (l : List Rat) (idx : List Nat) (h : ∀ i ∈ idx, i < l.length) :
    takeIdx (l.map g) idx = (takeIdx l idx).map g := by
  unfold takeIdx
  rw [List.map_map]
  apply List.map_congr_left
  intro i hi
  exact getD_map g l i (h i hi)

theorem argsort_valid (l : List Rat) : ∀ i ∈ argsort l, i < l.length := by
  intro i hi
  have := (argsort_perm l).mem_iff.mp hi
  exact List.mem_range.mp this

theorem rankOf_valid (l : List Rat) : ∀ i ∈ rankOf l, i < l.length := by
  intro i hi
  have := (rankOf_perm l).mem_iff.mp hi
  exact List.mem_range.mp this

/-- `sort_array_like_another_one` is equivariant in its first argument and invariant in its second -/
theorem sortLike_map_mono {g k : Rat → Rat} (hg : StrictMono g) (hk : StrictMono k) (x y : List Rat)
    (h : y.length ≤ x.length) : sortLike (x.map g) (y.map k) = (sortLike x y).map g := by
  unfold sortLike
  rw [rankOf_map_mono hk, sortQ_map_mono hg]
  apply takeIdx_map
  intro i hi
  rw [sortQ_length]
  exact lt_of_lt_of_le (rankOf_valid y i hi) h

/-! ### `minQ`, `maxQ`, `mean` -/

theorem foldl_min_map {g : Rat → Rat} (hg : Monotone g) (t : List Rat) (a : Rat) :
    (t.map g).foldl min (g a) = g (t.foldl min a) := by
  induction t generalizing a with
  | nil => rfl
  | cons c t ih => simp only [List.map_cons, List.foldl_cons]; rw [← hg.map_min, ih]

theorem foldl_max_map {g : Rat → Rat} (hg : Monotone g) (t : List Rat) (a : Rat) :
    (t.map g).foldl max (g a) = g (t.foldl max a) := by
  induction t generalizing a with
  | nil => rfl
  | cons c t ih => simp only [List.map_cons, List.foldl_cons]; rw [← hg.map_max, ih]

theorem minQ_map_mono {g : Rat → Rat} (hg : Monotone g) {l : List Rat} (hl : l ≠ []) :
    minQ (l.map g) = g (minQ l) := by
  cases l with
  | nil => exact absurd rfl hl
  | cons a t => simp only [List.map_cons, minQ]; exact foldl_min_map hg t a

theorem maxQ_map_mono {g : Rat → Rat} (hg : Monotone g) {l : List Rat} (hl : l ≠ []) :
    maxQ (l.map g) = g (maxQ l) := by
  cases l with
  | nil => exact absurd rfl hl
  | cons a t => simp only [List.map_cons, maxQ]; exact foldl_max_map hg t a

theorem minQ_map_affine {a : Rat} (ha : 0 < a) (b : Rat) {l : List Rat} (hl : l ≠ []) :
    minQ (affine a b l) = a * minQ l + b :=
  minQ_map_mono (aff_strictMono ha b).monotone hl

theorem maxQ_map_affine {a : Rat} (ha : 0 < a) (b : Rat) {l : List Rat} (hl : l ≠ []) :
    maxQ (affine a b l) = a * maxQ l + b :=
  maxQ_map_mono (aff_strictMono ha b).monotone hl

/-- the mean of the transformed sample (any `a`); same statement as `Lemmas.Family.mean_affine` -/
theorem mean_map_affine (a b : Rat) {l : List Rat} (hl : l ≠ []) : mean (affine a b l) = a * mean l + b :=
  Lemmas.Family.mean_affine a b l hl

/-- `x − mean x` scales by `a` and forgets `b` -/
theorem sub_mean_affine (a b : Rat) {l : List Rat} (hl : l ≠ []) (x : Rat) :
    aff a b x - mean (affine a b l) = a * (x - mean l) := by
  rw [mean_map_affine a b hl]; unfold aff; ring

/-! ### empirical cdfs are invariant -/

theorem ecdfStep1_map_mono {g : Rat → Rat} (hg : StrictMono g) (x : List Rat) (y : Rat) :
    ecdfStep1 (x.map g) (g y) = ecdfStep1 x y := by
  unfold ecdfStep1
  rw [List.filter_map, List.length_map, List.length_map]
  have : List.filter ((fun v => decide (v ≤ g y)) ∘ g) x = List.filter (fun v => decide (v ≤ y)) x := by
    apply List.filter_congr
    intro v _
    simp only [Function.comp, hg.le_iff_le]
  rw [this]

theorem ecdfStep1_map_affine {a : Rat} (ha : 0 < a) (b : Rat) (x : List Rat) (y : Rat) :
    ecdfStep1 (affine a b x) (a * y + b) = ecdfStep1 x y :=
  ecdfStep1_map_mono (aff_strictMono ha b) x y

theorem cnt_map_mono {g : Rat → Rat} (hg : StrictMono g) (xp : List Rat) (x : Rat) :
    cnt (xp.map g) (g x) = cnt xp x := by
  unfold cnt
  rw [List.takeWhile_map, List.length_map]
  have : ((fun v => decide (v ≤ g x)) ∘ g) = (fun v => decide (v ≤ x)) := by
    funext v
    simp only [Function.comp, hg.le_iff_le]
  rw [this]

theorem lastLE_map_mono {g : Rat → Rat} (hg : StrictMono g) (xp : List Rat) (x : Rat) :
    lastLE (xp.map g) (g x) = lastLE xp x := by
  rw [lastLE_eq, lastLE_eq, cnt_map_mono hg]

/-- **`np.interp` does not see an affine change of the abscissae** (`a > 0`) -/
theorem interp1_map_xp {a : Rat} (ha : 0 < a) (b : Rat) (xp fp : List Rat) (x : Rat) :
    interp1 (affine a b xp) fp (a * x + b) = interp1 xp fp x := by
  have hg := aff_strictMono ha b
  rw [affine_eq_map]
  change interp1 (xp.map (aff a b)) fp (aff a b x) = interp1 xp fp x
  unfold interp1
  rw [lastLE_map_mono hg, List.length_map]
  cases hl : lastLE xp x with
  | none => rfl
  | some j =>
    simp only
    by_cases hj : j + 1 ≥ xp.length
    · rw [if_pos hj, if_pos hj]
    · rw [if_neg hj, if_neg hj]
      have hj1 : j + 1 < xp.length := by omega
      rw [getD_map _ xp j (by omega), getD_map _ xp (j + 1) hj1]
      by_cases hx : x = xp.getD j 0
      · rw [if_pos hx, if_pos (by rw [hx])]
      · rw [if_neg hx, if_neg (fun h => hx ((aff_eq_iff ha b _ _).mp h))]
        congr 1
        unfold aff
        by_cases hd : xp.getD (j + 1) 0 - xp.getD j 0 = 0
        · have : a * xp.getD (j + 1) 0 + b - (a * xp.getD j 0 + b) = 0 := by
            have : a * xp.getD (j + 1) 0 + b - (a * xp.getD j 0 + b) = a * (xp.getD (j + 1) 0 - xp.getD j 0) := by ring
            rw [this, hd, mul_zero]
          rw [this, hd]; simp
        · have ha' : a ≠ 0 := ne_of_gt ha
          have : a * xp.getD (j + 1) 0 + b - (a * xp.getD j 0 + b) = a * (xp.getD (j + 1) 0 - xp.getD j 0) := by ring
          rw [this]
          field_simp
          ring

/-- **`np.interp` is affine in the ordinates** (any `a`), guard: as many ordinates as abscissae, at least one -/
theorem interp1_map_fp (a b : Rat) (xp fp : List Rat) (x : Rat) (hlen : fp.length = xp.length) (hne : fp ≠ []) :
    interp1 xp (affine a b fp) x = a * interp1 xp fp x + b := by
  have hpos : 0 < fp.length := List.length_pos_iff.mpr hne
  rw [affine_eq_map]
  unfold interp1
  rw [List.length_map]
  cases hl : lastLE xp x with
  | none => simp only; rw [getD_map _ fp 0 hpos]; rfl
  | some j =>
    simp only
    by_cases hj : j + 1 ≥ xp.length
    · rw [if_pos hj, if_pos hj, getD_map _ fp _ (by omega)]; rfl
    · rw [if_neg hj, if_neg hj]
      rw [getD_map _ fp j (by omega), getD_map _ fp (j + 1) (by omega)]
      by_cases hx : x = xp.getD j 0
      · rw [if_pos hx, if_pos hx]; rfl
      · rw [if_neg hx, if_neg hx]
        unfold aff
        ring

theorem ecdfLin1_map_affine {a : Rat} (ha : 0 < a) (b : Rat) (x : List Rat) (y : Rat) :
    ecdfLin1 (affine a b x) (a * y + b) = ecdfLin1 x y := by
  unfold ecdfLin1
  rw [sortQ_map_affine ha, affine_length, interp1_map_xp ha]

/-- **both empirical cdfs are invariant under a change of unit** -/
theorem ecdf1_map_affine {a : Rat} (ha : 0 < a) (b : Rat) (m : EcdfMethod) (x : List Rat) (y : Rat) :
    ecdf1 m (affine a b x) (a * y + b) = ecdf1 m x y := by
  cases m
  · exact ecdfStep1_map_affine ha b x y
  · exact ecdfLin1_map_affine ha b x y

theorem ecdf_map_affine {a : Rat} (ha : 0 < a) (b : Rat) (m : EcdfMethod) (x ys : List Rat) :
    ecdf m (affine a b x) (affine a b ys) = ecdf m x ys := by
  unfold ecdf affine
  rw [List.map_map]
  apply List.map_congr_left
  intro y _
  exact ecdf1_map_affine ha b m x y

/-- every empirical cdf value is at most 1 (all sample sizes, the degenerate ones included) -/
theorem ecdf1_le_one (m : EcdfMethod) (x : List Rat) (y : Rat) : ecdf1 m x y ≤ 1 := by
  cases m
  · exact (ecdfStep_range x y).2
  · change ecdfLin1 x y ≤ 1
    by_cases hn : 2 ≤ x.length
    · exact (ecdfLin_range hn y).2
    · -- zero or one sample value: the interpolant is the constant 0
      have hs : (sortQ x).length = x.length := sortQ_length x
      unfold ecdfLin1 interp1
      cases hl : lastLE (sortQ x) y with
      | none =>
        simp only
        unfold linspace
        split_ifs <;> (simp [List.getD]; try norm_num)
        all_goals (have : x.length = 0 := by omega); simp [this]
      | some j =>
        simp only
        have hj : j + 1 ≥ (sortQ x).length := by omega
        rw [if_pos hj]
        unfold linspace
        split_ifs <;> (simp [List.getD]; try norm_num)
        all_goals (have : x.length = 0 := by omega); simp [this]

theorem ecdf1_nonneg (m : EcdfMethod) (x : List Rat) (y : Rat) : 0 ≤ ecdf1 m x y := by
  cases m
  · exact (ecdfStep_range x y).1
  · change 0 ≤ ecdfLin1 x y
    by_cases hn : 2 ≤ x.length
    · exact (ecdfLin_range hn y).1
    · have hs : (sortQ x).length = x.length := sortQ_length x
      unfold ecdfLin1 interp1
      cases hl : lastLE (sortQ x) y with
      | none =>
        simp only
        unfold linspace
        split_ifs <;> (simp [List.getD]; try norm_num)
        all_goals (have : x.length = 0 := by omega); simp [this]
      | some j =>
        simp only
        have hj : j + 1 ≥ (sortQ x).length := by omega
        rw [if_pos hj]
        unfold linspace
        split_ifs <;> (simp [List.getD]; try norm_num)
        all_goals (have : x.length = 0 := by omega); simp [this]

/-! ### inverse empirical cdfs are equivariant (`lerp` is affine) -/

/-- Python-style indexing of a mapped sample at a valid index (negative indices are always valid on a non-empty
    sample in the model: `len − k` saturates) -/
theorem pyIdx_map (g : Rat → Rat) {s : List Rat} (hne : s ≠ []) (i : Int) (hi : i < 0 ∨ i.toNat < s.length) :
    pyIdx (s.map g) i = g (pyIdx s i) := by
  have hpos : 0 < s.length := List.length_pos_iff.mpr hne
  unfold pyIdx
  rw [List.length_map]
  by_cases h : i < 0
  · rw [if_pos h, if_pos h]
    apply getD_map
    have : 1 ≤ (-i).toNat := by omega
    omega
  · rw [if_neg h, if_neg h]
    apply getD_map
    rcases hi with hi | hi
    · exact absurd hi h
    · exact hi

theorem lerp_aff (a b p q t : Rat) : lerp (aff a b p) (aff a b q) t = aff a b (lerp p q t) := by
  unfold lerp aff; ring

/-- the clamped index interpolation (continuous `np.quantile` methods) commutes with a change of unit (any `a`) -/
theorem clampLerp_map_affine (a b : Rat) {s : List Rat} (hne : s ≠ []) (vi : Rat) :
    clampLerp (affine a b s) vi = a * clampLerp s vi + b := by
  have hpos : 0 < s.length := List.length_pos_iff.mpr hne
  rw [affine_eq_map]
  unfold clampLerp
  rw [List.length_map]
  by_cases h1 : vi ≥ (s.length : Rat) - 1
  · rw [if_pos h1, if_pos h1, pyIdx_map _ hne _ (Or.inl (by decide))]; rfl
  rw [if_neg h1, if_neg h1]
  by_cases h0 : vi < 0
  · rw [if_pos h0, if_pos h0, pyIdx_map _ hne _ (Or.inr (by simpa using hpos))]; rfl
  rw [if_neg h0, if_neg h0]
  obtain ⟨k, hk, hkn⟩ := interior_floor h0 h1
  rw [hk, pyIdx_map _ hne _ (Or.inr (by simp; omega)), pyIdx_map _ hne _ (Or.inr (by
    have : ((k : Int) + 1).toNat = k + 1 := by omega
    rw [this]; exact hkn)), lerp_aff]
  rfl

theorem avgAt_map_affine (a b : Rat) {s : List Rat} (hne : s ≠ []) (vi : Rat) :
    avgAt (affine a b s) vi = a * avgAt s vi + b := by
  have hpos : 0 < s.length := List.length_pos_iff.mpr hne
  rw [affine_eq_map]
  unfold avgAt
  rw [List.length_map]
  by_cases h1 : vi ≥ (s.length : Rat) - 1
  · rw [if_pos h1, if_pos h1, pyIdx_map _ hne _ (Or.inl (by decide))]; rfl
  rw [if_neg h1, if_neg h1]
  by_cases h0 : vi < 0
  · rw [if_pos h0, if_pos h0, pyIdx_map _ hne _ (Or.inr (by simpa using hpos))]; rfl
  rw [if_neg h0, if_neg h0]
  obtain ⟨k, hk, hkn⟩ := interior_floor h0 h1
  rw [hk, pyIdx_map _ hne _ (Or.inr (by simp; omega)), pyIdx_map _ hne _ (Or.inr (by
    have : ((k : Int) + 1).toNat = k + 1 := by omega
    rw [this]; exact hkn)), lerp_aff]
  rfl

theorem quantileAB_map_affine (a b α β : Rat) {s : List Rat} (hne : s ≠ []) (q : Rat) :
    quantileAB α β (affine a b s) q = a * quantileAB α β s q + b := by
  rw [quantileAB_eq, quantileAB_eq, affine_length, clampLerp_map_affine a b hne]

theorem quantileLinear_map_affine (a b : Rat) {s : List Rat} (hne : s ≠ []) (q : Rat) :
    quantileLinear (affine a b s) q = a * quantileLinear s q + b := by
  rw [quantileLinear_eq, quantileLinear_eq, affine_length, clampLerp_map_affine a b hne]

theorem quantileAveraged_map_affine (a b : Rat) {s : List Rat} (hne : s ≠ []) (q : Rat) :
    quantileAveraged (affine a b s) q = a * quantileAveraged s q + b := by
  rw [quantileAveraged_eq', quantileAveraged_eq', affine_length, avgAt_map_affine a b hne]

/-- `closest_observation`; the guard `q ≤ 1` keeps the index inside the sample (numpy raises otherwise) -/
theorem quantileClosest_map_affine (a b : Rat) {s : List Rat} (hne : s ≠ []) {q : Rat} (h1 : q ≤ 1) :
    quantileClosest (affine a b s) q = a * quantileClosest s q + b := by
  have hpos : 0 < s.length := List.length_pos_iff.mpr hne
  obtain ⟨k, hk, hkn⟩ := closest_index_nat hpos h1
  rw [quantileClosest_eq, quantileClosest_eq, affine_length, hk, affine_eq_map,
    pyIdx_map _ hne _ (Or.inr (by simp; omega))]
  rfl

/-- ibicus' own `IECDF`; the guard `q ≤ 1` keeps the index inside the sample -/
theorem iecdfInverted_map_affine (a b : Rat) {s : List Rat} (hne : s ≠ []) {q : Rat} (h1 : q ≤ 1) :
    iecdfInverted (affine a b s) q = a * iecdfInverted s q + b := by
  have hpos : 0 < s.length := List.length_pos_iff.mpr hne
  unfold iecdfInverted
  rw [affine_length, affine_eq_map]
  have hidx : (((s.length : Rat) - 1) * q).floor < 0 ∨ (((s.length : Rat) - 1) * q).floor.toNat < s.length := by
    by_cases hneg : (((s.length : Rat) - 1) * q).floor < 0
    · exact Or.inl hneg
    · right
      have hn' : (1 : Rat) ≤ (s.length : Rat) := by exact_mod_cast hpos
      have hv1 : ((s.length : Rat) - 1) * q ≤ (s.length : Rat) - 1 := by
        have := mul_le_mul_of_nonneg_left h1 (by linarith : (0 : Rat) ≤ (s.length : Rat) - 1)
        linarith
      have hfl : (((s.length : Rat) - 1) * q).floor < (s.length : Int) := by
        rw [Rat.floor_lt_iff]; push_cast; linarith
      omega
  rw [pyIdx_map _ hne _ hidx]
  rfl

/-- **all nine inverse empirical cdfs (on the sorted sample) are equivariant** (any `a`; sorting needs `a > 0`).
    Guard: sample non-empty; `q ≤ 1` (used by the two discrete index methods only). -/
theorem iecdfSorted_map_affine (a b : Rat) (m : IecdfMethod) {s : List Rat} (hne : s ≠ []) {q : Rat} (h1 : q ≤ 1) :
    iecdfSorted m (affine a b s) q = a * iecdfSorted m s q + b := by
  cases m <;> unfold iecdfSorted
  · exact iecdfInverted_map_affine a b hne h1
  · exact quantileAveraged_map_affine a b hne q
  · exact quantileClosest_map_affine a b hne h1
  · exact quantileAB_map_affine a b _ _ hne q
  · exact quantileAB_map_affine a b _ _ hne q
  · exact quantileAB_map_affine a b _ _ hne q
  · exact quantileLinear_map_affine a b hne q
  · exact quantileAB_map_affine a b _ _ hne q
  · exact quantileAB_map_affine a b _ _ hne q

/-- **`iecdf (a•x+b) q = a · iecdf x q + b`** for every method, `a > 0`, `x ≠ []`, `q ≤ 1` -/
theorem iecdf1_map_affine {a : Rat} (ha : 0 < a) (b : Rat) (m : IecdfMethod) {x : List Rat} (hne : x ≠ [])
    {q : Rat} (h1 : q ≤ 1) : iecdf1 m (affine a b x) q = a * iecdf1 m x q + b := by
  unfold iecdf1
  rw [sortQ_map_affine ha, iecdfSorted_map_affine a b m (sortQ_ne_nil hne) h1]

theorem iecdf_map_affine {a : Rat} (ha : 0 < a) (b : Rat) (m : IecdfMethod) {x : List Rat} (hne : x ≠ [])
    (qs : List Rat) (h1 : ∀ q ∈ qs, q ≤ 1) : iecdf m (affine a b x) qs = affine a b (iecdf m x qs) := by
  unfold iecdf affine
  rw [List.map_map]
  apply List.map_congr_left
  intro q hq
  exact iecdf1_map_affine ha b m hne (h1 q hq)

/-! ### non-parametric quantile maps -/

theorem ecdf_le_one (m : EcdfMethod) (x ys : List Rat) : ∀ q ∈ ecdf m x ys, q ≤ 1 := by
  intro q hq
  unfold ecdf at hq
  obtain ⟨y, _, rfl⟩ := List.mem_map.mp hq
  exact ecdf1_le_one m x y

/-- `quantile_map_non_parametically` is equivariant: the cdf values do not change, the quantiles carry the unit -/
theorem qmap_map_affine {a : Rat} (ha : 0 < a) (b : Rat) (em : EcdfMethod) (im : IecdfMethod)
    (x : List Rat) {y : List Rat} (hy : y ≠ []) (vals : List Rat) :
    qmap em im (affine a b x) (affine a b y) (affine a b vals) = affine a b (qmap em im x y vals) := by
  unfold qmap
  rw [ecdf_map_affine ha, iecdf_map_affine ha b im hy _ (ecdf_le_one em x vals)]

theorem qmap_length (em : EcdfMethod) (im : IecdfMethod) (x y vals : List Rat) :
    (qmap em im x y vals).length = vals.length := by
  unfold qmap iecdf ecdf; simp

/-- `quantile_map_non_parametically_with_constant_extrapolation` is equivariant -/
theorem qmapExtrap_map_affine {a : Rat} (ha : 0 < a) (b : Rat) (em : EcdfMethod) (im : IecdfMethod)
    {x y : List Rat} (hx : x ≠ []) (hy : y ≠ []) (vals : List Rat) :
    qmapExtrap em im (affine a b x) (affine a b y) (affine a b vals) = affine a b (qmapExtrap em im x y vals) := by
  unfold qmapExtrap
  simp only
  rw [qmap_map_affine ha b em im x hy, minQ_map_affine ha b hx, maxQ_map_affine ha b hx,
    minQ_map_affine ha b hy, maxQ_map_affine ha b hy]
  unfold affine
  rw [List.zipWith_map_left, List.zipWith_map_right, List.map_zipWith]
  congr 1
  funext v m
  have e1 : (a * v + b > a * maxQ x + b) = (v > maxQ x) := by
    apply propext; constructor <;> intro h
    · have : a * maxQ x < a * v := by linarith
      exact lt_of_mul_lt_mul_left this (le_of_lt ha)
    · have := mul_lt_mul_of_pos_left h ha; linarith
  have e2 : (a * v + b < a * minQ x + b) = (v < minQ x) := by
    apply propext; constructor <;> intro h
    · have : a * v < a * minQ x := by linarith
      exact lt_of_mul_lt_mul_left this (le_of_lt ha)
    · have := mul_lt_mul_of_pos_left h ha; linarith
  simp only [e1, e2]
  split_ifs <;> ring

/-! ### `interp_sorted_cdf_vals_on_given_length` -/

/-- interpolating onto another length is affine in the interpolated values (any `a`), guard: at least one value -/
theorem interpOnLength_map_affine (a b : Rat) {cdf : List Rat} (hne : cdf ≠ []) (m : Nat) :
    interpOnLength (affine a b cdf) m = affine a b (interpOnLength cdf m) := by
  unfold interpOnLength interp
  rw [affine_length]
  conv_rhs => unfold affine
  rw [List.map_map]
  apply List.map_congr_left
  intro x _
  simp only [Function.comp]
  exact interp1_map_fp a b _ cdf x (by rw [linspace_length]) hne

theorem interpOnLength_length (cdf : List Rat) (m : Nat) : (interpOnLength cdf m).length = m := by
  unfold interpOnLength interp
  rw [List.length_map, linspace_length]

end Lemmas.StatsAffine
