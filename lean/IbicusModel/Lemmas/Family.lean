/-
  The rational test-double family `ratSigmoid` satisfies `LocScaleLaws` — the non-vacuity witness of every
  parametric theorem — and the derived laws of an arbitrary location–scale family (`ppf ∘ cdf = id`, …) with
  their guards (`scale ≠ 0`, `0 < scale`) explicit.
-/
import IbicusModel.Model.Family
import Mathlib.Tactic.Linarith
import Mathlib.Tactic.Ring
import Mathlib.Tactic.FieldSimp
import Mathlib.Tactic.Positivity
import Mathlib.Algebra.Order.Field.Basic
import Mathlib.Algebra.BigOperators.Group.List.Basic
import Mathlib.Algebra.Order.BigOperators.Group.List

namespace Lemmas.Family
open Model.Family Model.Stats

/-! ### `Py.absQ` -/

theorem absQ_of_nonneg {q : Rat} (h : 0 ≤ q) : Py.absQ q = q := by
  unfold Py.absQ; rw [if_neg (not_lt.mpr h)]

theorem absQ_of_neg {q : Rat} (h : q < 0) : Py.absQ q = -q := by
  unfold Py.absQ; rw [if_pos h]

theorem absQ_nonneg (q : Rat) : 0 ≤ Py.absQ q := by
  rcases lt_or_ge q 0 with h | h
  · rw [absQ_of_neg h]; linarith
  · rw [absQ_of_nonneg h]; exact h

theorem absQ_neg (q : Rat) : Py.absQ (-q) = Py.absQ q := by
  rcases lt_trichotomy q 0 with h | h | h
  · rw [absQ_of_neg h, absQ_of_nonneg (by linarith)]
  · subst h; simp
  · rw [absQ_of_nonneg (le_of_lt h), absQ_of_neg (by linarith)]; ring

theorem absQ_mul_of_pos {a : Rat} (ha : 0 < a) (q : Rat) : Py.absQ (a * q) = a * Py.absQ q := by
  rcases lt_or_ge q 0 with h | h
  · rw [absQ_of_neg h, absQ_of_neg (mul_neg_of_pos_of_neg ha h)]; ring
  · rw [absQ_of_nonneg h, absQ_of_nonneg (mul_nonneg (le_of_lt ha) h)]

/-! ### the standard sigmoid -/

theorem one_add_absQ_pos (z : Rat) : 0 < 1 + Py.absQ z := by
  have := absQ_nonneg z; linarith

/-- `s z = z / (1 + |z|)` is strictly increasing -/
theorem sig_core_strictMono {a b : Rat} (h : a < b) :
    a / (1 + Py.absQ a) < b / (1 + Py.absQ b) := by
  have ha := one_add_absQ_pos a
  have hb := one_add_absQ_pos b
  rw [div_lt_div_iff₀ ha hb]
  rcases lt_or_ge a 0 with h1 | h1 <;> rcases lt_or_ge b 0 with h2 | h2
  · rw [absQ_of_neg h1, absQ_of_neg h2]; nlinarith
  · rw [absQ_of_neg h1, absQ_of_nonneg h2]; nlinarith [mul_nonneg h2 (le_of_lt (neg_pos.mpr h1))]
  · linarith
  · rw [absQ_of_nonneg h1, absQ_of_nonneg h2]; nlinarith

theorem sig_core_lt_one (z : Rat) : z / (1 + Py.absQ z) < 1 := by
  rw [div_lt_one (one_add_absQ_pos z)]
  rcases lt_or_ge z 0 with h | h
  · rw [absQ_of_neg h]; linarith
  · rw [absQ_of_nonneg h]; linarith

theorem neg_one_lt_sig_core (z : Rat) : -1 < z / (1 + Py.absQ z) := by
  rw [lt_div_iff₀ (one_add_absQ_pos z)]
  rcases lt_or_ge z 0 with h | h
  · rw [absQ_of_neg h]; linarith
  · rw [absQ_of_nonneg h]; linarith

theorem sigG_strictMono (a b : Rat) (h : a < b) : sigG a < sigG b := by
  unfold sigG
  have := sig_core_strictMono h
  linarith

theorem sigG_pos (z : Rat) : 0 < sigG z := by
  unfold sigG; have := neg_one_lt_sig_core z; linarith

theorem sigG_lt_one (z : Rat) : sigG z < 1 := by
  unfold sigG; have := sig_core_lt_one z; linarith

theorem two_sigG_sub_one (z : Rat) : 2 * sigG z - 1 = z / (1 + Py.absQ z) := by
  unfold sigG; ring

theorem sigGinv_sigG (z : Rat) : sigGinv (sigG z) = z := by
  unfold sigGinv
  rw [two_sigG_sub_one]
  rcases lt_or_ge z 0 with h | h
  · have hz : (1 : Rat) - z ≠ 0 := by linarith
    have hw : z / (1 + Py.absQ z) < 0 := by
      rw [absQ_of_neg h]; exact div_neg_of_neg_of_pos h (by linarith)
    rw [absQ_of_neg hw, absQ_of_neg h]
    have : (1 : Rat) + -z ≠ 0 := by linarith
    field_simp
    ring
  · have hw : 0 ≤ z / (1 + Py.absQ z) := by
      rw [absQ_of_nonneg h]; exact div_nonneg h (by linarith)
    rw [absQ_of_nonneg hw, absQ_of_nonneg h]
    have : (1 : Rat) + z ≠ 0 := by linarith
    field_simp
    ring

theorem sigG_sigGinv (p : Rat) (h0 : 0 < p) (h1 : p < 1) : sigG (sigGinv p) = p := by
  unfold sigG sigGinv
  rcases lt_or_ge (2 * p - 1) 0 with h | h
  · rw [absQ_of_neg h]
    have hd : (1 : Rat) - -(2 * p - 1) ≠ 0 := by linarith
    have hv : (2 * p - 1) / (1 - -(2 * p - 1)) < 0 := div_neg_of_neg_of_pos h (by linarith)
    rw [absQ_of_neg hv]
    have hd2 : (1 : Rat) + -((2 * p - 1) / (1 - -(2 * p - 1))) ≠ 0 := by
      have : 0 < -((2 * p - 1) / (1 - -(2 * p - 1))) := by linarith
      linarith
    have hp : (2 : Rat) * p ≠ 0 := by linarith
    field_simp
    ring
  · rw [absQ_of_nonneg h]
    have hd : (1 : Rat) - (2 * p - 1) ≠ 0 := by linarith
    have hv : 0 ≤ (2 * p - 1) / (1 - (2 * p - 1)) := div_nonneg h (by linarith)
    rw [absQ_of_nonneg hv]
    have hd2 : (1 : Rat) + (2 * p - 1) / (1 - (2 * p - 1)) ≠ 0 := by linarith
    field_simp
    ring

theorem sigG_zero : sigG 0 = 1 / 2 := by
  unfold sigG; simp [absQ_of_nonneg (le_refl (0 : Rat))]

theorem sigG_neg (z : Rat) : sigG (-z) = 1 - sigG z := by
  unfold sigG; rw [absQ_neg]; ring

theorem sigGinv_symm (q : Rat) : sigGinv (1 - q) = - sigGinv q := by
  unfold sigGinv
  have : 2 * (1 - q) - 1 = -(2 * q - 1) := by ring
  rw [this, absQ_neg, neg_div]

/-! ### the estimators: mean and mean absolute deviation -/

theorem length_cast_ne_zero {xs : List Rat} (h : xs ≠ []) : ((xs.length : Nat) : Rat) ≠ 0 := by
  have : xs.length ≠ 0 := fun h0 => h (List.length_eq_zero_iff.mp h0)
  exact_mod_cast this

theorem sum_affine (a b : Rat) (xs : List Rat) :
    (xs.map (fun x => a * x + b)).sum = a * xs.sum + b * (xs.length : Rat) := by
  induction xs with
  | nil => simp
  | cons x t ih => simp only [List.map_cons, List.sum_cons, List.length_cons, ih]; push_cast; ring

theorem mean_affine (a b : Rat) (xs : List Rat) (h : xs ≠ []) :
    mean (affine a b xs) = a * mean xs + b := by
  unfold mean affine
  rw [sum_affine, List.length_map]
  have := length_cast_ne_zero h
  field_simp

theorem sum_map_mul (a : Rat) (xs : List Rat) : (xs.map (fun x => a * x)).sum = a * xs.sum := by
  induction xs with
  | nil => simp
  | cons x t ih => simp only [List.map_cons, List.sum_cons, ih]; ring

theorem meanAbsDev_affine (a b : Rat) (xs : List Rat) (ha : 0 < a) (h : xs ≠ []) :
    meanAbsDev (affine a b xs) = a * meanAbsDev xs := by
  unfold meanAbsDev
  rw [mean_affine a b xs h]
  have hmap : (affine a b xs).map (fun x => Py.absQ (x - (a * mean xs + b)))
      = (xs.map (fun x => Py.absQ (x - mean xs))).map (fun d => a * d) := by
    unfold affine
    rw [List.map_map, List.map_map]
    apply List.map_congr_left
    intro x _
    simp only [Function.comp]
    rw [← absQ_mul_of_pos ha]
    congr 1; ring
  rw [hmap]
  unfold mean
  rw [sum_map_mul, List.length_map, List.length_map]
  ring

theorem mean_perm {xs ys : List Rat} (h : xs.Perm ys) : mean xs = mean ys := by
  unfold mean; rw [h.sum_eq, h.length_eq]

theorem meanAbsDev_perm {xs ys : List Rat} (h : xs.Perm ys) : meanAbsDev xs = meanAbsDev ys := by
  unfold meanAbsDev
  rw [mean_perm h]
  exact mean_perm (h.map _)

theorem meanAbsDev_nonneg (xs : List Rat) : 0 ≤ meanAbsDev xs := by
  unfold meanAbsDev mean
  apply div_nonneg
  · apply List.sum_nonneg
    intro d hd
    rcases List.mem_map.mp hd with ⟨x, _, rfl⟩
    exact absQ_nonneg _
  · exact_mod_cast Nat.zero_le _

/-- **Non-vacuity witness**: the executable rational family satisfies every law of `LocScaleLaws`. -/
theorem ratSigmoid_laws : LocScaleLaws ratSigmoid where
  G_strictMono := sigG_strictMono
  G_pos := sigG_pos
  G_lt_one := sigG_lt_one
  Ginv_G := sigGinv_sigG
  G_Ginv := sigG_sigGinv
  G_zero := sigG_zero
  G_neg := sigG_neg
  Ginv_symm := sigGinv_symm
  loc_affine := fun a b xs _ h => mean_affine a b xs h
  scale_affine := fun a b xs ha h => meanAbsDev_affine a b xs ha h
  loc_perm := fun _ _ h => mean_perm h
  scale_perm := fun _ _ h => meanAbsDev_perm h
  scale_nonneg := meanAbsDev_nonneg

/-! ### derived laws of any location–scale family (guards explicit) -/

section derived
variable {F : LocScaleFam} (L : LocScaleLaws F)
include L

/-- `ppf p (cdf p x) = x`, guard `scale ≠ 0` -/
theorem ppf_cdf (p : Rat × Rat) (hs : p.2 ≠ 0) (x : Rat) : F.ppf p (F.cdf p x) = x := by
  unfold LocScaleFam.ppf LocScaleFam.cdf
  rw [L.Ginv_G]
  field_simp
  ring

/-- `cdf p (ppf p q) = q` on `(0, 1)`, guard `scale ≠ 0` -/
theorem cdf_ppf (p : Rat × Rat) (hs : p.2 ≠ 0) (q : Rat) (h0 : 0 < q) (h1 : q < 1) :
    F.cdf p (F.ppf p q) = q := by
  unfold LocScaleFam.ppf LocScaleFam.cdf
  have : (p.1 + p.2 * F.Ginv q - p.1) / p.2 = F.Ginv q := by field_simp; ring
  rw [this, L.G_Ginv q h0 h1]

/-- the cdf is strictly increasing, guard `0 < scale` -/
theorem cdf_strictMono (p : Rat × Rat) (hs : 0 < p.2) {x y : Rat} (h : x < y) : F.cdf p x < F.cdf p y := by
  unfold LocScaleFam.cdf
  apply L.G_strictMono
  exact div_lt_div_of_pos_right (by linarith) hs

/-- `Ginv` is strictly increasing on `(0, 1)` -/
theorem Ginv_strictMono {p q : Rat} (hp0 : 0 < p) (hq1 : q < 1) (h : p < q) : F.Ginv p < F.Ginv q := by
  by_contra hc
  have hle : F.Ginv q ≤ F.Ginv p := not_lt.mp hc
  have hp1 : p < 1 := lt_trans h hq1
  have hq0 : 0 < q := lt_trans hp0 h
  rcases lt_or_eq_of_le hle with hlt | heq
  · have := L.G_strictMono _ _ hlt
    rw [L.G_Ginv q hq0 hq1, L.G_Ginv p hp0 hp1] at this
    linarith
  · have : F.G (F.Ginv q) = F.G (F.Ginv p) := by rw [heq]
    rw [L.G_Ginv q hq0 hq1, L.G_Ginv p hp0 hp1] at this
    linarith

/-- the ppf is strictly increasing on `(0, 1)`, guard `0 < scale` -/
theorem ppf_strictMono (p : Rat × Rat) (hs : 0 < p.2) {q r : Rat} (hq0 : 0 < q) (hr1 : r < 1) (h : q < r) :
    F.ppf p q < F.ppf p r := by
  unfold LocScaleFam.ppf
  have := Ginv_strictMono L hq0 hr1 h
  nlinarith

/-- `Ginv (1/2) = 0` -/
theorem Ginv_half : F.Ginv (1 / 2) = 0 := by
  have := L.Ginv_G 0
  rwa [L.G_zero] at this

/-- `fit (a • xs + b) = (a · loc + b, a · scale)` for `a > 0` -/
theorem fit_affine (a b : Rat) (xs : List Rat) (ha : 0 < a) (h : xs ≠ []) :
    F.fit (affine a b xs) = (a * F.loc xs + b, a * F.scale xs) := by
  unfold LocScaleFam.fit
  rw [L.loc_affine a b xs ha h, L.scale_affine a b xs ha h]

theorem fit_perm {xs ys : List Rat} (h : xs.Perm ys) : F.fit xs = F.fit ys := by
  unfold LocScaleFam.fit
  rw [L.loc_perm xs ys h, L.scale_perm xs ys h]

omit L in
/-- the cdf of the transformed sample at the transformed point is the cdf of the sample at the point
    (what makes quantile mapping unit-equivariant), guards `a > 0`, `scale ≠ 0` -/
theorem cdf_affine (a b : Rat) (p : Rat × Rat) (ha : 0 < a) (x : Rat) :
    F.cdf (a * p.1 + b, a * p.2) (a * x + b) = F.cdf p x := by
  unfold LocScaleFam.cdf
  congr 1
  simp only
  have ha' : a ≠ 0 := ne_of_gt ha
  by_cases hs : p.2 = 0
  · simp [hs]
  · field_simp
    ring

omit L in
theorem ppf_affine (a b : Rat) (p : Rat × Rat) (q : Rat) :
    F.ppf (a * p.1 + b, a * p.2) q = a * F.ppf p q + b := by
  unfold LocScaleFam.ppf
  simp only
  ring

end derived

/-- concrete instance of the derived laws for the executable family (sanity: the guards are satisfiable) -/
example : ratSigmoid.ppf (ratSigmoid.fit [1, 2, 4]) (ratSigmoid.cdf (ratSigmoid.fit [1, 2, 4]) 3) = 3 := by
  decide +kernel

end Lemmas.Family
