/-
  Tier A proof obligations for the ISIMIP steps (C10 / C02): the per-element functions and list-level definitions
  regenerated from /repo's current `ibicus/debias/_isimip.py` by `translator/extract_isimip_steps.py`
  (`Gen.IsimipSteps`) equal the hand-written model (`Model.Isimip`) on which the property theorems are stated.
  A change of the code that changes a formula, a mask, the order of the masked assignments, the final clip or the
  dispatch breaks one of these.  The proofs never mention the names of the code's local variables (generated
  definitions are applied positionally), so renaming a local keeps them.
-/
import IbicusModel.Model.Isimip
import IbicusModel.Gen.IsimipSteps
import IbicusModel.Gen.IsimipFreq
import IbicusModel.Lemmas.IsimipFreq
import Mathlib.Tactic.Linarith
import Mathlib.Tactic.Ring

set_option linter.unusedSimpArgs false
set_option linter.unusedVariables false

namespace Lemmas.GenIsimipSteps
open Model.Isimip Model.Stats

/-! ### Step 5: `_step5_transfer_trend` -/

/-- the attribute value `trend_preservation_method` of each typed method (attrs validator: one of the four) -/
def methodStr : TrendMethod → String
  | .additive => "additive"
  | .multiplicative => "multiplicative"
  | .mixed => "mixed"
  | .bounded => "bounded"

/-- the model's oracle `t ↦ cos(t·π/8)` built from the extern symbols `np.cos`, `np.pi` of the generated code -/
def withCos (np_cos : Rat → Rat) (np_pi : Rat) (o : Oracles) : Oracles :=
  { o with cosPi8 := fun t => np_cos (t * np_pi / 8) }

/-- branch `additive`, one element: `obs_hist + (q_cm_future - q_cm_hist)` -/
theorem transfer_trend_additive (x qO qF qH : Rat) :
    Gen.IsimipSteps.transfer_trend_additive x qO qF qH = x + (qF - qH) := rfl

/-- branch `multiplicative`, one element: `obs_hist * deltaMult` (clipped to `[0.01, 100]`, `1` where `q_cm_hist = 0`) -/
theorem transfer_trend_multiplicative (x qO qF qH : Rat) :
    Gen.IsimipSteps.transfer_trend_multiplicative x qO qF qH = x * deltaMult qH qF := by
  unfold Gen.IsimipSteps.transfer_trend_multiplicative deltaMult
  simp

/-- branch `mixed`, one element (`q_obs_hist` is `obs_hist`): formula 6 with `gamma` of formula 7 -/
theorem transfer_trend_mixed (np_cos : Rat → Rat) (np_pi : Rat) (o : Oracles) (x qF qH : Rat) :
    Gen.IsimipSteps.transfer_trend_mixed np_cos np_pi x x qF qH =
      gammaMixed (withCos np_cos np_pi o) x qH * x * deltaMult qH qF
        + (1 - gammaMixed (withCos np_cos np_pi o) x qH) * (x + (qF - qH)) := by
  unfold Gen.IsimipSteps.transfer_trend_mixed gammaMixed deltaMult withCos
  by_cases h1 : qH < x
  · by_cases h2 : x < 9 * qH
    · simp [h1, h2]
    · have h3 : ¬ qH ≥ x := not_le.mpr h1
      simp [h1, h2, h3]
  · have h3 : qH ≥ x := not_lt.mp h1
    simp [h1, h3]

theorem isclose_self (q : Rat) : Py.isclose q q = true := by
  unfold Py.isclose
  have h := Lemmas.IsimipFreq.absQ_nonneg q
  have h0 : Py.absQ (q - q) = 0 := by simp [Py.absQ]
  simp only [h0, decide_eq_true_eq]
  positivity

/-- branch `bounded`, one element: every element is written by one of the four masked assignments (exact trichotomy;
    `np.isclose` is reflexive), the later assignment wins, and the result is clipped to `[a, b]` -/
theorem transfer_trend_bounded (a b x qO qF qH : Rat) :
    Gen.IsimipSteps.transfer_trend_bounded a b x qO qF qH = some (boundedTransfer a b qO qH qF) := by
  unfold Gen.IsimipSteps.transfer_trend_bounded boundedTransfer
  rcases lt_trichotomy qH qO with h | h | h
  · have h' : ¬ qH > qO := not_lt.mpr (le_of_lt h)
    by_cases h3 : qF < qH <;> by_cases h4 : Py.isclose qH qO = true <;> simp [h, h', h3, h4]
  · subst h
    simp [isclose_self]
  · have h' : ¬ qH < qO := not_lt.mpr (le_of_lt h)
    by_cases h3 : qF > qH <;> by_cases h4 : Py.isclose qH qO = true <;> simp [h, h', h3, h4]

/-- the zipped arrays of the generated list-level definition against the model's `obs.zip (qH.zip qF)` -/
theorem zip4_map {β} (f : Rat → Rat → Rat → Rat → β) (g : Rat × Rat × Rat → β)
    (h : ∀ x qH qF, f x x qF qH = g (x, qH, qF)) :
    ∀ (obs qF qH : List Rat),
      (List.zip obs (List.zip obs (List.zip qF qH))).map (fun t => f t.1 t.2.1 t.2.2.1 t.2.2.2)
        = (obs.zip (qH.zip qF)).map g := by
  intro obs
  induction obs with
  | nil => intro qF qH; simp
  | cons x xs ih =>
    intro qF qH
    cases qF with
    | nil => simp
    | cons u us =>
      cases qH with
      | nil => simp
      | cons v vs => simp [h, ih]

/-- **`_step5_transfer_trend` (regenerated, list level) = `Model.Isimip.step5TransferTrend`** on non-empty samples,
    for every `ecdf_method` / `iecdf_method`, every trend method, with the bounds finite in the `bounded` branch
    (the model's `unmodelled:NonFiniteBound` otherwise).  `some v` = element assigned. -/
theorem transfer_trend_eq (c : Cfg) (o : Oracles) (np_cos : Rat → Rat) (np_pi a b : Rat) (obs H F : List Rat)
    (hO : obs.length ≠ 0) (hH : H.length ≠ 0) (hF : F.length ≠ 0)
    (hb : c.trendMethod = .bounded → c.lowerBound = .fin a ∧ c.upperBound = .fin b) :
    Gen.IsimipSteps.transfer_trend (ecdf c.ecdfMethod) (iecdf c.iecdfMethod) np_cos np_pi (methodStr c.trendMethod) a b obs H F
      = (step5TransferTrend c (withCos np_cos np_pi o) obs H F).map (fun r => r.map some) := by
  unfold Gen.IsimipSteps.transfer_trend step5TransferTrend
  simp only [hO, hH, hF, decide_false, Bool.or_self, Bool.false_eq_true, if_false]
  cases hm : c.trendMethod with
  | additive =>
    simp only [methodStr, if_true, Except.map, List.map_map]
    congr 1
    refine zip4_map (fun x qO qF qH => some (Gen.IsimipSteps.transfer_trend_additive x qO qF qH)) _ ?_ _ _ _
    intro x qH qF
    simp [transfer_trend_additive]
  | multiplicative =>
    simp only [methodStr, if_true, Except.map, List.map_map]
    rw [if_neg (by decide)]
    congr 1
    refine zip4_map (fun x qO qF qH => some (Gen.IsimipSteps.transfer_trend_multiplicative x qO qF qH)) _ ?_ _ _ _
    intro x qH qF
    simp [transfer_trend_multiplicative]
  | mixed =>
    simp only [methodStr, if_true, Except.map, List.map_map]
    rw [if_neg (by decide), if_neg (by decide)]
    congr 1
    refine zip4_map (fun x qO qF qH => some (Gen.IsimipSteps.transfer_trend_mixed np_cos np_pi x qO qF qH)) _ ?_ _ _ _
    intro x qH qF
    simp [transfer_trend_mixed np_cos np_pi o]
  | bounded =>
    obtain ⟨ha, hbb⟩ := hb hm
    simp only [methodStr, if_true, Except.map, List.map_map, ha, hbb, ExtRat.toRat, bind, Except.bind, pure, Except.pure]
    rw [if_neg (by decide), if_neg (by decide), if_neg (by decide)]
    congr 1
    refine zip4_map (fun x qO qF qH => Gen.IsimipSteps.transfer_trend_bounded a b x qO qF qH) _ ?_ _ _ _
    intro x qH qF
    simp [transfer_trend_bounded]

/-- the error branch: any other attribute value raises `ValueError` (after the ecdf / iecdf calls) -/
theorem transfer_trend_error (ecdf iecdf : List Rat → List Rat → List Rat) (np_cos : Rat → Rat) (np_pi a b : Rat) (s : String)
    (obs H F : List Rat) (h1 : s ≠ "additive") (h2 : s ≠ "multiplicative") (h3 : s ≠ "mixed") (h4 : s ≠ "bounded") :
    Gen.IsimipSteps.transfer_trend ecdf iecdf np_cos np_pi s a b obs H F = .error "ValueError" := by
  unfold Gen.IsimipSteps.transfer_trend
  simp [h1, h2, h3, h4]

/-! ### Step 7 -/

/-- `step7` (regenerated) = `Model.Isimip.step7`; the trend has the length of the values (step 3 returns `zeros_like`
    or the daily trend) -/
theorem step7_eq (c : Cfg) (F trend : List Rat) (h : trend.length = F.length) :
    Gen.IsimipSteps.step7 c.detrending F trend = step7 c F trend := by
  unfold Gen.IsimipSteps.step7 Gen.IsimipSteps.step7_elem step7
  cases c.detrending with
  | false =>
    simp only [Bool.false_eq_true, if_false]
    exact List.map_fst_zip (by omega)
  | true =>
    simp only [if_true]
    simp [List.zip_eq_zipWith, List.map_zipWith]

/-! ### Step 2: which values are imputed -/

/-- `_step2_get_mask_for_values_to_impute` = the model's "`none`" mask: `nan`, `+inf` and `-inf` and nothing else -/
theorem get_mask_for_values_to_impute_eq (x : List PyElem.FVal) :
    Gen.IsimipSteps.get_mask_for_values_to_impute x = (x.map PyElem.FVal.toOption).map (fun v => v.isNone) := by
  unfold Gen.IsimipSteps.get_mask_for_values_to_impute Gen.IsimipSteps.get_mask_for_values_to_impute_elem
  rw [List.map_map]
  apply List.map_congr_left
  intro v _
  cases v <;> rfl

/-! ### Step 6: the entries set to the bounds (Python slice semantics on the sorted array) -/

theorem sliceIdx_eq (i : Int) (n : Nat) : PyElem.sliceIdx i n = Model.IsimipFreq.pySliceIdx i n := rfl

theorem sliceIdx_le (i : Int) (n : Nat) : PyElem.sliceIdx i n ≤ n := by
  unfold PyElem.sliceIdx
  split_ifs <;> omega

theorem setSlice_replicate (n l h : Nat) (hl : l ≤ h) (hh : h ≤ n) :
    ((List.replicate n false).zip (List.range n)).map (fun p => if l ≤ p.2 ∧ p.2 < h then true else p.1)
      = List.replicate l false ++ (List.replicate (h - l) true ++ List.replicate (n - h) false) := by
  apply List.ext_getElem
  · simp; omega
  · intro i h1 h2
    simp only [List.getElem_map, List.getElem_zip, List.getElem_replicate, List.getElem_range, List.getElem_append,
      List.length_replicate]
    split_ifs <;> first | rfl | omega

/-- `_step6_get_mask_for_entries_to_set_to_lower_bound` = `lowerMask`: `mask[0:nr] = True`, any integer `nr` -/
theorem get_mask_for_entries_to_set_to_lower_bound_eq (nr : Int) (xs : List Rat) :
    Gen.IsimipSteps.get_mask_for_entries_to_set_to_lower_bound nr xs = Model.IsimipFreq.lowerMask nr xs.length := by
  unfold Gen.IsimipSteps.get_mask_for_entries_to_set_to_lower_bound PyElem.setSlice Model.IsimipFreq.lowerMask
  simp only [List.length_replicate, ← sliceIdx_eq]
  have h0 : PyElem.sliceIdx 0 xs.length = 0 := by simp [PyElem.sliceIdx]
  rw [h0, setSlice_replicate _ 0 _ (Nat.zero_le _) (sliceIdx_le nr xs.length)]
  simp

/-- `_step6_get_mask_for_entries_to_set_to_upper_bound` = `upperMask`: `mask[(size - nr):] = True`, any integer `nr` -/
theorem get_mask_for_entries_to_set_to_upper_bound_eq (nr : Int) (xs : List Rat) :
    Gen.IsimipSteps.get_mask_for_entries_to_set_to_upper_bound nr xs = Model.IsimipFreq.upperMask nr xs.length := by
  unfold Gen.IsimipSteps.get_mask_for_entries_to_set_to_upper_bound PyElem.setSlice Model.IsimipFreq.upperMask
  simp only [List.length_replicate, ← sliceIdx_eq]
  rw [setSlice_replicate _ _ _ (sliceIdx_le _ xs.length) (le_refl _)]
  simp

/-! ### Step 4: randomisation of the values beyond a threshold -/

/-- `_step4_randomize_values_between_lower_threshold_and_bound` with a sampler `U size low high`:
    the values `<= lower_threshold` are replaced by `U (their number) lower_bound lower_threshold`, sorted, in the rank
    order of the replaced values — the model's `step4RandomizeLower` on those draws -/
theorem randomize_lower_eq (c : Cfg) (U : Int → Rat → Rat → List Rat) (lb lt ut ub : Rat) (vals : List Rat)
    (hb : c.lowerBound = .fin lb) (ht : c.lowerThreshold = .fin lt)
    (hlen : (U ((((maskBeyondLower c vals).count true : Nat) : Int)) lb lt).length
              = (Py.selectWhere vals (maskBeyondLower c vals)).length) :
    step4RandomizeLower c vals (U ((((maskBeyondLower c vals).count true : Nat) : Int)) lb lt)
      = .ok (Gen.IsimipSteps.randomize_values_between_lower_threshold_and_bound U sortQ sortLike lb lt ut ub vals) := by
  have hm : Gen.IsimipFreq.get_mask_for_values_beyond_lower_threshold lt vals = maskBeyondLower c vals := by
    unfold Gen.IsimipFreq.get_mask_for_values_beyond_lower_threshold maskBeyondLower
    simp [ht, ExtRat.leOf]
  unfold step4RandomizeLower randomizeMasked Gen.IsimipSteps.randomize_values_between_lower_threshold_and_bound
  simp only [hm, hlen, if_true]

/-- the same for the upper side: values `>= upper_threshold`, draws `U n upper_threshold upper_bound` -/
theorem randomize_upper_eq (c : Cfg) (U : Int → Rat → Rat → List Rat) (lb lt ut ub : Rat) (vals : List Rat)
    (hb : c.upperBound = .fin ub) (ht : c.upperThreshold = .fin ut)
    (hlen : (U ((((maskBeyondUpper c vals).count true : Nat) : Int)) ut ub).length
              = (Py.selectWhere vals (maskBeyondUpper c vals)).length) :
    step4RandomizeUpper c vals (U ((((maskBeyondUpper c vals).count true : Nat) : Int)) ut ub)
      = .ok (Gen.IsimipSteps.randomize_values_between_upper_threshold_and_bound U sortQ sortLike lb lt ut ub vals) := by
  have hm : Gen.IsimipFreq.get_mask_for_values_beyond_upper_threshold ut vals = maskBeyondUpper c vals := by
    unfold Gen.IsimipFreq.get_mask_for_values_beyond_upper_threshold maskBeyondUpper
    simp [ht, ExtRat.geOf]
  unfold step4RandomizeUpper randomizeMasked Gen.IsimipSteps.randomize_values_between_upper_threshold_and_bound
  simp only [hm, hlen, if_true]

/-! ### Step 3: `_step3_remove_trend` -/

theorem nodup_eraseDups : ∀ (n : Nat) (l : List Int), l.length ≤ n → l.eraseDups.Nodup
  | 0, [], _ => by simp
  | _ + 1, [], _ => by simp
  | n + 1, a :: as, h => by
    rw [List.eraseDups_cons, List.nodup_cons]
    refine ⟨?_, nodup_eraseDups n _ ?_⟩
    · simp [List.mem_eraseDups]
    · exact le_trans (List.length_filter_le _ _) (by simpa using h)

theorem uniqueYears_nodup (years : List Int) : (uniqueYears years).Nodup := nodup_eraseDups _ _ (le_refl _)

/-- what the loop `for k, v in enumerate(keys): t[ys == v] = a[k]` leaves at one position (value `t0`, key `y`) -/
def elemAssign (a : List Rat) (y : Int) : Nat → Rat → List Int → Rat
  | _, t0, [] => t0
  | k, t0, v :: vs => elemAssign a y (k + 1) (if y = v then a.getD k 0 else t0) vs

theorem zipWith_setWhere (f : Rat → Int → Rat) (p : Int → Bool) (val : Rat) :
    ∀ (t : List Rat) (ys : List Int),
      List.zipWith f (Py.setWhere t (ys.map p) val) ys = List.zipWith (fun t0 y => f (if p y then val else t0) y) t ys := by
  intro t
  induction t with
  | nil => intro ys; simp [Py.setWhere]
  | cons a t ih =>
    intro ys
    cases ys with
    | nil => simp [Py.setWhere]
    | cons y ys =>
      have := ih ys
      simp only [Py.setWhere] at this ⊢
      simp [this]

theorem zipWith_fst_eq : ∀ (t : List Rat) (ys : List Int), t.length = ys.length → List.zipWith (fun t0 _ => t0) t ys = t := by
  intro t
  induction t with
  | nil => intro ys _; simp
  | cons a t ih =>
    intro ys h
    cases ys with
    | nil => simp at h
    | cons y ys => simp [ih ys (by simpa using h)]

theorem setWhere_length (t : List Rat) (ys : List Int) (p : Int → Bool) (val : Rat) (h : t.length = ys.length) :
    (Py.setWhere t (ys.map p) val).length = ys.length := by
  simp [Py.setWhere, h]

theorem assignByKeyFrom_eq (a : List Rat) (ys : List Int) :
    ∀ (keys : List Int) (k : Nat) (t : List Rat), t.length = ys.length →
      PyElem.assignByKeyFrom k t ys a keys = List.zipWith (fun t0 y => elemAssign a y k t0 keys) t ys := by
  intro keys
  induction keys with
  | nil => intro k t h; simp [PyElem.assignByKeyFrom, elemAssign, zipWith_fst_eq t ys h]
  | cons v vs ih =>
    intro k t h
    simp only [PyElem.assignByKeyFrom, elemAssign]
    rw [ih (k + 1) _ (setWhere_length t ys _ _ h), zipWith_setWhere]
    simp

theorem elemAssign_nodup (a : List Rat) (y : Int) :
    ∀ (keys : List Int) (k : Nat) (t0 : Rat), keys.Nodup →
      elemAssign a y k t0 keys = if y ∈ keys then a.getD (k + keys.idxOf y) 0 else t0 := by
  intro keys
  induction keys with
  | nil => intro k t0 _; simp [elemAssign]
  | cons v vs ih =>
    intro k t0 hn
    rw [List.nodup_cons] at hn
    simp only [elemAssign]
    rw [ih (k + 1) _ hn.2]
    by_cases hy : y = v
    · subst hy
      simp [hn.1, List.idxOf_cons]
    · have hv : ¬ v = y := fun h => hy h.symm
      simp [hy, hv, List.idxOf_cons, Nat.add_assoc, Nat.add_comm 1]

theorem zipWith_replicate_left (F : Rat → Int → Rat) : ∀ (ys : List Int) (n : Nat), n = ys.length →
    List.zipWith F (List.replicate n 0) ys = ys.map (F 0) := by
  intro ys
  induction ys with
  | nil => intro n _; simp
  | cons y ys ih =>
    intro n h
    subst h
    simp [List.replicate_succ, ih ys.length rfl]

theorem zipWith_snd_only (g : Int → Rat) : ∀ (x : List Rat) (ys : List Int), x.length = ys.length →
    List.zipWith (fun _ y => g y) x ys = ys.map g := by
  intro x
  induction x with
  | nil => intro ys h; cases ys with | nil => rfl | cons _ _ => simp at h
  | cons a x ih =>
    intro ys h
    cases ys with
    | nil => simp at h
    | cons y ys => simp [ih ys (by simpa using h)]

theorem getD_replicate_zero (n j : Nat) : (List.replicate n (0 : Rat)).getD j 0 = 0 := by
  simp only [List.getD_eq_getElem?_getD, List.getElem?_replicate]
  split_ifs <;> rfl

theorem getD_map_zero {α} (l : List α) (j : Nat) : (l.map (fun _ => (0 : Rat))).getD j 0 = 0 := by
  simp only [List.getD_eq_getElem?_getD, List.getElem?_map]
  cases l[j]? <;> rfl

/-- **`_step3_remove_trend` (regenerated, list level) = `Model.Isimip.step3RemoveTrend`**: the yearly means and the
    regression are extern (`get_years_and_yearly_means`, `linregress`; the slope instantiated with the model's exact
    `linSlope`, the p-value `pval` arbitrary); tied are the decision `pvalue < 0.05 and detrending_with_significance_test`,
    the formula `slope * (unique_years - mean(unique_years))`, the zero trend otherwise, the mapping of the annual trend
    onto the days by year, and `x - trend`. -/
theorem remove_trend_eq (c : Cfg) (pval : List Rat → List Rat → Rat) (x : List Rat) (years : List Int)
    (h : x.length = years.length) :
    Gen.IsimipSteps.remove_trend (fun x y => (uniqueYears y, yearlyMeans x y)) pval linSlope
        c.detrendingWithSignificanceTest x years
      = step3RemoveTrend c (decide (pval ((uniqueYears years).map (fun (y : Int) => (y : Rat))) (yearlyMeans x years) < 1 / 20))
          x years := by
  unfold Gen.IsimipSteps.remove_trend step3RemoveTrend
  simp only []
  have key : ∀ (a ann : List Rat), (∀ j, j < (uniqueYears years).length → a.getD j 0 = ann.getD j 0) →
      PyElem.assignByKey (List.replicate x.length 0) years (uniqueYears years) a
        = List.zipWith (fun (_ : Rat) (y : Int) => ann.getD ((uniqueYears years).idxOf y) 0) x years := by
    intro a ann hj
    unfold PyElem.assignByKey
    rw [assignByKeyFrom_eq a years _ 0 _ (by simp [h]), zipWith_replicate_left _ years _ h, zipWith_snd_only _ x years h]
    apply List.map_congr_left
    intro y hy
    have hmem : y ∈ uniqueYears years := List.mem_eraseDups.mpr (List.mem_mergeSort.mpr hy)
    rw [elemAssign_nodup a y _ 0 0 (uniqueYears_nodup years)]
    simp only [hmem, if_true, Nat.zero_add]
    exact hj _ (List.idxOf_lt_length_iff.mpr hmem)
  have htr : PyElem.assignByKey (List.replicate x.length 0) years (uniqueYears years)
      (if pval ((uniqueYears years).map (fun (z : Int) => (z : Rat))) (yearlyMeans x years) < 1 / 20 ∧
          c.detrendingWithSignificanceTest = true then
        ((uniqueYears years).map (fun x_1 => ((x_1 : Int) : Rat) - Py.mean ((uniqueYears years).map (fun (z : Int) => (z : Rat))))).map
          (fun x_2 => linSlope ((uniqueYears years).map (fun (z : Int) => (z : Rat))) (yearlyMeans x years) * x_2)
       else List.replicate ((years.length : Int)).toNat 0)
      = dailyTrend c (decide (pval ((uniqueYears years).map (fun (y : Int) => (y : Rat))) (yearlyMeans x years) < 1 / 20)) x years := by
    unfold dailyTrend annualTrend
    apply key
    intro j _
    simp only [Bool.and_eq_true, decide_eq_true_eq]
    by_cases hc : (pval ((uniqueYears years).map (fun (z : Int) => (z : Rat))) (yearlyMeans x years) < 1 / 20 ∧
        c.detrendingWithSignificanceTest = true)
    · rw [if_pos hc, if_pos hc]
      simp only [List.map_map, Function.comp_def]
      rfl
    · rw [if_neg hc, if_neg hc, getD_replicate_zero, getD_map_zero]
  rw [htr]

end Lemmas.GenIsimipSteps
