/-
  C11 through the whole window pipeline (`_apply_on_window` = steps 3–7 of `Model.Isimip`):
  helper lemmas.  Imports only Gen-free files (a change of another property's regenerated kernels must not
  stop C11 from building).
-/
import IbicusModel.Lemmas.IsimipModel
import IbicusModel.Lemmas.IsimipFreq
import IbicusModel.Lemmas.StatsRank
import IbicusModel.Lemmas.Skeleton

namespace Lemmas.C11Pipeline
open Model.Isimip Model.IsimipFreq Model.Stats Lemmas.IsimipFreq

/-! ### thresholds: `ExtRat` (the pipeline model) vs `Option Rat` (the count model) -/

/-- the finite threshold, `none` for an infinite one -/
def thrOpt : ExtRat → Option Rat
  | .fin q => some q
  | _ => none

/-- the thresholds are on the side where "infinite" means "no threshold"
    (`lower_threshold = +inf` / `upper_threshold = -inf` would make *every* value a beyond-threshold event) -/
def ThrSide (c : Cfg) : Prop := c.lowerThreshold ≠ .posInf ∧ c.upperThreshold ≠ .negInf

instance (c : Cfg) : Decidable (ThrSide c) := inferInstanceAs (Decidable (_ ∧ _))

theorem maskBeyondLower_fin (c : Cfg) (t : Rat) (h : c.lowerThreshold = .fin t) (x : List Rat) :
    maskBeyondLower c x = maskLower t x := by
  unfold maskBeyondLower maskLower; rw [h]; rfl

theorem maskBeyondUpper_fin (c : Cfg) (t : Rat) (h : c.upperThreshold = .fin t) (x : List Rat) :
    maskBeyondUpper c x = maskUpper t x := by
  unfold maskBeyondUpper maskUpper; rw [h]; rfl

/-! ### `x[mask] = values` and predicates -/

theorem fillWhere_length {α} (x : List α) (m : List Bool) (v : List α) : (fillWhere x m v).length = x.length := by
  induction x generalizing m v with
  | nil => simp [fillWhere]
  | cons a t ih =>
    cases m with
    | nil => simp [fillWhere]
    | cons b ms =>
      cases b with
      | false => simp [fillWhere, ih]
      | true => cases v with
        | nil => simp [fillWhere, ih]
        | cons w ws => simp [fillWhere, ih]

/-- a Boolean predicate that has the same value `b` on every selected entry and on every filled-in value is not
    changed by the masked assignment -/
theorem map_fillWhere_of {α} (Q : α → Bool) (b : Bool) (x : List α) (m : List Bool) (v : List α)
    (hx : ∀ p ∈ x.zip m, p.2 = true → Q p.1 = b) (hv : ∀ e ∈ v, Q e = b) :
    (fillWhere x m v).map Q = x.map Q := by
  induction x generalizing m v with
  | nil => simp [fillWhere]
  | cons a t ih =>
    cases m with
    | nil => simp [fillWhere]
    | cons c ms =>
      have hx' : ∀ p ∈ t.zip ms, p.2 = true → Q p.1 = b := fun p hp => hx p (by simp [hp])
      cases c with
      | false => simp [fillWhere, ih ms v hx' hv]
      | true => cases v with
        | nil => simp [fillWhere, ih ms [] hx' hv]
        | cons w ws =>
          have hw : Q w = b := hv w (by simp)
          have ha : Q a = b := hx (a, true) (by simp) rfl
          have hws : ∀ e ∈ ws, Q e = b := fun e he => hv e (by simp [he])
          simp [fillWhere, ih ms ws hx' hws, hw, ha]

theorem zip_map_self_true {α} (x : List α) (P : α → Bool) :
    ∀ p ∈ x.zip (x.map P), p.2 = true → P p.1 = true := by
  induction x with
  | nil => intro p hp; simp at hp
  | cons a t ih =>
    intro p hp h2
    simp only [List.map_cons, List.zip_cons_cons, List.mem_cons] at hp
    rcases hp with rfl | hp
    · exact h2
    · exact ih p hp h2

/-- `randomizeMasked` with mask `P(vals)` does not change a predicate `Q` that is constant (`= b`) on the
    selected values and on the draws -/
theorem randomizeMasked_map (vals : List Rat) (P Q : Rat → Bool) (b : Bool) (draws out : List Rat)
    (hsel : ∀ v : Rat, P v = true → Q v = b) (hdraw : ∀ r ∈ draws, Q r = b)
    (h : randomizeMasked vals (vals.map P) draws = .ok out) :
    out.map Q = vals.map Q ∧ out.length = vals.length := by
  unfold randomizeMasked at h
  simp only [] at h
  split_ifs at h with hl
  injection h with h
  subst h
  refine ⟨?_, fillWhere_length _ _ _⟩
  apply map_fillWhere_of Q b
  · intro p hp h2
    exact hsel _ (zip_map_self_true vals P p hp h2)
  · intro e he
    have hlen : (sortQ draws).length = (Py.selectWhere vals (vals.map P)).length := by
      rw [Lemmas.Stats.sortQ_length]; exact hl
    have hp := (Lemmas.Stats.sortLike_perm (sortQ draws) (Py.selectWhere vals (vals.map P)) hlen).mem_iff.mp he
    exact hdraw e ((Lemmas.Stats.sortQ_perm draws).mem_iff.mp hp)

/-! ### step 4 does not move a value across a threshold -/

/-- the guards: the two beyond-threshold classes are disjoint (`lower_threshold < upper_threshold`), every value
    drawn for the lower randomisation is `<= lower_threshold` (numpy draws it from `[lower_bound, lower_threshold)`),
    every value drawn for the upper one is `>= upper_threshold` -/
structure Step4Ok (c : Cfg) (d : Draws) : Prop where
  sep : ∀ v : Rat, ExtRat.leOf v c.lowerThreshold = true → ExtRat.geOf v c.upperThreshold = false
  low : ∀ r ∈ d.lowO ++ d.lowH ++ d.lowF, ExtRat.leOf r c.lowerThreshold = true
  up : ∀ r ∈ d.upO ++ d.upH ++ d.upF, ExtRat.geOf r c.upperThreshold = true

theorem sep' {c : Cfg} (hsep : ∀ v : Rat, ExtRat.leOf v c.lowerThreshold = true → ExtRat.geOf v c.upperThreshold = false)
    (v : Rat) (h : ExtRat.geOf v c.upperThreshold = true) : ExtRat.leOf v c.lowerThreshold = false := by
  cases hl : ExtRat.leOf v c.lowerThreshold with
  | false => rfl
  | true => rw [hsep v hl] at h; exact absurd h (by simp)

/-- one series through the (optional) lower and the (optional) upper randomisation -/
theorem step4_one (c : Cfg) (bl bu : Bool) (x y z dl du : List Rat)
    (hsep : ∀ v : Rat, ExtRat.leOf v c.lowerThreshold = true → ExtRat.geOf v c.upperThreshold = false)
    (hdl : ∀ r ∈ dl, ExtRat.leOf r c.lowerThreshold = true) (hdu : ∀ r ∈ du, ExtRat.geOf r c.upperThreshold = true)
    (h1 : if bl = true then step4RandomizeLower c x dl = .ok y else y = x)
    (h2 : if bu = true then step4RandomizeUpper c y du = .ok z else z = y) :
    maskBeyondLower c z = maskBeyondLower c x ∧ maskBeyondUpper c z = maskBeyondUpper c x ∧ z.length = x.length := by
  have s1 : maskBeyondLower c y = maskBeyondLower c x ∧ maskBeyondUpper c y = maskBeyondUpper c x ∧ y.length = x.length := by
    cases bl with
    | false => simp only [Bool.false_eq_true, if_false] at h1; subst h1; exact ⟨rfl, rfl, rfl⟩
    | true =>
      simp only [if_true] at h1
      unfold step4RandomizeLower maskBeyondLower at h1
      have a := randomizeMasked_map x _ (fun v => ExtRat.leOf v c.lowerThreshold) true dl y (fun v hv => hv) hdl h1
      have b := randomizeMasked_map x _ (fun v => ExtRat.geOf v c.upperThreshold) false dl y
        (fun v hv => hsep v hv) (fun r hr => hsep r (hdl r hr)) h1
      exact ⟨a.1, b.1, a.2⟩
  have s2 : maskBeyondLower c z = maskBeyondLower c y ∧ maskBeyondUpper c z = maskBeyondUpper c y ∧ z.length = y.length := by
    cases bu with
    | false => simp only [Bool.false_eq_true, if_false] at h2; subst h2; exact ⟨rfl, rfl, rfl⟩
    | true =>
      simp only [if_true] at h2
      unfold step4RandomizeUpper maskBeyondUpper at h2
      have a := randomizeMasked_map y _ (fun v => ExtRat.geOf v c.upperThreshold) true du z (fun v hv => hv) hdu h2
      have b := randomizeMasked_map y _ (fun v => ExtRat.leOf v c.lowerThreshold) false du z
        (fun v hv => sep' hsep v hv) (fun r hr => sep' hsep r (hdu r hr)) h2
      exact ⟨b.1, a.1, a.2⟩
  exact ⟨s2.1.trans s1.1, s2.2.1.trans s1.2.1, s2.2.2.trans s1.2.2⟩

/-- the three components of `step4` -/
theorem step4_components (c : Cfg) (d : Draws) (obs H F : List Rat) (r : List Rat × List Rat × List Rat)
    (h : step4 c d obs H F = .ok r) :
    ∃ o1 h1 f1,
      (if (c.hasLowerBound && c.hasLowerThreshold) = true then
          step4RandomizeLower c obs d.lowO = .ok o1 ∧ step4RandomizeLower c H d.lowH = .ok h1 ∧
          step4RandomizeLower c F d.lowF = .ok f1
        else o1 = obs ∧ h1 = H ∧ f1 = F) ∧
      (if (c.hasUpperBound && c.hasUpperThreshold) = true then
          step4RandomizeUpper c o1 d.upO = .ok r.1 ∧ step4RandomizeUpper c h1 d.upH = .ok r.2.1 ∧
          step4RandomizeUpper c f1 d.upF = .ok r.2.2
        else r.1 = o1 ∧ r.2.1 = h1 ∧ r.2.2 = f1) := by
  unfold step4 at h
  simp only [bind, Except.bind, pure, Except.pure] at h
  by_cases hl : (c.hasLowerBound && c.hasLowerThreshold) = true <;>
    by_cases hu : (c.hasUpperBound && c.hasUpperThreshold) = true <;>
    simp only [hl, hu, Bool.false_eq_true, ↓reduceIte] at h ⊢
  · split at h
    · cases h
    rename_i o1 ho1
    split at h
    · cases h
    rename_i h1 hh1
    split at h
    · cases h
    rename_i f1 hf1
    split at h
    · cases h
    rename_i o2 ho2
    split at h
    · cases h
    rename_i h2 hh2
    split at h
    · cases h
    rename_i f2 hf2
    injection h with h
    subst h
    exact ⟨o1, h1, f1, ⟨ho1, hh1, hf1⟩, ⟨ho2, hh2, hf2⟩⟩
  · split at h
    · cases h
    rename_i o1 ho1
    split at h
    · cases h
    rename_i h1 hh1
    split at h
    · cases h
    rename_i f1 hf1
    injection h with h
    subst h
    exact ⟨o1, h1, f1, ⟨ho1, hh1, hf1⟩, ⟨rfl, rfl, rfl⟩⟩
  · split at h
    · cases h
    rename_i o2 ho2
    split at h
    · cases h
    rename_i h2 hh2
    split at h
    · cases h
    rename_i f2 hf2
    injection h with h
    subst h
    exact ⟨obs, H, F, ⟨rfl, rfl, rfl⟩, ⟨ho2, hh2, hf2⟩⟩
  · injection h with h
    subst h
    exact ⟨obs, H, F, ⟨rfl, rfl, rfl⟩, ⟨rfl, rfl, rfl⟩⟩

/-- **Step 4 leaves every beyond-threshold mask (hence every frequency) as it was.** -/
theorem step4_masks (c : Cfg) (d : Draws) (obs H F : List Rat) (r : List Rat × List Rat × List Rat)
    (hok : Step4Ok c d) (h : step4 c d obs H F = .ok r) :
    (maskBeyondLower c r.1 = maskBeyondLower c obs ∧ maskBeyondUpper c r.1 = maskBeyondUpper c obs ∧ r.1.length = obs.length) ∧
    (maskBeyondLower c r.2.1 = maskBeyondLower c H ∧ maskBeyondUpper c r.2.1 = maskBeyondUpper c H ∧ r.2.1.length = H.length) ∧
    (maskBeyondLower c r.2.2 = maskBeyondLower c F ∧ maskBeyondUpper c r.2.2 = maskBeyondUpper c F ∧ r.2.2.length = F.length) := by
  obtain ⟨o1, h1, f1, hL, hU⟩ := step4_components c d obs H F r h
  have memL : ∀ r, (r ∈ d.lowO ∨ r ∈ d.lowH ∨ r ∈ d.lowF) → ExtRat.leOf r c.lowerThreshold = true := by
    intro r hr; apply hok.low; simp only [List.mem_append]; tauto
  have memU : ∀ r, (r ∈ d.upO ∨ r ∈ d.upH ∨ r ∈ d.upF) → ExtRat.geOf r c.upperThreshold = true := by
    intro r hr; apply hok.up; simp only [List.mem_append]; tauto
  refine ⟨?_, ?_, ?_⟩
  · apply step4_one c (c.hasLowerBound && c.hasLowerThreshold) (c.hasUpperBound && c.hasUpperThreshold) obs o1 r.1 d.lowO d.upO
      hok.sep (fun r hr => memL r (Or.inl hr)) (fun r hr => memU r (Or.inl hr))
    · split_ifs at hL ⊢ with hc <;> exact hL.1
    · split_ifs at hU ⊢ with hc <;> exact hU.1
  · apply step4_one c (c.hasLowerBound && c.hasLowerThreshold) (c.hasUpperBound && c.hasUpperThreshold) H h1 r.2.1 d.lowH d.upH
      hok.sep (fun r hr => memL r (Or.inr (Or.inl hr))) (fun r hr => memU r (Or.inr (Or.inl hr)))
    · split_ifs at hL ⊢ with hc <;> exact hL.2.1
    · split_ifs at hU ⊢ with hc <;> exact hU.2.1
  · apply step4_one c (c.hasLowerBound && c.hasLowerThreshold) (c.hasUpperBound && c.hasUpperThreshold) F f1 r.2.2 d.lowF d.upF
      hok.sep (fun r hr => memL r (Or.inr (Or.inr hr))) (fun r hr => memU r (Or.inr (Or.inr hr)))
    · split_ifs at hL ⊢ with hc <;> exact hL.2.2
    · split_ifs at hU ⊢ with hc <;> exact hU.2.2

/-! ### the counts step 6 computes (as a pure function of its inputs) -/

/-- `(nr_of_entries_to_set_to_lower_bound, …upper_bound)` as `step6` computes them (sorted arrays, `ExtRat` thresholds) -/
def pipeCounts (c : Cfg) (obs H F : List Rat) : Int × Int :=
  finalCounts
    (if c.hasLowerThreshold then
      nrToBound c.biasCorrectFrequencies (maskBeyondLower c (sortQ obs)) (maskBeyondLower c (sortQ H))
        (maskBeyondLower c (takeIdx F (argsort F)))
     else 0)
    (if c.hasUpperThreshold then
      nrToBound c.biasCorrectFrequencies (maskBeyondUpper c (sortQ obs)) (maskBeyondUpper c (sortQ H))
        (maskBeyondUpper c (takeIdx F (argsort F)))
     else 0)
    (((takeIdx F (argsort F)).length : Nat) : Int)


/-! ### masked selection / assignment, small facts -/

theorem setWhere_of_not_any {α} (xs : List α) (m : List Bool) (v : α) (hm : m.length = xs.length)
    (h : m.any id = false) : Py.setWhere xs m v = xs := by
  induction xs generalizing m with
  | nil => simp [Py.setWhere]
  | cons x t ih =>
    cases m with
    | nil => simp at hm
    | cons b m' =>
      simp only [List.any_cons, id, Bool.or_eq_false_iff] at h
      have := ih m' (by simpa using hm) h.2
      simp only [Py.setWhere, List.zip_cons_cons, List.map_cons, h.1] at this ⊢
      rw [this]; simp

theorem fillWhere_selectWhere {α} (x : List α) (m : List Bool) : fillWhere x m (Py.selectWhere x m) = x := by
  induction x generalizing m with
  | nil => simp [fillWhere]
  | cons a t ih =>
    cases m with
    | nil => simp [fillWhere]
    | cons b ms =>
      cases b with
      | false =>
        have : Py.selectWhere (a :: t) (false :: ms) = Py.selectWhere t ms := by simp [Py.selectWhere]
        rw [this]; simp [fillWhere, ih]
      | true =>
        have : Py.selectWhere (a :: t) (true :: ms) = a :: Py.selectWhere t ms := by simp [Py.selectWhere]
        rw [this]; simp [fillWhere, ih]

theorem selectWhere_length_le {α} (x : List α) (m : List Bool) : (Py.selectWhere x m).length ≤ m.count true := by
  induction x generalizing m with
  | nil => simp [Py.selectWhere]
  | cons a t ih =>
    cases m with
    | nil => simp [Py.selectWhere]
    | cons b ms =>
      have := ih ms
      cases b <;> simp [Py.selectWhere] at this ⊢ <;> omega

theorem selectWhere_length {α} (x : List α) (m : List Bool) (h : m.length = x.length) :
    (Py.selectWhere x m).length = m.count true := by
  induction x generalizing m with
  | nil => cases m with
    | nil => simp [Py.selectWhere]
    | cons b ms => simp at h
  | cons a t ih =>
    cases m with
    | nil => simp at h
    | cons b ms =>
      have := ih ms (by simpa using h)
      cases b <;> simp [Py.selectWhere] at this ⊢ <;> omega

/-- reading back what was assigned through the same mask (one value per selected entry) -/
theorem selectWhere_fillWhere {α} (x : List α) (m : List Bool) (v : List α) (hm : m.length = x.length)
    (hv : v.length = m.count true) : Py.selectWhere (fillWhere x m v) m = v := by
  induction x generalizing m v with
  | nil => cases m with
    | nil => cases v with
      | nil => simp [fillWhere, Py.selectWhere]
      | cons w ws => simp at hv
    | cons b ms => simp at hm
  | cons a t ih =>
    cases m with
    | nil => simp at hm
    | cons b ms =>
      have hm' : ms.length = t.length := by simpa using hm
      cases b with
      | false =>
        have hv' : v.length = ms.count true := by simpa using hv
        have := ih ms v hm' hv'
        simpa [fillWhere, Py.selectWhere] using this
      | true =>
        cases v with
        | nil => simp at hv
        | cons w ws =>
          have hv' : ws.length = ms.count true := by simpa using hv
          have := ih ms ws hm' hv'
          simpa [fillWhere, Py.selectWhere] using this

theorem lowerMask_length (nr : Int) (n : Nat) : (lowerMask nr n).length = n := by
  unfold lowerMask pySliceIdx
  simp only [List.length_append, List.length_replicate]
  split_ifs <;> omega

theorem upperMask_length (nr : Int) (n : Nat) : (upperMask nr n).length = n := by
  unfold upperMask pySliceIdx
  simp only [List.length_append, List.length_replicate]
  split_ifs <;> omega

theorem notMask_length (a b : List Bool) (h : a.length = b.length) : (notMask a b).length = a.length := by
  unfold notMask; simp [h]

theorem setWhere_length {α} (x : List α) (m : List Bool) (v : α) (h : m.length = x.length) :
    (Py.setWhere x m v).length = x.length := by
  unfold Py.setWhere; simp [h]

/-- number of entries sent to neither bound when the two masks do not overlap -/
theorem notMask_count (a b r : Nat) :
    (notMask (lowerMask (a : Int) (a + (r + b))) (upperMask (b : Int) (a + (r + b)))).count true = r := by
  have e1 : lowerMask (a : Int) (a + (r + b)) = List.replicate a true ++ List.replicate (r + b) false := lowerMask_eq a (r + b)
  have e2 : upperMask (b : Int) (a + (r + b)) = List.replicate (a + r) false ++ List.replicate b true := by
    have := upperMask_eq (a + r) b
    rwa [Nat.add_assoc] at this
  rw [e1, e2, notMask_segments]
  simp [List.count_append, List.count_replicate]

/-- `setBound` is `setWhere` with the bound's value (any value if the mask selects nothing) -/
theorem setBound_eq (xs r : List Rat) (m : List Bool) (b : ExtRat) (q : Rat) (hm : m.length = xs.length)
    (hq : m.any id = true → b = .fin q) (h : setBound xs m b = .ok r) : r = Py.setWhere xs m q := by
  unfold setBound at h
  split at h
  · rename_i hany
    rw [hq hany] at h
    simp only [ExtRat.toRat, Except.map] at h
    injection h with h
    exact h.symm
  · rename_i hany
    injection h with h
    rw [setWhere_of_not_any xs m q hm (by simpa using hany)]
    exact h.symm

/-! ### what `step6` returns -/

/-- the counts in `step6`'s result are the pure function `pipeCounts` of its inputs -/
theorem step6Full_counts (c : Cfg) (fam : IsiFamily) (o : Oracles) (obs obsFut H F : List Rat) (r : Step6Out)
    (h : step6Full c fam o obs obsFut H F = .ok r) : (r.nL, r.nU) = pipeCounts c obs H F := by
  unfold step6Full at h
  simp only [bind, Except.bind] at h
  unfold pipeCounts
  generalize finalCounts _ _ _ = cnt at h ⊢
  generalize lowerMask cnt.1 _ = mL at h
  generalize upperMask cnt.2 _ = mU at h
  cases h1 : setBound (takeIdx F (argsort F)) mL c.lowerBound with
  | error e => rw [h1] at h; exact absurd h (by simp)
  | ok m1 =>
    rw [h1] at h
    dsimp only at h
    cases h2 : setBound m1 mU c.upperBound with
    | error e => rw [h2] at h; exact absurd h (by simp)
    | ok m2 =>
      rw [h2] at h
      dsimp only at h
      split at h
      · split at h
        · cases h3 : adjustBetween c fam o (valuesBetween c (sortQ obs)) (valuesBetween c (sortQ obsFut))
              (valuesBetween c (sortQ H)) (Py.selectWhere m2 (notMask mL mU)) (valuesBetween c (takeIdx F (argsort F))) with
          | error e => rw [h3] at h; exact absurd h (by simp)
          | ok t =>
            rw [h3] at h
            simp only [pure, Except.pure] at h
            injection h with h
            subst h
            rfl
        · simp only [pure, Except.pure] at h
          injection h with h
          subst h
          rfl
      · simp only [pure, Except.pure] at h
        injection h with h
        subst h
        rfl

/-- **shape of `step6`'s result**: in the sorted order of `cm_future` it is the bound assignment
    `assignBounds lo hi nL nU (sorted cm_future) mid` for some list `mid` of mapped values, one per entry sent to
    neither bound; the returned array is that list in the original order of `cm_future`.
    (`lo`, `hi`: the values of the bounds; arbitrary where the corresponding mask selects nothing.) -/
theorem step6Full_shape (c : Cfg) (fam : IsiFamily) (o : Oracles) (obs obsFut H F : List Rat) (r : Step6Out)
    (lo hi : Rat) (h : step6Full c fam o obs obsFut H F = .ok r)
    (hlo : (lowerMask r.nL F.length).any id = true → c.lowerBound = .fin lo)
    (hhi : (upperMask r.nU F.length).any id = true → c.upperBound = .fin hi) :
    ∃ mid, r.mappedSorted = assignBounds lo hi r.nL r.nU (sortQ F) mid ∧
      mid.length = (notMask (lowerMask r.nL F.length) (upperMask r.nU F.length)).count true ∧
      r.result = takeIdx r.mappedSorted (rankOf F) := by
  have hcnt := step6Full_counts c fam o obs obsFut H F r h
  unfold step6Full at h
  simp only [bind, Except.bind] at h
  rw [Lemmas.IsimipModel.takeIdx_argsort] at h
  have hn : (sortQ F).length = F.length := Lemmas.Stats.sortQ_length F
  unfold pipeCounts at hcnt
  rw [Lemmas.IsimipModel.takeIdx_argsort] at hcnt
  generalize hcv : finalCounts _ _ _ = cnt at h hcnt
  have e1 : r.nL = cnt.1 := congrArg Prod.fst hcnt
  have e2 : r.nU = cnt.2 := congrArg Prod.snd hcnt
  rw [e1] at hlo
  rw [e2] at hhi
  rw [e1, e2]
  rw [hn] at h
  have hml : (lowerMask cnt.1 F.length).length = (sortQ F).length := by rw [lowerMask_length, hn]
  have hmu : (upperMask cnt.2 F.length).length = (sortQ F).length := by rw [upperMask_length, hn]
  cases h1 : setBound (sortQ F) (lowerMask cnt.1 F.length) c.lowerBound with
  | error e => rw [h1] at h; exact absurd h (by simp)
  | ok m1 =>
    rw [h1] at h
    dsimp only at h
    have := setBound_eq _ _ _ _ lo hml hlo h1
    subst this
    cases h2 : setBound (Py.setWhere (sortQ F) (lowerMask cnt.1 F.length) lo) (upperMask cnt.2 F.length) c.upperBound with
    | error e => rw [h2] at h; exact absurd h (by simp)
    | ok m2 =>
      rw [h2] at h
      dsimp only at h
      have := setBound_eq _ _ _ _ hi (by rw [setWhere_length _ _ _ hml, hmu]) hhi h2
      subst this
      have hm2 : (Py.setWhere (Py.setWhere (sortQ F) (lowerMask cnt.1 F.length) lo) (upperMask cnt.2 F.length) hi).length
          = (sortQ F).length := by
        rw [setWhere_length _ _ _ (by rw [setWhere_length _ _ _ hml, hmu]), setWhere_length _ _ _ hml]
      have hmN : (notMask (lowerMask cnt.1 F.length) (upperMask cnt.2 F.length)).length = (sortQ F).length := by
        rw [notMask_length _ _ (by rw [hml, hmu]), hml]
      have hshape : ∀ mid, assignBounds lo hi cnt.1 cnt.2 (sortQ F) mid =
          fillWhere (Py.setWhere (Py.setWhere (sortQ F) (lowerMask cnt.1 F.length) lo) (upperMask cnt.2 F.length) hi)
            (notMask (lowerMask cnt.1 F.length) (upperMask cnt.2 F.length)) mid := by
        intro mid; unfold assignBounds; rw [hn]
      split at h
      · split at h
        · cases h3 : adjustBetween c fam o (valuesBetween c (sortQ obs)) (valuesBetween c (sortQ obsFut))
              (valuesBetween c (sortQ H))
              (Py.selectWhere (Py.setWhere (Py.setWhere (sortQ F) (lowerMask cnt.1 F.length) lo) (upperMask cnt.2 F.length) hi)
                (notMask (lowerMask cnt.1 F.length) (upperMask cnt.2 F.length)))
              (valuesBetween c (sortQ F)) with
          | error e => rw [h3] at h; exact absurd h (by simp)
          | ok t =>
            obtain ⟨v, br, pre⟩ := t
            rw [h3] at h
            simp only [pure, Except.pure] at h
            injection h with h
            subst h
            dsimp only
            have hlen := Lemmas.IsimipModel.adjustBetween_length c fam o _ _ _ _ _ _ h3
            rw [selectWhere_length _ _ (by rw [hmN, hm2])] at hlen
            exact ⟨v, (hshape v).symm, hlen, rfl⟩
        · simp only [pure, Except.pure] at h
          injection h with h
          subst h
          dsimp only
          refine ⟨Py.selectWhere _ (notMask (lowerMask cnt.1 F.length) (upperMask cnt.2 F.length)), ?_,
            selectWhere_length _ _ (by rw [hmN, hm2]), rfl⟩
          rw [hshape, fillWhere_selectWhere]
      · simp only [pure, Except.pure] at h
        injection h with h
        subst h
        dsimp only
        refine ⟨Py.selectWhere _ (notMask (lowerMask cnt.1 F.length) (upperMask cnt.2 F.length)), ?_,
          selectWhere_length _ _ (by rw [hmN, hm2]), rfl⟩
        rw [hshape, fillWhere_selectWhere]

/-- the returned array is a re-ordering of the sorted result -/
theorem takeIdx_rankOf_perm (l F : List Rat) (h : l.length = F.length) : (takeIdx l (rankOf F)).Perm l := by
  unfold takeIdx
  have hp := (Lemmas.Stats.rankOf_perm F).map (fun i => l.getD i 0)
  rw [← h, Lemmas.Stats.range_map_getD] at hp
  exact hp

/-! ### month mode: what the assembled result holds at the positions of one calendar month -/

section Months
open Model.Skeleton Lemmas.Skeleton

theorem zip_filter_key {α} (idx : List Nat) (vals : List α) (hn : idx.Nodup) (hl : vals.length = idx.length)
    (k : Nat) (hk : k < idx.length) (hk' : k < vals.length) :
    (idx.zip vals).filter (fun p => p.1 == idx[k]) = [(idx[k], vals[k])] := by
  induction idx generalizing vals k with
  | nil => simp at hk
  | cons a t ih =>
    cases vals with
    | nil => simp at hk'
    | cons v vs =>
      have hnt : t.Nodup := (List.nodup_cons.mp hn).2
      have hat : a ∉ t := (List.nodup_cons.mp hn).1
      cases k with
      | zero =>
        simp only [List.zip_cons_cons, List.getElem_cons_zero, List.filter_cons, beq_self_eq_true, if_true]
        congr 1
        rw [List.filter_eq_nil_iff]
        intro p hp
        have : p.1 ∈ t := (List.of_mem_zip hp).1
        simp only [beq_iff_eq]
        intro h; rw [h] at this; exact hat this
      | succ j =>
        have hj : j < t.length := by simpa using hk
        have hj' : j < vs.length := by simpa using hk'
        have hne : ¬ a = t[j] := fun h => hat (h ▸ List.getElem_mem hj)
        simp only [List.zip_cons_cons, List.getElem_cons_succ, List.filter_cons, beq_iff_eq, hne, if_false]
        exact ih vs hnt (by simpa using hl) j hj hj'

theorem forall2_mem_right {β γ} {R : β → γ → Prop} {l : List β} {rs : List γ} (h : List.Forall₂ R l rs)
    (r : γ) (hr : r ∈ rs) : ∃ b ∈ l, R b r := by
  induction h with
  | nil => simp at hr
  | cons hab _ ih =>
    rcases List.mem_cons.mp hr with rfl | hr
    · exact ⟨_, List.mem_cons_self, hab⟩
    · obtain ⟨b, hb, hR⟩ := ih hr
      exact ⟨b, List.mem_cons_of_mem _ hb, hR⟩

theorem filter_flatten_single {β γ} {R : β → List γ → Prop} (P : γ → Bool) {cs : List β} {wss : List (List γ)}
    (h : List.Forall₂ R cs wss) (hn : cs.Nodup) (m : β) (hm : m ∈ cs) (wm : List γ) (hRm : R m wm)
    (hfun : ∀ c ws ws', R c ws → R c ws' → ws = ws')
    (hoth : ∀ c ∈ cs, c ≠ m → ∀ ws, R c ws → ws.filter P = []) :
    wss.flatten.filter P = wm.filter P := by
  induction h with
  | nil => simp at hm
  | @cons c ws cs' wss' hab _ ih =>
    simp only [List.flatten_cons, List.filter_append]
    have hnc : c ∉ cs' := (List.nodup_cons.mp hn).1
    have hnt : cs'.Nodup := (List.nodup_cons.mp hn).2
    rcases List.mem_cons.mp hm with rfl | hm'
    · rw [hfun _ _ _ hab hRm]
      have : wss'.flatten.filter P = [] := by
        rw [List.filter_eq_nil_iff]
        intro p hp
        obtain ⟨l, hl, hpl⟩ := List.mem_flatten.mp hp
        -- `l` belongs to some other month
        have : ∃ c' ∈ cs', R c' l := forall2_mem_right (by assumption) l hl
        obtain ⟨c', hc', hR'⟩ := this
        have hne : c' ≠ m := fun e => hnc (e ▸ hc')
        have := hoth c' (List.mem_cons_of_mem _ hc') hne l hR'
        rw [List.filter_eq_nil_iff] at this
        exact this p hpl
      rw [this, List.append_nil]
    · have hcm : c ≠ m := fun e => hnc (e ▸ hm')
      rw [hoth c List.mem_cons_self hcm ws hab, List.nil_append]
      exact ih hnt hm' (fun c' hc' => hoth c' (List.mem_cons_of_mem _ hc'))

/-- **Month mode writes, at the positions of calendar month `m`, exactly the window function's result for the three
    month-`m` samples** (in order), whatever the other months do. -/
theorem months_block {α} (f : WinFn α) (mO mH mF : List Int) (obs hist fut : List α) (out : List (Option α))
    (h : Model.Skeleton.applyLocationMonths f mO mH mF obs hist fut = .ok out) (hlen : mF.length = fut.length)
    (m : Int) (hm : m ∈ Py.arange1 1 13) :
    ∃ res, f (take obs (Py.whereTrue (mO.map (fun x => decide (x = m))))) (take hist (Py.whereTrue (mH.map (fun x => decide (x = m)))))
        (take fut (Py.whereTrue (mF.map (fun x => decide (x = m)))))
        (Py.whereTrue (mO.map (fun x => decide (x = m)))) (Py.whereTrue (mH.map (fun x => decide (x = m))))
        (Py.whereTrue (mF.map (fun x => decide (x = m)))) = .ok res ∧
      (res.length = (Py.whereTrue (mF.map (fun x => decide (x = m)))).length →
        ∀ k (hk : k < (Py.whereTrue (mF.map (fun x => decide (x = m)))).length) (hk' : k < res.length),
          out[(Py.whereTrue (mF.map (fun x => decide (x = m))))[k]]? = some (some res[k])) := by
  unfold Model.Skeleton.applyLocationMonths at h
  obtain ⟨wss, hF, rfl⟩ := runLoop_ok _ _ _ _ h
  obtain ⟨wm, _, hRm⟩ := forall2_mem_left hF m hm
  have hRm' := hRm
  unfold monthWrites at hRm'
  simp only [bind, Except.bind] at hRm'
  split at hRm'
  · simp at hRm'
  rename_i res hres
  refine ⟨res, hres, ?_⟩
  intro hl k hk hk'
  generalize hiF : Py.whereTrue (mF.map (fun x => decide (x = m))) = iF at *
  have hwm : wm = iF.zip res := by
    unfold pairsFor at hRm'
    rw [if_pos hl] at hRm'
    injection hRm' with e; exact e.symm
  have hnd : iF.Nodup := by
    rw [← hiF]; unfold Py.whereTrue; exact List.Nodup.filter _ List.nodup_range
  have hmem : iF[k] ∈ Py.whereTrue (mF.map (fun x => decide (x = m))) := by rw [hiF]; exact List.getElem_mem hk
  rw [Lemmas.Windows.mem_whereTrue] at hmem
  obtain ⟨hlt, hval⟩ := hmem
  rw [List.length_map] at hlt
  rw [applyWrites_get_filter]
  have hcs : (Py.arange1 1 13).Nodup := by decide
  rw [filter_flatten_single (R := fun c ws => monthWrites f mO mH mF obs hist fut c = .ok ws) _ hF hcs m hm wm hRm
    (fun c ws ws' a b => by rw [a] at b; injection b)
    (by
      intro c _ hcm ws hws
      apply filter_key_eq_nil
      rw [monthWrites_keys f mO mH mF obs hist fut c ws hws, Lemmas.Windows.mem_whereTrue]
      rintro ⟨_, hv⟩
      apply hcm
      have a1 : (mF.map (fun x => decide (x = m))).getD iF[k] false = true := hval
      simp only [List.getD_eq_getElem?_getD, List.getElem?_map] at a1 hv
      rw [List.getElem?_eq_getElem hlt] at a1 hv
      simp only [Option.map_some, Option.getD_some, decide_eq_true_eq] at a1 hv
      rw [← hv, a1])]
  rw [hwm, zip_filter_key iF res hnd hl k hk hk']
  rw [applyWrites_all_key _ _ _ (by simpa [hlen] using hlt) (by intro p hp; simp at hp; rw [hp]) (by simp)]
  simp

theorem take_valid {α} (x : List α) (idx : List Nat) (d : α) (hv : ∀ j ∈ idx, j < x.length) :
    take x idx = idx.map (fun j => (x[j]?).getD d) := by
  unfold take
  induction idx with
  | nil => rfl
  | cons a t ih =>
    have ha : a < x.length := hv a List.mem_cons_self
    simp only [List.filterMap_cons, List.map_cons, List.getElem?_eq_getElem ha, Option.getD_some]
    rw [ih (fun j hj => hv j (List.mem_cons_of_mem _ hj))]

theorem take_length_valid {α} (x : List α) (idx : List Nat) (hv : ∀ j ∈ idx, j < x.length) :
    (take x idx).length = idx.length := by
  cases x with
  | nil =>
    cases idx with
    | nil => rfl
    | cons a t => exact absurd (hv a List.mem_cons_self) (by simp)
  | cons d _ => rw [take_valid _ idx d hv, List.length_map]

/-- the values of the assembled month-mode result at the positions of month `m`, as a list -/
theorem months_block_take {α} (f : WinFn α) (mO mH mF : List Int) (obs hist fut : List α) (out : List (Option α))
    (h : Model.Skeleton.applyLocationMonths f mO mH mF obs hist fut = .ok out) (hlen : mF.length = fut.length)
    (m : Int) (hm : m ∈ Py.arange1 1 13) :
    ∃ res, f (take obs (Py.whereTrue (mO.map (fun x => decide (x = m))))) (take hist (Py.whereTrue (mH.map (fun x => decide (x = m)))))
        (take fut (Py.whereTrue (mF.map (fun x => decide (x = m)))))
        (Py.whereTrue (mO.map (fun x => decide (x = m)))) (Py.whereTrue (mH.map (fun x => decide (x = m))))
        (Py.whereTrue (mF.map (fun x => decide (x = m)))) = .ok res ∧
      (res.length = (Py.whereTrue (mF.map (fun x => decide (x = m)))).length →
        take out (Py.whereTrue (mF.map (fun x => decide (x = m)))) = res.map some) := by
  obtain ⟨res, hres, hval⟩ := months_block f mO mH mF obs hist fut out h hlen m hm
  refine ⟨res, hres, ?_⟩
  intro hl
  have hout : out.length = fut.length := by
    unfold Model.Skeleton.applyLocationMonths at h
    obtain ⟨wss, _, rfl⟩ := runLoop_ok _ _ _ _ h
    rw [applyWrites_length]; simp
  generalize hiF : Py.whereTrue (mF.map (fun x => decide (x = m))) = iF at *
  have hv : ∀ j ∈ iF, j < out.length := by
    intro j hj
    rw [← hiF, Lemmas.Windows.mem_whereTrue, List.length_map] at hj
    rw [hout, ← hlen]; exact hj.1
  rw [take_valid out iF none hv]
  apply List.ext_getElem
  · simp [hl]
  · intro k h1 h2
    have hk : k < iF.length := by simpa using h1
    have hk' : k < res.length := by simpa using h2
    simp only [List.getElem_map]
    rw [hval hl k hk hk']
    rfl

end Months

end Lemmas.C11Pipeline
