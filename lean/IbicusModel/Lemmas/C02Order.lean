/-
  C02 helper lemmas, part 6: the trend of step 3 does not depend on the order in which the dated values are stored.
  A dated sample is a list of (value, year) pairs; `np.unique(years)`, the annual means (selected by year, not by
  position), the regression slope and hence the amount removed from a value of year `y` are functions of the
  multiset of pairs.  (The same facts are used by C06 for the whole pipeline — `Lemmas/C06Detrend.lean`; they are
  re-proved here so that C02 does not depend on C06's files.)
-/
import IbicusModel.Lemmas.C02Isimip

namespace Lemmas.C02
open Model.Stats Model.Isimip

/-- a dated value: (value, calendar year) -/
abbrev Dated := Rat × Int

theorem sortInt_perm {l l' : List Int} (h : l.Perm l') :
    l.mergeSort (fun a b => decide (a ≤ b)) = l'.mergeSort (fun a b => decide (a ≤ b)) := by
  have hs : ∀ m : List Int, (m.mergeSort (fun a b => decide (a ≤ b))).Pairwise (· ≤ ·) := by
    intro m
    have := List.pairwise_mergeSort (le := fun (a b : Int) => decide (a ≤ b))
      (fun a b c hab hbc => by simp only [decide_eq_true_eq] at *; exact le_trans hab hbc)
      (fun a b => by simp only [Bool.or_eq_true, decide_eq_true_eq]; exact le_total a b) m
    simpa using this
  apply List.Perm.eq_of_pairwise (le := (· ≤ ·)) _ (hs l) (hs l')
  · exact (List.mergeSort_perm _ _).trans (h.trans (List.mergeSort_perm _ _).symm)
  · intro a b _ _ hab hba; exact le_antisymm hab hba

theorem uniqueYears_order_free {ys ys' : List Int} (h : ys.Perm ys') : uniqueYears ys = uniqueYears ys' := by
  unfold uniqueYears; rw [sortInt_perm h]

theorem selectWhere_by_year (xs : List Dated) (P : Int → Bool) :
    Py.selectWhere (xs.map Prod.fst) ((xs.map Prod.snd).map P) = (xs.filter (fun p => P p.2)).map Prod.fst := by
  induction xs with
  | nil => rfl
  | cons a t ih =>
    unfold Py.selectWhere at ih ⊢
    simp only [List.map_cons, List.zip_cons_cons, List.filterMap_cons, List.filter_cons]
    by_cases h : P a.2 = true
    · simp only [h, if_true, List.map_cons, ih]
    · have h' : P a.2 = false := by simpa using h
      simp only [h', Bool.false_eq_true, if_false, ih]

/-- the annual means are selected by year: they do not see the storage order -/
theorem yearlyMeans_order_free {xs xs' : List Dated} (h : xs.Perm xs') :
    yearlyMeans (xs.map Prod.fst) (xs.map Prod.snd) = yearlyMeans (xs'.map Prod.fst) (xs'.map Prod.snd) := by
  unfold yearlyMeans
  rw [uniqueYears_order_free (h.map Prod.snd)]
  apply List.map_congr_left
  intro y _
  rw [selectWhere_by_year, selectWhere_by_year]
  exact Lemmas.Family.mean_perm ((h.filter _).map _)

theorem trendSlope_order_free {xs xs' : List Dated} (h : xs.Perm xs') :
    trendSlope (xs.map Prod.fst) (xs.map Prod.snd) = trendSlope (xs'.map Prod.fst) (xs'.map Prod.snd) := by
  unfold trendSlope
  rw [uniqueYears_order_free (h.map Prod.snd), yearlyMeans_order_free h]

theorem meanYear_order_free {ys ys' : List Int} (h : ys.Perm ys') : meanYear ys = meanYear ys' := by
  unfold meanYear; rw [uniqueYears_order_free h]

theorem annualTrend_order_free (c : Cfg) (sig : Bool) {xs xs' : List Dated} (h : xs.Perm xs') :
    annualTrend c sig (xs.map Prod.fst) (xs.map Prod.snd) = annualTrend c sig (xs'.map Prod.fst) (xs'.map Prod.snd) := by
  unfold annualTrend
  rw [uniqueYears_order_free (h.map Prod.snd), yearlyMeans_order_free h]

/-- the amount step 3 removes from (and step 7 restores to) a value of year `y` of the dated sample `xs` -/
def trendAt (c : Cfg) (sig : Bool) (xs : List Dated) (y : Int) : Rat :=
  (annualTrend c sig (xs.map Prod.fst) (xs.map Prod.snd)).getD ((uniqueYears (xs.map Prod.snd)).idxOf y) 0

theorem trendAt_order_free (c : Cfg) (sig : Bool) {xs xs' : List Dated} (h : xs.Perm xs') :
    trendAt c sig xs = trendAt c sig xs' := by
  funext y
  unfold trendAt
  rw [annualTrend_order_free c sig h, uniqueYears_order_free (h.map Prod.snd)]

/-- the trend of every value is `trendAt` of its year -/
theorem dailyTrend_eq_trendAt (c : Cfg) (sig : Bool) (xs : List Dated) :
    dailyTrend c sig (xs.map Prod.fst) (xs.map Prod.snd) = xs.map (fun p => trendAt c sig xs p.2) := by
  unfold dailyTrend
  simp only []
  rw [zipWith_map_map]
  rfl

end Lemmas.C02
