/-
  Sanity lemmas about `Model/Isimip.lean` (the shared model of ISIMIP's per-window pipeline): the pieces that
  are the identity for a given configuration really are, lengths are preserved, step 7 restores exactly what
  step 3 removed, and for tas-like settings (no finite threshold) steps 5 and 6 reduce to the plain trend transfer and
  the plain quantile mapping of the sorted samples (`step5_unbounded`, `step6Full_unbounded`,
  `adjustBetween_parametric_unbounded`).  The property theorems (C01/C02/C04/C09/C10) live in `Props/`.
-/
import IbicusModel.Model.Isimip
import IbicusModel.Lemmas.StatsRank
import IbicusModel.Lemmas.IsimipFreq
import Mathlib.Tactic.Ring
import Mathlib.Tactic.Linarith
import Mathlib.Algebra.Order.Field.Basic

namespace Lemmas.IsimipModel
open Model.Isimip Model.Stats Model.IsimipFreq

/-- tas-like settings (the attrs defaults: `∓inf`): none of the `has_*` properties holds -/
theorem has_nothing_of_infinite (c : Cfg) (h1 : c.lowerBound = .negInf) (h2 : c.lowerThreshold = .negInf)
    (h3 : c.upperBound = .posInf) (h4 : c.upperThreshold = .posInf) :
    c.hasBound = false ∧ c.hasThreshold = false := by
  simp [Cfg.hasBound, Cfg.hasThreshold, Cfg.hasUpperBound, Cfg.hasLowerBound, Cfg.hasUpperThreshold,
    Cfg.hasLowerThreshold, h1, h2, h3, h4, ExtRat.gtNegInf, ExtRat.ltPosInf]

/-- `has_lower_threshold` is true for a threshold of `+inf` (the code tests `> -inf` only) -/
theorem hasLowerThreshold_posInf (c : Cfg) (h : c.lowerThreshold = .posInf) : c.hasLowerThreshold = true := by
  simp [Cfg.hasLowerThreshold, h, ExtRat.gtNegInf]

/-- without thresholds every value is "between thresholds" -/
theorem maskBetween_of_infinite (c : Cfg) (h2 : c.lowerThreshold = .negInf) (h4 : c.upperThreshold = .posInf)
    (x : List Rat) : maskBetween c x = x.map (fun _ => true) := by
  simp [maskBetween, h2, h4, ExtRat.gtOf, ExtRat.ltOf]

theorem valuesBetween_of_infinite (c : Cfg) (h2 : c.lowerThreshold = .negInf) (h4 : c.upperThreshold = .posInf)
    (x : List Rat) : valuesBetween c x = x := by
  unfold valuesBetween
  rw [maskBetween_of_infinite c h2 h4]
  induction x with
  | nil => rfl
  | cons a t ih => simpa [Py.selectWhere] using ih

/-- `detrending = False`: step 3 returns its inputs and a zero trend, step 7 is the identity -/
theorem step3_of_not_detrending (c : Cfg) (o : Oracles) (h : c.detrending = false)
    (obs H F : List Rat) (yO yH yF : List Int) :
    step3 c o obs H F yO yH yF = (obs, H, F, F.map (fun _ => 0)) := by
  simp [step3, h]

theorem step7_of_not_detrending (c : Cfg) (h : c.detrending = false) (F t : List Rat) : step7 c F t = F := by
  simp [step7, h]

/-- the code's condition `pvalue < 0.05 and detrending_with_significance_test`: with the flag **off** the annual
    trend is zero whatever the regression says (nothing is removed) -/
theorem annualTrend_zero_of_sigtest_off (c : Cfg) (h : c.detrendingWithSignificanceTest = false) (sig : Bool)
    (x : List Rat) (years : List Int) :
    annualTrend c sig x years = ((uniqueYears years).map (fun (y : Int) => (y : Rat))).map (fun _ => 0) := by
  simp [annualTrend, h]

/-- step 4 does nothing unless a bound **and** its threshold are finite on the same side -/
theorem step4_of_no_bound_threshold_pair (c : Cfg) (d : Draws)
    (hl : (c.hasLowerBound && c.hasLowerThreshold) = false) (hu : (c.hasUpperBound && c.hasUpperThreshold) = false)
    (obs H F : List Rat) : step4 c d obs H F = .ok (obs, H, F) := by
  simp only [step4, hl, hu]
  rfl

/-- `x − t + t = x` element-wise -/
theorem zipWith_sub_add_cancel : ∀ (x t : List Rat), x.length = t.length →
    List.zipWith (· + ·) (List.zipWith (· - ·) x t) t = x
  | [], [], _ => rfl
  | a :: x, b :: t, h => by
      have h' : x.length = t.length := by simpa using h
      simp only [List.zipWith_cons_cons, zipWith_sub_add_cancel x t h']
      congr 1
      ring
  | [], _ :: _, h => by simp at h
  | _ :: _, [], h => by simp at h

theorem dailyTrend_length (c : Cfg) (sig : Bool) (x : List Rat) (years : List Int) (h : x.length = years.length) :
    (dailyTrend c sig x years).length = x.length := by
  simp [dailyTrend, h]

/-- **step 7 restores exactly what step 3 removed** from `cm_future`: `step7 (step3 F).detrended (step3 F).trend = F`
    (for a year list parallel to the values) -/
theorem step7_step3_roundtrip (c : Cfg) (o : Oracles) (obs H F : List Rat) (yO yH yF : List Int)
    (h : F.length = yF.length) :
    step7 c (step3 c o obs H F yO yH yF).2.2.1 (step3 c o obs H F yO yH yF).2.2.2 = F := by
  by_cases hd : c.detrending = true
  · simp only [step3, step7, hd, if_true, step3RemoveTrend]
    exact zipWith_sub_add_cancel F _ (dailyTrend_length c o.sigF F yF h).symm
  · have hd' : c.detrending = false := by simpa using hd
    simp [step3, step7, hd']

/-- the trend `step3` returns for `cm_future` is what step 7 adds: `step7 x trend = x + trend` element-wise -/
theorem step7_eq_add (c : Cfg) (h : c.detrending = true) (x t : List Rat) :
    step7 c x t = List.zipWith (· + ·) x t := by
  simp [step7, h]

/-- `step6` is the `result` field of `step6Full` -/
theorem step6_eq (c : Cfg) (fam : IsiFamily) (o : Oracles) (obs oF H F : List Rat) :
    step6 c fam o obs oF H F = (step6Full c fam o obs oF H F).map (·.result) := rfl

/-- `_apply_on_window` is the composition of the steps (definitional) -/
theorem applyOnWindow_eq (c : Cfg) (fam : IsiFamily) (o : Oracles) (d : Draws) (obs H F : List Rat) (yO yH yF : List Int) :
    applyOnWindow c fam o d obs H F yO yH yF =
      (step4 c d (step3 c o obs H F yO yH yF).1 (step3 c o obs H F yO yH yF).2.1 (step3 c o obs H F yO yH yF).2.2.1).bind
        (fun r4 => (step5 c o r4.1 r4.2.1 r4.2.2).bind
          (fun oF => (step6 c fam o r4.1 oF r4.2.1 r4.2.2).bind
            (fun r => .ok (step7 c r (step3 c o obs H F yO yH yF).2.2.2)))) := by
  rfl

/-! ### lengths, and the reduction of steps 5 and 6 for tas-like settings (no finite threshold) -/

/-- `cm_future[np.argsort(cm_future)]` is the sorted array -/
theorem takeIdx_argsort (F : List Rat) : takeIdx F (argsort F) = sortQ F := by
  rw [← Lemmas.Stats.pairs_fst, Lemmas.Stats.argsort_eq]
  unfold takeIdx
  rw [List.map_map]
  apply List.map_congr_left
  intro p hp
  have hp' : p ∈ F.zip (List.range F.length) := (Lemmas.Stats.pairs_perm F).mem_iff.mp hp
  exact (Lemmas.Stats.mem_zip_range hp').2

theorem selectWhere_all_true (x : List Rat) : Py.selectWhere x (List.replicate x.length true) = x := by
  induction x with
  | nil => rfl
  | cons a t ih => simpa [Py.selectWhere, List.replicate_succ] using ih

theorem fillWhere_all_true (x v : List Rat) (h : v.length = x.length) :
    fillWhere x (List.replicate x.length true) v = v := by
  induction x generalizing v with
  | nil => cases v with
    | nil => rfl
    | cons b s => simp at h
  | cons a t ih => cases v with
    | nil => simp at h
    | cons b s =>
      simp only [List.length_cons, Nat.add_right_cancel_iff] at h
      simp [List.replicate_succ, fillWhere, ih s h]

theorem qmap_length (em : EcdfMethod) (im : IecdfMethod) (x y v : List Rat) : (qmap em im x y v).length = v.length := by
  simp [qmap, iecdf, ecdf]

theorem qmapIsimip_length (x y : List Rat) : (qmapIsimip x y).length = x.length := by
  simp [qmapIsimip, interp, rankAvg]

theorem linspace_length (a b : Rat) (n : Nat) : (linspace a b n).length = n := by
  unfold linspace
  split
  · next h => simp [h]
  · simp

theorem interpOnLength_length (cdf : List Rat) (m : Nat) : (interpOnLength cdf m).length = m := by
  simp [interpOnLength, interp, linspace_length]

theorem elaProbabilities_length (o : Oracles) (cO cH cF : List Rat) (hO : cO.length = cF.length) (hH : cH.length = cF.length) :
    (elaProbabilities o cO cH cF).length = cF.length := by
  simp [elaProbabilities, hO, hH]

theorem qmapXonY_length (c : Cfg) (x y : List Rat) : (qmapXonY c x y).length = x.length := by
  unfold qmapXonY
  cases c.modeNpqm <;> simp [qmap_length, qmapIsimip_length]

theorem ite_pre_length (p : Prop) [Decidable p] (c : Cfg) (Fns Fbt : List Rat) :
    (if p then qmapXonY c Fns Fbt else Fns).length = Fns.length := by
  split <;> simp [qmapXonY_length]

/-- every return of `_step6_adjust_values_between_thresholds` has one value per entry of `cm_future_not_sent_to_bound` -/
theorem adjustBetween_length (c : Cfg) (fam : IsiFamily) (o : Oracles) (Obt OFbt Hbt Fns Fbt : List Rat)
    (r : List Rat × Branch × Bool) (h : adjustBetween c fam o Obt OFbt Hbt Fns Fbt = .ok r) :
    r.1.length = Fns.length := by
  unfold adjustBetween at h
  split at h
  · cases h; simp [qmap_length]
  · simp only [] at h
    split at h
    · cases h; simp [qmap_length, ite_pre_length]
    · split at h
      · cases h; simp [qmap_length, ite_pre_length]
      · cases hfa : fixedArgs c with
        | error e => rw [hfa] at h; simp [bind, Except.bind] at h
        | ok fa =>
          rw [hfa] at h
          simp only [bind, Except.bind] at h
          split at h
          · split at h
            · cases h; simp [qmap_length, ite_pre_length]
            · split at h
              · cases h; simp [ite_pre_length]
              · split at h
                · cases h
                  simp only [List.length_map]
                  rw [elaProbabilities_length] <;> simp [interpOnLength_length, ite_pre_length]
                · simp at h
          · cases h; simp [qmap_length, ite_pre_length]

theorem lowerMask_zero (n : Nat) : lowerMask 0 n = List.replicate n false := by
  simp [lowerMask, pySliceIdx]

theorem upperMask_zero (n : Nat) : upperMask 0 n = List.replicate n false := by
  have h : ¬ ((n : Int) < 0) := by omega
  simp [upperMask, pySliceIdx, h]

theorem finalCounts_zero (n : Nat) : finalCounts 0 0 (n : Int) = (0, 0) := by
  simp [finalCounts]

theorem setBound_all_false (xs : List Rat) (n : Nat) (b : ExtRat) : setBound xs (List.replicate n false) b = .ok xs := by
  simp [setBound]

theorem notMask_all_false (n : Nat) : notMask (List.replicate n false) (List.replicate n false) = List.replicate n true := by
  simp [notMask]

theorem sortQ_ne_nil {x : List Rat} (h : x ≠ []) : sortQ x ≠ [] := by
  intro h'
  have := Lemmas.Stats.sortQ_length x
  rw [h'] at this
  exact h (List.length_eq_zero_iff.mp this.symm)

/-- **tas-like settings (no finite threshold): step 6 is the quantile mapping of the sorted `cm_future` onto the
    sorted pseudo-future observations, put back in the original order** — no entry goes to a bound, nothing is
    filtered, no pre-mapping -/
theorem step6Full_unbounded (c : Cfg) (fam : IsiFamily) (o : Oracles) (obs oF H F : List Rat)
    (h2 : c.lowerThreshold = .negInf) (h4 : c.upperThreshold = .posInf) (hF : F ≠ []) (hoF : oF ≠ []) :
    step6Full c fam o obs oF H F =
      match adjustBetween c fam o (sortQ obs) (sortQ oF) (sortQ H) (sortQ F) (sortQ F) with
      | .ok t => .ok { nL := 0, nU := 0, branch := t.2.1, premapped := t.2.2, mappedSorted := t.1,
                       result := takeIdx t.1 (rankOf F) }
      | .error e => .error e := by
  have hlt : c.hasLowerThreshold = false := by simp [Cfg.hasLowerThreshold, h2, ExtRat.gtNegInf]
  have hut : c.hasUpperThreshold = false := by simp [Cfg.hasUpperThreshold, h4, ExtRat.ltPosInf]
  have hn : 0 < (sortQ F).length := List.length_pos_iff.mpr (sortQ_ne_nil hF)
  have hn' : 0 < (sortQ oF).length := List.length_pos_iff.mpr (sortQ_ne_nil hoF)
  unfold step6Full
  simp only [takeIdx_argsort, hlt, hut, Bool.false_eq_true, if_false, finalCounts_zero, lowerMask_zero, upperMask_zero,
    setBound_all_false, notMask_all_false, valuesBetween_of_infinite c h2 h4, selectWhere_all_true, bind, Except.bind]
  have hany : (List.replicate (sortQ F).length true).any id = true := by
    cases hl : (sortQ F).length with
    | zero => omega
    | succ k => simp [List.replicate_succ]
  simp only [hany, if_true, hn']
  cases hadj : adjustBetween c fam o (sortQ obs) (sortQ oF) (sortQ H) (sortQ F) (sortQ F) with
  | error e => rfl
  | ok t =>
    have hlen := adjustBetween_length c fam o _ _ _ _ _ t hadj
    simp only [pure, Except.pure, fillWhere_all_true _ _ hlen]

/-- closed form of the parametric branch for tas-like settings: both fits free (`floc = fscale = None`), no
    pre-mapping: `ppf_obsfut (clip (cdf_cmfut x))` for every sorted value -/
theorem adjustBetween_parametric_unbounded (c : Cfg) (fam : IsiFamily) (o : Oracles) (Obt OFbt Hbt Fns : List Rat)
    (h2 : c.lowerThreshold = .negInf) (h4 : c.upperThreshold = .posInf)
    (hnp : c.nonparametricQm = false) (hF : 2 ≤ Fns.length) (hOF : 2 ≤ OFbt.length)
    (fitF fitOF : Rat × Rat) (hfF : fam.fit Fns none none = some fitF) (hfO : fam.fit OFbt none none = some fitOF)
    (hks : (c.ksTest && !o.ksGood) = false) (hela : c.eventLikelihoodAdjustment = false) :
    adjustBetween c fam o Obt OFbt Hbt Fns Fns =
      .ok (Fns.map (fun v => fam.ppf fitOF (thrCdf (fam.cdf fitF v))), .parametric, false) := by
  have hlt : c.hasLowerThreshold = false := by simp [Cfg.hasLowerThreshold, h2, ExtRat.gtNegInf]
  have hut : c.hasUpperThreshold = false := by simp [Cfg.hasUpperThreshold, h4, ExtRat.ltPosInf]
  have hth : c.hasThreshold = false := by simp [Cfg.hasThreshold, hlt, hut]
  have hfa : fixedArgs c = .ok (none, none) := by
    simp [fixedArgs, hlt, hut, pure, Except.pure, bind, Except.bind]
  have h0 : ¬ Fns.length = 0 := by omega
  have h1 : (decide (Fns.length = 1) || decide (OFbt.length ≤ 1)) = false := by
    simp only [Bool.or_eq_false_iff, decide_eq_false_iff_not]; omega
  unfold adjustBetween
  simp only [hnp, hth, Bool.false_and, Bool.false_eq_true, if_false, h0, h1, hfa, bind, Except.bind, hfF, hfO, hks, hela,
    Bool.not_false, if_true, pure, Except.pure, List.map_map]
  rfl

/-- closed form of `nonparametric_qm = True` -/
theorem adjustBetween_npqm (c : Cfg) (fam : IsiFamily) (o : Oracles) (Obt OFbt Hbt Fns Fbt : List Rat)
    (hnp : c.nonparametricQm = true) :
    adjustBetween c fam o Obt OFbt Hbt Fns Fbt = .ok (qmap c.ecdfMethod c.iecdfMethod Fns OFbt Fns, .npqm, false) := by
  simp [adjustBetween, hnp]

/-- `step6` returns one value per value of `cm_future` -/
theorem step6Full_result_length (c : Cfg) (fam : IsiFamily) (o : Oracles) (obs oF H F : List Rat) (r : Step6Out)
    (h : step6Full c fam o obs oF H F = .ok r) : r.result.length = F.length := by
  unfold step6Full at h
  simp only [bind, Except.bind] at h
  repeat' split at h
  all_goals first
    | (cases h; simp [takeIdx, Lemmas.Stats.rankOf_length])
    | (simp at h)

theorem map_const_true (x : List Rat) : x.map (fun _ => true) = List.replicate x.length true := by
  induction x with
  | nil => rfl
  | cons a t ih => simp [List.replicate_succ, ih]

/-- `_step5_transfer_trend` returns one value per observation -/
theorem step5TransferTrend_length (c : Cfg) (o : Oracles) (obs H F r : List Rat)
    (h : step5TransferTrend c o obs H F = .ok r) : r.length = obs.length := by
  unfold step5TransferTrend at h
  split at h
  · simp at h
  · cases htm : c.trendMethod <;> rw [htm] at h <;> simp only [] at h
    · cases h; simp [iecdf, ecdf]
    · cases h; simp [iecdf, ecdf]
    · cases h; simp [iecdf, ecdf]
    · cases ha : c.lowerBound.toRat with
      | error e => rw [ha] at h; simp [bind, Except.bind] at h
      | ok a =>
        cases hb : c.upperBound.toRat with
        | error e => rw [ha, hb] at h; simp [bind, Except.bind] at h
        | ok b => rw [ha, hb] at h; simp only [bind, Except.bind, pure, Except.pure] at h; cases h; simp [iecdf, ecdf]

/-- tas-like settings: `step5` is `_step5_transfer_trend` on the whole samples, whatever
    `trend_transfer_only_for_values_within_threshold` says -/
theorem step5_unbounded (c : Cfg) (o : Oracles) (obs H F : List Rat)
    (h2 : c.lowerThreshold = .negInf) (h4 : c.upperThreshold = .posInf) (hO : obs ≠ []) (hH : H ≠ []) (hF : F ≠ []) :
    step5 c o obs H F = step5TransferTrend c o obs H F := by
  unfold step5
  split
  · rw [valuesBetween_of_infinite c h2 h4, valuesBetween_of_infinite c h2 h4, maskBetween_of_infinite c h2 h4, map_const_true]
    simp only [selectWhere_all_true]
    have hany : (List.replicate obs.length true).any id = true := by
      cases obs with
      | nil => exact absurd rfl hO
      | cons a t => simp [List.replicate_succ]
    have h1 : 0 < H.length := List.length_pos_iff.mpr hH
    have h3 : 0 < F.length := List.length_pos_iff.mpr hF
    simp only [hany, h1, h3, decide_true, Bool.and_self, if_true]
    cases ht : step5TransferTrend c o obs H F with
    | error e => rfl
    | ok t =>
      simp only [bind, Except.bind, pure, Except.pure]
      rw [fillWhere_all_true _ _ (step5TransferTrend_length c o obs H F t ht)]
  · rfl

end Lemmas.IsimipModel
