/-
  Sanity lemmas about `Model/Isimip.lean` (the shared model of ISIMIP's per-window pipeline): the pieces that
  are the identity for a given configuration really are, lengths are preserved, and step 7 restores exactly what
  step 3 removed.  The property theorems (C01/C02/C04/C09/C10) live in `Props/`.
-/
import IbicusModel.Model.Isimip
import Mathlib.Tactic.Ring
import Mathlib.Tactic.Linarith
import Mathlib.Algebra.Order.Field.Basic

namespace Lemmas.IsimipModel
open Model.Isimip Model.Stats

/-- tas-like settings (the attrs defaults: `∓inf`): none of the `has_*` properties holds -/
theorem has_nothing_of_infinite (c : Cfg) (h1 : c.lowerBound = .negInf) (h2 : c.lowerThreshold = .negInf)
    (h3 : c.upperBound = .posInf) (h4 : c.upperThreshold = .posInf) :
    c.hasBound = false ∧ c.hasThreshold = false := by
  simp [Cfg.hasBound, Cfg.hasThreshold, Cfg.hasUpperBound, Cfg.hasLowerBound, Cfg.hasUpperThreshold,
    Cfg.hasLowerThreshold, h1, h2, h3, h4, ExtRat.gtNegInf, ExtRat.ltPosInf]

/-- `has_lower_threshold` is true for a threshold of `+inf` (the code tests `> -inf` only) -/
theorem hasLowerThreshold_posInf (c : Cfg) (h : c.lowerThreshold = .posInf) : c.hasLowerThreshold = true := by
  simp [Cfg.hasLowerThreshold, h, ExtRat.gtNegInf]

/-- without thresholds every value is "between thresholds" -/
theorem maskBetween_of_infinite (c : Cfg) (h2 : c.lowerThreshold = .negInf) (h4 : c.upperThreshold = .posInf)
    (x : List Rat) : maskBetween c x = x.map (fun _ => true) := by
  simp [maskBetween, h2, h4, ExtRat.gtOf, ExtRat.ltOf]

theorem valuesBetween_of_infinite (c : Cfg) (h2 : c.lowerThreshold = .negInf) (h4 : c.upperThreshold = .posInf)
    (x : List Rat) : valuesBetween c x = x := by
  unfold valuesBetween
  rw [maskBetween_of_infinite c h2 h4]
  induction x with
  | nil => rfl
  | cons a t ih => simpa [Py.selectWhere] using ih

/-- `detrending = False`: step 3 returns its inputs and a zero trend, step 7 is the identity -/
theorem step3_of_not_detrending (c : Cfg) (o : Oracles) (h : c.detrending = false)
    (obs H F : List Rat) (yO yH yF : List Int) :
    step3 c o obs H F yO yH yF = (obs, H, F, F.map (fun _ => 0)) := by
  simp [step3, h]

theorem step7_of_not_detrending (c : Cfg) (h : c.detrending = false) (F t : List Rat) : step7 c F t = F := by
  simp [step7, h]

/-- the code's condition `pvalue < 0.05 and detrending_with_significance_test`: with the flag **off** the annual
    trend is zero whatever the regression says (nothing is removed) -/
theorem annualTrend_zero_of_sigtest_off (c : Cfg) (h : c.detrendingWithSignificanceTest = false) (sig : Bool)
    (x : List Rat) (years : List Int) :
    annualTrend c sig x years = ((uniqueYears years).map (fun (y : Int) => (y : Rat))).map (fun _ => 0) := by
  simp [annualTrend, h]

/-- step 4 does nothing unless a bound **and** its threshold are finite on the same side -/
theorem step4_of_no_bound_threshold_pair (c : Cfg) (d : Draws)
    (hl : (c.hasLowerBound && c.hasLowerThreshold) = false) (hu : (c.hasUpperBound && c.hasUpperThreshold) = false)
    (obs H F : List Rat) : step4 c d obs H F = .ok (obs, H, F) := by
  simp only [step4, hl, hu]
  rfl

/-- `x − t + t = x` element-wise -/
theorem zipWith_sub_add_cancel : ∀ (x t : List Rat), x.length = t.length →
    List.zipWith (· + ·) (List.zipWith (· - ·) x t) t = x
  | [], [], _ => rfl
  | a :: x, b :: t, h => by
      have h' : x.length = t.length := by simpa using h
      simp only [List.zipWith_cons_cons, zipWith_sub_add_cancel x t h']
      congr 1
      ring
  | [], _ :: _, h => by simp at h
  | _ :: _, [], h => by simp at h

theorem dailyTrend_length (c : Cfg) (sig : Bool) (x : List Rat) (years : List Int) (h : x.length = years.length) :
    (dailyTrend c sig x years).length = x.length := by
  simp [dailyTrend, h]

/-- **step 7 restores exactly what step 3 removed** from `cm_future`: `step7 (step3 F).detrended (step3 F).trend = F`
    (for a year list parallel to the values) -/
theorem step7_step3_roundtrip (c : Cfg) (o : Oracles) (obs H F : List Rat) (yO yH yF : List Int)
    (h : F.length = yF.length) :
    step7 c (step3 c o obs H F yO yH yF).2.2.1 (step3 c o obs H F yO yH yF).2.2.2 = F := by
  by_cases hd : c.detrending = true
  · simp only [step3, step7, hd, if_true, step3RemoveTrend]
    exact zipWith_sub_add_cancel F _ (dailyTrend_length c o.sigF F yF h).symm
  · have hd' : c.detrending = false := by simpa using hd
    simp [step3, step7, hd']

/-- the trend `step3` returns for `cm_future` is what step 7 adds: `step7 x trend = x + trend` element-wise -/
theorem step7_eq_add (c : Cfg) (h : c.detrending = true) (x t : List Rat) :
    step7 c x t = List.zipWith (· + ·) x t := by
  simp [step7, h]

/-- `step6` is the `result` field of `step6Full` -/
theorem step6_eq (c : Cfg) (fam : IsiFamily) (o : Oracles) (obs oF H F : List Rat) :
    step6 c fam o obs oF H F = (step6Full c fam o obs oF H F).map (·.result) := rfl

/-- `_apply_on_window` is the composition of the steps (definitional) -/
theorem applyOnWindow_eq (c : Cfg) (fam : IsiFamily) (o : Oracles) (d : Draws) (obs H F : List Rat) (yO yH yF : List Int) :
    applyOnWindow c fam o d obs H F yO yH yF =
      (step4 c d (step3 c o obs H F yO yH yF).1 (step3 c o obs H F yO yH yF).2.1 (step3 c o obs H F yO yH yF).2.2.1).bind
        (fun r4 => (step5 c o r4.1 r4.2.1 r4.2.2).bind
          (fun oF => (step6 c fam o r4.1 oF r4.2.1 r4.2.2).bind
            (fun r => .ok (step7 c r (step3 c o obs H F yO yH yF).2.2.2)))) := by
  rfl

end Lemmas.IsimipModel
