/-
  Tier A proof obligations for C11: the kernels regenerated from /repo's current source
  (`Gen.IsimipFreq`) are equal to the hand-written model (`Model.IsimipFreq`) on which the property
  theorems are stated.  A change of the code that changes a kernel breaks one of these.
-/
import IbicusModel.Model.IsimipFreq
import IbicusModel.Gen.IsimipFreq
import IbicusModel.Lemmas.IsimipFreq

namespace Lemmas.GenIsimipFreq
open Model.IsimipFreq Lemmas.IsimipFreq

/-- `_step6_calculate_percent_values_beyond_threshold` = `freq` -/
theorem calculate_percent_values_beyond_threshold (m : List Bool) :
    Gen.IsimipFreq.calculate_percent_values_beyond_threshold m = freq m := by
  unfold Gen.IsimipFreq.calculate_percent_values_beyond_threshold freq countTrue
  rfl

/-- `_step6_get_P_obs_future` = `pObsFuture` (all rationals, no guard) -/
theorem get_P_obs_future (Po Ph Pf : Rat) :
    Gen.IsimipFreq.get_P_obs_future Po Ph Pf = pObsFuture Po Ph Pf := by
  unfold Gen.IsimipFreq.get_P_obs_future pObsFuture
  split_ifs <;> simp

/-- `_step6_get_nr_of_entries_to_set_to_bound` = `nrToBound` -/
theorem get_nr_of_entries_to_set_to_bound (adjust : Bool) (mo mh mf : List Bool) :
    Gen.IsimipFreq.get_nr_of_entries_to_set_to_bound adjust mo mh mf = nrToBound adjust mo mh mf := by
  unfold Gen.IsimipFreq.get_nr_of_entries_to_set_to_bound nrToBound pFuture
  simp only [calculate_percent_values_beyond_threshold, get_P_obs_future]

/-- `_step6_scale_nr_of_entries_to_set_to_bounds` = `scaleCounts` whenever the divisor `l + u` is positive
    (in `step6` it is called only when `l + u > n ≥ 0`). -/
theorem scale_nr_of_entries_to_set_to_bounds (l u n : Int) (h : 0 < l + u) :
    Gen.IsimipFreq.scale_nr_of_entries_to_set_to_bounds l u n = scaleCounts l u n := by
  unfold Gen.IsimipFreq.scale_nr_of_entries_to_set_to_bounds scaleCounts
  simp only [roundHalfEven_div _ _ h]

/-- `_get_mask_for_values_beyond_lower_threshold`: `x <= lower_threshold` -/
theorem get_mask_for_values_beyond_lower_threshold (t : Rat) (x : List Rat) :
    Gen.IsimipFreq.get_mask_for_values_beyond_lower_threshold t x = maskLower t x := rfl

/-- `_get_mask_for_values_beyond_upper_threshold`: `x >= upper_threshold` -/
theorem get_mask_for_values_beyond_upper_threshold (t : Rat) (x : List Rat) :
    Gen.IsimipFreq.get_mask_for_values_beyond_upper_threshold t x = maskUpper t x := rfl

/-- `_get_mask_for_values_between_thresholds`: strictly between -/
theorem get_mask_for_values_between_thresholds (tl tu : Rat) (x : List Rat) :
    Gen.IsimipFreq.get_mask_for_values_between_thresholds tl tu x = maskMiddle tl tu x := by
  unfold Gen.IsimipFreq.get_mask_for_values_between_thresholds maskMiddle
  induction x with
  | nil => rfl
  | cons a t ih => simp only [List.map_cons, List.zipWith_cons_cons, ih]

end Lemmas.GenIsimipFreq
