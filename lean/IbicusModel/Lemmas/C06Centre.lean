/-
  C06 helper lemmas, part 10: the running-window loop with a window function that depends on the window CENTRE
  (`applyLocationRWC`): what differs from window to window besides the samples — the random draws a window consumes, the
  decisions of the statistical tests taken on it — is a function of the centre.  Both runs of a time-order comparison
  use the same function of the centre ("the same numbers for the same window").  Value characterisation and
  time-order equivariance, as for `applyLocationRW` (the proofs are those of `Lemmas.Pointwise.applyLocationRW_value`,
  `Props.C06.equivariance_RW`, `Lemmas.C06.equivariance_RW_E` with the centre carried along).
-/
import IbicusModel.Lemmas.C06Except
import IbicusModel.Lemmas.C06Rank

namespace Lemmas.C06
open Model.Skeleton Model.Windows Lemmas.Windows Lemmas.Skeleton Lemmas.Pointwise Lemmas.Perm Lemmas.Lift

/-- the running-window loop of `applyLocationRW` with a centre-dependent window function -/
def applyLocationRWC {α} (f : Int → WinFn α) (L S : Int) (doyO doyH doyF : List Int) (obs hist fut : List α) :
    Except String (List (Option α)) :=
  runLoop (fun c => windowWrites (f c) L S doyO doyH doyF obs hist fut c) (useCenters S doyF) fut.length

/-- a centre-independent window function: the shared skeleton loop -/
theorem applyLocationRWC_const {α} (f : WinFn α) (L S : Int) (dO dH dF : List Int) (obs hist fut : List α) :
    applyLocationRWC (fun _ => f) L S dO dH dF obs hist fut = applyLocationRW f L S dO dH dF obs hist fut := rfl

/-- a window function keyed by the index list of the future window (`Model.Isimip.winFn`'s oracles and draws) is
    centre-dependent: the index list of a window is a function of its centre -/
theorem applyLocationRW_keyed {α K} (W : K → WinFn α) (key : List Nat → K) (L S : Int) (dO dH dF : List Int)
    (obs hist fut : List α) :
    applyLocationRW (fun o h x io ih ix => W (key ix) o h x io ih ix) L S dO dH dF obs hist fut =
      applyLocationRWC (fun c => W (key (idxWindow L dF c))) L S dO dH dF obs hist fut := rfl

/-- two centre-dependent window functions that agree on the window samples of the run (under a guard that holds on
    them) give the same run -/
theorem applyLocationRWC_congr_on {α} (f f' : Int → WinFn α) (Pw : Int → List α → List α → List α → Prop)
    (hff : ∀ c o h x io ih ix, Pw c o h x → f c o h x io ih ix = f' c o h x io ih ix)
    (L S : Int) (dO dH dF : List Int) (obs hist fut : List α)
    (hP : ∀ c ∈ useCenters S dF, Pw c (take obs (idxWindow L dO c)) (take hist (idxWindow L dH c)) (take fut (idxWindow L dF c))) :
    applyLocationRWC f L S dO dH dF obs hist fut = applyLocationRWC f' L S dO dH dF obs hist fut := by
  unfold applyLocationRWC
  apply runLoop_congr
  intro c hc
  unfold windowWrites
  simp only [hff _ _ _ _ _ _ _ (hP c hc)]

/-- **Value of the loop for centre-dependent pointwise window functions** -/
theorem applyLocationRWC_value {α} (f : Int → WinFn α) (G : Int → List α → List α → List α → α → α)
    (hf : ∀ c, PointwiseOn (f c) (G c)) (L S h : Int) (dO dH dF : List Int) (obs hist fut : List α)
    (hS : S = 2 * h + 1) (hh : 0 ≤ h) (hSL : S ≤ L) (hlen : dF.length = fut.length)
    (hr : ∀ d ∈ dF, 1 ≤ d ∧ d ≤ 366) :
    ∃ out, applyLocationRWC f L S dO dH dF obs hist fut = .ok out ∧ out.length = fut.length ∧
      ∀ i (hi : i < fut.length) c, c ∈ useCenters S dF → i ∈ idxAdjust S dF c →
        out[i]? = some (some (G c (take obs (idxWindow L dO c)) (take hist (idxWindow L dH c))
          (take fut (idxWindow L dF c)) fut[i])) := by
  have hSpos : 0 < S := by omega
  have hsub : ∀ c i, i ∈ idxAdjust S dF c → i ∈ idxWindow L dF c :=
    fun c i hi => Props.C07.doy_adjust_subset_window L S dF c i hSL hSpos hr hi
  let W : Int → List (Nat × α) := fun c =>
    (idxAdjust S dF c).zip ((take fut (idxAdjust S dF c)).map
      (G c (take obs (idxWindow L dO c)) (take hist (idxWindow L dH c)) (take fut (idxWindow L dF c))))
  have hW : ∀ c ∈ useCenters S dF, windowWrites (f c) L S dO dH dF obs hist fut c = .ok (W c) :=
    fun c _ => windowWrites_pointwise (f c) (G c) (hf c) L S dO dH dF obs hist fut c hlen (hsub c)
  have hrun : applyLocationRWC f L S dO dH dF obs hist fut =
      .ok (applyWrites (List.replicate fut.length none) ((useCenters S dF).map W).flatten) := by
    unfold applyLocationRWC runLoop
    rw [mapE_ok_of_forall _ W _ hW]
    rfl
  refine ⟨_, hrun, by rw [applyWrites_length]; simp, ?_⟩
  intro i hi c hc hic
  have hva : ∀ c, ∀ j ∈ idxAdjust S dF c, j < fut.length := fun c j hj => hlen ▸ idxAdjust_valid S dF c j hj
  have hkeys : ∀ c, (W c).map Prod.fst = idxAdjust S dF c := by
    intro c
    exact List.map_fst_zip (by simp [take_length fut _ (hva c)])
  obtain ⟨c0, hc0⟩ := Props.C07.use_cover_unique S h dF i hS hh (by omega) (fun d hd => by have := hr d hd; omega)
  have huniq : ∀ c', c' ∈ useCenters S dF → i ∈ idxAdjust S dF c' → c' = c0 := by
    intro c' h1 h2
    have : c' ∈ (useCenters S dF).filter (fun c => (idxAdjust S dF c).contains i) :=
      List.mem_filter.mpr ⟨h1, List.contains_iff_mem.mpr h2⟩
    rw [hc0] at this
    exact List.mem_singleton.mp this
  have hcc : c = c0 := huniq c hc hic
  -- every write with key i carries the value of centre c
  have hval : ∀ p ∈ ((useCenters S dF).map W).flatten.filter (fun p => p.1 == i),
      p.2 = G c (take obs (idxWindow L dO c)) (take hist (idxWindow L dH c)) (take fut (idxWindow L dF c)) fut[i] := by
    intro p hp
    obtain ⟨hpf, hpi⟩ := List.mem_filter.mp hp
    have hpi' : p.1 = i := by simpa using hpi
    obtain ⟨ws, hws, hpws⟩ := List.mem_flatten.mp hpf
    obtain ⟨c', hc', rfl⟩ := List.mem_map.mp hws
    have hk : i ∈ idxAdjust S dF c' := by
      rw [← hkeys c', ← hpi']; exact List.mem_map.mpr ⟨p, hpws, rfl⟩
    have : c' = c := by rw [hcc]; exact huniq c' hc' hk
    subst this
    obtain ⟨hj, hv⟩ := mem_zip_take_map fut _ _ (hva c') p hpws
    rw [hv]
    congr 1
    simp [hpi']
  have hne : ((useCenters S dF).map W).flatten.filter (fun p => p.1 == i) ≠ [] := by
    have : i ∈ (W c).map Prod.fst := by rw [hkeys c]; exact hic
    obtain ⟨p, hp, hpi⟩ := List.mem_map.mp this
    apply List.ne_nil_of_mem (a := p)
    exact List.mem_filter.mpr ⟨List.mem_flatten.mpr ⟨W c, List.mem_map.mpr ⟨c, hc, rfl⟩, hp⟩, by simp [hpi]⟩
  rw [applyWrites_get_filter, applyWrites_all_key _ _ i (by simpa using hi)
    (fun q hq => by simpa using (List.mem_filter.mp hq).2) hne, hval _ (List.getLast_mem hne)]


theorem equivariance_RWC {α} (f : Int → WinFn α) (G : Int → List α → List α → List α → α → α)
    (hf : ∀ c, PointwiseOn (f c) (G c)) (hG : ∀ c, Props.C06.OrderFree (G c)) (L S h : Int) (dO dH dF : List Int) (obs hist fut : List α)
    (pO pH pF : List Nat)
    (hpO : pO.Perm (List.range obs.length)) (hpH : pH.Perm (List.range hist.length))
    (hpF : pF.Perm (List.range fut.length))
    (hlO : dO.length = obs.length) (hlH : dH.length = hist.length) (hlF : dF.length = fut.length)
    (hS : S = 2 * h + 1) (hh : 0 ≤ h) (hSL : S ≤ L) (hr : ∀ d ∈ dF, 1 ≤ d ∧ d ≤ 366) :
    ∃ out, applyLocationRWC f L S dO dH dF obs hist fut = .ok out ∧
      applyLocationRWC f L S (take dO pO) (take dH pH) (take dF pF) (take obs pO) (take hist pH) (take fut pF)
        = .ok (take out pF) := by
  obtain ⟨out, hrun, hl, hval⟩ := applyLocationRWC_value f G hf L S h dO dH dF obs hist fut hS hh hSL hlF hr
  have hvF := perm_valid pF hpF
  have hvFd : ∀ j ∈ pF, j < dF.length := fun j hj => hlF ▸ hvF j hj
  have hpFd : pF.Perm (List.range dF.length) := hlF ▸ hpF
  have hlen' : (take dF pF).length = (take fut pF).length := by
    rw [take_length dF pF hvFd, take_length fut pF hvF]
  have hr' : ∀ d ∈ take dF pF, 1 ≤ d ∧ d ≤ 366 :=
    fun d hd => hr d ((take_perm dF pF hpFd).mem_iff.mp hd)
  obtain ⟨out', hrun', hl', hval'⟩ := applyLocationRWC_value f G hf L S h (take dO pO) (take dH pH) (take dF pF)
    (take obs pO) (take hist pH) (take fut pF) hS hh hSL hlen' hr'
  refine ⟨out, hrun, ?_⟩
  rw [hrun']
  congr 1
  have hpl : pF.length = fut.length := by simpa using hpF.length_eq
  apply List.ext_getElem?
  intro k
  have hvO : ∀ j ∈ pF, j < out.length := fun j hj => hl ▸ hvF j hj
  rw [take_getElem? out pF hvO k]
  by_cases hk : k < pF.length
  · have hkf : k < (take fut pF).length := by rw [take_length fut pF hvF]; exact hk
    have hj : pF[k] < fut.length := hvF _ (List.getElem_mem hk)
    -- the centre adjusting the original step pF[k]
    obtain ⟨c, hc⟩ := Props.C07.use_cover_unique S h dF pF[k] hS hh (by omega) (fun d hd => by have := hr d hd; omega)
    have hcm : c ∈ (useCenters S dF).filter (fun c => (idxAdjust S dF c).contains pF[k]) := by
      rw [hc]; exact List.mem_singleton.mpr rfl
    obtain ⟨hc1, hc2⟩ := List.mem_filter.mp hcm
    have hic : pF[k] ∈ idxAdjust S dF c := List.contains_iff_mem.mp hc2
    -- it also adjusts step k of the permuted series
    have hc1' : c ∈ useCenters S (take dF pF) := by
      rw [useCenters_perm S (take dF pF) dF (take_perm dF pF hpFd)]; exact hc1
    have hkd : k < (take dF pF).length := by rw [take_length dF pF hvFd]; exact hk
    have hic' : k ∈ idxAdjust S (take dF pF) c := by
      unfold idxAdjust at hic ⊢
      obtain ⟨hlt, hm⟩ := (mem_indicesIn _ _ _).mp hic
      refine (mem_indicesIn _ _ _).mpr ⟨hkd, ?_⟩
      rw [Props.C06.getElem_take dF pF hvFd k hk hkd]
      exact hm
    rw [hval' k hkf c hc1' hic', List.getElem?_eq_getElem hk, Option.bind_some, hval pF[k] hj c hc1 hic]
    have e1 := hG c _ _ _ _ _ _
      (window_sample_perm obs dO (windowRange L c) pO hlO.symm hpO)
      (window_sample_perm hist dH (windowRange L c) pH hlH.symm hpH)
      (window_sample_perm fut dF (windowRange L c) pF hlF.symm hpF)
    unfold idxWindow
    rw [e1, Props.C06.getElem_take fut pF hvF k hk hkf]
  · have : out'.length = pF.length := by rw [hl', take_length fut pF hvF]
    rw [List.getElem?_eq_none (by omega), List.getElem?_eq_none (by omega)]
    rfl



/-- **Time-order equivariance of the running-window skeleton for window functions that may raise.** -/
theorem equivariance_RWC_E {α C} (f : Int → WinFn α) (E : Int → List α → List α → List α → Except String C)
    (G : Int → C → List α → α → α) (hf : ∀ c, PointwiseOnE (f c) (E c) (G c)) (hE : ∀ c, OrderFreeE (E c) (G c))
    (L S h : Int) (dO dH dF : List Int) (obs hist fut : List α) (pO pH pF : List Nat)
    (hpO : pO.Perm (List.range obs.length)) (hpH : pH.Perm (List.range hist.length))
    (hpF : pF.Perm (List.range fut.length))
    (hlO : dO.length = obs.length) (hlH : dH.length = hist.length) (hlF : dF.length = fut.length)
    (hS : S = 2 * h + 1) (hh : 0 ≤ h) (hSL : S ≤ L) (hr : ∀ d ∈ dF, 1 ≤ d ∧ d ≤ 366) :
    (∃ out, applyLocationRWC f L S dO dH dF obs hist fut = .ok out ∧
      applyLocationRWC f L S (take dO pO) (take dH pH) (take dF pF) (take obs pO) (take hist pH) (take fut pF)
        = .ok (take out pF)) ∨
    (∃ e, applyLocationRWC f L S dO dH dF obs hist fut = .error e ∧
      applyLocationRWC f L S (take dO pO) (take dH pH) (take dF pF) (take obs pO) (take hist pH) (take fut pF)
        = .error e) := by
  have hvF := perm_valid pF hpF
  have hvFd : ∀ j ∈ pF, j < dF.length := fun j hj => hlF ▸ hvF j hj
  have hpFd : pF.Perm (List.range dF.length) := hlF ▸ hpF
  have hcs : useCenters S (take dF pF) = useCenters S dF := useCenters_perm S _ _ (take_perm dF pF hpFd)
  have hlen' : (take dF pF).length = (take fut pF).length := by
    rw [take_length dF pF hvFd, take_length fut pF hvF]
  have hr' : ∀ d ∈ take dF pF, 1 ≤ d ∧ d ≤ 366 := fun d hd => hr d ((take_perm dF pF hpFd).mem_iff.mp hd)
  have hSpos : 0 < S := by omega
  -- the contexts of the permuted run are those of the original run
  have hctx : ∀ c, E c (take (take obs pO) (idxWindow L (take dO pO) c)) (take (take hist pH) (idxWindow L (take dH pH) c))
      (take (take fut pF) (idxWindow L (take dF pF) c)) =
      E c (take obs (idxWindow L dO c)) (take hist (idxWindow L dH c)) (take fut (idxWindow L dF c)) := by
    intro c
    unfold idxWindow
    exact (hE c).1 _ _ _ _ _ _ (window_sample_perm obs dO _ pO hlO.symm hpO) (window_sample_perm hist dH _ pH hlH.symm hpH)
      (window_sample_perm fut dF _ pF hlF.symm hpF)
  by_cases hall : ∀ c ∈ useCenters S dF, ∃ m,
      E c (take obs (idxWindow L dO c)) (take hist (idxWindow L dH c)) (take fut (idxWindow L dF c)) = .ok m
  · -- every window has a context: both runs are runs of the total function
    left
    have e1 : applyLocationRWC f L S dO dH dF obs hist fut = applyLocationRWC (fun c => totalFn (E c) (G c)) L S dO dH dF obs hist fut := by
      unfold applyLocationRWC
      apply runLoop_congr
      intro c hc
      rcases windowWrites_E (f c) (E c) (G c) (hf c) L S dO dH dF obs hist fut c with ⟨e, he, _⟩ | ⟨m, _, hw⟩
      · obtain ⟨m, hm⟩ := hall c hc; rw [hm] at he; cases he
      · exact hw
    have e2 : applyLocationRWC f L S (take dO pO) (take dH pH) (take dF pF) (take obs pO) (take hist pH) (take fut pF) =
        applyLocationRWC (fun c => totalFn (E c) (G c)) L S (take dO pO) (take dH pH) (take dF pF) (take obs pO) (take hist pH) (take fut pF) := by
      unfold applyLocationRWC
      apply runLoop_congr
      intro c hc
      rw [hcs] at hc
      rcases windowWrites_E (f c) (E c) (G c) (hf c) L S (take dO pO) (take dH pH) (take dF pF) (take obs pO) (take hist pH) (take fut pF) c
        with ⟨e, he, _⟩ | ⟨m, _, hw⟩
      · obtain ⟨m, hm⟩ := hall c hc; rw [hctx c, hm] at he; cases he
      · exact hw
    rw [e1, e2]
    exact equivariance_RWC (fun c => totalFn (E c) (G c)) (fun c => totalG (E c) (G c)) (fun c => totalFn_pointwise (E c) (G c))
      (fun c => totalG_orderFree (E c) (G c) (hE c))
      L S h dO dH dF obs hist fut pO pH pF hpO hpH hpF hlO hlH hlF hS hh hSL hr
  · -- some window raises: both runs raise the error of the first such centre
    right
    have hex : ∃ c ∈ useCenters S dF, ∃ e, windowWrites (f c) L S dO dH dF obs hist fut c = .error e := by
      by_contra hno
      apply hall
      intro c hc
      rcases windowWrites_E (f c) (E c) (G c) (hf c) L S dO dH dF obs hist fut c with ⟨e, _, hw⟩ | ⟨m, hm, _⟩
      · exact absurd ⟨c, hc, e, hw⟩ hno
      · exact ⟨m, hm⟩
    have hsub : ∀ c i, i ∈ idxAdjust S dF c → i ∈ idxWindow L dF c :=
      fun c i hi => Props.C07.doy_adjust_subset_window L S dF c i hSL hSpos hr hi
    have hsub' : ∀ c i, i ∈ idxAdjust S (take dF pF) c → i ∈ idxWindow L (take dF pF) c :=
      fun c i hi => Props.C07.doy_adjust_subset_window L S (take dF pF) c i hSL hSpos hr' hi
    have hpair : ∀ c ∈ useCenters S dF,
        (∃ e, windowWrites (f c) L S dO dH dF obs hist fut c = .error e ∧
          windowWrites (f c) L S (take dO pO) (take dH pH) (take dF pF) (take obs pO) (take hist pH) (take fut pF) c = .error e) ∨
        ((∃ a, windowWrites (f c) L S dO dH dF obs hist fut c = .ok a) ∧
          (∃ b, windowWrites (f c) L S (take dO pO) (take dH pH) (take dF pF) (take obs pO) (take hist pH) (take fut pF) c = .ok b)) := by
      intro c _
      rcases windowWrites_E (f c) (E c) (G c) (hf c) L S dO dH dF obs hist fut c with ⟨e, he, hw⟩ | ⟨m, hm, hw⟩
      · left
        rcases windowWrites_E (f c) (E c) (G c) (hf c) L S (take dO pO) (take dH pH) (take dF pF) (take obs pO) (take hist pH) (take fut pF) c
          with ⟨e', he', hw'⟩ | ⟨m', hm', _⟩
        · rw [hctx c, he] at he'
          cases he'
          exact ⟨e, hw, hw'⟩
        · rw [hctx c, he] at hm'; cases hm'
      · right
        rcases windowWrites_E (f c) (E c) (G c) (hf c) L S (take dO pO) (take dH pH) (take dF pF) (take obs pO) (take hist pH) (take fut pF) c
          with ⟨e', he', _⟩ | ⟨m', _, hw'⟩
        · rw [hctx c, hm] at he'; cases he'
        · exact ⟨⟨_, hw.trans (windowWrites_pointwise (totalFn (E c) (G c)) (totalG (E c) (G c)) (totalFn_pointwise (E c) (G c)) L S dO dH dF
              obs hist fut c hlF (hsub c))⟩,
            ⟨_, hw'.trans (windowWrites_pointwise (totalFn (E c) (G c)) (totalG (E c) (G c)) (totalFn_pointwise (E c) (G c)) L S (take dO pO)
              (take dH pH) (take dF pF) (take obs pO) (take hist pH) (take fut pF) c hlen' (hsub' c))⟩⟩
    obtain ⟨e, e1, e2⟩ := mapE_error_congr _ _ _ hpair hex
    refine ⟨e, ?_, ?_⟩
    · unfold applyLocationRWC runLoop
      rw [e1]; rfl
    · unfold applyLocationRWC runLoop
      rw [hcs, e2]; rfl


end Lemmas.C06
