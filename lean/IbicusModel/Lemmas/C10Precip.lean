/-
  C10 helpers, part 4: sign and censoring structure of the precipitation paths of the seven non-ISIMIP debiasers
  (`Model/Debiasers.lean`) and of the precipitation models (`Model/Precip.lean`).
-/
import IbicusModel.Model.Debiasers
import IbicusModel.Model.Precip
import IbicusModel.Lemmas.Family
import IbicusModel.Lemmas.Precip
import IbicusModel.Lemmas.C10

namespace Lemmas.C10
open Model.Stats Model.Family Model.Debiasers Model.Precip Lemmas.Stats

/-! ### means of non-negative samples -/

theorem mean_nonneg {l : List Rat} (h : ∀ x ∈ l, 0 ≤ x) : 0 ≤ mean l := by
  unfold mean
  exact div_nonneg (List.sum_nonneg h) (by positivity)

theorem mean_pos_of_ne {l : List Rat} (h : ∀ x ∈ l, 0 ≤ x) (hne : mean l ≠ 0) : 0 < mean l :=
  lt_of_le_of_ne (mean_nonneg h) (Ne.symm hne)

theorem mean_pos_of_pos {l : List Rat} (hl : l ≠ []) (h : ∀ x ∈ l, 0 < x) : 0 < mean l := by
  unfold mean
  have hlen : (0 : Rat) < (l.length : Rat) := by
    have := List.length_pos_iff.mpr hl
    exact_mod_cast this
  refine div_pos ?_ hlen
  cases l with
  | nil => exact absurd rfl hl
  | cons a t =>
    rw [List.sum_cons]
    have h1 : 0 < a := h a List.mem_cons_self
    have h2 : 0 ≤ t.sum := List.sum_nonneg (fun x hx => le_of_lt (h x (List.mem_cons_of_mem _ hx)))
    linarith

/-! ### LinearScaling / DeltaChange, multiplicative -/

theorem linearScaling_mult_nonneg (obs H F : List Rat) (ho : ∀ x ∈ obs, 0 ≤ x) (hh : ∀ x ∈ H, 0 ≤ x)
    (hf : ∀ x ∈ F, 0 ≤ x) (hg : lsGuard .multiplicative obs H) :
    0 < mean H ∧ ∀ v ∈ linearScaling .multiplicative obs H F, 0 ≤ v := by
  have hH : 0 < mean H := mean_pos_of_ne hh (hg.2.2 rfl)
  refine ⟨hH, ?_⟩
  intro v hv
  simp only [linearScaling, List.mem_map] at hv
  obtain ⟨x, hx, rfl⟩ := hv
  exact mul_nonneg (hf x hx) (div_nonneg (mean_nonneg ho) (le_of_lt hH))

theorem deltaChange_mult_nonneg (obs H F : List Rat) (ho : ∀ x ∈ obs, 0 ≤ x) (hh : ∀ x ∈ H, 0 ≤ x)
    (hf : ∀ x ∈ F, 0 ≤ x) (hg : dcGuard .multiplicative H F) :
    0 < mean H ∧ ∀ v ∈ deltaChange .multiplicative obs H F, 0 ≤ v := by
  have hH : 0 < mean H := mean_pos_of_ne hh (hg.2.2 rfl)
  refine ⟨hH, ?_⟩
  intro v hv
  simp only [deltaChange, List.mem_map] at hv
  obtain ⟨x, hx, rfl⟩ := hv
  exact mul_nonneg (ho x hx) (div_nonneg (mean_nonneg hf) (le_of_lt hH))

/-! ### QuantileMapping with a family whose `ppf` is non-negative on the thresholded probabilities -/

theorem thresholdCdf_open (t v : Rat) (h0 : 0 < t) (h1 : t ≤ 1 / 2) :
    0 < thresholdCdf t v ∧ thresholdCdf t v < 1 := by
  have h := Props.C16.thresholdCdf_range t v h1
  exact ⟨lt_of_lt_of_le h0 h.1, by linarith [h.2]⟩

theorem standardQMParam_nonneg {P} (Fam : Family P) (t : Rat) (h0 : 0 < t) (h1 : t ≤ 1 / 2) (x obs H : List Rat)
    (hppf : ∀ q, 0 < q → q < 1 → 0 ≤ Fam.ppf (Fam.fit obs) q) :
    ∀ v ∈ standardQMParam Fam t x obs H, 0 ≤ v := by
  intro v hv
  simp only [standardQMParam, List.mem_map] at hv
  obtain ⟨y, -, rfl⟩ := hv
  exact hppf _ (thresholdCdf_open t _ h0 h1).1 (thresholdCdf_open t _ h0 h1).2

/-- `QuantileMapping.apply_on_window` for precipitation (detrending `multiplicative`, the default for `pr`, or
    `no_detrending`): the inner mapping is non-negative and it is multiplied by `mean F / mean H ≥ 0` -/
theorem quantileMapping_nonneg (qm : List Rat → List Rat → List Rat → List Rat) (d : Detrending) (obs H F : List Rat)
    (hd : d = .multiplicative ∨ d = .no_detrending)
    (hqm : ∀ x, ∀ v ∈ qm x obs H, 0 ≤ v) (hh : ∀ x ∈ H, 0 ≤ x) (hf : ∀ x ∈ F, 0 ≤ x) :
    ∀ v ∈ quantileMapping qm d obs H F, 0 ≤ v := by
  intro v hv
  rcases hd with rfl | rfl
  · simp only [quantileMapping, List.mem_map] at hv
    obtain ⟨y, hy, rfl⟩ := hv
    exact mul_nonneg (hqm _ y hy) (div_nonneg (mean_nonneg hf) (mean_nonneg hh))
  · exact hqm F v hv

/-- the divisors of multiplicative detrending are positive for non-negative data with positive means -/
theorem qmGuard_pos (obs H F : List Rat) (hh : ∀ x ∈ H, 0 ≤ x) (hf : ∀ x ∈ F, 0 ≤ x)
    (hg : qmGuard .multiplicative obs H F) : 0 < mean H ∧ 0 < mean F / mean H := by
  obtain ⟨-, -, -, hm⟩ := hg
  obtain ⟨h1, h2⟩ := hm rfl
  have hH := mean_pos_of_ne hh h1
  exact ⟨hH, div_pos (mean_pos_of_ne hf h2) hH⟩

/-! ### the precipitation models as families -/

/-- `gen_PrecipitationHurdleModel` over an amounts family `fitA` (the fitted amounts distribution of the rainy days);
    the cdf (with or without randomisation of the dry days) is a parameter — the sign of the output does not
    depend on it -/
def hurdleFamily (fitA : List Rat → Amounts) (cdfH : Rat × Amounts → Rat → Rat) : Family (Rat × Amounts) :=
  { fit := fun d => (hurdleP0 d, fitA (rainyDays d)), cdf := cdfH, ppf := fun p q => hurdlePpf p.2 p.1 q }

/-- `gen_PrecipitationGammaLeftCensoredModel` (the Nelder–Mead fit of the censored gamma is the parameter `fitA`,
    given the non-censored data and the number of censored observations) -/
def censoredFamily (thr : Rat) (censor : Bool) (fitA : List Rat × Nat → Amounts) (cdfC : Amounts → Rat → Rat) :
    Family Amounts :=
  { fit := fun d => fitA (censFitArgs thr d), cdf := cdfC, ppf := fun A q => censPpf A thr censor q }

/-- an amounts distribution on `[0, ∞)`: `ppf` maps `(0,1)` to non-negative values (gamma with `floc = 0`) -/
def AmountsNonneg (A : Amounts) : Prop := ∀ r : Rat, 0 < r → r < 1 → 0 ≤ A.ppfA r

theorem hurdlePpf_nonneg (A : Amounts) (hA : AmountsNonneg A) (p0 : Rat) (q : Rat) (hq : q < 1) :
    0 ≤ hurdlePpf A p0 q := by
  unfold hurdlePpf
  split_ifs with h
  · have hp1 : 0 < 1 - p0 := by linarith
    apply hA
    · exact div_pos (by linarith) hp1
    · rw [div_lt_one hp1]; linarith
  · exact le_refl _

theorem censPpf_nonneg (A : Amounts) (hA : AmountsNonneg A) (thr : Rat) (censor : Bool) (q : Rat) (h0 : 0 < q)
    (h1 : q < 1) : 0 ≤ censPpf A thr censor q := by
  unfold censPpf censPost
  split_ifs
  · exact le_refl _
  · exact hA q h0 h1

/-- with `censor_in_ppf = True` the censored model returns exact zeros, never sub-threshold drizzle -/
theorem censPpf_zero_or_ge (A : Amounts) (thr : Rat) (q : Rat) :
    censPpf A thr true q = 0 ∨ thr ≤ censPpf A thr true q := by
  unfold censPpf censPost
  by_cases h : A.ppfA q < thr
  · left; simp [h]
  · right; simp [h]; exact not_lt.mp h

/-! ### ScaledDistributionMapping, relative -/

theorem zipWith_forall {α β γ} (f : α → β → γ) (P : α → Prop) (Q : β → Prop) (R : γ → Prop)
    (hR : ∀ a b, P a → Q b → R (f a b)) : ∀ (l₁ : List α) (l₂ : List β), (∀ a ∈ l₁, P a) → (∀ b ∈ l₂, Q b) →
    ∀ c ∈ List.zipWith f l₁ l₂, R c
  | [], _, _, _, c, hc => by simp at hc
  | _ :: _, [], _, _, c, hc => by simp at hc
  | a :: l₁, b :: l₂, h1, h2, c, hc => by
    simp only [List.zipWith_cons_cons, List.mem_cons] at hc
    rcases hc with rfl | hc
    · exact hR a b (h1 a List.mem_cons_self) (h2 b List.mem_cons_self)
    · exact zipWith_forall f P Q R hR l₁ l₂ (fun x hx => h1 x (List.mem_cons_of_mem _ hx))
        (fun x hx => h2 x (List.mem_cons_of_mem _ hx)) c hc

/-- the family's fits of rainy samples (non-empty, all members `≥ thr`) have a positive `ppf` on `(0,1)` —
    gamma with `floc = 0`; an oracle law for scipy, proved for the rational test double `ratOdds` -/
def PosOnRainy {P} (Fam : Family P) (thr : Rat) : Prop :=
  ∀ d : List Rat, d ≠ [] → (∀ x ∈ d, thr ≤ x) → ∀ q : Rat, 0 < q → q < 1 → 0 < Fam.ppf (Fam.fit d) q

theorem rainy_ge (thr : Rat) (x : List Rat) : ∀ v ∈ rainy thr x, thr ≤ v := by
  intro v hv
  simp only [rainy, List.mem_filter, decide_eq_true_eq, ge_iff_le] at hv
  exact hv.2

theorem sdmRelCdf_open {P} (Fam : Family P) (t : Rat) (h0 : 0 < t) (h1 : t ≤ 1 / 2) (r : List Rat) :
    ∀ c ∈ sdmRelCdf Fam t r, 0 < c ∧ c < 1 := by
  intro c hc
  simp only [sdmRelCdf, List.mem_map] at hc
  obtain ⟨v, -, rfl⟩ := hc
  exact thresholdCdf_open t _ h0 h1

theorem sdmRelBcInitial_pos {P} (Fam : Family P) (thr t : Rat) (h0 : 0 < t) (h1 : t ≤ 1 / 2) (hpos : PosOnRainy Fam thr)
    (rO rH rF : List Rat) (hO : rO ≠ []) (hH : rH ≠ []) (hF : rF ≠ [])
    (gO : ∀ x ∈ rO, thr ≤ x) (gH : ∀ x ∈ rH, thr ≤ x) (gF : ∀ x ∈ rF, thr ≤ x) :
    ∀ v ∈ sdmRelBcInitial Fam t rO rH rF, 0 < v := by
  unfold sdmRelBcInitial
  simp only []
  apply zipWith_forall _ (fun cs => 0 < cs ∧ cs < 1) (fun sc => 0 < sc) (fun v => 0 < v)
  · intro cs sc hcs hsc
    exact mul_pos (hpos rO hO gO cs hcs.1 hcs.2) hsc
  · apply zipWith_forall _ (fun _ => True) (fun _ => True)
    · intro a b _ _
      unfold sdmRelCdfScaled
      exact thresholdCdf_open _ _ (by norm_num [defaultCdfThreshold]) (by norm_num [defaultCdfThreshold])
    · intros; trivial
    · intros; trivial
  · intro sc hsc
    rw [List.mem_map] at hsc
    obtain ⟨c, hc, rfl⟩ := hsc
    have hco := sdmRelCdf_open Fam t h0 h1 rF c hc
    exact div_pos (hpos rF hF gF c hco.1 hco.2) (hpos rH hH gH c hco.1 hco.2)

theorem getD_zero_mem_or (l : List Rat) (i : Nat) : l.getD i 0 ∈ l ∨ l.getD i 0 = 0 := by
  by_cases h : i < l.length
  · exact Or.inl (getD_mem l i h)
  · right
    simp [List.getD_eq_getElem?_getD, List.getElem?_eq_none (not_lt.mp h)]

/-- `_apply_on_window_relative_sdm`: zeros for the dry part, `ppf_obs(·) · scaling > 0` for the rainy part;
    the three non-empty rainy samples (otherwise the code raises `ValueError`) are what the `Wet` guard asks for -/
theorem sdmRelative_zero_or_pos {P} (Fam : Family P) (thr t : Rat) (h0 : 0 < t) (h1 : t ≤ 1 / 2)
    (hpos : PosOnRainy Fam thr) (obs H F out : List Rat) (h : sdmRelative Fam thr t obs H F = .ok out) :
    ∀ v ∈ out, v = 0 ∨ 0 < v := by
  unfold sdmRelative at h
  simp only [] at h
  split at h
  · exact absurd h (by simp)
  · rename_i hne
    simp only [not_or, List.length_eq_zero_iff] at hne
    injection h with h
    subst h
    intro v hv
    simp only [takeIdx, List.mem_map] at hv
    obtain ⟨i, -, rfl⟩ := hv
    rcases getD_zero_mem_or _ i with hm | hz
    · rw [List.mem_append] at hm
      rcases hm with hm | hm
      · left; exact (List.mem_replicate.mp hm).2
      · right
        exact sdmRelBcInitial_pos Fam thr t h0 h1 hpos _ _ _ hne.1 hne.2.1 hne.2.2 (rainy_ge _ _) (rainy_ge _ _)
          (rainy_ge _ _) _ (List.mem_of_mem_drop hm)
    · left; exact hz

/-- the divisor guard of relative SDM holds under the positivity law (never NaN) -/
theorem sdmRelDivGuard_of_pos {P} (Fam : Family P) (thr t : Rat) (h0 : 0 < t) (h1 : t ≤ 1 / 2)
    (hpos : PosOnRainy Fam thr) (H F : List Rat) (hH : rainy thr (sortQ H) ≠ []) : sdmRelDivGuard Fam thr t H F := by
  show ∀ c ∈ sdmRelCdf Fam t (rainy thr (sortQ F)), Fam.ppf (Fam.fit (rainy thr (sortQ H))) c ≠ 0
  intro c hc
  have hco := sdmRelCdf_open Fam t h0 h1 _ c hc
  exact ne_of_gt (hpos _ hH (rainy_ge _ _) c hco.1 hco.2)

/-! ### CDFt with SSR -/

theorem ssrAfter_zero_or_ge (thr : Rat) (x : List Rat) : ∀ v ∈ ssrAfter thr x, v = 0 ∨ thr ≤ v := by
  intro v hv
  simp only [ssrAfter, List.mem_map] at hv
  obtain ⟨w, -, rfl⟩ := hv
  split_ifs with h
  · exact Or.inl rfl
  · exact Or.inr (not_lt.mp h)

/-- the positive input values -/
def positives (obs H F : List Rat) : List Rat :=
  obs.filter (fun v => decide (v > 0)) ++ H.filter (fun v => decide (v > 0)) ++ F.filter (fun v => decide (v > 0))

theorem mem_positives {obs H F : List Rat} {v : Rat} :
    v ∈ positives obs H F ↔ (v ∈ obs ∨ v ∈ H ∨ v ∈ F) ∧ 0 < v := by
  simp only [positives, List.mem_append, List.mem_filter, decide_eq_true_eq, gt_iff_lt]
  tauto

/-- `_get_threshold` **is the smallest positive input value** (when there is one) -/
theorem ssrThreshold_spec (obs H F : List Rat) (hne : positives obs H F ≠ []) :
    ssrThreshold obs H F ∈ positives obs H F ∧ ∀ v ∈ positives obs H F, ssrThreshold obs H F ≤ v := by
  have he : ssrThreshold obs H F = minQ (positives obs H F) := by
    unfold ssrThreshold positives at *
    simp only []
    rw [if_neg]
    rw [List.isEmpty_iff]
    exact hne
  rw [he]
  exact ⟨minQ_mem hne, fun v hv => minQ_le hv⟩

theorem ssrThreshold_nonneg (obs H F : List Rat) : 0 ≤ ssrThreshold obs H F := by
  by_cases hne : positives obs H F = []
  · unfold ssrThreshold
    unfold positives at hne
    simp only []
    rw [if_pos (by rw [List.isEmpty_iff]; exact hne)]
  · exact le_of_lt (mem_positives.mp (ssrThreshold_spec obs H F hne).1).2

/-- `CDFt._apply_debiasing_steps` with `SSR = True`: exact zeros or values at least the smallest positive input —
    whatever the delta shift did to the intermediate values (negative ones are below the threshold and are zeroed) -/
theorem cdftSteps_ssr_zero_or_ge (E Q : List Rat → Rat → Rat) (d : DeltaShift) (obs H F u : List Rat) :
    ∀ v ∈ cdftStepsG true E Q d obs H F u, v = 0 ∨ ssrThreshold obs H F ≤ v := by
  intro v hv
  simp only [cdftStepsG, if_true, ssrBefore] at hv
  exact ssrAfter_zero_or_ge _ _ v hv

/-- a year window of `cm_future` has a threshold at least the threshold of the whole series (its positive values are
    among those of the whole series), provided `obs` or `cm_hist` has a positive value -/
theorem ssrThreshold_window (obs H F Fw : List Rat) (hsub : ∀ v ∈ Fw, v ∈ F)
    (hpos : ∃ x, (x ∈ obs ∨ x ∈ H) ∧ 0 < x) : ssrThreshold obs H F ≤ ssrThreshold obs H Fw := by
  obtain ⟨x, hx, hx0⟩ := hpos
  have hx' : x ∈ obs ∨ x ∈ H ∨ x ∈ Fw := by tauto
  have hx'' : x ∈ obs ∨ x ∈ H ∨ x ∈ F := by tauto
  have hneW : positives obs H Fw ≠ [] := List.ne_nil_of_mem (mem_positives.mpr ⟨hx', hx0⟩)
  have hne : positives obs H F ≠ [] := List.ne_nil_of_mem (mem_positives.mpr ⟨hx'', hx0⟩)
  obtain ⟨hm, -⟩ := ssrThreshold_spec obs H Fw hneW
  obtain ⟨hm1, hm2⟩ := mem_positives.mp hm
  apply (ssrThreshold_spec obs H F hne).2
  rw [mem_positives]
  refine ⟨?_, hm2⟩
  rcases hm1 with h | h | h
  · exact Or.inl h
  · exact Or.inr (Or.inl h)
  · exact Or.inr (Or.inr (hsub _ h))

/-! ### QuantileDeltaMapping -/

theorem qdmCensor_zero_or_ge (thr v : Rat) : qdmCensor (some thr) v = 0 ∨ thr ≤ qdmCensor (some thr) v := by
  unfold qdmCensor
  by_cases h : v < thr
  · left; simp [h]
  · right; simp [h]; exact not_lt.mp h

theorem qdmSteps_zero_or_ge {P} (Fam : Family P) (tp : TrendPres) (E : List Rat → Rat → Rat) (t thr : Rat)
    (F : List Rat) (fo fh : P) : ∀ v ∈ qdmStepsG Fam tp E t (some thr) F fo fh, v = 0 ∨ thr ≤ v := by
  intro v hv
  simp only [qdmStepsG, List.mem_map] at hv
  obtain ⟨x, -, rfl⟩ := hv
  exact qdmCensor_zero_or_ge thr _

/-- relative QDM never divides by zero when the `ppf` of the historical fit is positive on `(0,1)` -/
theorem qdmRelGuard_of_pos {P} (Fam : Family P) (E : List Rat → Rat → Rat) (t : Rat) (h0 : 0 < t) (h1 : t ≤ 1 / 2)
    (F : List Rat) (fh : P) (hpos : ∀ q : Rat, 0 < q → q < 1 → 0 < Fam.ppf fh q) : qdmRelGuard Fam E t F fh := by
  intro x _
  exact ne_of_gt (hpos _ (thresholdCdf_open t _ h0 h1).1 (thresholdCdf_open t _ h0 h1).2)

/-- without censoring, relative QDM of non-negative values with positive `ppf`s is non-negative -/
theorem qdmSteps_relative_nonneg {P} (Fam : Family P) (E : List Rat → Rat → Rat) (t : Rat) (h0 : 0 < t) (h1 : t ≤ 1 / 2)
    (c : Option Rat) (F : List Rat) (hF : ∀ x ∈ F, 0 ≤ x) (fo fh : P)
    (hpo : ∀ q : Rat, 0 < q → q < 1 → 0 < Fam.ppf fo q) (hph : ∀ q : Rat, 0 < q → q < 1 → 0 < Fam.ppf fh q) :
    ∀ v ∈ qdmStepsG Fam .relative E t c F fo fh, 0 ≤ v := by
  intro v hv
  simp only [qdmStepsG, List.mem_map] at hv
  obtain ⟨x, hx, rfl⟩ := hv
  have hq := thresholdCdf_open t (E F x) h0 h1
  have hcore : 0 ≤ qdmCore Fam .relative fo fh x (thresholdCdf t (E F x)) := by
    unfold qdmCore
    exact div_nonneg (mul_nonneg (hF x hx) (le_of_lt (hpo _ hq.1 hq.2))) (le_of_lt (hph _ hq.1 hq.2))
  cases c with
  | none => exact hcore
  | some thr =>
    simp only [qdmCensor]
    split_ifs
    · exact le_refl _
    · exact hcore

/-! ### the rational test doubles satisfy the laws used above (non-vacuity) -/

theorem ratOdds_posOnRainy (thr : Rat) (hthr : 0 < thr) : PosOnRainy ratOdds.toFamily thr := by
  intro d hd hge q h0 h1
  show mean d * (q / (1 - q)) > 0
  have hm : 0 < mean d := mean_pos_of_pos hd (fun x hx => lt_of_lt_of_le hthr (hge x hx))
  exact mul_pos hm (div_pos h0 (by linarith))

theorem ratFam_amountsNonneg (s : Rat) (hs : 0 ≤ s) : AmountsNonneg (ratFam 0 s) := by
  intro r h0 h1
  show 0 ≤ ratPpf 0 s r
  unfold ratPpf
  have : 0 ≤ r / (1 - r) := div_nonneg (le_of_lt h0) (by linarith)
  have := mul_nonneg hs this
  linarith

end Lemmas.C10
