/-
  Tier A proof obligations of C15: every table regenerated from /repo's current source (`Gen.Config`) equals the
  hand-written model table (`Model.Config`) the property theorems are stated on, and the translated `has_*`
  properties equal the model's.  Moving a variable between the default / experimental dictionaries, editing the
  documented table, changing a validator, a default, a `__attrs_post_init__`, the lower-casing of variable names or
  the `apply` preamble breaks one of these.
-/
import IbicusModel.Model.Config
import IbicusModel.Gen.Config

namespace Lemmas.GenConfig
open Model.Config

theorem varKeys : Gen.Config.varKeys = Model.Config.varKeys := rfl
theorem mapVariableShape : Gen.Config.mapVariableShape = Model.Config.mapVariableShape := rfl
theorem fromVariableShape : Gen.Config.fromVariableShape = Model.Config.fromVariableShape := rfl
theorem defaultVars : Gen.Config.defaultVars = Model.Config.defaultVars := rfl
theorem experimentalVars : Gen.Config.experimentalVars = Model.Config.experimentalVars := rfl
theorem fromVariableBody : Gen.Config.fromVariableBody = Model.Config.fromVariableBody := rfl
theorem forPrecipitation : Gen.Config.forPrecipitation = Model.Config.forPrecipitation := rfl
theorem docColumns : Gen.Config.docColumns = Model.Config.docColumns := rfl
theorem docRows : Gen.Config.docRows = Model.Config.docRows := rfl
theorem fields : Gen.Config.fields = Model.Config.fields := rfl
theorem isimipDefaults : Gen.Config.isimipDefaults = Model.Config.isimipDefaults := rfl
theorem isimipDocDefaults : Gen.Config.isimipDocDefaults = Model.Config.isimipDocDefaults := rfl
theorem postInit : Gen.Config.postInit = Model.Config.postInit := rfl
theorem defineOptions : Gen.Config.defineOptions = Model.Config.defineOptions := rfl
theorem applyRederives : Gen.Config.applyRederives = Model.Config.applyRederives := rfl

theorem has_lower_threshold (a b c d : ExtRat) : Gen.Config.has_lower_threshold a b c d = hasLowerThreshold a b c d := by
  unfold Gen.Config.has_lower_threshold hasLowerThreshold; cases b <;> rfl
theorem has_lower_bound (a b c d : ExtRat) : Gen.Config.has_lower_bound a b c d = hasLowerBound a b c d := by
  unfold Gen.Config.has_lower_bound hasLowerBound; cases a <;> rfl
theorem has_upper_threshold (a b c d : ExtRat) : Gen.Config.has_upper_threshold a b c d = hasUpperThreshold a b c d := by
  unfold Gen.Config.has_upper_threshold hasUpperThreshold; cases d <;> rfl
theorem has_upper_bound (a b c d : ExtRat) : Gen.Config.has_upper_bound a b c d = hasUpperBound a b c d := by
  unfold Gen.Config.has_upper_bound hasUpperBound; cases c <;> rfl
theorem has_bound (a b c d : ExtRat) : Gen.Config.has_bound a b c d = hasBound a b c d := by
  unfold Gen.Config.has_bound hasBound; rw [has_upper_bound, has_lower_bound]
  cases hasUpperBound a b c d <;> cases hasLowerBound a b c d <;> rfl
theorem has_threshold (a b c d : ExtRat) : Gen.Config.has_threshold a b c d = hasThreshold a b c d := by
  unfold Gen.Config.has_threshold hasThreshold; rw [has_upper_threshold, has_lower_threshold]
  cases hasUpperThreshold a b c d <;> cases hasLowerThreshold a b c d <;> rfl

end Lemmas.GenConfig
