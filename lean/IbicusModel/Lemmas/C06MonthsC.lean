/-
  C06 helper lemmas, part 12: the month loop with a window function that depends on the MONTH (`applyLocationMonthsC`):
  oracles / draws of ISIMIP's month mode are a function of the month being processed.  Proofs: those of
  `Lemmas/C06Months.lean` with the month carried along.
-/
import IbicusModel.Lemmas.C06Months

namespace Lemmas.C06
open Model.Skeleton Model.Windows Lemmas.Windows Lemmas.Skeleton Lemmas.Pointwise Lemmas.Perm Lemmas.Lift

/-- the month loop of `applyLocationMonths` with a month-dependent window function -/
def applyLocationMonthsC {α} (f : Int → WinFn α) (mO mH mF : List Int) (obs hist fut : List α) :
    Except String (List (Option α)) :=
  runLoop (fun m => monthWrites (f m) mO mH mF obs hist fut m) (Py.arange1 1 13) fut.length

theorem applyLocationMonthsC_const {α} (f : WinFn α) (mO mH mF : List Int) (obs hist fut : List α) :
    applyLocationMonthsC (fun _ => f) mO mH mF obs hist fut = applyLocationMonths f mO mH mF obs hist fut := rfl

theorem applyLocationMonthsC_congr_on {α} (f f' : Int → WinFn α) (Pw : Int → List α → List α → List α → Prop)
    (hff : ∀ m o h x io ih ix, Pw m o h x → f m o h x io ih ix = f' m o h x io ih ix)
    (mO mH mF : List Int) (obs hist fut : List α)
    (hP : ∀ m ∈ Py.arange1 1 13, Pw m (take obs (indicesIn mO [m])) (take hist (indicesIn mH [m])) (take fut (indicesIn mF [m]))) :
    applyLocationMonthsC f mO mH mF obs hist fut = applyLocationMonthsC f' mO mH mF obs hist fut := by
  unfold applyLocationMonthsC
  apply runLoop_congr
  intro m hm
  unfold monthWrites
  have hw := hP m hm
  rw [← monthIdx_eq, ← monthIdx_eq, ← monthIdx_eq] at hw
  simp only [hff _ _ _ _ _ _ _ hw]

/-- **value of the month loop for a pointwise window function** -/
theorem applyLocationMonthsC_value {α} (f : Int → WinFn α) (G : Int → List α → List α → List α → α → α)
    (hf : ∀ m, PointwiseOn (f m) (G m))
    (mO mH mF : List Int) (obs hist fut : List α) (hlen : mF.length = fut.length)
    (hr : ∀ m ∈ mF, 1 ≤ m ∧ m ≤ 12) :
    ∃ out, applyLocationMonthsC f mO mH mF obs hist fut = .ok out ∧ out.length = fut.length ∧
      ∀ i (hi : i < fut.length) (hi' : i < mF.length),
        out[i]? = some (some (G mF[i] (take obs (indicesIn mO [mF[i]])) (take hist (indicesIn mH [mF[i]]))
          (take fut (indicesIn mF [mF[i]])) fut[i])) := by
  let W : Int → List (Nat × α) := fun m =>
    (indicesIn mF [m]).zip ((take fut (indicesIn mF [m])).map
      (G m (take obs (indicesIn mO [m])) (take hist (indicesIn mH [m])) (take fut (indicesIn mF [m]))))
  have hrun : applyLocationMonthsC f mO mH mF obs hist fut =
      .ok (applyWrites (List.replicate fut.length none) ((Py.arange1 1 13).map W).flatten) := by
    unfold applyLocationMonthsC runLoop
    rw [mapE_ok_of_forall _ W _ (fun m _ => monthWrites_pointwise (f m) (G m) (hf m) mO mH mF obs hist fut m hlen)]
    rfl
  refine ⟨_, hrun, by rw [applyWrites_length]; simp, ?_⟩
  intro i hi hi'
  have hva : ∀ m, ∀ j ∈ indicesIn mF [m], j < fut.length := fun m j hj => hlen ▸ Lemmas.Years.indicesIn_valid _ _ j hj
  have hkeys : ∀ m, (W m).map Prod.fst = indicesIn mF [m] := fun m =>
    List.map_fst_zip (by simp [take_length fut _ (hva m)])
  have hkey_iff : ∀ m, i ∈ indicesIn mF [m] ↔ mF[i] = m := by
    intro m
    rw [mem_indicesIn]
    constructor
    · rintro ⟨_, hm⟩; simpa using hm
    · intro hm; exact ⟨hi', by simp [hm]⟩
  have hb := hr _ (List.getElem_mem hi')
  have hmem : mF[i] ∈ Py.arange1 1 13 := (mem_arange1 _ _ _).mpr (by omega)
  have hval : ∀ p ∈ ((Py.arange1 1 13).map W).flatten.filter (fun p => p.1 == i),
      p.2 = G mF[i] (take obs (indicesIn mO [mF[i]])) (take hist (indicesIn mH [mF[i]])) (take fut (indicesIn mF [mF[i]])) fut[i] := by
    intro p hp
    obtain ⟨hpf, hpi⟩ := List.mem_filter.mp hp
    have hpi' : p.1 = i := by simpa using hpi
    obtain ⟨ws, hws, hpws⟩ := List.mem_flatten.mp hpf
    obtain ⟨m, _, rfl⟩ := List.mem_map.mp hws
    have hk : i ∈ indicesIn mF [m] := by
      rw [← hkeys m, ← hpi']; exact List.mem_map.mpr ⟨p, hpws, rfl⟩
    have hm : mF[i] = m := (hkey_iff m).mp hk
    subst hm
    obtain ⟨hj, hv⟩ := mem_zip_take_map fut _ _ (hva _) p hpws
    rw [hv]
    congr 1
    simp [hpi']
  have hne : ((Py.arange1 1 13).map W).flatten.filter (fun p => p.1 == i) ≠ [] := by
    have : i ∈ (W mF[i]).map Prod.fst := by rw [hkeys]; exact (hkey_iff _).mpr rfl
    obtain ⟨p, hp, hpi⟩ := List.mem_map.mp this
    apply List.ne_nil_of_mem (a := p)
    exact List.mem_filter.mpr ⟨List.mem_flatten.mpr ⟨W mF[i], List.mem_map.mpr ⟨mF[i], hmem, rfl⟩, hp⟩, by simp [hpi]⟩
  rw [applyWrites_get_filter, applyWrites_all_key _ _ i (by simpa using hi)
    (fun q hq => by simpa using (List.mem_filter.mp hq).2) hne, hval _ (List.getLast_mem hne)]


/-- **Time-order equivariance of the month loop**: permuting each of the three series together with its months
    permutes the result like `cm_future`. -/
theorem equivariance_monthsC {α} (f : Int → WinFn α) (G : Int → List α → List α → List α → α → α)
    (hf : ∀ m, PointwiseOn (f m) (G m)) (hG : ∀ m, Props.C06.OrderFree (G m)) (mO mH mF : List Int) (obs hist fut : List α)
    (pO pH pF : List Nat)
    (hpO : pO.Perm (List.range obs.length)) (hpH : pH.Perm (List.range hist.length))
    (hpF : pF.Perm (List.range fut.length))
    (hlO : mO.length = obs.length) (hlH : mH.length = hist.length) (hlF : mF.length = fut.length)
    (hr : ∀ m ∈ mF, 1 ≤ m ∧ m ≤ 12) :
    ∃ out, applyLocationMonthsC f mO mH mF obs hist fut = .ok out ∧
      applyLocationMonthsC f (take mO pO) (take mH pH) (take mF pF) (take obs pO) (take hist pH) (take fut pF)
        = .ok (take out pF) := by
  obtain ⟨out, hrun, hl, hval⟩ := applyLocationMonthsC_value f G hf mO mH mF obs hist fut hlF hr
  have hvF := perm_valid pF hpF
  have hvFd : ∀ j ∈ pF, j < mF.length := fun j hj => hlF ▸ hvF j hj
  have hpFd : pF.Perm (List.range mF.length) := hlF ▸ hpF
  have hlen' : (take mF pF).length = (take fut pF).length := by
    rw [take_length mF pF hvFd, take_length fut pF hvF]
  have hr' : ∀ m ∈ take mF pF, 1 ≤ m ∧ m ≤ 12 := fun m hm => hr m ((take_perm mF pF hpFd).mem_iff.mp hm)
  obtain ⟨out', hrun', hl', hval'⟩ := applyLocationMonthsC_value f G hf (take mO pO) (take mH pH) (take mF pF)
    (take obs pO) (take hist pH) (take fut pF) hlen' hr'
  refine ⟨out, hrun, ?_⟩
  rw [hrun']
  congr 1
  apply List.ext_getElem?
  intro k
  have hvO : ∀ j ∈ pF, j < out.length := fun j hj => hl ▸ hvF j hj
  rw [take_getElem? out pF hvO k]
  by_cases hk : k < pF.length
  · have hkf : k < (take fut pF).length := by rw [take_length fut pF hvF]; exact hk
    have hkm : k < (take mF pF).length := by rw [take_length mF pF hvFd]; exact hk
    have hj : pF[k] < fut.length := hvF _ (List.getElem_mem hk)
    have hjm : pF[k] < mF.length := hvFd _ (List.getElem_mem hk)
    rw [hval' k hkf hkm, List.getElem?_eq_getElem hk, Option.bind_some, hval pF[k] hj hjm]
    rw [Props.C06.getElem_take mF pF hvFd k hk hkm, Props.C06.getElem_take fut pF hvF k hk hkf]
    rw [hG _ _ _ _ _ _ _
      (window_sample_perm obs mO [mF[pF[k]]] pO hlO.symm hpO)
      (window_sample_perm hist mH [mF[pF[k]]] pH hlH.symm hpH)
      (window_sample_perm fut mF [mF[pF[k]]] pF hlF.symm hpF)]
  · have : out'.length = pF.length := by rw [hl', take_length fut pF hvF]
    rw [List.getElem?_eq_none (by omega), List.getElem?_eq_none (by omega)]
    rfl


/-- **Time-order equivariance of the month loop for window functions that may raise** -/
theorem equivariance_monthsC_E {α C} (f : Int → WinFn α) (E : Int → List α → List α → List α → Except String C)
    (G : Int → C → List α → α → α) (hf : ∀ m, PointwiseOnE (f m) (E m) (G m)) (hE : ∀ m, OrderFreeE (E m) (G m))
    (mO mH mF : List Int) (obs hist fut : List α) (pO pH pF : List Nat)
    (hpO : pO.Perm (List.range obs.length)) (hpH : pH.Perm (List.range hist.length))
    (hpF : pF.Perm (List.range fut.length))
    (hlO : mO.length = obs.length) (hlH : mH.length = hist.length) (hlF : mF.length = fut.length)
    (hr : ∀ m ∈ mF, 1 ≤ m ∧ m ≤ 12) :
    (∃ out, applyLocationMonthsC f mO mH mF obs hist fut = .ok out ∧
      applyLocationMonthsC f (take mO pO) (take mH pH) (take mF pF) (take obs pO) (take hist pH) (take fut pF)
        = .ok (take out pF)) ∨
    (∃ e, applyLocationMonthsC f mO mH mF obs hist fut = .error e ∧
      applyLocationMonthsC f (take mO pO) (take mH pH) (take mF pF) (take obs pO) (take hist pH) (take fut pF)
        = .error e) := by
  have hvF := perm_valid pF hpF
  have hvFd : ∀ j ∈ pF, j < mF.length := fun j hj => hlF ▸ hvF j hj
  have hlen' : (take mF pF).length = (take fut pF).length := by
    rw [take_length mF pF hvFd, take_length fut pF hvF]
  have hflen : (take fut pF).length = fut.length := by
    rw [take_length fut pF hvF]; simpa using hpF.length_eq
  have hctx : ∀ m, E m (take (take obs pO) (indicesIn (take mO pO) [m])) (take (take hist pH) (indicesIn (take mH pH) [m]))
      (take (take fut pF) (indicesIn (take mF pF) [m])) =
      E m (take obs (indicesIn mO [m])) (take hist (indicesIn mH [m])) (take fut (indicesIn mF [m])) := fun m =>
    (hE m).1 _ _ _ _ _ _ (window_sample_perm obs mO _ pO hlO.symm hpO) (window_sample_perm hist mH _ pH hlH.symm hpH)
      (window_sample_perm fut mF _ pF hlF.symm hpF)
  by_cases hall : ∀ m ∈ Py.arange1 1 13, ∃ c,
      E m (take obs (indicesIn mO [m])) (take hist (indicesIn mH [m])) (take fut (indicesIn mF [m])) = .ok c
  · left
    have e1 : applyLocationMonthsC f mO mH mF obs hist fut = applyLocationMonthsC (fun m => totalFn (E m) (G m)) mO mH mF obs hist fut := by
      unfold applyLocationMonthsC
      apply runLoop_congr
      intro m hm
      rcases monthWrites_E (f m) (E m) (G m) (hf m) mO mH mF obs hist fut m with ⟨e, he, _⟩ | ⟨c, _, hw⟩
      · obtain ⟨c, hc⟩ := hall m hm; rw [hc] at he; cases he
      · exact hw
    have e2 : applyLocationMonthsC f (take mO pO) (take mH pH) (take mF pF) (take obs pO) (take hist pH) (take fut pF) =
        applyLocationMonthsC (fun m => totalFn (E m) (G m)) (take mO pO) (take mH pH) (take mF pF) (take obs pO) (take hist pH) (take fut pF) := by
      unfold applyLocationMonthsC
      apply runLoop_congr
      intro m hm
      rcases monthWrites_E (f m) (E m) (G m) (hf m) (take mO pO) (take mH pH) (take mF pF) (take obs pO) (take hist pH) (take fut pF) m
        with ⟨e, he, _⟩ | ⟨c, _, hw⟩
      · obtain ⟨c, hc⟩ := hall m hm; rw [hctx m, hc] at he; cases he
      · exact hw
    rw [e1, e2]
    exact equivariance_monthsC (fun m => totalFn (E m) (G m)) (fun m => totalG (E m) (G m)) (fun m => totalFn_pointwise (E m) (G m))
      (fun m => totalG_orderFree (E m) (G m) (hE m))
      mO mH mF obs hist fut pO pH pF hpO hpH hpF hlO hlH hlF hr
  · right
    have hex : ∃ m ∈ Py.arange1 1 13, ∃ e, monthWrites (f m) mO mH mF obs hist fut m = .error e := by
      by_contra hno
      apply hall
      intro m hm
      rcases monthWrites_E (f m) (E m) (G m) (hf m) mO mH mF obs hist fut m with ⟨e, _, hw⟩ | ⟨c, hc, _⟩
      · exact absurd ⟨m, hm, e, hw⟩ hno
      · exact ⟨c, hc⟩
    have hpair : ∀ m ∈ Py.arange1 1 13,
        (∃ e, monthWrites (f m) mO mH mF obs hist fut m = .error e ∧
          monthWrites (f m) (take mO pO) (take mH pH) (take mF pF) (take obs pO) (take hist pH) (take fut pF) m = .error e) ∨
        ((∃ a, monthWrites (f m) mO mH mF obs hist fut m = .ok a) ∧
          (∃ b, monthWrites (f m) (take mO pO) (take mH pH) (take mF pF) (take obs pO) (take hist pH) (take fut pF) m = .ok b)) := by
      intro m _
      rcases monthWrites_E (f m) (E m) (G m) (hf m) mO mH mF obs hist fut m with ⟨e, he, hw⟩ | ⟨c, hc, hw⟩
      · left
        rcases monthWrites_E (f m) (E m) (G m) (hf m) (take mO pO) (take mH pH) (take mF pF) (take obs pO) (take hist pH) (take fut pF) m
          with ⟨e', he', hw'⟩ | ⟨c', hc', _⟩
        · rw [hctx m, he] at he'
          cases he'
          exact ⟨e, hw, hw'⟩
        · rw [hctx m, he] at hc'; cases hc'
      · right
        rcases monthWrites_E (f m) (E m) (G m) (hf m) (take mO pO) (take mH pH) (take mF pF) (take obs pO) (take hist pH) (take fut pF) m
          with ⟨e', he', _⟩ | ⟨c', _, hw'⟩
        · rw [hctx m, hc] at he'; cases he'
        · exact ⟨⟨_, hw.trans (monthWrites_pointwise (totalFn (E m) (G m)) (totalG (E m) (G m)) (totalFn_pointwise (E m) (G m)) mO mH mF
              obs hist fut m hlF)⟩,
            ⟨_, hw'.trans (monthWrites_pointwise (totalFn (E m) (G m)) (totalG (E m) (G m)) (totalFn_pointwise (E m) (G m)) (take mO pO)
              (take mH pH) (take mF pF) (take obs pO) (take hist pH) (take fut pF) m hlen')⟩⟩
    obtain ⟨e, e1, e2⟩ := mapE_error_congr _ _ _ hpair hex
    refine ⟨e, ?_, ?_⟩
    · unfold applyLocationMonthsC runLoop
      rw [e1]; rfl
    · unfold applyLocationMonthsC runLoop
      rw [e2]; rfl


end Lemmas.C06
