/-
  C06 helper lemmas, part 8: ISIMIP step 4 — randomisation of the values beyond a threshold:
  `vals[mask] = sort_array_like_another_one(np.sort(draws), vals[mask])`, `sort_array_like_another_one(x, y) =
  np.sort(x)[np.argsort(np.argsort(y))]`.  For tie-free values the result is an element-wise map of `vals` whose context
  (the sorted draws and the multiset of masked values) does not depend on the storage order: a masked value receives the
  draw whose rank among the draws is the value's rank among the masked values.
-/
import IbicusModel.Lemmas.C06Isimip
import IbicusModel.Lemmas.C06Rank

namespace Lemmas.C06
open Model.Stats Model.Isimip Lemmas.Stats

/-! ### `sort_array_like_another_one` -/

/-- **rank transfer with ties broken by value only**: for a tie-free `y`, position `i` of `sort_array_like_another_one(x, y)`
    is the order statistic of `x` whose index is the number of values of `y` below `y[i]` -/
theorem sortLike_pointwise (x y : List Rat) (hy : y.Nodup) :
    sortLike x y = y.map (fun a => (sortQ x).getD (rankLt y a) 0) := by
  unfold sortLike
  exact takeIdx_rankOf_nodup (sortQ x) y hy

theorem sortQ_sortQ (x : List Rat) : sortQ (sortQ x) = sortQ x := sortQ_of_sorted (sortQ_sorted x)

/-- … and it is equivariant under re-ordering of `y`, invariant under re-ordering of `x` -/
theorem sortLike_equivariant (x x' y : List Rat) (p : List Nat) (hy : y.Nodup) (hx : x.Perm x')
    (hp : p.Perm (List.range y.length)) :
    sortLike x' (Model.Skeleton.take y p) = Model.Skeleton.take (sortLike x y) p := by
  have hyp := Lemmas.Perm.take_perm y p hp
  rw [sortLike_pointwise x' _ (take_perm_nodup y p hp hy), sortLike_pointwise x y hy, Lemmas.Lift.take_map,
    sortQ_congr hx]
  apply List.map_congr_left
  intro a _
  rw [rankLt_perm hyp]

/-! ### one randomisation stage -/

/-- the value a masked element receives -/
def randT (P : Rat → Bool) (dr vals : List Rat) (a : Rat) : Rat :=
  if P a then (sortQ dr).getD (rankLt (vals.filter P) a) 0 else a

/-- the element-wise map of one stage, or the error (numpy would raise on a length mismatch; the model marks it) -/
def rmCtx (P : Rat → Bool) (dr vals : List Rat) : Except String (Rat → Rat) :=
  if dr.length = (vals.filter P).length then .ok (randT P dr vals) else .error "unmodelled:DrawsLength"

theorem randomizeMasked_eq (P : Rat → Bool) (dr vals : List Rat) (hnd : (vals.filter P).Nodup) :
    randomizeMasked vals (vals.map P) dr = (rmCtx P dr vals).map (fun T => vals.map T) := by
  unfold randomizeMasked rmCtx
  simp only [Lemmas.GenWindows.selectWhere_map]
  split_ifs with hl
  · simp only [Except.map]
    congr 1
    rw [sortLike_pointwise _ _ hnd, sortQ_sortQ, fillWhere_filter_map]
    rfl
  · rfl

theorem rmCtx_perm (P : Rat → Bool) (dr : List Rat) {vals vals' : List Rat} (h : vals.Perm vals') :
    rmCtx P dr vals = rmCtx P dr vals' := by
  unfold rmCtx
  rw [(h.filter P).length_eq]
  split_ifs
  · congr 1
    funext a
    unfold randT
    rw [rankLt_perm (h.filter P)]
  · rfl

/-- **one stage is time-order equivariant** (tie-free masked values, the same draws) -/
theorem randomizeMasked_equivariant (P : Rat → Bool) (dr vals : List Rat) (p : List Nat)
    (hnd : (vals.filter P).Nodup) (hp : p.Perm (List.range vals.length)) :
    randomizeMasked (Model.Skeleton.take vals p) ((Model.Skeleton.take vals p).map P) dr =
      (randomizeMasked vals (vals.map P) dr).map (fun out => Model.Skeleton.take out p) := by
  have hvp := Lemmas.Perm.take_perm vals p hp
  rw [randomizeMasked_eq P dr _ ((hvp.filter P).nodup_iff.mpr hnd), randomizeMasked_eq P dr vals hnd, rmCtx_perm P dr hvp]
  cases rmCtx P dr vals with
  | error e => rfl
  | ok T => simp only [Except.map, Lemmas.Lift.take_map]

/-! ### the two stages of one series, the three series of `step4` -/

def lowerP (c : Cfg) (v : Rat) : Bool := ExtRat.leOf v c.lowerThreshold
def upperP (c : Cfg) (v : Rat) : Bool := ExtRat.geOf v c.upperThreshold
def lowerActive (c : Cfg) : Bool := c.hasLowerBound && c.hasLowerThreshold
def upperActive (c : Cfg) : Bool := c.hasUpperBound && c.hasUpperThreshold

theorem step4RandomizeLower_eq (c : Cfg) (vals dr : List Rat) :
    step4RandomizeLower c vals dr = randomizeMasked vals (vals.map (lowerP c)) dr := rfl
theorem step4RandomizeUpper_eq (c : Cfg) (vals dr : List Rat) :
    step4RandomizeUpper c vals dr = randomizeMasked vals (vals.map (upperP c)) dr := rfl

/-- the lower stage of one series as `step4` applies it -/
def lowerOut (c : Cfg) (dl : List Rat) (vals : List Rat) : Except String (List Rat) :=
  if lowerActive c then step4RandomizeLower c vals dl else .ok vals
def upperOut (c : Cfg) (du : List Rat) (vals : List Rat) : Except String (List Rat) :=
  if upperActive c then step4RandomizeUpper c vals du else .ok vals

/-- **tie-free through the randomisation**: the values that get ranked in each active stage are tie-free
    (`np.random.uniform` draws are distinct and lie strictly between bound and threshold almost surely) -/
def SeriesGuard (c : Cfg) (dl : List Rat) (vals : List Rat) : Prop :=
  (lowerActive c = true → (vals.filter (lowerP c)).Nodup) ∧
  (upperActive c = true → ∀ v1, lowerOut c dl vals = .ok v1 → (v1.filter (upperP c)).Nodup)

def lowerCtx (c : Cfg) (dl vals : List Rat) : Except String (Rat → Rat) :=
  if lowerActive c then rmCtx (lowerP c) dl vals else .ok id
def upperCtx (c : Cfg) (du vals : List Rat) : Except String (Rat → Rat) :=
  if upperActive c then rmCtx (upperP c) du vals else .ok id

theorem lowerOut_eq (c : Cfg) (dl vals : List Rat) (h : lowerActive c = true → (vals.filter (lowerP c)).Nodup) :
    lowerOut c dl vals = (lowerCtx c dl vals).map (fun T => vals.map T) := by
  unfold lowerOut lowerCtx
  split_ifs with ha
  · rw [step4RandomizeLower_eq, randomizeMasked_eq _ _ _ (h ha)]
  · simp [Except.map]

theorem upperOut_eq (c : Cfg) (du vals : List Rat) (h : upperActive c = true → (vals.filter (upperP c)).Nodup) :
    upperOut c du vals = (upperCtx c du vals).map (fun T => vals.map T) := by
  unfold upperOut upperCtx
  split_ifs with ha
  · rw [step4RandomizeUpper_eq, randomizeMasked_eq _ _ _ (h ha)]
  · simp [Except.map]

theorem lowerCtx_perm (c : Cfg) (dl : List Rat) {vals vals' : List Rat} (h : vals.Perm vals') :
    lowerCtx c dl vals = lowerCtx c dl vals' := by
  unfold lowerCtx; rw [rmCtx_perm _ _ h]
theorem upperCtx_perm (c : Cfg) (du : List Rat) {vals vals' : List Rat} (h : vals.Perm vals') :
    upperCtx c du vals = upperCtx c du vals' := by
  unfold upperCtx; rw [rmCtx_perm _ _ h]

/-- the guard does not depend on the storage order -/
theorem SeriesGuard_perm (c : Cfg) (dl : List Rat) {vals vals' : List Rat} (h : vals.Perm vals')
    (hg : SeriesGuard c dl vals) : SeriesGuard c dl vals' := by
  obtain ⟨h1, h2⟩ := hg
  have h1' : lowerActive c = true → (vals'.filter (lowerP c)).Nodup := fun ha => ((h.filter _).nodup_iff).mp (h1 ha)
  refine ⟨h1', ?_⟩
  intro hu v1' hv1'
  rw [lowerOut_eq c dl vals' h1', ← lowerCtx_perm c dl h] at hv1'
  cases hT : lowerCtx c dl vals with
  | error e => rw [hT] at hv1'; cases hv1'
  | ok T =>
    rw [hT] at hv1'
    simp only [Except.map] at hv1'
    have hv : v1' = vals'.map T := (Except.ok.inj hv1').symm
    have h0 := h2 hu (vals.map T) (by rw [lowerOut_eq c dl vals h1, hT]; rfl)
    rw [hv]
    exact (((h.map T).filter _).nodup_iff).mp h0

/-- the element-wise maps of the three series in the order `step4` computes them (lower stage of obs, cm_hist,
    cm_future, then the upper stage of the three), or the first error -/
def step4Ctx (c : Cfg) (d : Draws) (obs H F : List Rat) : Except String ((Rat → Rat) × (Rat → Rat) × (Rat → Rat)) :=
  (lowerCtx c d.lowO obs).bind (fun lo => (lowerCtx c d.lowH H).bind (fun lh => (lowerCtx c d.lowF F).bind (fun lf =>
    (upperCtx c d.upO (obs.map lo)).bind (fun uo => (upperCtx c d.upH (H.map lh)).bind (fun uh =>
      (upperCtx c d.upF (F.map lf)).bind (fun uf => .ok (uo ∘ lo, uh ∘ lh, uf ∘ lf)))))))

/-- `step4` in terms of the per-series stages (all errors of `step4` are the same marker, so the interleaving of the
    three series inside a stage is immaterial) -/
theorem step4_stages (c : Cfg) (d : Draws) (obs H F : List Rat) :
    step4 c d obs H F =
      (lowerOut c d.lowO obs).bind (fun o1 => (lowerOut c d.lowH H).bind (fun h1 => (lowerOut c d.lowF F).bind (fun f1 =>
        (upperOut c d.upO o1).bind (fun o2 => (upperOut c d.upH h1).bind (fun h2 => (upperOut c d.upF f1).bind (fun f2 =>
          .ok (o2, h2, f2))))))) := by
  unfold step4 lowerOut upperOut lowerActive upperActive
  by_cases hl : (c.hasLowerBound && c.hasLowerThreshold) = true <;> by_cases hu : (c.hasUpperBound && c.hasUpperThreshold) = true <;>
    simp only [hl, hu, if_true, if_false, Bool.false_eq_true, bind, Except.bind, pure, Except.pure]

/-- **step 4 is an element-wise map of each of the three samples** (guards: tie-free through the randomisation) -/
theorem step4_eq (c : Cfg) (d : Draws) (obs H F : List Rat)
    (gO : SeriesGuard c d.lowO obs) (gH : SeriesGuard c d.lowH H) (gF : SeriesGuard c d.lowF F) :
    step4 c d obs H F = (step4Ctx c d obs H F).map (fun T => (obs.map T.1, H.map T.2.1, F.map T.2.2)) := by
  rw [step4_stages]
  unfold step4Ctx
  rw [lowerOut_eq c _ obs gO.1, lowerOut_eq c _ H gH.1, lowerOut_eq c _ F gF.1]
  cases hlo : lowerCtx c d.lowO obs with
  | error e => rfl
  | ok lo =>
    cases hlh : lowerCtx c d.lowH H with
    | error e => rfl
    | ok lh =>
      cases hlf : lowerCtx c d.lowF F with
      | error e => rfl
      | ok lf =>
        simp only [Except.map, Except.bind]
        have go : upperActive c = true → ((obs.map lo).filter (upperP c)).Nodup := fun hu =>
          gO.2 hu _ (by rw [lowerOut_eq c _ obs gO.1, hlo]; rfl)
        have gh : upperActive c = true → ((H.map lh).filter (upperP c)).Nodup := fun hu =>
          gH.2 hu _ (by rw [lowerOut_eq c _ H gH.1, hlh]; rfl)
        have gf : upperActive c = true → ((F.map lf).filter (upperP c)).Nodup := fun hu =>
          gF.2 hu _ (by rw [lowerOut_eq c _ F gF.1, hlf]; rfl)
        rw [upperOut_eq c _ _ go, upperOut_eq c _ _ gh, upperOut_eq c _ _ gf]
        cases upperCtx c d.upO (obs.map lo) with
        | error e => rfl
        | ok uo =>
          cases upperCtx c d.upH (H.map lh) with
          | error e => rfl
          | ok uh =>
            cases upperCtx c d.upF (F.map lf) with
            | error e => rfl
            | ok uf => simp [Except.map, List.map_map]

theorem step4Ctx_perm (c : Cfg) (d : Draws) {obs obs' H H' F F' : List Rat} (ho : obs.Perm obs') (hh : H.Perm H')
    (hx : F.Perm F') : step4Ctx c d obs H F = step4Ctx c d obs' H' F' := by
  unfold step4Ctx
  rw [lowerCtx_perm c _ ho, lowerCtx_perm c _ hh, lowerCtx_perm c _ hx]
  cases lowerCtx c d.lowO obs' with
  | error e => rfl
  | ok lo =>
    cases lowerCtx c d.lowH H' with
    | error e => rfl
    | ok lh =>
      cases lowerCtx c d.lowF F' with
      | error e => rfl
      | ok lf =>
        simp only [Except.bind]
        rw [upperCtx_perm c _ (ho.map lo), upperCtx_perm c _ (hh.map lh), upperCtx_perm c _ (hx.map lf)]

end Lemmas.C06
