/-
  Helper lemmas for the write-back skeletons (`Model/Skeleton.lean`): C06, C07, C08.
-/
import IbicusModel.Model.Skeleton
import IbicusModel.Lemmas.Windows

namespace Lemmas.Skeleton
open Model.Skeleton Model.Windows

theorem mapE_ok {β γ ε} (f : β → Except ε γ) (l : List β) (rs : List γ) (h : mapE f l = .ok rs) :
    List.Forall₂ (fun a r => f a = .ok r) l rs := by
  induction l generalizing rs with
  | nil => simp [mapE] at h; subst h; exact List.Forall₂.nil
  | cons b bs ih =>
    unfold mapE at h
    cases hb : f b with
    | error e => rw [hb] at h; simp at h
    | ok c =>
      rw [hb] at h
      cases hbs : mapE f bs with
      | error e => rw [hbs] at h; simp at h
      | ok cs =>
        rw [hbs] at h
        simp at h
        subst h
        exact List.Forall₂.cons hb (ih cs hbs)

theorem applyWrites_length {α} (out : List (Option α)) (ws : List (Nat × α)) :
    (applyWrites out ws).length = out.length := by
  unfold applyWrites
  induction ws generalizing out with
  | nil => rfl
  | cons p t ih => simp only [List.foldl_cons]; rw [ih]; simp

theorem applyWrites_append {α} (out : List (Option α)) (a b : List (Nat × α)) :
    applyWrites out (a ++ b) = applyWrites (applyWrites out a) b := by
  unfold applyWrites; rw [List.foldl_append]

/-- the value at index `i` depends only on the writes with key `i` -/
theorem applyWrites_get_filter {α} (out : List (Option α)) (ws : List (Nat × α)) (i : Nat) :
    (applyWrites out ws)[i]? = (applyWrites out (ws.filter (fun p => p.1 == i)))[i]? := by
  unfold applyWrites
  induction ws generalizing out with
  | nil => rfl
  | cons p t ih =>
    simp only [List.foldl_cons, List.filter_cons]
    by_cases hp : p.1 = i
    · simp only [hp, beq_self_eq_true, if_true, List.foldl_cons]
      rw [ih]
    · have hp' : (p.1 == i) = false := by simpa using hp
      simp only [hp', Bool.false_eq_true, if_false]
      rw [ih]
      -- the write at p.1 ≠ i does not change position i, also after further writes at i
      have : ∀ (o1 o2 : List (Option α)) (l : List (Nat × α)), o1[i]? = o2[i]? → o1.length = o2.length →
          (∀ q ∈ l, q.1 = i) →
          (l.foldl (fun o q => o.set q.1 (some q.2)) o1)[i]? = (l.foldl (fun o q => o.set q.1 (some q.2)) o2)[i]? := by
        intro o1 o2 l
        induction l generalizing o1 o2 with
        | nil => intro h _ _; exact h
        | cons q l ihl =>
          intro h hl hq
          simp only [List.foldl_cons]
          apply ihl
          · have hqi := hq q (List.mem_cons_self)
            rw [hqi, List.getElem?_set, List.getElem?_set, hl]; simp
          · simp [hl]
          · intro r hr; exact hq r (List.mem_cons_of_mem _ hr)
      apply this
      · rw [List.getElem?_set_ne hp]
      · simp
      · intro q hq; simpa using (List.mem_filter.mp hq).2

/-- if all writes have key `i` and there is at least one, position `i` holds the last value -/
theorem applyWrites_all_key {α} (out : List (Option α)) (ws : List (Nat × α)) (i : Nat) (hi : i < out.length)
    (hk : ∀ p ∈ ws, p.1 = i) (hne : ws ≠ []) :
    (applyWrites out ws)[i]? = some (some (ws.getLast hne).2) := by
  unfold applyWrites
  induction ws generalizing out with
  | nil => exact absurd rfl hne
  | cons p t ih =>
    simp only [List.foldl_cons]
    have hpi := hk p List.mem_cons_self
    by_cases ht : t = []
    · subst ht
      simp [hpi, hi]
    · rw [ih (out.set p.1 (some p.2)) (by simpa using hi) (fun q hq => hk q (List.mem_cons_of_mem _ hq)) ht]
      simp [List.getLast_cons ht]

theorem pairsFor_keys {α} (idx : List Nat) (vals : List α) (ws : List (Nat × α))
    (h : pairsFor idx vals = .ok ws) : ws.map Prod.fst = idx := by
  unfold pairsFor at h
  split_ifs at h with hl
  · simp only [Except.ok.injEq] at h; subst h
    exact List.map_fst_zip (le_of_eq hl.symm)
  · split at h
    · simp only [Except.ok.injEq] at h; subst h
      rw [List.map_map]; exact List.map_id' _
    · simp at h

theorem forall2_mem_left {β γ} {R : β → γ → Prop} {l : List β} {rs : List γ} (h : List.Forall₂ R l rs)
    (b : β) (hb : b ∈ l) : ∃ r ∈ rs, R b r := by
  induction h with
  | nil => simp at hb
  | cons hab _ ih =>
    rcases List.mem_cons.mp hb with rfl | hb
    · exact ⟨_, List.mem_cons_self, hab⟩
    · obtain ⟨r, hr, hR⟩ := ih hb
      exact ⟨r, List.mem_cons_of_mem _ hr, hR⟩

theorem filter_flatten_congr {β γ} {R R' : β → List γ → Prop} (P : γ → Bool) {cs : List β} {wss wss' : List (List γ)}
    (h : List.Forall₂ R cs wss) (h' : List.Forall₂ R' cs wss')
    (hc : ∀ c ∈ cs, ∀ ws ws', R c ws → R' c ws' → ws.filter P = ws'.filter P) :
    wss.flatten.filter P = wss'.flatten.filter P := by
  induction h generalizing wss' with
  | nil => cases h'; rfl
  | cons hab _ ih =>
    cases h' with
    | cons hab' ht' =>
      simp only [List.flatten_cons, List.filter_append]
      rw [hc _ List.mem_cons_self _ _ hab hab', ih ht' (fun c hcm => hc c (List.mem_cons_of_mem _ hcm))]

theorem filter_key_eq_nil {α} (ws : List (Nat × α)) (i : Nat) (h : i ∉ ws.map Prod.fst) :
    ws.filter (fun p => p.1 == i) = [] := by
  rw [List.filter_eq_nil_iff]
  intro p hp hpi
  exact h (List.mem_map.mpr ⟨p, hp, by simpa using hpi⟩)


/-! ### the generic loop -/

theorem runLoop_ok {α C} (writes : C → Except String (List (Nat × α))) (cs : List C) (n : Nat)
    (out : List (Option α)) (h : runLoop writes cs n = .ok out) :
    ∃ wss, List.Forall₂ (fun c ws => writes c = .ok ws) cs wss ∧
      out = applyWrites (List.replicate n none) wss.flatten := by
  unfold runLoop at h
  simp only [bind, Except.bind, pure, Except.pure] at h
  split at h
  · simp at h
  · rename_i wss hwss
    simp only [Except.ok.injEq] at h
    exact ⟨wss, mapE_ok _ _ _ hwss, h.symm⟩

/-- if every index below `n` is a key of some iteration's writes, every position of the result is written -/
theorem runLoop_all_some {α C} (writes : C → Except String (List (Nat × α))) (cs : List C) (n : Nat)
    (out : List (Option α))
    (hcov : ∀ i, i < n → ∃ c ∈ cs, ∀ ws, writes c = .ok ws → i ∈ ws.map Prod.fst)
    (h : runLoop writes cs n = .ok out) :
    out.length = n ∧ ∀ i, i < n → ∃ v, out[i]? = some (some v) := by
  obtain ⟨wss, hF, rfl⟩ := runLoop_ok _ _ _ _ h
  refine ⟨by rw [applyWrites_length]; simp, ?_⟩
  intro i hi
  obtain ⟨c, hc, hkey⟩ := hcov i hi
  obtain ⟨ws, hws, hR⟩ := forall2_mem_left hF c hc
  obtain ⟨p, hp, hpi⟩ := List.mem_map.mp (hkey ws hR)
  rw [applyWrites_get_filter]
  have hne : (wss.flatten).filter (fun p => p.1 == i) ≠ [] := by
    apply List.ne_nil_of_mem (a := p)
    exact List.mem_filter.mpr ⟨List.mem_flatten.mpr ⟨ws, hws, hp⟩, by simp [hpi]⟩
  exact ⟨_, applyWrites_all_key _ _ i (by simpa using hi)
    (fun q hq => by simpa using (List.mem_filter.mp hq).2) hne⟩

/-- two runs of the loop over the same iteration list agree at position `i` as soon as, iteration by
    iteration, their writes with key `i` agree -/
theorem runLoop_local {α C} (writes writes' : C → Except String (List (Nat × α))) (cs : List C) (n : Nat)
    (out out' : List (Option α)) (i : Nat)
    (hc : ∀ c ∈ cs, ∀ ws ws', writes c = .ok ws → writes' c = .ok ws' →
      ws.filter (fun p => p.1 == i) = ws'.filter (fun p => p.1 == i))
    (h : runLoop writes cs n = .ok out) (h' : runLoop writes' cs n = .ok out') :
    out[i]? = out'[i]? := by
  obtain ⟨wss, hF, rfl⟩ := runLoop_ok _ _ _ _ h
  obtain ⟨wss', hF', rfl⟩ := runLoop_ok _ _ _ _ h'
  rw [applyWrites_get_filter, applyWrites_get_filter (ws := wss'.flatten)]
  congr 2
  exact filter_flatten_congr _ hF hF' hc

/-! ### keys of the individual write lists -/

theorem windowWrites_keys {α} (f : WinFn α) (L S : Int) (dO dH dF : List Int) (obs hist fut : List α)
    (c : Int) (ws : List (Nat × α)) (h : windowWrites f L S dO dH dF obs hist fut c = .ok ws) :
    ws.map Prod.fst = idxAdjust S dF c := by
  unfold windowWrites at h
  simp only [bind, Except.bind] at h
  split at h
  · simp at h
  · split at h
    · simp at h
    · exact pairsFor_keys _ _ _ h

theorem windowWritesDC_keys {α} (f : WinFn α) (L S : Int) (dO dH dF : List Int) (obs hist fut : List α)
    (c : Int) (ws : List (Nat × α)) (h : windowWritesDC f L S dO dH dF obs hist fut c = .ok ws) :
    ws.map Prod.fst = idxAdjust S dO c := by
  unfold windowWritesDC at h
  simp only [bind, Except.bind] at h
  split at h
  · simp at h
  · split at h
    · simp at h
    · exact pairsFor_keys _ _ _ h

theorem yearWrites_keys {α} (g : YearFn α) (L S : Int) (years : List Int) (fut : List α)
    (c : Int) (ws : List (Nat × α)) (h : yearWrites g L S years fut c = .ok ws) :
    ws.map Prod.fst = Py.whereTrue (yearMask years (yearsAdjusted S c)) := by
  unfold yearWrites at h
  simp only [bind, Except.bind] at h
  split at h
  · simp at h
  · split at h
    · simp at h
    · exact pairsFor_keys _ _ _ h

theorem monthWrites_keys {α} (f : WinFn α) (mO mH mF : List Int) (obs hist fut : List α)
    (m : Int) (ws : List (Nat × α)) (h : monthWrites f mO mH mF obs hist fut m = .ok ws) :
    ws.map Prod.fst = Py.whereTrue (mF.map (fun x => decide (x = m))) := by
  unfold monthWrites at h
  simp only [bind, Except.bind] at h
  split at h
  · simp at h
  · exact pairsFor_keys _ _ _ h

/-- fancy indexing reads only the indexed positions -/
theorem take_congr {α} (x y : List α) (idx : List Nat) (h : ∀ j ∈ idx, x[j]? = y[j]?) :
    take x idx = take y idx := by
  unfold take
  apply List.filterMap_congr
  intro j hj
  exact h j hj

end Lemmas.Skeleton
