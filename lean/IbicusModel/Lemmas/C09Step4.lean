/-
  C09 helpers, part 3: ISIMIP step 4 (`Model.Isimip.randomizeMasked`): the values selected by a mask that is a
  predicate of the value are replaced by the sorted draws re-inserted in the rank order of the replaced values.
  Specification in membership form, and the composition lower-then-upper of `step4`.
-/
import IbicusModel.Lemmas.C09Stats
import IbicusModel.Model.Isimip

namespace Lemmas.C09
open Model.Stats Model.Isimip Model.IsimipFreq Lemmas.Stats

/-! ### boolean-mask selection and assignment for a mask computed from the values -/

theorem selectWhere_map_pred {α} (x : List α) (P : α → Bool) : Py.selectWhere x (x.map P) = x.filter P := by
  induction x with
  | nil => rfl
  | cons a t ih =>
    unfold Py.selectWhere at ih ⊢
    simp only [List.map_cons, List.zip_cons_cons, List.filterMap_cons, List.filter_cons]
    by_cases h : P a = true
    · simp only [h, if_true]; rw [ih]
    · have h' : P a = false := by simpa using h
      simp only [h', Bool.false_eq_true, if_false]; exact ih

theorem fillWhere_length {α} (x : List α) (m : List Bool) (v : List α) : (fillWhere x m v).length = x.length := by
  induction x generalizing m v with
  | nil => simp [fillWhere]
  | cons a t ih =>
    cases m with
    | nil => simp [fillWhere]
    | cons b ms =>
      cases b with
      | false => simp [fillWhere, ih]
      | true =>
        cases v with
        | nil => simp [fillWhere, ih]
        | cons w vs => simp [fillWhere, ih]

/-- every (old, new) pair of `x[mask] = v` with `mask = P(x)`: either the entry is not selected and unchanged,
    or it is selected and paired with its replacement in the order of selection -/
theorem mem_zip_fillWhere {α} (x : List α) (P : α → Bool) (v : List α) (hlen : v.length = (x.filter P).length)
    (p : α × α) (hp : p ∈ x.zip (fillWhere x (x.map P) v)) :
    (P p.1 = false ∧ p.2 = p.1) ∨ (P p.1 = true ∧ p ∈ (x.filter P).zip v) := by
  induction x generalizing v with
  | nil => simp at hp
  | cons a t ih =>
    by_cases h : P a = true
    · cases v with
      | nil => simp [h] at hlen
      | cons w vs =>
        have hlen' : vs.length = (t.filter P).length := by
          simpa [List.filter_cons, h] using hlen
        simp only [List.map_cons, h, fillWhere, List.zip_cons_cons, List.mem_cons] at hp
        rcases hp with rfl | hp
        · right; exact ⟨h, by simp [h]⟩
        · rcases ih vs hlen' hp with h1 | ⟨h1, h2⟩
          · left; exact h1
          · right; refine ⟨h1, ?_⟩
            simp only [List.filter_cons, h, if_true, List.zip_cons_cons, List.mem_cons]
            right; exact h2
    · have h' : P a = false := by simpa using h
      have hlen' : v.length = (t.filter P).length := by
        simpa [List.filter_cons, h'] using hlen
      simp only [List.map_cons, h', fillWhere, List.zip_cons_cons, List.mem_cons] at hp
      rcases hp with rfl | hp
      · left; exact ⟨h', rfl⟩
      · rcases ih v hlen' hp with h1 | ⟨h1, h2⟩
        · left; exact h1
        · right; refine ⟨h1, ?_⟩
          simpa [List.filter_cons, h'] using h2

/-! ### `sort_array_like_another_one` in membership form -/

theorem mem_zip_sortLike_ordered (x y : List Rat) (h : x.length = y.length) (p q : Rat × Rat)
    (hp : p ∈ y.zip (sortLike x y)) (hq : q ∈ y.zip (sortLike x y)) (hlt : p.1 < q.1) : p.2 ≤ q.2 := by
  obtain ⟨i, hi, rfl⟩ := List.mem_iff_getElem.mp hp
  obtain ⟨j, hj, rfl⟩ := List.mem_iff_getElem.mp hq
  have hi' : i < y.length := by rw [List.length_zip] at hi; omega
  have hj' : j < y.length := by rw [List.length_zip] at hj; omega
  have hsl : (sortLike x y).length = y.length := sortLike_length x y
  simp only [List.getElem_zip] at hlt ⊢
  rw [← getD_eq y i hi', ← getD_eq y j hj'] at hlt
  rw [← getD_eq _ i (by omega), ← getD_eq _ j (by omega)]
  exact sortLike_ordered x y h hi' hj' hlt

theorem mem_sortLike_sortQ (draws y : List Rat) (h : draws.length = y.length) {r : Rat}
    (hr : r ∈ sortLike (sortQ draws) y) : r ∈ draws := by
  have hp := (sortLike_perm (sortQ draws) y (by rw [sortQ_length]; exact h)).trans (sortQ_perm draws)
  exact hp.mem_iff.mp hr

/-! ### specification of `randomizeMasked` -/

/-- `vals[mask] = sort_array_like_another_one(np.sort(draws), vals[mask])` for `mask = P(vals)`:
    same length; an unselected entry is unchanged; a selected entry becomes one of the draws; among the selected
    entries a strictly smaller old value gets a not larger new value. -/
theorem randomizeMasked_spec (vals : List Rat) (P : Rat → Bool) (draws out : List Rat)
    (h : randomizeMasked vals (vals.map P) draws = .ok out) :
    out.length = vals.length ∧
    (∀ p ∈ vals.zip out, (P p.1 = false ∧ p.2 = p.1) ∨ (P p.1 = true ∧ p.2 ∈ draws)) ∧
    (∀ p ∈ vals.zip out, ∀ q ∈ vals.zip out, P p.1 = true → P q.1 = true → p.1 < q.1 → p.2 ≤ q.2) := by
  unfold randomizeMasked at h
  simp only [selectWhere_map_pred] at h
  split_ifs at h with hl
  have ho : out = fillWhere vals (vals.map P) (sortLike (sortQ draws) (vals.filter P)) := by
    injection h with h; exact h.symm
  have hsl : (sortLike (sortQ draws) (vals.filter P)).length = (vals.filter P).length := sortLike_length _ _
  have hsq : (sortQ draws).length = (vals.filter P).length := by rw [sortQ_length]; exact hl
  subst ho
  refine ⟨fillWhere_length _ _ _, ?_, ?_⟩
  · intro p hp
    rcases mem_zip_fillWhere vals P _ hsl p hp with h1 | ⟨h1, h2⟩
    · exact Or.inl h1
    · exact Or.inr ⟨h1, mem_sortLike_sortQ draws _ hl (List.of_mem_zip h2).2⟩
  · intro p hp q hq hPp hPq hlt
    rcases mem_zip_fillWhere vals P _ hsl p hp with h1 | ⟨_, h2⟩
    · rw [h1.1] at hPp; exact absurd hPp (by simp)
    rcases mem_zip_fillWhere vals P _ hsl q hq with h1 | ⟨_, h3⟩
    · rw [h1.1] at hPq; exact absurd hPq (by simp)
    exact mem_zip_sortLike_ordered (sortQ draws) (vals.filter P) hsq p q h2 h3 hlt

/-- the three-class invariant behind step 4, for a mask that is a *down-set* (`x ≤ threshold`): selected values
    lie below unselected ones, and every draw lies below every unselected value -/
theorem randomizeMasked_lower_order (vals : List Rat) (P : Rat → Bool) (draws out : List Rat)
    (hdown : ∀ a b : Rat, P a = false → P b = true → b < a)
    (hdraw : ∀ r ∈ draws, ∀ a : Rat, P a = false → r ≤ a)
    (h : randomizeMasked vals (vals.map P) draws = .ok out) : OrderPres vals out := by
  obtain ⟨hlen, hcls, hord⟩ := randomizeMasked_spec vals P draws out h
  apply orderPres_of_pairs vals out hlen.symm
  intro p hp q hq hlt
  rcases hcls p hp with ⟨hp1, hp2⟩ | ⟨hp1, hp2⟩ <;> rcases hcls q hq with ⟨hq1, hq2⟩ | ⟨hq1, hq2⟩
  · rw [hp2, hq2]; exact le_of_lt hlt
  · have := hdown _ _ hp1 hq1; linarith
  · rw [hq2]; exact hdraw _ hp2 _ hq1
  · exact hord p hp q hq hp1 hq1 hlt

/-- the same for an *up-set* mask (`x ≥ threshold`) -/
theorem randomizeMasked_upper_order (vals : List Rat) (P : Rat → Bool) (draws out : List Rat)
    (hup : ∀ a b : Rat, P a = false → P b = true → a < b)
    (hdraw : ∀ r ∈ draws, ∀ a : Rat, P a = false → a ≤ r)
    (h : randomizeMasked vals (vals.map P) draws = .ok out) : OrderPres vals out := by
  obtain ⟨hlen, hcls, hord⟩ := randomizeMasked_spec vals P draws out h
  apply orderPres_of_pairs vals out hlen.symm
  intro p hp q hq hlt
  rcases hcls p hp with ⟨hp1, hp2⟩ | ⟨hp1, hp2⟩ <;> rcases hcls q hq with ⟨hq1, hq2⟩ | ⟨hq1, hq2⟩
  · rw [hp2, hq2]; exact le_of_lt hlt
  · rw [hp2]; exact hdraw _ hq2 _ hp1
  · have := hup _ _ hq1 hp1; linarith
  · exact hord p hp q hq hp1 hq1 hlt

/-! ### the two randomisations of `step4` one after the other -/

theorem leOf_sep {a b : Rat} {t : ExtRat} (ha : ExtRat.leOf a t = false) (hb : ExtRat.leOf b t = true) : b < a := by
  cases t with
  | negInf => simp [ExtRat.leOf] at hb
  | fin q =>
    simp only [ExtRat.leOf, decide_eq_false_iff_not, decide_eq_true_eq, not_le] at ha hb
    exact lt_of_le_of_lt hb ha
  | posInf => simp [ExtRat.leOf] at ha

theorem geOf_sep {a b : Rat} {t : ExtRat} (ha : ExtRat.geOf a t = false) (hb : ExtRat.geOf b t = true) : a < b := by
  cases t with
  | negInf => simp [ExtRat.geOf] at ha
  | fin q =>
    simp only [ExtRat.geOf, decide_eq_false_iff_not, decide_eq_true_eq, not_le, ge_iff_le] at ha hb
    exact lt_of_lt_of_le ha hb
  | posInf => simp [ExtRat.geOf] at hb

/-- index form of the class statement of `randomizeMasked_spec` -/
theorem randomizeMasked_class (vals : List Rat) (P : Rat → Bool) (draws out : List Rat)
    (h : randomizeMasked vals (vals.map P) draws = .ok out) (i : Nat) (hi : i < vals.length) :
    (P (vals.getD i 0) = false ∧ out.getD i 0 = vals.getD i 0) ∨
    (P (vals.getD i 0) = true ∧ out.getD i 0 ∈ draws) := by
  obtain ⟨hlen, hcls, _⟩ := randomizeMasked_spec vals P draws out h
  exact hcls _ (mem_zip_getD vals out hlen.symm i hi)

/-- lower randomisation (down-set mask `PL`, draws inside the mask) followed by upper randomisation (up-set mask
    `PU`, draws inside it), the two masks being disjoint: a strictly smaller original value never ends up larger -/
theorem randomize_two_stage (x y z : List Rat) (PL PU : Rat → Bool) (dL dU : List Rat)
    (h1 : randomizeMasked x (x.map PL) dL = .ok y) (h2 : randomizeMasked y (y.map PU) dU = .ok z)
    (hdown : ∀ a b : Rat, PL a = false → PL b = true → b < a)
    (hup : ∀ a b : Rat, PU a = false → PU b = true → a < b)
    (hdL : ∀ r ∈ dL, PL r = true) (hdU : ∀ r ∈ dU, PU r = true)
    (hsep : ∀ v : Rat, PL v = true → PU v = false) : OrderPres x z := by
  have o1 := randomizeMasked_lower_order x PL dL y hdown
    (fun r hr a ha => le_of_lt (hdown a r ha (hdL r hr))) h1
  have o2 := randomizeMasked_upper_order y PU dU z hup
    (fun r hr a ha => le_of_lt (hup a r ha (hdU r hr))) h2
  refine ⟨o1.1.trans o2.1, ?_⟩
  intro i j hi hj hlt
  have hiy : i < y.length := o1.1 ▸ hi
  have hjy : j < y.length := o1.1 ▸ hj
  have hle := o1.2 i j hi hj hlt
  rcases lt_or_eq_of_le hle with hlt' | heq
  · exact o2.2 i j hiy hjy hlt'
  · -- equal after the lower step: both were re-drawn below the lower threshold, the upper step leaves them alone
    rcases randomizeMasked_class x PL dL y h1 i hi with ⟨pi, ei⟩ | ⟨pi, mi⟩ <;>
      rcases randomizeMasked_class x PL dL y h1 j hj with ⟨pj, ej⟩ | ⟨pj, mj⟩
    · rw [ei, ej] at heq; linarith
    · have := hdown _ _ pi pj; linarith
    · have := hdown _ _ pj (hdL _ mi); rw [ej] at heq; linarith
    · have ui := hsep _ (hdL _ mi)
      have uj := hsep _ (hdL _ mj)
      rcases randomizeMasked_class y PU dU z h2 i hiy with ⟨_, e1⟩ | ⟨q1, _⟩
      · rcases randomizeMasked_class y PU dU z h2 j hjy with ⟨_, e2⟩ | ⟨q2, _⟩
        · rw [e1, e2]; exact hle
        · rw [uj] at q2; exact absurd q2 (by simp)
      · rw [ui] at q1; exact absurd q1 (by simp)

/-- the `cm_future` component of `step4`: lower randomisation if the variable has a lower bound and threshold,
    then upper randomisation if it has an upper bound and threshold -/
theorem step4_F (c : Cfg) (d : Draws) (obs H F : List Rat) (r : List Rat × List Rat × List Rat)
    (h : step4 c d obs H F = .ok r) :
    ∃ f1, (if (c.hasLowerBound && c.hasLowerThreshold) = true then step4RandomizeLower c F d.lowF = .ok f1 else f1 = F) ∧
      (if (c.hasUpperBound && c.hasUpperThreshold) = true then step4RandomizeUpper c f1 d.upF = .ok r.2.2 else r.2.2 = f1) := by
  unfold step4 at h
  simp only [bind, Except.bind, pure, Except.pure] at h
  by_cases hl : (c.hasLowerBound && c.hasLowerThreshold) = true <;>
    by_cases hu : (c.hasUpperBound && c.hasUpperThreshold) = true <;>
    simp only [hl, hu, Bool.false_eq_true, ↓reduceIte] at h ⊢
  · split at h
    · cases h
    split at h
    · cases h
    split at h
    · cases h
    rename_i f1 hf1
    split at h
    · cases h
    split at h
    · cases h
    split at h
    · cases h
    rename_i f2 hf2
    injection h with h
    subst h
    exact ⟨f1, hf1, hf2⟩
  · split at h
    · cases h
    split at h
    · cases h
    split at h
    · cases h
    rename_i f1 hf1
    injection h with h
    subst h
    exact ⟨f1, hf1, rfl⟩
  · split at h
    · cases h
    split at h
    · cases h
    split at h
    · cases h
    rename_i f2 hf2
    injection h with h
    subst h
    exact ⟨F, rfl, hf2⟩
  · injection h with h
    subst h
    exact ⟨F, rfl, rfl⟩

end Lemmas.C09
