/-
  C09 helpers, part 6: the whole ISIMIP window (`Model.Isimip.applyOnWindow`, detrending off) as the composition
  `step6 ∘ step4`.  `step4_order` gives `≤` after step 4 and `step6_mono` needs `<` before step 6; with pairwise
  distinct draws (probability 1) step 4 is *strictly* rank preserving, and the composition follows.
-/
import IbicusModel.Lemmas.C09Families
import IbicusModel.Lemmas.IsimipModel

namespace Lemmas.C09
open Model.Stats Model.Isimip Model.IsimipFreq Lemmas.Stats Lemmas.IsimipFreq

theorem sorted_nodup_getD_strict {s : List Rat} (hs : s.Pairwise (· ≤ ·)) (hnd : s.Nodup) {i j : Nat} (hij : i < j)
    (hj : j < s.length) : s.getD i 0 < s.getD j 0 := by
  have hle := sorted_getD_mono hs (le_of_lt hij) hj
  apply lt_of_le_of_ne hle
  rw [getD_eq s i (by omega), getD_eq s j hj]
  intro heq
  have := (List.Nodup.getElem_inj_iff hnd).mp heq
  omega

theorem sortLike_strict (x y : List Rat) (h : x.length = y.length) (hnd : x.Nodup) {i j : Nat} (hi : i < y.length)
    (hj : j < y.length) (hlt : y.getD i 0 < y.getD j 0) :
    (sortLike x y).getD i 0 < (sortLike x y).getD j 0 := by
  rw [sortLike_getD x y i hi, sortLike_getD x y j hj]
  apply sorted_nodup_getD_strict (sortQ_sorted x) ((sortQ_perm x).nodup_iff.mpr hnd) (rankOf_lt_of_lt y hi hj hlt)
  rw [sortQ_length, h]; exact rankOf_lt y j hj

theorem mem_zip_sortLike_strict (x y : List Rat) (h : x.length = y.length) (hnd : x.Nodup) (p q : Rat × Rat)
    (hp : p ∈ y.zip (sortLike x y)) (hq : q ∈ y.zip (sortLike x y)) (hlt : p.1 < q.1) : p.2 < q.2 := by
  obtain ⟨i, hi, rfl⟩ := List.mem_iff_getElem.mp hp
  obtain ⟨j, hj, rfl⟩ := List.mem_iff_getElem.mp hq
  have hi' : i < y.length := by rw [List.length_zip] at hi; omega
  have hj' : j < y.length := by rw [List.length_zip] at hj; omega
  have hsl : (sortLike x y).length = y.length := sortLike_length x y
  simp only [List.getElem_zip] at hlt ⊢
  rw [← getD_eq y i hi', ← getD_eq y j hj'] at hlt
  rw [← getD_eq _ i (by omega), ← getD_eq _ j (by omega)]
  exact sortLike_strict x y h hnd hi' hj' hlt

/-- with pairwise distinct draws the re-insertion is strictly rank preserving among the selected entries -/
theorem randomizeMasked_strict_among (vals : List Rat) (P : Rat → Bool) (draws out : List Rat) (hnd : draws.Nodup)
    (h : randomizeMasked vals (vals.map P) draws = .ok out) :
    ∀ p ∈ vals.zip out, ∀ q ∈ vals.zip out, P p.1 = true → P q.1 = true → p.1 < q.1 → p.2 < q.2 := by
  unfold randomizeMasked at h
  simp only [selectWhere_map_pred] at h
  split_ifs at h with hl
  have ho : out = fillWhere vals (vals.map P) (sortLike (sortQ draws) (vals.filter P)) := by
    injection h with h; exact h.symm
  have hsl : (sortLike (sortQ draws) (vals.filter P)).length = (vals.filter P).length := sortLike_length _ _
  have hsq : (sortQ draws).length = (vals.filter P).length := by rw [sortQ_length]; exact hl
  subst ho
  intro p hp q hq hPp hPq hlt
  rcases mem_zip_fillWhere vals P _ hsl p hp with h1 | ⟨_, h2⟩
  · rw [h1.1] at hPp; exact absurd hPp (by simp)
  rcases mem_zip_fillWhere vals P _ hsl q hq with h1 | ⟨_, h3⟩
  · rw [h1.1] at hPq; exact absurd hPq (by simp)
  exact mem_zip_sortLike_strict (sortQ draws) (vals.filter P) hsq ((sortQ_perm draws).nodup_iff.mpr hnd) p q h2 h3 hlt

theorem strictOrderPres_of_pairs (x out : List Rat) (hlen : x.length = out.length)
    (h : ∀ p ∈ x.zip out, ∀ q ∈ x.zip out, p.1 < q.1 → p.2 < q.2) : StrictOrderPres x out :=
  ⟨hlen, fun i j hi hj hlt =>
    h _ (mem_zip_getD x out hlen i hi) _ (mem_zip_getD x out hlen j hj) hlt⟩

theorem randomizeMasked_lower_strict (vals : List Rat) (P : Rat → Bool) (draws out : List Rat) (hnd : draws.Nodup)
    (hdown : ∀ a b : Rat, P a = false → P b = true → b < a)
    (hdraw : ∀ r ∈ draws, ∀ a : Rat, P a = false → r < a)
    (h : randomizeMasked vals (vals.map P) draws = .ok out) : StrictOrderPres vals out := by
  obtain ⟨hlen, hcls, _⟩ := randomizeMasked_spec vals P draws out h
  have hord := randomizeMasked_strict_among vals P draws out hnd h
  apply strictOrderPres_of_pairs vals out hlen.symm
  intro p hp q hq hlt
  rcases hcls p hp with ⟨hp1, hp2⟩ | ⟨hp1, hp2⟩ <;> rcases hcls q hq with ⟨hq1, hq2⟩ | ⟨hq1, hq2⟩
  · rw [hp2, hq2]; exact hlt
  · have := hdown _ _ hp1 hq1; linarith
  · rw [hq2]; exact hdraw _ hp2 _ hq1
  · exact hord p hp q hq hp1 hq1 hlt

theorem randomizeMasked_upper_strict (vals : List Rat) (P : Rat → Bool) (draws out : List Rat) (hnd : draws.Nodup)
    (hup : ∀ a b : Rat, P a = false → P b = true → a < b)
    (hdraw : ∀ r ∈ draws, ∀ a : Rat, P a = false → a < r)
    (h : randomizeMasked vals (vals.map P) draws = .ok out) : StrictOrderPres vals out := by
  obtain ⟨hlen, hcls, _⟩ := randomizeMasked_spec vals P draws out h
  have hord := randomizeMasked_strict_among vals P draws out hnd h
  apply strictOrderPres_of_pairs vals out hlen.symm
  intro p hp q hq hlt
  rcases hcls p hp with ⟨hp1, hp2⟩ | ⟨hp1, hp2⟩ <;> rcases hcls q hq with ⟨hq1, hq2⟩ | ⟨hq1, hq2⟩
  · rw [hp2, hq2]; exact hlt
  · rw [hp2]; exact hdraw _ hq2 _ hp1
  · have := hup _ _ hq1 hp1; linarith
  · exact hord p hp q hq hp1 hq1 hlt

theorem StrictOrderPres.trans' {x y z : List Rat} (h1 : StrictOrderPres x y) (h2 : StrictOrderPres y z) :
    StrictOrderPres x z :=
  ⟨h1.1.trans h2.1, fun i j hi hj h =>
    h2.2 i j (h1.1 ▸ hi) (h1.1 ▸ hj) (h1.2 i j hi hj h)⟩

/-- one component of `step4`: lower randomisation if applicable, then upper randomisation if applicable -/
def Step4Comp (c : Cfg) (x dL dU out : List Rat) : Prop :=
  ∃ x1, (if (c.hasLowerBound && c.hasLowerThreshold) = true then step4RandomizeLower c x dL = .ok x1 else x1 = x) ∧
    (if (c.hasUpperBound && c.hasUpperThreshold) = true then step4RandomizeUpper c x1 dU = .ok out else out = x1)

theorem step4_parts (c : Cfg) (d : Draws) (obs H F : List Rat) (r : List Rat × List Rat × List Rat)
    (h : step4 c d obs H F = .ok r) :
    Step4Comp c obs d.lowO d.upO r.1 ∧ Step4Comp c H d.lowH d.upH r.2.1 ∧ Step4Comp c F d.lowF d.upF r.2.2 := by
  unfold step4 at h
  simp only [bind, Except.bind, pure, Except.pure] at h
  unfold Step4Comp
  by_cases hl : (c.hasLowerBound && c.hasLowerThreshold) = true <;>
    by_cases hu : (c.hasUpperBound && c.hasUpperThreshold) = true <;>
    simp only [hl, hu, Bool.false_eq_true, ↓reduceIte] at h ⊢
  · split at h
    · cases h
    rename_i o1 ho1
    split at h
    · cases h
    rename_i h1 hh1
    split at h
    · cases h
    rename_i f1 hf1
    split at h
    · cases h
    rename_i o2 ho2
    split at h
    · cases h
    rename_i h2 hh2
    split at h
    · cases h
    rename_i f2 hf2
    injection h with h
    subst h
    exact ⟨⟨o1, ho1, ho2⟩, ⟨h1, hh1, hh2⟩, ⟨f1, hf1, hf2⟩⟩
  · split at h
    · cases h
    rename_i o1 ho1
    split at h
    · cases h
    rename_i h1 hh1
    split at h
    · cases h
    rename_i f1 hf1
    injection h with h
    subst h
    exact ⟨⟨o1, ho1, rfl⟩, ⟨h1, hh1, rfl⟩, ⟨f1, hf1, rfl⟩⟩
  · split at h
    · cases h
    rename_i o2 ho2
    split at h
    · cases h
    rename_i h2 hh2
    split at h
    · cases h
    rename_i f2 hf2
    injection h with h
    subst h
    exact ⟨⟨obs, rfl, ho2⟩, ⟨H, rfl, hh2⟩, ⟨F, rfl, hf2⟩⟩
  · injection h with h
    subst h
    exact ⟨⟨obs, rfl, rfl⟩, ⟨H, rfl, rfl⟩, ⟨F, rfl, rfl⟩⟩

theorem step4Comp_length {c : Cfg} {x dL dU out : List Rat} (h : Step4Comp c x dL dU out) : out.length = x.length := by
  obtain ⟨x1, h1, h2⟩ := h
  have l1 : x1.length = x.length := by
    split_ifs at h1
    · exact (randomizeMasked_spec x _ dL x1 h1).1
    · rw [h1]
  have l2 : out.length = x1.length := by
    split_ifs at h2
    · exact (randomizeMasked_spec x1 _ dU out h2).1
    · rw [h2]
  rw [l2, l1]

/-- every value after step 4 is an original value or one of the draws -/
theorem step4Comp_mem {c : Cfg} {x dL dU out : List Rat} (h : Step4Comp c x dL dU out) {v : Rat} (hv : v ∈ out) :
    v ∈ x ∨ v ∈ dL ∨ v ∈ dU := by
  obtain ⟨x1, h1, h2⟩ := h
  have m1 : ∀ w ∈ x1, w ∈ x ∨ w ∈ dL := by
    intro w hw
    split_ifs at h1
    · obtain ⟨hlen, hcls, _⟩ := randomizeMasked_spec x _ dL x1 h1
      obtain ⟨i, hi, rfl⟩ := List.mem_iff_getElem.mp hw
      have hix : i < x.length := hlen ▸ hi
      have := hcls _ (mem_zip_getD x x1 hlen.symm i hix)
      rw [getD_eq x1 i hi] at this
      rcases this with ⟨_, e⟩ | ⟨_, m⟩
      · left; simp only [] at e; rw [e]; exact getD_mem x i hix
      · right; exact m
    · left; rw [h1] at hw; exact hw
  split_ifs at h2
  · obtain ⟨hlen, hcls, _⟩ := randomizeMasked_spec x1 _ dU out h2
    obtain ⟨i, hi, rfl⟩ := List.mem_iff_getElem.mp hv
    have hix : i < x1.length := hlen ▸ hi
    have := hcls _ (mem_zip_getD x1 out hlen.symm i hix)
    rw [getD_eq out i hi] at this
    rcases this with ⟨_, e⟩ | ⟨_, m⟩
    · simp only [] at e; rw [e]
      rcases m1 _ (getD_mem x1 i hix) with a | b
      · exact Or.inl a
      · exact Or.inr (Or.inl b)
    · exact Or.inr (Or.inr m)
  · rw [h2] at hv
    rcases m1 v hv with a | b
    · exact Or.inl a
    · exact Or.inr (Or.inl b)


theorem step4Comp_strict {c : Cfg} {x dL dU out : List Rat} (h : Step4Comp c x dL dU out) (hndL : dL.Nodup)
    (hndU : dU.Nodup) (hdL : ∀ u ∈ dL, ExtRat.leOf u c.lowerThreshold = true)
    (hdU : ∀ u ∈ dU, ExtRat.geOf u c.upperThreshold = true) : StrictOrderPres x out := by
  obtain ⟨x1, h1, h2⟩ := h
  have s1 : StrictOrderPres x x1 := by
    split_ifs at h1
    · exact randomizeMasked_lower_strict x (fun v => ExtRat.leOf v c.lowerThreshold) dL x1 hndL
        (fun _ _ ha hb => leOf_sep ha hb) (fun r hr _ ha => leOf_sep ha (hdL r hr)) h1
    · rw [h1]; exact ⟨rfl, fun _ _ _ _ h => h⟩
  have s2 : StrictOrderPres x1 out := by
    split_ifs at h2
    · exact randomizeMasked_upper_strict x1 (fun v => ExtRat.geOf v c.upperThreshold) dU out hndU
        (fun _ _ ha hb => geOf_sep ha hb) (fun r hr _ ha => geOf_sep ha (hdU r hr)) h2
    · rw [h2]; exact ⟨rfl, fun _ _ _ _ h => h⟩
  exact s1.trans' s2

/-- **the ISIMIP window, detrending off** (`step3` / `step7` are the identity): `step4`, `step5`, `step6` -/
theorem window_orderPres (c : Cfg) (fam : IsiFamily) (o : Oracles) (d : Draws) (obs H F : List Rat)
    (yO yH yF : List Int) (out : List Rat) (hdet : c.detrending = false)
    (ho : obs ≠ []) (hh : H ≠ []) (hf : F ≠ [])
    (hela : c.eventLikelihoodAdjustment = false) (hL : IsiLaws c fam) (hc : CfgOrdered c)
    (hdata : ∀ v ∈ F, InBounds c v)
    (hndL : d.lowF.Nodup) (hndU : d.upF.Nodup)
    (hdL : ∀ u ∈ d.lowF, ExtRat.leOf u c.lowerThreshold = true ∧ InBounds c u)
    (hdU : ∀ u ∈ d.upF, ExtRat.geOf u c.upperThreshold = true ∧ InBounds c u)
    (h : applyOnWindow c fam o d obs H F yO yH yF = .ok out) : OrderPres F out := by
  rw [Lemmas.IsimipModel.applyOnWindow_eq, Lemmas.IsimipModel.step3_of_not_detrending c o hdet] at h
  simp only [] at h
  cases h4 : step4 c d obs H F with
  | error e => rw [h4] at h; cases h
  | ok r4 =>
    rw [h4] at h
    simp only [Except.bind] at h
    cases h5 : step5 c o r4.1 r4.2.1 r4.2.2 with
    | error e => rw [h5] at h; cases h
    | ok oF =>
      rw [h5] at h
      simp only [] at h
      cases h6 : step6 c fam o r4.1 oF r4.2.1 r4.2.2 with
      | error e => rw [h6] at h; cases h
      | ok r6 =>
        rw [h6] at h
        simp only [] at h
        rw [Lemmas.IsimipModel.step7_of_not_detrending c hdet] at h
        injection h with h
        subst h
        obtain ⟨pO, pH, pF⟩ := step4_parts c d obs H F r4 h4
        have lO : r4.1 ≠ [] := by
          intro he; have := step4Comp_length pO; rw [he] at this
          exact ho (List.length_eq_zero_iff.mp this.symm)
        have lH : r4.2.1 ≠ [] := by
          intro he; have := step4Comp_length pH; rw [he] at this
          exact hh (List.length_eq_zero_iff.mp this.symm)
        have lF : r4.2.2 ≠ [] := by
          intro he; have := step4Comp_length pF; rw [he] at this
          exact hf (List.length_eq_zero_iff.mp this.symm)
        have hstrict := step4Comp_strict pF hndL hndU (fun u hu => (hdL u hu).1) (fun u hu => (hdU u hu).1)
        have hdata4 : ∀ v ∈ r4.2.2, InBounds c v := by
          intro v hv
          rcases step4Comp_mem pF hv with a | b | b
          · exact hdata v a
          · exact (hdL v b).2
          · exact (hdU v b).2
        exact hstrict.trans (step6_orderPres c fam o r4.1 oF r4.2.1 r4.2.2 r6 lO lH lF hela hL hc hdata4 h6)

end Lemmas.C09
