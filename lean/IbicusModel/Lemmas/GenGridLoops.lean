/-
  C05 / C13 tier A, semantic: the structure of the catch wrapper, the two map functions and the two `apply` methods
  regenerated from /repo's current source (`Gen/GridLoops.lean`) equals the hand-written specs of `Model/GridLoops.lean`,
  and the denotation of those specs *is* `runCatch` / `applySerial` / `applyParallel` / `debiaserApplyKw` /
  `deltaChangeApplyKw` of `Model/Grid.lean` — the functions every C05 / C13 theorem is stated on — for every element type,
  exception type, location function, keyword arguments, grid shape, time lengths and completion schedule of the pool.

  A change of the real code such as: `np.ndindex(obs.shape[1], obs.shape[1])`, a transposed write `output[:, j, i]`, the
  argument list and the write-back running over different enumerations, `output_size = cm_future.shape` in DeltaChange,
  a column of the wrong array, a dropped `**kwargs` / `failsafe=failsafe`, `except ValueError`, `return 0` instead of
  `np.nan`, post-init on a copy … changes the regenerated value (or is rejected by the extractor) and breaks
  `Gen = Model` here.  Renaming a local variable changes nothing.
-/
import IbicusModel.Gen.GridLoops
import IbicusModel.Model.GridDispatch
import IbicusModel.Lemmas.Grid

namespace Lemmas.GenGridLoops
open Model.Grid Model.GridLoops

/-! ### regenerated = expected (complete finite data, by evaluation) -/

theorem catchSpec : Gen.GridLoops.catchSpec = Model.GridLoops.catchSpec := by decide
theorem serialSpec : Gen.GridLoops.serialSpec = Model.GridLoops.serialSpec := by decide
theorem parallelSpec : Gen.GridLoops.parallelSpec = Model.GridLoops.parallelSpec := by decide
theorem applyDebiaser : Gen.GridLoops.applyDebiaser = Model.GridLoops.applyDebiaser := by decide
theorem applyDeltaChange : Gen.GridLoops.applyDeltaChange = Model.GridLoops.applyDeltaChange := by decide

variable {κ α ε : Type}

/-! ### denotation of the expected specs = the model functions of `Model/Grid.lean` -/

/-- `_run_func_on_location_and_catch_error` is `runCatch` on `func(a0, a1, a2, **kwargs)`: for every exception type and
    every subclass relation `isa` (`except Exception` catches whatever the location function raises) -/
theorem denote_catch (isa : String → ε → Bool) (loc : LocFnKw κ α ε) (kw noKw : κ) (fs : Bool) (a : ArgIx → List α) :
    denoteCatch Model.GridLoops.catchSpec isa loc kw noKw fs a = runCatch fs (loc kw (a .a0) (a .a1) (a .a2)) := by
  unfold denoteCatch catchResult runCatch
  simp only [Model.GridLoops.catchSpec, if_true]
  cases loc kw (a .a0) (a .a1) (a .a2) <;> cases fs <;> rfl

/-- the call of the wrapper at a cell, as both map functions make it: `runCatch` of the location function on the three
    columns of that cell, with the map function's flag and keyword arguments -/
theorem denote_cellCall (env : MapEnv κ α ε) (fs : Bool) (c : Cell) :
    denoteCall Model.GridLoops.catchSpec false cellCall { env with failsafe := some fs } c
      = runCatch fs (cellFn (env.loc env.kw) (env.arr .obs) (env.arr .hist) (env.arr .fut) c) := by
  unfold denoteCall
  rw [show cellCall.starKw = true from rfl]
  simp only [if_true]
  rw [denote_catch]
  rfl

/-- a map function called without a `failsafe` argument runs with its default `False` -/
theorem denote_cellCall_default (env : MapEnv κ α ε) (c : Cell) :
    denoteCall Model.GridLoops.catchSpec false cellCall { env with failsafe := none } c
      = runCatch false (cellFn (env.loc env.kw) (env.arr .obs) (env.arr .hist) (env.arr .fut) c) := by
  unfold denoteCall
  rw [show cellCall.starKw = true from rfl]
  simp only [if_true]
  rw [denote_catch]
  rfl

/-- `map_over_locations(func, output_size = (T, nx, ny), obs, cm_hist, cm_future, failsafe = fs, **kw)` with
    `obs.shape[1:] = (nx, ny)` is `applySerial` of the per-cell function -/
theorem denote_serial (env : MapEnv κ α ε) (fs : Bool) (T nx ny : Nat) (hobs : env.spatial .obs = (nx, ny))
    (hout : env.outputSize = (T, nx, ny)) :
    denoteSerial Model.GridLoops.serialSpec Model.GridLoops.catchSpec { env with failsafe := some fs }
      = applySerial (cellFn (env.loc env.kw) (env.arr .obs) (env.arr .hist) (env.arr .fut)) fs T nx ny := by
  unfold denoteSerial applySerial
  simp only [Model.GridLoops.serialSpec, outputAlloc, evalShape, evalCells, hobs, hout, comp]
  congr 1

/-- the index list of the parallel map is `pairIndices` of the spatial shape of `obs` -/
theorem evalCells_indexList (env : ArrEnv α) (nx ny : Nat) (hobs : env.spatial .obs = (nx, ny)) :
    evalCells env indexList = pairIndices nx ny := by
  simp [indexList, evalCells, evalDim, evalShape, hobs, comp, pairIndices]

/-- `parallel_map_over_locations(…)` with `obs.shape[1:] = (nx, ny)` is `applyParallel` of the per-cell function, for every
    completion schedule of the pool -/
theorem denote_parallel (env : MapEnv κ α ε) (fs : Bool) (T nx ny : Nat) (sched : List Nat) (hobs : env.spatial .obs = (nx, ny))
    (hout : env.outputSize = (T, nx, ny)) :
    denoteParallel Model.GridLoops.parallelSpec Model.GridLoops.catchSpec { env with failsafe := some fs } sched
      = applyParallel (cellFn (env.loc env.kw) (env.arr .obs) (env.arr .hist) (env.arr .fut)) fs T nx ny sched := by
  unfold denoteParallel applyParallel
  have hcall : (fun c => denoteCall Model.GridLoops.catchSpec Model.GridLoops.parallelSpec.failsafeDefault
        Model.GridLoops.parallelSpec.call { env with failsafe := some fs } c)
      = fun c => runCatch fs (cellFn (env.loc env.kw) (env.arr .obs) (env.arr .hist) (env.arr .fut) c) := by
    funext c
    exact denote_cellCall env fs c
  simp only [Model.GridLoops.parallelSpec, outputAlloc, evalShape, hout, comp] at hcall ⊢
  rw [evalCells_indexList _ nx ny hobs, hcall]

/-- the per-branch statement: a branch call of the expected form hands the map function `apply`'s own arrays, flag and
    keyword arguments, and `output_size` = the shape of array `size` -/
theorem denote_branch (callee : MapFn) (size : Series) (opt : String) (E : ApplyEnv κ α ε) (nx ny : Nat)
    (hobs : E.spatial .obs = (nx, ny)) (hsize : E.spatial size = (nx, ny)) :
    denoteBranch (branch callee size opt) Model.GridLoops.serialSpec Model.GridLoops.parallelSpec Model.GridLoops.catchSpec E
      = applyGrid (cellFn (E.loc E.kw) (E.arr .obs) (E.arr .hist) (E.arr .fut)) E.failsafe (E.arr size).length nx ny
          (match callee with | .serial => .serial | .parallel => .parallel E.sched) := by
  have henv : branchEnv (branch callee size opt) E
      = { ({ loc := E.loc, kw := E.kw, noKw := E.noKw, isa := E.isa, failsafe := none,
             outputSize := ((E.arr size).length, nx, ny), arr := E.arr, spatial := E.spatial } : MapEnv κ α ε)
          with failsafe := some E.failsafe } := by
    have hsrc : (branch callee size opt).src = id := by funext s; cases s <;> rfl
    simp only [branchEnv, hsrc, id]
    rw [show (branch callee size opt).outputSizeOf = size from rfl, hsize]
    rfl
  unfold denoteBranch
  cases callee
  · show denoteSerial _ _ (branchEnv (branch .serial size opt) E) = _
    rw [henv, denote_serial _ _ (E.arr size).length nx ny hobs rfl]
    rfl
  · show denoteParallel _ _ (branchEnv (branch .parallel size opt) E) E.sched = _
    rw [henv, denote_parallel _ _ (E.arr size).length nx ny E.sched hobs rfl]
    rfl

/-- the mode `apply` runs in -/
def modeOf (E : ApplyEnv κ α ε) : Mode := if E.parallel then .parallel E.sched else .serial

/-- `Debiaser.apply(obs, cm_hist, cm_future, parallel, failsafe, **kw)` on inputs of common spatial shape `(nx, ny)` (what
    the input check establishes) is `debiaserApplyKw` -/
theorem denote_applyDebiaser (E : ApplyEnv κ α ε) (nx ny : Nat) (hs : ∀ s, E.spatial s = (nx, ny)) :
    denoteApply Model.GridLoops.applyDebiaser Model.GridLoops.serialSpec Model.GridLoops.parallelSpec Model.GridLoops.catchSpec E
      = debiaserApplyKw E.loc E.kw E.failsafe (E.arr .obs) (E.arr .hist) (E.arr .fut) nx ny (modeOf E) := by
  unfold denoteApply modeOf debiaserApplyKw debiaserApply
  have hr : (preRoles Model.GridLoops.applyDebiaser.pre id) = id := by
    funext s; cases s <;> rfl
  rw [hr]
  cases hp : E.parallel
  · simp only [Model.GridLoops.applyDebiaser, Bool.false_eq_true, if_false]
    exact (denote_branch .serial .fut "progressbar" _ nx ny (hs .obs) (hs .fut)).trans rfl
  · simp only [Model.GridLoops.applyDebiaser, if_true]
    exact (denote_branch .parallel .fut "nr_processes" _ nx ny (hs .obs) (hs .fut)).trans rfl

/-- `DeltaChange.apply(…)` is `deltaChangeApplyKw`: the output has the time axis of `obs` -/
theorem denote_applyDeltaChange (E : ApplyEnv κ α ε) (nx ny : Nat) (hs : ∀ s, E.spatial s = (nx, ny)) :
    denoteApply Model.GridLoops.applyDeltaChange Model.GridLoops.serialSpec Model.GridLoops.parallelSpec Model.GridLoops.catchSpec E
      = deltaChangeApplyKw E.loc E.kw E.failsafe (E.arr .obs) (E.arr .hist) (E.arr .fut) nx ny (modeOf E) := by
  unfold denoteApply modeOf deltaChangeApplyKw deltaChangeApply
  have hr : (preRoles Model.GridLoops.applyDeltaChange.pre id) = id := by
    funext s; cases s <;> rfl
  rw [hr]
  cases hp : E.parallel
  · simp only [Model.GridLoops.applyDeltaChange, Bool.false_eq_true, if_false]
    exact (denote_branch .serial .obs "progressbar" _ nx ny (hs .obs) (hs .obs)).trans rfl
  · simp only [Model.GridLoops.applyDeltaChange, if_true]
    exact (denote_branch .parallel .obs "nr_processes" _ nx ny (hs .obs) (hs .obs)).trans rfl

/-- the specs regenerated from the source denote what `Model.GridDispatch.spec` (the right-hand side of
    `Props.C05.dispatch_correct`) demands of the class — stated on the `Gen` values, so this is the theorem that reads
    the current code -/
theorem gen_apply_eq_spec (E : ApplyEnv κ α ε) (nx ny : Nat) (hs : ∀ s, E.spatial s = (nx, ny)) :
    denoteApply Gen.GridLoops.applyDebiaser Gen.GridLoops.serialSpec Gen.GridLoops.parallelSpec Gen.GridLoops.catchSpec E
        = Model.GridDispatch.spec "Debiaser" E.parallel E.loc E.kw E.failsafe (E.arr .obs) (E.arr .hist) (E.arr .fut) nx ny E.sched
    ∧ denoteApply Gen.GridLoops.applyDeltaChange Gen.GridLoops.serialSpec Gen.GridLoops.parallelSpec Gen.GridLoops.catchSpec E
        = Model.GridDispatch.spec "DeltaChange" E.parallel E.loc E.kw E.failsafe (E.arr .obs) (E.arr .hist) (E.arr .fut) nx ny E.sched := by
  rw [applyDebiaser, applyDeltaChange, serialSpec, parallelSpec, catchSpec, denote_applyDebiaser E nx ny hs,
    denote_applyDeltaChange E nx ny hs]
  constructor <;> rfl

/-! ### the same specs on an instance that carries state: `applySerialSt` / `applyParallelSt` (chunked pool) -/

variable {σ : Type}

/-- the handler of the wrapper is `runCatch` -/
theorem catchResult_eq (isa : String → ε → Bool) (fs : Bool) (r : Except ε (List α)) :
    catchResult Model.GridLoops.catchSpec isa fs r = runCatch fs r := by
  cases r <;> cases fs <;> rfl

/-- the wrapper call at a cell on an instance in state `st`: `runCatch` of the stateful per-cell function -/
theorem denote_cellCallSt (env : MapEnvSt κ σ α ε) (fs : Bool) (st : σ) (c : Cell) :
    denoteCallSt Model.GridLoops.catchSpec false cellCall { env with failsafe := some fs } st c
      = (runCatch fs (cellFnSt env st c).1, (cellFnSt env st c).2) := by
  have h : denoteCallSt Model.GridLoops.catchSpec false cellCall { env with failsafe := some fs } st c
      = (catchResult Model.GridLoops.catchSpec env.isa fs (cellFnSt env st c).1, (cellFnSt env st c).2) := rfl
  rw [h, catchResult_eq]

/-- `map_over_locations` of an instance in state `s0` is `applySerialSt` -/
theorem denote_serialSt (env : MapEnvSt κ σ α ε) (fs : Bool) (T nx ny : Nat) (s0 : σ) (hobs : env.spatial .obs = (nx, ny))
    (hout : env.outputSize = (T, nx, ny)) :
    denoteSerialSt Model.GridLoops.serialSpec Model.GridLoops.catchSpec { env with failsafe := some fs } s0
      = applySerialSt (cellFnSt env) fs T nx ny s0 := by
  unfold denoteSerialSt applySerialSt
  simp only [Model.GridLoops.serialSpec, outputAlloc, evalShape, evalCells, hobs, hout, comp]
  congr 1

/-- a chunk run through the wrapper is `chunkTask` -/
theorem chunkRun_eq (g : σ → Cell → Except (Err ε) (CellResult α) × σ) (f : StCell σ α ε) (fs : Bool)
    (h : ∀ s c, g s c = (runCatch fs (f s c).1, (f s c).2)) (s : σ) (l : List Cell) :
    chunkRun g s l = chunkTask f fs s l := by
  induction l generalizing s with
  | nil => rfl
  | cons c cs ih =>
    unfold chunkRun chunkTask
    rw [h s c]
    simp only [ih]
    rfl

/-- `parallel_map_over_locations` of an instance in state `s0` is `applyParallelSt` with the pool's default chunk size for
    `nx * ny` tasks (no `chunksize=` is passed), for every completion schedule of the chunks -/
theorem denote_parallelSt (env : MapEnvSt κ σ α ε) (fs : Bool) (T nx ny : Nat) (s0 : σ) (sched : List Nat)
    (hobs : env.spatial .obs = (nx, ny)) (hout : env.outputSize = (T, nx, ny)) :
    denoteParallelSt Model.GridLoops.parallelSpec Model.GridLoops.catchSpec { env with failsafe := some fs } s0 sched
      = applyParallelSt (cellFnSt env) fs T nx ny s0 (defaultChunksize (nx * ny) env.processes) sched := by
  unfold denoteParallelSt applyParallelSt writeBack
  have hrun : chunkRun (fun st c => denoteCallSt Model.GridLoops.catchSpec Model.GridLoops.parallelSpec.failsafeDefault
        Model.GridLoops.parallelSpec.call { env with failsafe := some fs } st c) s0
      = chunkTask (cellFnSt env) fs s0 := by
    funext l
    exact chunkRun_eq _ _ fs (fun s c => denote_cellCallSt env fs s c) s0 l
  simp only [Model.GridLoops.parallelSpec, outputAlloc, evalShape, hout, comp, chunkSizeOf] at hrun ⊢
  rw [evalCells_indexList _ nx ny hobs, hrun, Lemmas.Grid.length_pairIndices]
  rfl


/-! ### non-vacuity: a spec that differs from the expected one has a different denotation (concrete witnesses on a 1×2
    grid with time lengths 1 / 1 / 2, by evaluation) — the equalities above are not insensitive to the data -/

namespace Witness

def obs : Arr3 Nat := [[[1, 2]]]
def hist : Arr3 Nat := [[[3, 4]]]
def fut : Arr3 Nat := [[[5, 6]], [[7, 8]]]

/-- `apply_location(obs, cm_hist, cm_future, scale=kw)`: raises `KeyError` at the cell whose `obs` column sums to 2 when `scale = 9` -/
def loc : LocFnKw Nat Nat String := fun kw o h x =>
  if kw = 9 ∧ o.sum = 2 then .error "KeyError" else .ok (x.map (fun v => 1000 * v + 100 * o.sum + 10 * h.sum + kw))

def env (kw : Nat) (fs : Bool) (size : Nat × Nat × Nat) : MapEnv Nat Nat String where
  loc := loc
  kw := kw
  noKw := 0
  isa := fun n e => n == e
  failsafe := some fs
  outputSize := size
  arr := fun s => match s with | .obs => obs | .hist => hist | .fut => fut
  spatial := fun _ => (1, 2)

def E (kw : Nat) (fs par : Bool) : ApplyEnv Nat Nat String where
  loc := loc
  kw := kw
  noKw := 0
  isa := fun n e => n == e
  failsafe := fs
  parallel := par
  sched := [1, 0]
  arr := fun s => match s with | .obs => obs | .hist => hist | .fut => fut
  spatial := fun _ => (1, 2)

/-- the expected specs on this input: every column written with the location function's values -/
example : denoteSerial Model.GridLoops.serialSpec Model.GridLoops.catchSpec (env 7 false (2, 1, 2))
    = .ok [[[some (.val 5137), some (.val 6247)]], [[some (.val 7137), some (.val 8247)]]] := by decide
example : denoteParallel Model.GridLoops.parallelSpec Model.GridLoops.catchSpec (env 7 false (2, 1, 2)) [1, 0]
    = .ok [[[some (.val 5137), some (.val 6247)]], [[some (.val 7137), some (.val 8247)]]] := by decide

/-- (a) index list over `(obs.shape[1], obs.shape[1])`: the second cell is never computed nor written -/
example :
    let bad : ParallelSpec := { Model.GridLoops.parallelSpec with
      argsOver := .ndindexDims ⟨.ofArr .obs, .x⟩ ⟨.ofArr .obs, .x⟩, writeOver := .ndindexDims ⟨.ofArr .obs, .x⟩ ⟨.ofArr .obs, .x⟩ }
    denoteParallel bad Model.GridLoops.catchSpec (env 7 false (2, 1, 2)) [0]
      = .ok [[[some (.val 5137), none]], [[some (.val 7137), none]]] := by decide

/-- (b) transposed write `output[:, j, i]`: an `IndexError` on a non-square grid -/
example :
    let bad : SerialSpec := { Model.GridLoops.serialSpec with target := (.c1, .c0) }
    denoteSerial bad Model.GridLoops.catchSpec (env 7 false (2, 1, 2)) = .error .index := by decide

/-- the argument list and the write-back running over different enumerations: results land in the wrong cells -/
example :
    let bad : ParallelSpec := { Model.GridLoops.parallelSpec with writeOver := .comprehension ⟨.ofArr .obs, .x⟩ ⟨.ofArr .obs, .y⟩ .c0 .c0 }
    denoteParallel bad Model.GridLoops.catchSpec (env 7 false (2, 1, 2)) [1, 0]
      = .ok [[[some (.val 6247), none]], [[some (.val 8247), none]]] := by decide

/-- (c) `DeltaChange.apply` with `output_size = cm_future.shape`: another time length than `deltaChangeApplyKw` -/
example :
    let bad : ApplySpec := { Model.GridLoops.applyDeltaChange with serialBranch := branch .serial .fut "progressbar" }
    denoteApply bad Model.GridLoops.serialSpec Model.GridLoops.parallelSpec Model.GridLoops.catchSpec (E 7 false false)
      ≠ deltaChangeApplyKw loc 7 false obs hist fut 1 2 .serial := by decide

/-- (d) `except ValueError`: a `KeyError` of the location function escapes failsafe mode -/
example :
    let bad : CatchSpec := { Model.GridLoops.catchSpec with excClass := .named "ValueError" }
    denoteSerial Model.GridLoops.serialSpec bad (env 9 true (2, 1, 2)) = .error (.cell "KeyError") := by decide
example : denoteSerial Model.GridLoops.serialSpec Model.GridLoops.catchSpec (env 9 true (2, 1, 2))
    = .ok [[[some (.val 5139), some .nan]], [[some (.val 7139), some .nan]]] := by decide

/-- a dropped `**kwargs` in the wrapper call: the location function runs with its default keyword arguments -/
example :
    let bad : SerialSpec := { Model.GridLoops.serialSpec with call := { cellCall with starKw := false } }
    denoteSerial bad Model.GridLoops.catchSpec (env 7 false (2, 1, 2))
      = .ok [[[some (.val 5130), some (.val 6240)]], [[some (.val 7130), some (.val 8240)]]] := by decide

/-- a dropped `failsafe=failsafe` in the dispatch: the map function's default `False` applies and the error propagates -/
example :
    let bad : ApplySpec := { Model.GridLoops.applyDebiaser with serialBranch := { branch .serial .fut "progressbar" with failsafe := .omitted } }
    denoteApply bad Model.GridLoops.serialSpec Model.GridLoops.parallelSpec Model.GridLoops.catchSpec (E 9 true false)
      = .error (.cell "KeyError") := by decide

/-- a column of the wrong array handed to the location function -/
example :
    let bad : SerialSpec := { Model.GridLoops.serialSpec with call := { cellCall with d1 := ⟨.obs, .c0, .c1⟩ } }
    denoteSerial bad Model.GridLoops.catchSpec (env 7 false (2, 1, 2))
      = .ok [[[some (.val 5117), some (.val 6227)]], [[some (.val 7117), some (.val 8227)]]] := by decide

end Witness

end Lemmas.GenGridLoops
