/-
  Helper lemmas for C01 on the shared model of ISIMIP's per-window pipeline (`Model/Isimip.lean`): for a tas-like
  configuration (no bounds, no thresholds, parametric mapping, additive trend transfer) step 6 is the parametric map
  `ppf_{obs_future} ∘ cdf_{cm_future}` element by element, and step 5 returns the observations when
  `cm_future = cm_hist`.
-/
import IbicusModel.Lemmas.C01
import IbicusModel.Lemmas.IsimipModel
import IbicusModel.Lemmas.IsimipFreq

namespace Lemmas.C01Isimip
open Model.Isimip Model.Stats Model.Family Model.IsimipFreq
open Lemmas.Stats Lemmas.IsimipModel Lemmas.C03 Lemmas.C01

/-- a tas-like configuration of ISIMIP: no bounds, no thresholds (the attrs defaults `∓inf`), parametric quantile
    mapping without event-likelihood adjustment, additive trend transfer -/
structure TasCfg (c : Cfg) : Prop where
  lb : c.lowerBound = .negInf
  lt : c.lowerThreshold = .negInf
  ub : c.upperBound = .posInf
  ut : c.upperThreshold = .posInf
  npqm : c.nonparametricQm = false
  ela : c.eventLikelihoodAdjustment = false
  trend : c.trendMethod = .additive

/-! ### list facts -/

/-- undoing the sort: `(sorted.map g)[argsort(argsort F)] = F.map g` -/
theorem takeIdx_map_sorted_rankOf (F : List Rat) (g : Rat → Rat) :
    takeIdx ((sortQ F).map g) (rankOf F) = F.map g := by
  unfold takeIdx
  apply List.ext_getElem
  · rw [List.length_map, rankOf_length, List.length_map]
  · intro i h1 h2
    have hi : i < F.length := by simpa using h2
    have hir : i < (rankOf F).length := by rw [rankOf_length]; exact hi
    have hr := rankOf_lt F i hi
    rw [List.getElem_map, List.getElem_map, ← getDN_eq _ i hir]
    have hlen : (rankOf F).getD i 0 < ((sortQ F).map g).length := by rw [List.length_map, sortQ_length]; exact hr
    rw [getD_eq _ _ hlen, List.getElem_map]
    congr 1
    have h3 := (argsort_spec F _ hr).2
    rw [argsort_rankOf F i hi] at h3
    rw [← getD_eq _ _ (by rw [sortQ_length]; exact hr), ← h3, getD_eq F i hi]

theorem zip_self_delta : ∀ (a q : List Rat), a.length = q.length →
    (a.zip (q.zip q)).map (fun t => t.1 + (t.2.2 - t.2.1)) = a
  | [], _, _ => by simp
  | x :: a, [], h => by simp at h
  | x :: a, y :: q, h => by
      have h' : a.length = q.length := by simpa using h
      simp only [List.zip_cons_cons, List.map_cons, zip_self_delta a q h']
      congr 1
      ring

/-! ### the family -/

/-- the fit of `IsiFamily.ofLocScale` without fixed arguments is the family's fit (non-empty sample, scale ≠ 0) -/
theorem ofLocScale_fit (Fam : LocScaleFam) (scaleAt : Rat → List Rat → Rat) (d : List Rat) (hd : d ≠ [])
    (hs : Fam.scale d ≠ 0) : (IsiFamily.ofLocScale Fam scaleAt).fit d none none = some (Fam.loc d, Fam.scale d) := by
  have hl : d.length ≠ 0 := fun h => hd (List.length_eq_zero_iff.mp h)
  simp only [IsiFamily.ofLocScale, hl, if_false, hs]

/-! ### step 5 and step 6 for the tas-like configuration -/

/-- **step 5, additive trend transfer, `cm_future = cm_hist`**: the pseudo-future observations are the observations
    (`obs + (iecdf_F(p) − iecdf_H(p)) = obs`) -/
theorem step5_tas_self (c : Cfg) (hc : TasCfg c) (o : Oracles) (obs H : List Rat) (hO : obs ≠ []) (hH : H ≠ []) :
    step5 c o obs H H = .ok obs := by
  rw [step5_unbounded c o obs H H hc.lt hc.ut hO hH hH]
  unfold step5TransferTrend
  have h1 : 0 < obs.length := List.length_pos_iff.mpr hO
  have h2 : 0 < H.length := List.length_pos_iff.mpr hH
  rw [if_neg (by simp only [Bool.or_eq_true, decide_eq_true_eq]; omega)]
  simp only [hc.trend]
  rw [zip_self_delta _ _ (by simp [iecdf, ecdf])]

/-- **step 6, tas-like configuration, parametric branch**: every value `v` of `cm_future` is mapped to
    `ppf_{obs_future}(threshold(cdf_{cm_future}(v)))`, in the original order.  Guards: at least two values in both samples,
    fitted scales `≠ 0`, Kolmogorov–Smirnov test off or passed (oracle). -/
theorem step6_tas (c : Cfg) (hc : TasCfg c) (Fam : LocScaleFam) (L : LocScaleLaws Fam) (scaleAt : Rat → List Rat → Rat)
    (o : Oracles) (hks : (c.ksTest && !o.ksGood) = false) (obs oF H F : List Rat)
    (hF : 2 ≤ F.length) (hOF : 2 ≤ oF.length) (hsF : Fam.scale F ≠ 0) (hsO : Fam.scale oF ≠ 0) :
    step6 c (IsiFamily.ofLocScale Fam scaleAt) o obs oF H F =
      .ok (F.map (fun v => Fam.ppf (Fam.fit oF) (thrCdf (Fam.cdf (Fam.fit F) v)))) := by
  have hFne : F ≠ [] := by intro h; rw [h] at hF; simp at hF
  have hOne : oF ≠ [] := by intro h; rw [h] at hOF; simp at hOF
  have hsF' : Fam.scale (sortQ F) ≠ 0 := by rw [L.scale_perm _ _ (sortQ_perm F)]; exact hsF
  have hsO' : Fam.scale (sortQ oF) ≠ 0 := by rw [L.scale_perm _ _ (sortQ_perm oF)]; exact hsO
  have hfitF : (Fam.loc (sortQ F), Fam.scale (sortQ F)) = Fam.fit F := Lemmas.Family.fit_perm L (sortQ_perm F)
  have hfitO : (Fam.loc (sortQ oF), Fam.scale (sortQ oF)) = Fam.fit oF := Lemmas.Family.fit_perm L (sortQ_perm oF)
  rw [step6_eq, step6Full_unbounded c _ o obs oF H F hc.lt hc.ut hFne hOne]
  rw [adjustBetween_parametric_unbounded c _ o (sortQ obs) (sortQ oF) (sortQ H) (sortQ F) hc.lt hc.ut hc.npqm
    (by rw [sortQ_length]; exact hF) (by rw [sortQ_length]; exact hOF) _ _
    (ofLocScale_fit Fam scaleAt (sortQ F) (Lemmas.Stats.sortQ_ne_nil hFne) hsF')
    (ofLocScale_fit Fam scaleAt (sortQ oF) (Lemmas.Stats.sortQ_ne_nil hOne) hsO') hks hc.ela]
  simp only [Except.map, hfitF, hfitO]
  congr 1
  exact takeIdx_map_sorted_rankOf F _

/-! ### step 3 / step 7 when no trend is removed -/

theorem getD_map_zero {α} (l : List α) (k : Nat) : (l.map (fun _ => (0 : Rat))).getD k 0 = 0 := by
  rw [List.getD_eq_getElem?_getD, List.getElem?_map]
  cases l[k]? <;> rfl

theorem dailyTrend_insignificant (c : Cfg) (x : List Rat) (years : List Int) :
    dailyTrend c false x years = List.zipWith (fun _ _ => (0 : Rat)) x years := by
  unfold dailyTrend annualTrend
  simp only [Bool.false_and, Bool.false_eq_true, if_false, List.map_map]
  congr 1
  funext _ y
  exact getD_map_zero _ _

theorem zipWith_zero_eq : ∀ (x : List Rat) (ys : List Int), x.length = ys.length →
    List.zipWith (fun _ _ => (0 : Rat)) x ys = x.map (fun _ => 0)
  | [], _, _ => by simp
  | a :: x, [], h => by simp at h
  | a :: x, b :: ys, h => by
      have h' : x.length = ys.length := by simpa using h
      simp [zipWith_zero_eq x ys h']

/-- the regression finds no significant trend (oracle `false`): nothing is removed -/
theorem step3RemoveTrend_insignificant (c : Cfg) (x : List Rat) (years : List Int) (h : x.length = years.length) :
    step3RemoveTrend c false x years = (x, x.map (fun _ => 0)) := by
  unfold step3RemoveTrend
  simp only [dailyTrend_insignificant, zipWith_zero_eq x years h]
  congr 1
  rw [List.zipWith_map_right, List.zipWith_self]
  exact map_eq_self x _ (fun a _ => by simp)

/-- no trend is removed in step 3: either `detrending = False`, or the significance test (an oracle of the model:
    `linregress(...).pvalue < 0.05`) finds no trend in any of the three series (year lists parallel to the values) -/
def NoTrendRemoved (c : Cfg) (o : Oracles) (obs H : List Rat) (yO yH : List Int) : Prop :=
  c.detrending = false ∨
    (o.sigO = false ∧ o.sigH = false ∧ o.sigF = false ∧ obs.length = yO.length ∧ H.length = yH.length)

theorem step3_noTrend (c : Cfg) (o : Oracles) (obs H : List Rat) (yO yH : List Int)
    (h : NoTrendRemoved c o obs H yO yH) :
    step3 c o obs H H yO yH yH = (obs, H, H, H.map (fun _ => 0)) := by
  rcases h with h | ⟨h1, h2, h3, h4, h5⟩
  · exact step3_of_not_detrending c o h obs H H yO yH yH
  · unfold step3
    split
    · rw [h1, h2, h3, step3RemoveTrend_insignificant c obs yO h4, step3RemoveTrend_insignificant c H yH h5]
    · rfl

theorem step7_zero (c : Cfg) (r H : List Rat) (h : r.length = H.length) : step7 c r (H.map (fun _ => 0)) = r := by
  unfold step7
  split
  · rw [List.zipWith_map_right]
    exact zipWith_left_of_length' r H h
  · rfl
where
  zipWith_left_of_length' : ∀ (r H : List Rat), r.length = H.length → List.zipWith (fun a _ => a + 0) r H = r
    | [], _, _ => by simp
    | a :: r, [], h => by simp at h
    | a :: r, b :: H, h => by
        have h' : r.length = H.length := by simpa using h
        have ih := zipWith_left_of_length' r H h'
        simp only [List.zipWith_cons_cons, add_zero] at ih ⊢
        rw [ih]

end Lemmas.C01Isimip
