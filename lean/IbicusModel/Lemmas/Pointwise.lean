/-
  The running-window skeleton for *pointwise* window functions (element-wise map of the future sample with a
  context computed from the three window samples): value characterisation.  Used by C06 and by the lifts of the
  per-window algebra (C02–C04) to whole series.
-/
import IbicusModel.Model.Skeleton
import IbicusModel.Lemmas.Windows
import IbicusModel.Lemmas.Skeleton
import IbicusModel.Props.C07
namespace Lemmas.Pointwise
open Model.Skeleton Model.Windows Lemmas.Windows Lemmas.Skeleton

/-- `x[idx]` when every index is valid -/
theorem take_cons_valid {α} (x : List α) (j : Nat) (t : List Nat) (hj : j < x.length) :
    take x (j :: t) = x[j] :: take x t := by
  unfold take
  simp [List.filterMap_cons, List.getElem?_eq_getElem hj]

theorem take_length {α} (x : List α) (idx : List Nat) (h : ∀ j ∈ idx, j < x.length) :
    (take x idx).length = idx.length := by
  induction idx with
  | nil => rfl
  | cons j t ih =>
    rw [take_cons_valid x j t (h j List.mem_cons_self)]
    simp [ih (fun k hk => h k (List.mem_cons_of_mem _ hk))]

/-- boolean-mask selection commutes with fancy indexing and with an element-wise map -/
theorem selectWhere_take_map {α β} (x : List α) (idx : List Nat) (g : α → β) (P : Nat → Bool)
    (h : ∀ j ∈ idx, j < x.length) :
    Py.selectWhere ((take x idx).map g) (idx.map P) = (take x (idx.filter P)).map g := by
  induction idx with
  | nil => rfl
  | cons j t ih =>
    have hj := h j List.mem_cons_self
    have ht := fun k hk => h k (List.mem_cons_of_mem _ hk)
    rw [take_cons_valid x j t hj]
    simp only [List.map_cons, Py.selectWhere, List.zip_cons_cons, List.filterMap_cons, List.filter_cons] at *
    by_cases hp : P j = true
    · simp only [hp, if_true]
      rw [take_cons_valid x j _ hj]
      simp only [List.map_cons]
      rw [ih ht]
    · have hp' : P j = false := by simpa using hp
      simp only [hp', Bool.false_eq_true, if_false]
      exact ih ht

/-- the writes `zip idx (map g (x[idx]))`: each pair carries `g` of the value at its own index -/
theorem mem_zip_take_map {α β} (x : List α) (idx : List Nat) (g : α → β)
    (h : ∀ j ∈ idx, j < x.length) (p : Nat × β) (hp : p ∈ idx.zip ((take x idx).map g)) :
    ∃ hj : p.1 < x.length, p.2 = g x[p.1] := by
  induction idx with
  | nil => simp at hp
  | cons j t ih =>
    have hj := h j List.mem_cons_self
    have ht := fun k hk => h k (List.mem_cons_of_mem _ hk)
    rw [take_cons_valid x j t hj] at hp
    simp only [List.map_cons, List.zip_cons_cons, List.mem_cons] at hp
    rcases hp with rfl | hp
    · exact ⟨hj, rfl⟩
    · exact ih ht hp

/-- filtering the window indices by membership in the adjust indices gives the adjust indices -/
theorem filter_window_adjust (L S : Int) (doy : List Int) (c : Int)
    (hsub : ∀ i, i ∈ idxAdjust S doy c → i ∈ idxWindow L doy c) :
    (idxWindow L doy c).filter (fun j => (idxAdjust S doy c).contains j) = idxAdjust S doy c := by
  unfold idxWindow idxAdjust indicesIn Py.whereTrue at *
  simp only [Py.isin, List.length_map] at *
  rw [List.filter_filter]
  apply List.filter_congr
  intro j hj
  rw [List.mem_range] at hj
  by_cases hb : ((List.map (fun x => (adjustRange S c).contains x) doy).getD j false) = true
  · have hmem : j ∈ List.filter (fun i => (List.map (fun x => (adjustRange S c).contains x) doy).getD i false) (List.range doy.length) :=
      List.mem_filter.mpr ⟨List.mem_range.mpr hj, hb⟩
    have hw := (List.mem_filter.mp (hsub j hmem)).2
    simp only [hb, hw, Bool.and_true]
    exact List.contains_iff_mem.mpr hmem
  · have hb' : ((List.map (fun x => (adjustRange S c).contains x) doy).getD j false) = false := by simpa using hb
    rw [hb']
    have : (List.filter (fun i => (List.map (fun x => (adjustRange S c).contains x) doy).getD i false) (List.range doy.length)).contains j = false := by
      rw [Bool.eq_false_iff]
      intro hc
      have := (List.mem_filter.mp (List.contains_iff_mem.mp hc)).2
      rw [hb'] at this; exact absurd this (by simp)
    rw [this, Bool.false_and]


/-- a window function that is an element-wise map of the future sample with a context computed from the three samples -/
def PointwiseOn {α} (f : WinFn α) (G : List α → List α → List α → α → α) : Prop :=
  ∀ o h x io ih ix, f o h x io ih ix = .ok (x.map (G o h x))

theorem idxWindow_valid (L : Int) (doy : List Int) (c : Int) (j : Nat) (hj : j ∈ idxWindow L doy c) :
    j < doy.length := by
  unfold idxWindow at hj
  exact ((mem_indicesIn _ _ _).mp hj).1

theorem idxAdjust_valid (S : Int) (doy : List Int) (c : Int) (j : Nat) (hj : j ∈ idxAdjust S doy c) :
    j < doy.length := by
  unfold idxAdjust at hj
  exact ((mem_indicesIn _ _ _).mp hj).1

theorem windowWrites_pointwise {α} (f : WinFn α) (G : List α → List α → List α → α → α)
    (hf : PointwiseOn f G) (L S : Int) (dO dH dF : List Int) (obs hist fut : List α) (c : Int)
    (hlen : dF.length = fut.length)
    (hsub : ∀ i, i ∈ idxAdjust S dF c → i ∈ idxWindow L dF c) :
    windowWrites f L S dO dH dF obs hist fut c =
      .ok ((idxAdjust S dF c).zip ((take fut (idxAdjust S dF c)).map
        (G (take obs (idxWindow L dO c)) (take hist (idxWindow L dH c)) (take fut (idxWindow L dF c))))) := by
  unfold windowWrites
  simp only [hf _ _ _ _ _ _, bind, Except.bind]
  have hv : ∀ j ∈ idxWindow L dF c, j < fut.length := fun j hj => hlen ▸ idxWindow_valid L dF c j hj
  have hva : ∀ j ∈ idxAdjust S dF c, j < fut.length := fun j hj => hlen ▸ idxAdjust_valid S dF c j hj
  unfold maskSelect
  rw [if_pos (by simp [take_length fut _ hv])]
  simp only []
  rw [selectWhere_take_map fut _ _ _ hv, filter_window_adjust L S dF c hsub]
  unfold pairsFor
  rw [if_pos (by simp [take_length fut _ hva])]


theorem mapE_ok_of_forall {β γ ε} (f : β → Except ε γ) (g : β → γ) (l : List β)
    (h : ∀ b ∈ l, f b = .ok (g b)) : mapE f l = .ok (l.map g) := by
  induction l with
  | nil => rfl
  | cons b t ih =>
    unfold mapE
    rw [h b List.mem_cons_self, ih (fun x hx => h x (List.mem_cons_of_mem _ hx))]
    rfl

/-- **Value of the running-window skeleton for a pointwise window function**: the run succeeds and the value at
    step `i` is the context map of the (unique) centre adjusting `i`, applied to the future value at `i`. -/
theorem applyLocationRW_value {α} (f : WinFn α) (G : List α → List α → List α → α → α)
    (hf : PointwiseOn f G) (L S h : Int) (dO dH dF : List Int) (obs hist fut : List α)
    (hS : S = 2 * h + 1) (hh : 0 ≤ h) (hSL : S ≤ L) (hlen : dF.length = fut.length)
    (hr : ∀ d ∈ dF, 1 ≤ d ∧ d ≤ 366) :
    ∃ out, applyLocationRW f L S dO dH dF obs hist fut = .ok out ∧ out.length = fut.length ∧
      ∀ i (hi : i < fut.length) c, c ∈ useCenters S dF → i ∈ idxAdjust S dF c →
        out[i]? = some (some (G (take obs (idxWindow L dO c)) (take hist (idxWindow L dH c))
          (take fut (idxWindow L dF c)) fut[i])) := by
  have hSpos : 0 < S := by omega
  have hsub : ∀ c i, i ∈ idxAdjust S dF c → i ∈ idxWindow L dF c :=
    fun c i hi => Props.C07.doy_adjust_subset_window L S dF c i hSL hSpos hr hi
  let W : Int → List (Nat × α) := fun c =>
    (idxAdjust S dF c).zip ((take fut (idxAdjust S dF c)).map
      (G (take obs (idxWindow L dO c)) (take hist (idxWindow L dH c)) (take fut (idxWindow L dF c))))
  have hW : ∀ c ∈ useCenters S dF, windowWrites f L S dO dH dF obs hist fut c = .ok (W c) :=
    fun c _ => windowWrites_pointwise f G hf L S dO dH dF obs hist fut c hlen (hsub c)
  have hrun : applyLocationRW f L S dO dH dF obs hist fut =
      .ok (applyWrites (List.replicate fut.length none) ((useCenters S dF).map W).flatten) := by
    unfold applyLocationRW runLoop
    rw [mapE_ok_of_forall _ W _ hW]
    rfl
  refine ⟨_, hrun, by rw [applyWrites_length]; simp, ?_⟩
  intro i hi c hc hic
  have hva : ∀ c, ∀ j ∈ idxAdjust S dF c, j < fut.length := fun c j hj => hlen ▸ idxAdjust_valid S dF c j hj
  have hkeys : ∀ c, (W c).map Prod.fst = idxAdjust S dF c := by
    intro c
    exact List.map_fst_zip (by simp [take_length fut _ (hva c)])
  obtain ⟨c0, hc0⟩ := Props.C07.use_cover_unique S h dF i hS hh (by omega) (fun d hd => by have := hr d hd; omega)
  have huniq : ∀ c', c' ∈ useCenters S dF → i ∈ idxAdjust S dF c' → c' = c0 := by
    intro c' h1 h2
    have : c' ∈ (useCenters S dF).filter (fun c => (idxAdjust S dF c).contains i) :=
      List.mem_filter.mpr ⟨h1, List.contains_iff_mem.mpr h2⟩
    rw [hc0] at this
    exact List.mem_singleton.mp this
  have hcc : c = c0 := huniq c hc hic
  -- every write with key i carries the value of centre c
  have hval : ∀ p ∈ ((useCenters S dF).map W).flatten.filter (fun p => p.1 == i),
      p.2 = G (take obs (idxWindow L dO c)) (take hist (idxWindow L dH c)) (take fut (idxWindow L dF c)) fut[i] := by
    intro p hp
    obtain ⟨hpf, hpi⟩ := List.mem_filter.mp hp
    have hpi' : p.1 = i := by simpa using hpi
    obtain ⟨ws, hws, hpws⟩ := List.mem_flatten.mp hpf
    obtain ⟨c', hc', rfl⟩ := List.mem_map.mp hws
    have hk : i ∈ idxAdjust S dF c' := by
      rw [← hkeys c', ← hpi']; exact List.mem_map.mpr ⟨p, hpws, rfl⟩
    have : c' = c := by rw [hcc]; exact huniq c' hc' hk
    subst this
    obtain ⟨hj, hv⟩ := mem_zip_take_map fut _ _ (hva c') p hpws
    rw [hv]
    congr 1
    simp [hpi']
  have hne : ((useCenters S dF).map W).flatten.filter (fun p => p.1 == i) ≠ [] := by
    have : i ∈ (W c).map Prod.fst := by rw [hkeys c]; exact hic
    obtain ⟨p, hp, hpi⟩ := List.mem_map.mp this
    apply List.ne_nil_of_mem (a := p)
    exact List.mem_filter.mpr ⟨List.mem_flatten.mpr ⟨W c, List.mem_map.mpr ⟨c, hc, rfl⟩, hp⟩, by simp [hpi]⟩
  rw [applyWrites_get_filter, applyWrites_all_key _ _ i (by simpa using hi)
    (fun q hq => by simpa using (List.mem_filter.mp hq).2) hne, hval _ (List.getLast_mem hne)]

end Lemmas.Pointwise
