/-
  C10 helpers, part 5 (rsds): the annual cycle of upper bounds of step 1 is non-negative for non-negative data, and
  step 8 multiplies by it.
-/
import IbicusModel.Lemmas.C10Isimip
import IbicusModel.Lemmas.C10Lift
import Mathlib.Algebra.Order.BigOperators.Group.List

namespace Lemmas.C10
open Model.Isimip Model.Stats Model.IsimipFreq Lemmas.Stats

theorem mapM_except_forall {α β} (f : α → Except String β) (P : β → Prop) :
    ∀ (l : List α) (out : List β), (∀ a ∈ l, ∀ b, f a = .ok b → P b) → l.mapM f = .ok out → ∀ b ∈ out, P b
  | [], out, _, h => by
    simp only [List.mapM_nil, pure, Except.pure] at h
    injection h with h; subst h; intro b hb; simp at hb
  | a :: l, out, hf, h => by
    rw [List.mapM_cons] at h
    simp only [bind, Except.bind, pure, Except.pure] at h
    cases ha : f a with
    | error e => rw [ha] at h; exact absurd h (by simp)
    | ok b0 =>
      rw [ha] at h
      dsimp only at h
      cases hl : l.mapM f with
      | error e => rw [hl] at h; exact absurd h (by simp)
      | ok bs =>
        rw [hl] at h
        dsimp only at h
        injection h with h; subst h
        intro b hb
        rcases List.mem_cons.mp hb with rfl | hb
        · exact hf a List.mem_cons_self _ ha
        · exact mapM_except_forall f P l bs (fun x hx => hf x (List.mem_cons_of_mem _ hx)) hl b hb

/-- `lookupDay` returns an entry of the array -/
theorem lookupDay_mem (arr : List Rat) (days : List Int) (d : Int) (v : Rat) (h : lookupDay arr days d = .ok v) :
    v ∈ arr := by
  unfold lookupDay at h
  split at h
  · split at h
    · rename_i w hw
      split at h
      · injection h with h; subst h; exact List.mem_of_getElem? hw
      · exact absurd h (by simp)
    · exact absurd h (by simp)
  · split at h
    · rename_i w hw
      split at h
      · injection h with h; subst h; exact List.mem_of_getElem? hw
      · exact absurd h (by simp)
    · exact absurd h (by simp)

/-- step 8 multiplies every value by an entry of the (debiased) annual cycle -/
theorem step8_nonneg (c : Cfg) (F cyc out : List Rat) (doyF : List Int) (hF : ∀ v ∈ F, 0 ≤ v)
    (hc : ∀ s ∈ cyc, 0 ≤ s) (h : step8 c F (some cyc) doyF = .ok out) : ∀ e ∈ out, 0 ≤ e := by
  unfold step8 at h
  split at h
  · dsimp only at h
    refine mapM_except_forall _ (fun e => 0 ≤ e) _ out ?_ h
    intro p hp b hb
    cases hl : lookupDay cyc (uniqueYears doyF) p.2 with
    | error e => rw [hl] at hb; exact absurd hb (by simp [Except.map])
    | ok s =>
      rw [hl] at hb
      simp only [Except.map] at hb
      injection hb with hb
      rw [← hb]
      exact mul_nonneg (hF _ (List.of_mem_zip hp).1) (hc s (lookupDay_mem _ _ _ _ hl))
  · injection h with h; subst h; exact hF

/-- … on a result buffer -/
theorem step8Buffer_nonneg (c : Cfg) (buf out : List (Option Rat)) (cyc : List Rat) (doyF : List Int)
    (hF : ∀ v, some v ∈ buf → 0 ≤ v) (hc : ∀ s ∈ cyc, 0 ≤ s)
    (h : step8Buffer c buf (some cyc) doyF = .ok out) : ∀ e, some e ∈ out → 0 ≤ e := by
  unfold step8Buffer at h
  split at h
  · dsimp only at h
    have := mapM_except_forall _ (fun (e : Option Rat) => ∀ w, e = some w → 0 ≤ w) _ out ?_ h
    · intro e he; exact this (some e) he e rfl
    · intro p hp b hb w hw
      cases hp1 : p.1 with
      | none => rw [hp1] at hb; simp only at hb; injection hb with hb; rw [← hb] at hw; exact absurd hw (by simp)
      | some v =>
        rw [hp1] at hb
        simp only at hb
        cases hl : lookupDay cyc (uniqueYears doyF) p.2 with
        | error e => rw [hl] at hb; exact absurd hb (by simp [Except.map])
        | ok s =>
          rw [hl] at hb
          simp only [Except.map] at hb
          injection hb with hb
          rw [← hb] at hw
          injection hw with hw
          rw [← hw]
          refine mul_nonneg (hF v ?_) (hc s (lookupDay_mem _ _ _ _ hl))
          rw [← hp1]; exact (List.of_mem_zip hp).1
  · injection h with h; subst h; exact hF

/-! ### the annual cycle of non-negative data is non-negative -/

theorem maxQ_nonneg {l : List Rat} (h : ∀ v ∈ l, 0 ≤ v) : 0 ≤ maxQ l := by
  by_cases hl : l = []
  · subst hl; exact le_refl _
  · exact h _ (maxQ_mem hl)

theorem getD_nonneg {l : List Rat} (h : ∀ v ∈ l, 0 ≤ v) (i : Nat) : 0 ≤ l.getD i 0 := by
  by_cases hi : i < l.length
  · exact h _ (getD_mem l i hi)
  · simp [List.getD_eq_getElem?_getD, List.getElem?_eq_none (not_lt.mp hi)]

theorem mem_rotateLeft {α} {l : List α} {n : Nat} {x : α} (h : x ∈ l.rotateLeft n) : x ∈ l := by
  unfold List.rotateLeft at h
  dsimp only at h
  split at h
  · exact h
  · simp only [List.mem_append] at h
    rcases h with h | h
    · exact List.mem_of_mem_drop h
    · exact List.mem_of_mem_take h

theorem wrapWindow_mem {a : List Rat} {start : Int} {size : Nat} {w : Rat} (h : w ∈ wrapWindow a start size) : w ∈ a := by
  unfold wrapWindow at h
  have h1 := List.mem_of_mem_take h
  rw [List.mem_flatten] at h1
  obtain ⟨l, hl, hw⟩ := h1
  rw [(List.mem_replicate.mp hl).2] at hw
  exact mem_rotateLeft hw

theorem maximumFilterWrap_nonneg (size : Nat) {a : List Rat} (h : ∀ v ∈ a, 0 ≤ v) :
    ∀ v ∈ maximumFilterWrap size a, 0 ≤ v := by
  intro v hv
  simp only [maximumFilterWrap, List.mem_map] at hv
  obtain ⟨i, -, rfl⟩ := hv
  apply maxQ_nonneg
  intro w hw
  exact h w (wrapWindow_mem hw)

theorem uniformFilterWrap_nonneg (size : Nat) {a : List Rat} (h : ∀ v ∈ a, 0 ≤ v) :
    ∀ v ∈ uniformFilterWrap size a, 0 ≤ v := by
  intro v hv
  simp only [uniformFilterWrap, List.mem_map] at hv
  obtain ⟨i, -, rfl⟩ := hv
  refine div_nonneg (List.sum_nonneg ?_) (by positivity)
  intro w hw
  exact h w (wrapWindow_mem hw)

theorem annualCycle_nonneg (c : Cfg) (vals : List Rat) (doy : List Int) (h : ∀ v ∈ vals, 0 ≤ v) :
    ∀ v ∈ (annualCycle c vals doy).1, 0 ≤ v := by
  unfold annualCycle
  apply uniformFilterWrap_nonneg
  apply maximumFilterWrap_nonneg
  intro v hv
  rw [List.mem_map] at hv
  obtain ⟨d, -, rfl⟩ := hv
  exact maxQ_nonneg (fun w hw => h w (selectWhere_mem _ _ hw))

theorem debiasedCycle_nonneg (cO cH cF : List Rat) (dO dH dF : List Int) (hO : ∀ v ∈ cO, 0 ≤ v)
    (hH : ∀ v ∈ cH, 0 ≤ v) (hF : ∀ v ∈ cF, 0 ≤ v) : ∀ v ∈ debiasedCycle cO dO cH dH cF dF, 0 ≤ v := by
  intro v hv
  unfold debiasedCycle at hv
  split at hv
  · rw [List.mem_iff_getElem] at hv
    obtain ⟨i, hi, rfl⟩ := hv
    rw [List.getElem_zipWith]
    refine mul_nonneg (hO _ (List.getElem_mem _)) ?_
    exact le_trans (by norm_num) (le_max_left _ _)
  · rw [List.mem_map] at hv
    obtain ⟨p, hp, rfl⟩ := hv
    have hp1 : 0 ≤ p.1 := hF _ (List.of_mem_zip hp).1
    have hvO : 0 ≤ cO.getD (dO.idxOf p.2) 0 := getD_nonneg hO _
    have hvH : 0 ≤ cH.getD (dH.idxOf p.2) 0 := getD_nonneg hH _
    dsimp only
    split_ifs
    · exact div_nonneg (mul_nonneg hvO hp1) hvH
    · exact hvO
    · exact hp1

/-- the debiased annual cycle `step1` hands to `step8` is non-negative for non-negative data -/
theorem step1_cycle_nonneg (c : Cfg) (obs H F o1 h1 f1 cyc : List Rat) (dO dH dF : List Int)
    (hO : ∀ v ∈ obs, 0 ≤ v) (hH : ∀ v ∈ H, 0 ≤ v) (hF : ∀ v ∈ F, 0 ≤ v)
    (h : step1 c obs H F dO dH dF = .ok (o1, h1, f1, some cyc)) : ∀ s ∈ cyc, 0 ≤ s := by
  have hcO := annualCycle_nonneg c obs dO hO
  have hcH := annualCycle_nonneg c H dH hH
  have hcF := annualCycle_nonneg c F dF hF
  unfold step1 at h
  split at h
  · generalize annualCycle c obs dO = aO at h hcO
    generalize annualCycle c H dH = aH at h hcH
    generalize annualCycle c F dF = aF at h hcF
    obtain ⟨cO, dO'⟩ := aO
    obtain ⟨cH, dH'⟩ := aH
    obtain ⟨cF, dF'⟩ := aF
    simp only [bind, Except.bind] at h
    cases hs1 : scaleByCycle obs dO cO dO' with
    | error e => rw [hs1] at h; exact absurd h (by simp)
    | ok r1 =>
      rw [hs1] at h
      dsimp only at h
      cases hs2 : scaleByCycle H dH cH dH' with
      | error e => rw [hs2] at h; exact absurd h (by simp)
      | ok r2 =>
        rw [hs2] at h
        dsimp only at h
        cases hs3 : scaleByCycle F dF cF dF' with
        | error e => rw [hs3] at h; exact absurd h (by simp)
        | ok r3 =>
          rw [hs3] at h
          simp only [pure, Except.pure, Except.ok.injEq, Prod.mk.injEq, Option.some.injEq] at h
          rw [← h.2.2.2]
          exact debiasedCycle_nonneg _ _ _ _ _ _ hcO hcH hcF
  · simp only [pure, Except.pure, Except.ok.injEq, Prod.mk.injEq] at h
    exact absurd h.2.2.2 (by simp)

end Lemmas.C10
