/-
  C06 helper lemmas, part 6: ISIMIP's month mode (`running_window_mode = False`): the loop over the twelve calendar
  months, `out[months == m] = f(obs[months_obs == m], cm_hist[months_cm_hist == m], cm_future[months_cm_future == m])`.
  Value characterisation for pointwise window functions and time-order equivariance.
-/
import IbicusModel.Props.C06
import IbicusModel.Lemmas.C06Except
import IbicusModel.Lemmas.C06Rank

namespace Lemmas.C06
open Model.Skeleton Model.Windows Lemmas.Windows Lemmas.Skeleton Lemmas.Pointwise Lemmas.Perm Lemmas.Lift

/-- the month mask is the window mask with the one-element range `[m]` -/
theorem monthIdx_eq (ms : List Int) (m : Int) :
    Py.whereTrue (ms.map (fun x => decide (x = m))) = indicesIn ms [m] := by
  unfold indicesIn Py.isin
  congr 1
  apply List.map_congr_left
  intro x _
  simp

theorem monthWrites_pointwise {α} (f : WinFn α) (G : List α → List α → List α → α → α) (hf : PointwiseOn f G)
    (mO mH mF : List Int) (obs hist fut : List α) (m : Int) (hlen : mF.length = fut.length) :
    monthWrites f mO mH mF obs hist fut m =
      .ok ((indicesIn mF [m]).zip ((take fut (indicesIn mF [m])).map
        (G (take obs (indicesIn mO [m])) (take hist (indicesIn mH [m])) (take fut (indicesIn mF [m]))))) := by
  unfold monthWrites
  simp only [monthIdx_eq, hf _ _ _ _ _ _, bind, Except.bind]
  have hv : ∀ j ∈ indicesIn mF [m], j < fut.length := fun j hj => hlen ▸ Lemmas.Years.indicesIn_valid _ _ j hj
  unfold pairsFor
  rw [if_pos (by simp [take_length fut _ hv])]

/-- **value of the month loop for a pointwise window function** -/
theorem applyLocationMonths_value {α} (f : WinFn α) (G : List α → List α → List α → α → α) (hf : PointwiseOn f G)
    (mO mH mF : List Int) (obs hist fut : List α) (hlen : mF.length = fut.length)
    (hr : ∀ m ∈ mF, 1 ≤ m ∧ m ≤ 12) :
    ∃ out, applyLocationMonths f mO mH mF obs hist fut = .ok out ∧ out.length = fut.length ∧
      ∀ i (hi : i < fut.length) (hi' : i < mF.length),
        out[i]? = some (some (G (take obs (indicesIn mO [mF[i]])) (take hist (indicesIn mH [mF[i]]))
          (take fut (indicesIn mF [mF[i]])) fut[i])) := by
  let W : Int → List (Nat × α) := fun m =>
    (indicesIn mF [m]).zip ((take fut (indicesIn mF [m])).map
      (G (take obs (indicesIn mO [m])) (take hist (indicesIn mH [m])) (take fut (indicesIn mF [m]))))
  have hrun : applyLocationMonths f mO mH mF obs hist fut =
      .ok (applyWrites (List.replicate fut.length none) ((Py.arange1 1 13).map W).flatten) := by
    unfold applyLocationMonths runLoop
    rw [mapE_ok_of_forall _ W _ (fun m _ => monthWrites_pointwise f G hf mO mH mF obs hist fut m hlen)]
    rfl
  refine ⟨_, hrun, by rw [applyWrites_length]; simp, ?_⟩
  intro i hi hi'
  have hva : ∀ m, ∀ j ∈ indicesIn mF [m], j < fut.length := fun m j hj => hlen ▸ Lemmas.Years.indicesIn_valid _ _ j hj
  have hkeys : ∀ m, (W m).map Prod.fst = indicesIn mF [m] := fun m =>
    List.map_fst_zip (by simp [take_length fut _ (hva m)])
  have hkey_iff : ∀ m, i ∈ indicesIn mF [m] ↔ mF[i] = m := by
    intro m
    rw [mem_indicesIn]
    constructor
    · rintro ⟨_, hm⟩; simpa using hm
    · intro hm; exact ⟨hi', by simp [hm]⟩
  have hb := hr _ (List.getElem_mem hi')
  have hmem : mF[i] ∈ Py.arange1 1 13 := (mem_arange1 _ _ _).mpr (by omega)
  have hval : ∀ p ∈ ((Py.arange1 1 13).map W).flatten.filter (fun p => p.1 == i),
      p.2 = G (take obs (indicesIn mO [mF[i]])) (take hist (indicesIn mH [mF[i]])) (take fut (indicesIn mF [mF[i]])) fut[i] := by
    intro p hp
    obtain ⟨hpf, hpi⟩ := List.mem_filter.mp hp
    have hpi' : p.1 = i := by simpa using hpi
    obtain ⟨ws, hws, hpws⟩ := List.mem_flatten.mp hpf
    obtain ⟨m, _, rfl⟩ := List.mem_map.mp hws
    have hk : i ∈ indicesIn mF [m] := by
      rw [← hkeys m, ← hpi']; exact List.mem_map.mpr ⟨p, hpws, rfl⟩
    have hm : mF[i] = m := (hkey_iff m).mp hk
    subst hm
    obtain ⟨hj, hv⟩ := mem_zip_take_map fut _ _ (hva _) p hpws
    rw [hv]
    congr 1
    simp [hpi']
  have hne : ((Py.arange1 1 13).map W).flatten.filter (fun p => p.1 == i) ≠ [] := by
    have : i ∈ (W mF[i]).map Prod.fst := by rw [hkeys]; exact (hkey_iff _).mpr rfl
    obtain ⟨p, hp, hpi⟩ := List.mem_map.mp this
    apply List.ne_nil_of_mem (a := p)
    exact List.mem_filter.mpr ⟨List.mem_flatten.mpr ⟨W mF[i], List.mem_map.mpr ⟨mF[i], hmem, rfl⟩, hp⟩, by simp [hpi]⟩
  rw [applyWrites_get_filter, applyWrites_all_key _ _ i (by simpa using hi)
    (fun q hq => by simpa using (List.mem_filter.mp hq).2) hne, hval _ (List.getLast_mem hne)]

/-- **Time-order equivariance of the month loop**: permuting each of the three series together with its months
    permutes the result like `cm_future`. -/
theorem equivariance_months {α} (f : WinFn α) (G : List α → List α → List α → α → α)
    (hf : PointwiseOn f G) (hG : Props.C06.OrderFree G) (mO mH mF : List Int) (obs hist fut : List α)
    (pO pH pF : List Nat)
    (hpO : pO.Perm (List.range obs.length)) (hpH : pH.Perm (List.range hist.length))
    (hpF : pF.Perm (List.range fut.length))
    (hlO : mO.length = obs.length) (hlH : mH.length = hist.length) (hlF : mF.length = fut.length)
    (hr : ∀ m ∈ mF, 1 ≤ m ∧ m ≤ 12) :
    ∃ out, applyLocationMonths f mO mH mF obs hist fut = .ok out ∧
      applyLocationMonths f (take mO pO) (take mH pH) (take mF pF) (take obs pO) (take hist pH) (take fut pF)
        = .ok (take out pF) := by
  obtain ⟨out, hrun, hl, hval⟩ := applyLocationMonths_value f G hf mO mH mF obs hist fut hlF hr
  have hvF := perm_valid pF hpF
  have hvFd : ∀ j ∈ pF, j < mF.length := fun j hj => hlF ▸ hvF j hj
  have hpFd : pF.Perm (List.range mF.length) := hlF ▸ hpF
  have hlen' : (take mF pF).length = (take fut pF).length := by
    rw [take_length mF pF hvFd, take_length fut pF hvF]
  have hr' : ∀ m ∈ take mF pF, 1 ≤ m ∧ m ≤ 12 := fun m hm => hr m ((take_perm mF pF hpFd).mem_iff.mp hm)
  obtain ⟨out', hrun', hl', hval'⟩ := applyLocationMonths_value f G hf (take mO pO) (take mH pH) (take mF pF)
    (take obs pO) (take hist pH) (take fut pF) hlen' hr'
  refine ⟨out, hrun, ?_⟩
  rw [hrun']
  congr 1
  apply List.ext_getElem?
  intro k
  have hvO : ∀ j ∈ pF, j < out.length := fun j hj => hl ▸ hvF j hj
  rw [take_getElem? out pF hvO k]
  by_cases hk : k < pF.length
  · have hkf : k < (take fut pF).length := by rw [take_length fut pF hvF]; exact hk
    have hkm : k < (take mF pF).length := by rw [take_length mF pF hvFd]; exact hk
    have hj : pF[k] < fut.length := hvF _ (List.getElem_mem hk)
    have hjm : pF[k] < mF.length := hvFd _ (List.getElem_mem hk)
    rw [hval' k hkf hkm, List.getElem?_eq_getElem hk, Option.bind_some, hval pF[k] hj hjm]
    rw [Props.C06.getElem_take mF pF hvFd k hk hkm, Props.C06.getElem_take fut pF hvF k hk hkf]
    rw [hG _ _ _ _ _ _
      (window_sample_perm obs mO [mF[pF[k]]] pO hlO.symm hpO)
      (window_sample_perm hist mH [mF[pF[k]]] pH hlH.symm hpH)
      (window_sample_perm fut mF [mF[pF[k]]] pF hlF.symm hpF)]
  · have : out'.length = pF.length := by rw [hl', take_length fut pF hvF]
    rw [List.getElem?_eq_none (by omega), List.getElem?_eq_none (by omega)]
    rfl

/-! ### window functions that may raise, tie-free guard -/

theorem monthWrites_E {α C} (f : WinFn α) (E : List α → List α → List α → Except String C) (G : C → List α → α → α)
    (hf : PointwiseOnE f E G) (mO mH mF : List Int) (obs hist fut : List α) (m : Int) :
    (∃ e, E (take obs (indicesIn mO [m])) (take hist (indicesIn mH [m])) (take fut (indicesIn mF [m])) = .error e ∧
      monthWrites f mO mH mF obs hist fut m = .error e) ∨
    (∃ c, E (take obs (indicesIn mO [m])) (take hist (indicesIn mH [m])) (take fut (indicesIn mF [m])) = .ok c ∧
      monthWrites f mO mH mF obs hist fut m = monthWrites (totalFn E G) mO mH mF obs hist fut m) := by
  cases hE : E (take obs (indicesIn mO [m])) (take hist (indicesIn mH [m])) (take fut (indicesIn mF [m])) with
  | error e =>
    left
    refine ⟨e, rfl, ?_⟩
    unfold monthWrites
    simp only [monthIdx_eq, hf _ _ _ _ _ _, hE, Except.map, bind, Except.bind]
  | ok c =>
    right
    refine ⟨c, rfl, ?_⟩
    unfold monthWrites
    have hg : totalG E G (take obs (indicesIn mO [m])) (take hist (indicesIn mH [m])) (take fut (indicesIn mF [m])) =
        G c (take fut (indicesIn mF [m])) := by
      funext a; unfold totalG; rw [hE]
    simp only [monthIdx_eq, hf _ _ _ _ _ _, hE, Except.map, totalFn, hg]

/-- **Time-order equivariance of the month loop for window functions that may raise** -/
theorem equivariance_months_E {α C} (f : WinFn α) (E : List α → List α → List α → Except String C)
    (G : C → List α → α → α) (hf : PointwiseOnE f E G) (hE : OrderFreeE E G)
    (mO mH mF : List Int) (obs hist fut : List α) (pO pH pF : List Nat)
    (hpO : pO.Perm (List.range obs.length)) (hpH : pH.Perm (List.range hist.length))
    (hpF : pF.Perm (List.range fut.length))
    (hlO : mO.length = obs.length) (hlH : mH.length = hist.length) (hlF : mF.length = fut.length)
    (hr : ∀ m ∈ mF, 1 ≤ m ∧ m ≤ 12) :
    (∃ out, applyLocationMonths f mO mH mF obs hist fut = .ok out ∧
      applyLocationMonths f (take mO pO) (take mH pH) (take mF pF) (take obs pO) (take hist pH) (take fut pF)
        = .ok (take out pF)) ∨
    (∃ e, applyLocationMonths f mO mH mF obs hist fut = .error e ∧
      applyLocationMonths f (take mO pO) (take mH pH) (take mF pF) (take obs pO) (take hist pH) (take fut pF)
        = .error e) := by
  have hvF := perm_valid pF hpF
  have hvFd : ∀ j ∈ pF, j < mF.length := fun j hj => hlF ▸ hvF j hj
  have hlen' : (take mF pF).length = (take fut pF).length := by
    rw [take_length mF pF hvFd, take_length fut pF hvF]
  have hflen : (take fut pF).length = fut.length := by
    rw [take_length fut pF hvF]; simpa using hpF.length_eq
  have hctx : ∀ m, E (take (take obs pO) (indicesIn (take mO pO) [m])) (take (take hist pH) (indicesIn (take mH pH) [m]))
      (take (take fut pF) (indicesIn (take mF pF) [m])) =
      E (take obs (indicesIn mO [m])) (take hist (indicesIn mH [m])) (take fut (indicesIn mF [m])) := fun m =>
    hE.1 _ _ _ _ _ _ (window_sample_perm obs mO _ pO hlO.symm hpO) (window_sample_perm hist mH _ pH hlH.symm hpH)
      (window_sample_perm fut mF _ pF hlF.symm hpF)
  by_cases hall : ∀ m ∈ Py.arange1 1 13, ∃ c,
      E (take obs (indicesIn mO [m])) (take hist (indicesIn mH [m])) (take fut (indicesIn mF [m])) = .ok c
  · left
    have e1 : applyLocationMonths f mO mH mF obs hist fut = applyLocationMonths (totalFn E G) mO mH mF obs hist fut := by
      unfold applyLocationMonths
      apply runLoop_congr
      intro m hm
      rcases monthWrites_E f E G hf mO mH mF obs hist fut m with ⟨e, he, _⟩ | ⟨c, _, hw⟩
      · obtain ⟨c, hc⟩ := hall m hm; rw [hc] at he; cases he
      · exact hw
    have e2 : applyLocationMonths f (take mO pO) (take mH pH) (take mF pF) (take obs pO) (take hist pH) (take fut pF) =
        applyLocationMonths (totalFn E G) (take mO pO) (take mH pH) (take mF pF) (take obs pO) (take hist pH) (take fut pF) := by
      unfold applyLocationMonths
      apply runLoop_congr
      intro m hm
      rcases monthWrites_E f E G hf (take mO pO) (take mH pH) (take mF pF) (take obs pO) (take hist pH) (take fut pF) m
        with ⟨e, he, _⟩ | ⟨c, _, hw⟩
      · obtain ⟨c, hc⟩ := hall m hm; rw [hctx m, hc] at he; cases he
      · exact hw
    rw [e1, e2]
    exact equivariance_months (totalFn E G) (totalG E G) (totalFn_pointwise E G) (totalG_orderFree E G hE)
      mO mH mF obs hist fut pO pH pF hpO hpH hpF hlO hlH hlF hr
  · right
    have hex : ∃ m ∈ Py.arange1 1 13, ∃ e, monthWrites f mO mH mF obs hist fut m = .error e := by
      by_contra hno
      apply hall
      intro m hm
      rcases monthWrites_E f E G hf mO mH mF obs hist fut m with ⟨e, _, hw⟩ | ⟨c, hc, _⟩
      · exact absurd ⟨m, hm, e, hw⟩ hno
      · exact ⟨c, hc⟩
    have hpair : ∀ m ∈ Py.arange1 1 13,
        (∃ e, monthWrites f mO mH mF obs hist fut m = .error e ∧
          monthWrites f (take mO pO) (take mH pH) (take mF pF) (take obs pO) (take hist pH) (take fut pF) m = .error e) ∨
        ((∃ a, monthWrites f mO mH mF obs hist fut m = .ok a) ∧
          (∃ b, monthWrites f (take mO pO) (take mH pH) (take mF pF) (take obs pO) (take hist pH) (take fut pF) m = .ok b)) := by
      intro m _
      rcases monthWrites_E f E G hf mO mH mF obs hist fut m with ⟨e, he, hw⟩ | ⟨c, hc, hw⟩
      · left
        rcases monthWrites_E f E G hf (take mO pO) (take mH pH) (take mF pF) (take obs pO) (take hist pH) (take fut pF) m
          with ⟨e', he', hw'⟩ | ⟨c', hc', _⟩
        · rw [hctx m, he] at he'
          cases he'
          exact ⟨e, hw, hw'⟩
        · rw [hctx m, he] at hc'; cases hc'
      · right
        rcases monthWrites_E f E G hf (take mO pO) (take mH pH) (take mF pF) (take obs pO) (take hist pH) (take fut pF) m
          with ⟨e', he', _⟩ | ⟨c', _, hw'⟩
        · rw [hctx m, hc] at he'; cases he'
        · exact ⟨⟨_, hw.trans (monthWrites_pointwise (totalFn E G) (totalG E G) (totalFn_pointwise E G) mO mH mF
              obs hist fut m hlF)⟩,
            ⟨_, hw'.trans (monthWrites_pointwise (totalFn E G) (totalG E G) (totalFn_pointwise E G) (take mO pO)
              (take mH pH) (take mF pF) (take obs pO) (take hist pH) (take fut pF) m hlen')⟩⟩
    obtain ⟨e, e1, e2⟩ := mapE_error_congr _ _ _ hpair hex
    refine ⟨e, ?_, ?_⟩
    · unfold applyLocationMonths runLoop
      rw [e1]; rfl
    · unfold applyLocationMonths runLoop
      rw [e2]; rfl

/-- the month loop evaluates the window function on month samples only -/
theorem applyLocationMonths_congr_nodup {α} (f f' : WinFn α)
    (hff : ∀ o h x io ih ix, x.Nodup → f o h x io ih ix = f' o h x io ih ix)
    (mO mH mF : List Int) (obs hist fut : List α) (hnd : fut.Nodup) :
    applyLocationMonths f mO mH mF obs hist fut = applyLocationMonths f' mO mH mF obs hist fut := by
  unfold applyLocationMonths
  apply runLoop_congr
  intro m _
  unfold monthWrites
  have hw : (take fut (Py.whereTrue (mF.map (fun x => decide (x = m))))).Nodup := by
    rw [monthIdx_eq]; exact take_nodup fut _ hnd (indicesIn_nodup mF _)
  simp only [hff _ _ _ _ _ _ hw]

theorem applyLocationMonths_congr_on {α} (f f' : WinFn α) (Pw : List α → Prop)
    (hff : ∀ o h x io ih ix, Pw x → f o h x io ih ix = f' o h x io ih ix)
    (mO mH mF : List Int) (obs hist fut : List α)
    (hP : ∀ m ∈ Py.arange1 1 13, Pw (take fut (indicesIn mF [m]))) :
    applyLocationMonths f mO mH mF obs hist fut = applyLocationMonths f' mO mH mF obs hist fut := by
  unfold applyLocationMonths
  apply runLoop_congr
  intro m hm
  unfold monthWrites
  have hw : Pw (take fut (Py.whereTrue (mF.map (fun x => decide (x = m))))) := by
    rw [monthIdx_eq]; exact hP m hm
  simp only [hff _ _ _ _ _ _ hw]

end Lemmas.C06
