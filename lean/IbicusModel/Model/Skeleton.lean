/-
  Layer S: the data-oblivious skeletons — window slicing and write-back of
  `RunningWindowDebiaser.apply_location`, `DeltaChange.apply_location`, `ISIMIP.apply_location`,
  the year-window loops of CDFt / QDM, and the grid map of `Debiaser.apply`.
  Polymorphic in the element type `α` and in the per-window function.  Result buffers are
  `List (Option α)`: `none` = "never written" (what `np.empty_like` leaves uninitialised).
-/
import IbicusModel.Model.Windows

namespace Model.Skeleton
open Model.Windows

/-- `x[idx]` (fancy indexing by an index list; indices out of range are an `IndexError`) -/
def take {α} (x : List α) (idx : List Nat) : List α := idx.filterMap (fun i => x[i]?)

/-- `x[mask]` with numpy's length check -/
def maskSelect {α} (x : List α) (m : List Bool) : Except String (List α) :=
  if x.length = m.length then .ok (Py.selectWhere x m) else .error "IndexError"

/-- the writes `out[idx] = vals` performs, as (index, value) pairs (numpy fancy-index assignment: equal
    lengths, or a length-1 value is broadcast; anything else is numpy's shape-mismatch `ValueError`) -/
def pairsFor {α} (idx : List Nat) (vals : List α) : Except String (List (Nat × α)) :=
  if vals.length = idx.length then .ok (idx.zip vals)
  else match vals with
    | [v] => .ok (idx.map (fun k => (k, v)))
    | _ => .error "ValueError"

/-- apply a sequence of writes to a result buffer, in order (a later write to the same index wins) -/
def applyWrites {α} (out : List (Option α)) (ws : List (Nat × α)) : List (Option α) :=
  ws.foldl (fun o p => o.set p.1 (some p.2)) out

/-- `List.mapM` for `Except`, written out (first error wins) -/
def mapE {β γ ε} (f : β → Except ε γ) : List β → Except ε (List γ)
  | [] => .ok []
  | b :: bs =>
    match f b with
    | .error e => .error e
    | .ok c =>
      match mapE f bs with
      | .error e => .error e
      | .ok cs => .ok (c :: cs)

/-- the common shape of every write-back loop: compute each iteration's writes, apply them in order to a
    fresh ("uninitialised" = all `none`) buffer of length `n` -/
def runLoop {α C} (writes : C → Except String (List (Nat × α))) (cs : List C) (n : Nat) :
    Except String (List (Option α)) := do
  let wss ← mapE writes cs
  pure (applyWrites (List.replicate n none) wss.flatten)

/-- a per-window function: the three window samples and the indices (into the full series) they were
    taken at (time information is a function of the index) -/
abbrev WinFn (α : Type) := List α → List α → List α → List Nat → List Nat → List Nat → Except String (List α)

/-- one iteration of the running-window loop of `RunningWindowDebiaser.apply_location`: the writes
    `debiased[indices_bias_corrected_values] = apply_on_window(...)[mask]` it performs.  The loop body reads only
    the inputs (never the result buffer), so the loop is "compute every iteration's writes, apply them in order". -/
def windowWrites {α} (f : WinFn α) (L S : Int) (doyO doyH doyF : List Int) (obs hist fut : List α)
    (c : Int) : Except String (List (Nat × α)) := do
  let iadj := idxAdjust S doyF c
  let iwO := idxWindow L doyO c
  let iwH := idxWindow L doyH c
  let iwF := idxWindow L doyF c
  let mask := iwF.map (fun j => iadj.contains j)
  let res ← f (take obs iwO) (take hist iwH) (take fut iwF) iwO iwH iwF
  let vals ← maskSelect res mask
  pairsFor iadj vals

/-- `RunningWindowDebiaser.apply_location` in running-window mode (also ISIMIP's running-window loop) -/
def applyLocationRW {α} (f : WinFn α) (L S : Int) (doyO doyH doyF : List Int) (obs hist fut : List α) :
    Except String (List (Option α)) :=
  runLoop (windowWrites f L S doyO doyH doyF obs hist fut) (useCenters S doyF) fut.length

/-- `DeltaChange.apply_location` in running-window mode: the loop runs over the days of `obs`, the
    result has the length of `obs`. -/
def windowWritesDC {α} (f : WinFn α) (L S : Int) (doyO doyH doyF : List Int) (obs hist fut : List α)
    (c : Int) : Except String (List (Nat × α)) := do
  let iadj := idxAdjust S doyO c
  let iwO := idxWindow L doyO c
  let iwH := idxWindow L doyH c
  let iwF := idxWindow L doyF c
  let mask := iwO.map (fun j => iadj.contains j)
  let res ← f (take obs iwO) (take hist iwH) (take fut iwF) iwO iwH iwF
  let vals ← maskSelect res mask
  pairsFor iadj vals

def applyLocationDC {α} (f : WinFn α) (L S : Int) (doyO doyH doyF : List Int) (obs hist fut : List α) :
    Except String (List (Option α)) :=
  runLoop (windowWritesDC f L S doyO doyH doyF obs hist fut) (useCenters S doyO) obs.length

/-- ISIMIP month mode: `out[months == m] = f(obs[months_obs == m], …)` for `m = 1..12` -/
def monthWrites {α} (f : WinFn α) (mO mH mF : List Int) (obs hist fut : List α)
    (m : Int) : Except String (List (Nat × α)) := do
  let iO := Py.whereTrue (mO.map (fun x => decide (x = m)))
  let iH := Py.whereTrue (mH.map (fun x => decide (x = m)))
  let iF := Py.whereTrue (mF.map (fun x => decide (x = m)))
  let res ← f (take obs iO) (take hist iH) (take fut iF) iO iH iF
  pairsFor iF res

def applyLocationMonths {α} (f : WinFn α) (mO mH mF : List Int) (obs hist fut : List α) :
    Except String (List (Option α)) :=
  runLoop (monthWrites f mO mH mF obs hist fut) (Py.arange1 1 13) fut.length

/-- a per-year-window function (CDFt / QDM `_apply_debiasing_steps` on the future values of the window) -/
abbrev YearFn (α : Type) := List α → List Nat → Except String (List α)

/-- one iteration of the CDFt / QDM loop over year windows of `cm_future` -/
def yearWrites {α} (g : YearFn α) (L S : Int) (years : List Int) (fut : List α)
    (c : Int) : Except String (List (Nat × α)) := do
  let maskWin := yearMask years (yearsInWindow L c)
  let maskAdj := yearMask years (yearsAdjusted S c)
  let iWin := Py.whereTrue maskWin
  let maskWinAdj := yearMask (Py.selectWhere years maskWin) (yearsAdjusted S c)
  let res ← g (Py.selectWhere fut maskWin) iWin
  let vals ← maskSelect res maskWinAdj
  pairsFor (Py.whereTrue maskAdj) vals

def applyYears {α} (g : YearFn α) (L S : Int) (years : List Int) (fut : List α) :
    Except String (List (Option α)) :=
  runLoop (yearWrites g L S years fut) (yearCenters S years) fut.length

/-! The grid map (`Debiaser.apply`, `map_over_locations`, `parallel_map_over_locations`, failsafe) lives in
    `Model/Grid.lean` (C05, C13). -/

end Model.Skeleton
