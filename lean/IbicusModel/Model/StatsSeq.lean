/-
  Layer N, additions for C16 (kept out of `Model/Stats.lean`, which other models import):
  * quantile mapping through the histogram ecdf (`kernel_density`) at one value;
  * a *sequence* model: a store of named samples, helper calls that read the store, and in-place updates of a
    stored sample.  It is the specification of "the helpers are functions of the current values only" — there is no
    state besides the store, a call never writes it, and arguments are passed by value (so passing the same sample
    twice is the same as passing two equal samples).  numpy's views / module-level caches are outside the model: the
    tie is the call-update-call correspondence of `harness/c16.py` (driver op `seq`).
  Import-free (core Lean only), executable.
-/
import IbicusModel.Model.Stats

namespace Model.Stats

/-- `quantile_map_non_parametically(x, y, v, "kernel_density", im)` at one value, bins as oracle arguments -/
def qmapHist1 (im : IecdfMethod) (edges : List Rat) (counts : List Nat) (y : List Rat) (v : Rat) : Rat :=
  iecdf1 im y (ecdfHist1 edges counts v)

/-- the same with constant extrapolation (`x` is needed for its minimum and maximum) -/
def qmapExtrapHist1 (im : IecdfMethod) (edges : List Rat) (counts : List Nat) (x y : List Rat) (v : Rat) : Rat :=
  if v > maxQ x then v + (maxQ y - maxQ x) else if v < minQ x then v + (minQ y - minQ x)
  else qmapHist1 im edges counts y v

/-! ### sequences of calls and in-place updates -/

abbrev Store := List (List Rat)

def Store.get (st : Store) (i : Nat) : List Rat := st.getD i []

inductive SeqOp where
  | ecdf (m : EcdfMethod) (x ys : Nat)
  | iecdf (m : IecdfMethod) (x qs : Nat)
  | qmap (em : EcdfMethod) (im : IecdfMethod) (x y vals : Nat)
  | qmapExtrap (em : EcdfMethod) (im : IecdfMethod) (x y vals : Nat)
  | sortLike (x y : Nat)
  | update (i : Nat) (v : List Rat)   -- `a[...] = v` / `a -= c` …: the stored sample `i` now holds `v`

/-- what a call returns, as a function of the *current* store -/
def callResult (st : Store) : SeqOp → Option (List Rat)
  | .ecdf m x ys => some (ecdf m (st.get x) (st.get ys))
  | .iecdf m x qs => some (iecdf m (st.get x) (st.get qs))
  | .qmap em im x y vals => some (qmap em im (st.get x) (st.get y) (st.get vals))
  | .qmapExtrap em im x y vals => some (qmapExtrap em im (st.get x) (st.get y) (st.get vals))
  | .sortLike x y => some (sortLike (st.get x) (st.get y))
  | .update _ _ => none

/-- the store after an operation: only `update` writes -/
def storeAfter (st : Store) : SeqOp → Store
  | .update i v => st.set i v
  | _ => st

/-- outputs of the calls of a sequence, in order -/
def runSeq : Store → List SeqOp → List (List Rat)
  | _, [] => []
  | st, op :: rest =>
    match callResult st op with
    | some r => r :: runSeq (storeAfter st op) rest
    | none => runSeq (storeAfter st op) rest

end Model.Stats
