/-
  C12 tier A for the provenance programs: the DSL in which `translator/extract_purity.py` writes down, for every
  debiaser class, the provenance-relevant operations of the functions reachable from `apply_location` — read off the
  current AST — together with a checker and a heap semantics (the checker is proved sound in `Lemmas/PurityProg.lean`).

  Differences to the hand-written programs of `Model/Purity.lean` (whose `NpOp` / `NpOp.aliases` — the TRUSTED
  classification — and `provOf` / `nCaller` are reused):
  * variables are numbers (per function: parameters first, then locals, then temporaries; `retBase + i` is the i-th
    returned value), so a renamed local changes nothing;
  * settings- and data-dependent branches are not enumerated as configurations but kept as `ite` (either side may
    run; an early `return` / `raise` moves the rest of the block into the other side); the checker joins the two
    environments, an abstract value being the SET of caller buffers a name may denote (`[]` = a buffer the library
    allocated itself);
  * `self.<method>` is resolved per class (method resolution order), one function table per class.

  Import-free apart from `Model/Purity`, executable.
-/
import IbicusModel.Model.Purity

namespace Model.PurityProg
open Model.Purity (NpOp nCaller)

abbrev Var := Nat

/-- the variable a `return` binds its i-th value to -/
abbrev retBase : Nat := 900

inductive PStmt
  | bind (dst : Var) (op : NpOp) (srcs : List Var)
      -- `dst = op(srcs)`: if `op.aliases` the buffer of ONE of the sources (a name, a view, either arm of a conditional
      -- expression, an element of a tuple of them), otherwise a newly allocated buffer
  | store (tgt : Var)                                  -- an in-place write into the buffer of `tgt`
  | draw                                               -- `np.random.<f>(…)`
  | ite (a b : List PStmt)                             -- either side runs
  | call (fn : Nat) (args : List (Var × Var)) (rets : List (Var × Var))
      -- `args`: (parameter of the callee, variable of the caller); `rets`: (variable of the caller, variable of the callee)


/-- a class's function table: function number ↦ body (`[]` for a number that is not in the table: every call of it
    that expects a result is refused) -/
abbrev Prog := Nat → List PStmt

/-! ## abstract interpretation -/

/-- a name ↦ the caller buffers it may denote (`none`: unbound) -/
abbrev AEnv := Var → Option (List Nat)

def upd {β : Type} (e : Var → Option β) (d : Var) (x : β) : Var → Option β := fun v => if v = d then some x else e v

def emptyEnv {β : Type} : Var → Option β := fun _ => none

/-- the union of the values of the sources; `none` if one of them is unbound -/
def lookAll (e : AEnv) : List Var → Option (List Nat)
  | [] => some []
  | v :: r => match e v, lookAll e r with
      | some a, some b => some (a ++ b)
      | _, _ => none

def join (e1 e2 : AEnv) : AEnv := fun v =>
  match e1 v, e2 v with
  | some a, some b => some (a ++ b)
  | some a, none => some a
  | none, some b => some b
  | none, none => none

def bindArgs {β : Type} (e : Var → Option β) (args : List (Var × Var)) : Var → Option β := fun v =>
  match args.find? (fun pa => pa.1 == v) with
  | some pa => e pa.2
  | none => none

def bindRets {β : Type} (callee e : Var → Option β) : List (Var × Var) → Option (Var → Option β)
  | [] => some e
  | (d, r) :: t => match callee r with
      | some x => bindRets callee (upd e d x) t
      | none => none

/-- `check P fuel prog env`: the environment after the program; `none` if a source is unbound, the fuel runs out, or —
    the point — a `store` targets a name that may denote a caller buffer. -/
def check (P : Prog) : Nat → List PStmt → AEnv → Option AEnv
  | 0, _, _ => none
  | _ + 1, [], e => some e
  | f + 1, .bind d op srcs :: r, e =>
      if op.aliases then
        match lookAll e srcs with
        | some s => check P f r (upd e d s)
        | none => none
      else check P f r (upd e d [])
  | f + 1, .store t :: r, e => match e t with
      | some [] => check P f r e
      | _ => none
  | f + 1, .draw :: r, e => check P f r e
  | f + 1, .ite a b :: r, e => match check P f a e, check P f b e with
      | some ea, some eb => check P f r (join ea eb)
      | _, _ => none
  | f + 1, .call fn args rets :: r, e => match check P f (P fn) (bindArgs e args) with
      | some e' => (match bindRets e' e rets with
          | some e'' => check P f r e''
          | none => none)
      | none => none

/-- the entry: `apply_location(obs, cm_hist, cm_future, time_obs, time_cm_hist, time_cm_future)` with the caller's six
    buffers (the optional ones are bound as well: the branch that creates them when they are `None` is an `ite`) -/
def entryEnv : AEnv := fun v => if v < nCaller then some [v] else none

def resultVar : Var := 800

def entryProg (fn : Nat) : List PStmt :=
  [.call fn ((List.range nCaller).map (fun k => (k, k))) [(resultVar, retBase)]]

abbrev fuel : Nat := 2000

/-- every store reachable from the entry goes to a buffer the library allocated, and so does the returned array -/
def accepted (P : Prog) (fn : Nat) : Bool :=
  match check P fuel (entryProg fn) entryEnv with
  | some e => e resultVar == some []
  | none => false

/-! ## concrete semantics -/

abbrev CEnv := Var → Option Nat

structure St (α : Type) where
  env : CEnv
  heap : List (List α)

/-- big-step execution; what is written (`v`) is arbitrary -/
inductive Exec {α : Type} (P : Prog) : List PStmt → St α → St α → Prop
  | nil (s : St α) : Exec P [] s s
  | bindAlias {d op srcs r s t src b} : op.aliases = true → src ∈ srcs → s.env src = some b →
      Exec P r ⟨upd s.env d b, s.heap⟩ t → Exec P (.bind d op srcs :: r) s t
  | bindFresh {d op srcs r s t} (v : List α) : op.aliases = false →
      Exec P r ⟨upd s.env d s.heap.length, s.heap ++ [v]⟩ t → Exec P (.bind d op srcs :: r) s t
  | store {tgt r s t b} (v : List α) : s.env tgt = some b → Exec P r ⟨s.env, s.heap.set b v⟩ t →
      Exec P (.store tgt :: r) s t
  | draw {r s t} : Exec P r s t → Exec P (.draw :: r) s t
  | iteL {a b r s t0 t} : Exec P a s t0 → Exec P r t0 t → Exec P (.ite a b :: r) s t
  | iteR {a b r s t0 t} : Exec P b s t0 → Exec P r t0 t → Exec P (.ite a b :: r) s t
  | call {fn args rets r s t0 env1 t} : Exec P (P fn) ⟨bindArgs s.env args, s.heap⟩ t0 →
      bindRets t0.env s.env rets = some env1 → Exec P r ⟨env1, t0.heap⟩ t →
      Exec P (.call fn args rets :: r) s t

/-- the caller's environment at the entry: parameter `k` is buffer `k` -/
def entryCEnv : CEnv := fun v => if v < nCaller then some v else none

end Model.PurityProg
