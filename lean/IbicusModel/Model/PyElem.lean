/-
  Prelude for the element-wise / list-level readings of `translator/extract_isimip_steps.py` (tier A, ISIMIP steps):
  numpy operations on whole arrays that `Model/Py.lean` does not have.  Import-free apart from `Model/Py.lean`, executable.
-/
import IbicusModel.Model.Py

namespace PyElem

/-- Python's normalisation of a slice bound `i` on a sequence of length `n` (negative = from the end, clipped) -/
def sliceIdx (i : Int) (n : Nat) : Nat := if i < 0 then (i + (n : Int)).toNat else min i.toNat n

/-- `x[lo:hi] = v` (scalar into a basic slice, step 1; `none` = bound omitted) -/
def setSlice {α} (x : List α) (lo hi : Option Int) (v : α) : List α :=
  let n := x.length
  let l := match lo with | none => 0 | some i => sliceIdx i n
  let h := match hi with | none => n | some i => sliceIdx i n
  (x.zip (List.range n)).map (fun p => if l ≤ p.2 ∧ p.2 < h then v else p.1)

/-- a float as numpy sees it in `np.isnan` / `np.isinf` (step 2) -/
inductive FVal where
  | nan
  | negInf
  | posInf
  | fin (q : Rat)
deriving DecidableEq, Repr

namespace FVal
/-- `np.isnan` -/
def isnan : FVal → Bool
  | nan => true | _ => false
/-- `np.isinf` -/
def isinf : FVal → Bool
  | negInf => true | posInf => true | _ => false
/-- the model's view of a possibly missing value (`none` = `nan` or `±inf`) -/
def toOption : FVal → Option Rat
  | fin q => some q | _ => none
end FVal

/-- `for k, v in enumerate(keys): t[ys == v] = a[k]` (step 3: the annual trend mapped onto daily resolution), `k` counted
    from `k0`.  `a[k]` raises `IndexError` when `a` is shorter than `keys`; the theorems carry the guard (`a.getD k 0`). -/
def assignByKeyFrom (k0 : Nat) (t : List Rat) (ys : List Int) (a : List Rat) : List Int → List Rat
  | [] => t
  | v :: vs => assignByKeyFrom (k0 + 1) (Py.setWhere t (ys.map (fun y => decide (y = v))) (a.getD k0 0)) ys a vs

def assignByKey (t : List Rat) (ys keys : List Int) (a : List Rat) : List Rat := assignByKeyFrom 0 t ys a keys

/-! ### additions for ISIMIP step 1 / step 2 / step 8 (tier A, part 2) -/

/-- `x[i]` for an integer `i` (Python / numpy: a negative index counts from the end; `IndexError` outside `[-n, n)`) -/
def getIdx {α} (x : List α) (i : Int) : Except String α :=
  let n : Int := (x.length : Int)
  let j : Int := if i < 0 then i + n else i
  if 0 ≤ j ∧ j < n then
    match x[j.toNat]? with
    | some v => .ok v
    | none => .error "IndexError"
  else .error "IndexError"

/-- `x[idx]` for an integer array `idx` (fancy indexing; `IndexError` when one index is out of range) -/
def takeIdx {α} (x : List α) (idx : List Int) : Except String (List α) := idx.mapM (getIdx x)

/-- `x[idx]` for an array of non-negative indices (`argsort` output) -/
def takeNat {α} (x : List α) (idx : List Nat) : Except String (List α) :=
  idx.mapM (fun i => match x[i]? with | some v => .ok v | none => .error "IndexError")

/-- `np.where(m, a, b)` for arrays of one shape (a scalar operand is broadcast by the reader: `m.map (fun _ => s)`) -/
def npWhere {α} (m : List Bool) (a b : List α) : List α :=
  List.zipWith (fun c p => if c then p.1 else p.2) m (a.zip b)

/-- `for k, v in enumerate(keys): <body that may end in out[k] = E>` where the body does not read `out`:
    `f k v = ok none` = nothing written in that iteration, `ok (some r)` = `out[k] = r` (`IndexError` when `k` is not an
    index of `out`), `error e` = the body raised.  Iterations in order, `k` counted from `k0`. -/
def enumAssignFrom (f : Nat → Int → Except String (Option Rat)) : Nat → List Rat → List Int → Except String (List Rat)
  | _, out, [] => .ok out
  | k0, out, v :: vs =>
    match f k0 v with
    | .error e => .error e
    | .ok none => enumAssignFrom f (k0 + 1) out vs
    | .ok (some r) => if k0 < out.length then enumAssignFrom f (k0 + 1) (out.set k0 r) vs else .error "IndexError"

def enumAssign (out : List Rat) (keys : List Int) (f : Nat → Int → Except String (Option Rat)) : Except String (List Rat) :=
  enumAssignFrom f 0 out keys

/-- maximum of a non-empty segment (`0` on the empty list, which the callers exclude) -/
def maxOf : List Rat → Rat
  | [] => 0
  | a :: t => t.foldl max a

/-- `np.unique(x, return_index=True)`: the distinct values in ascending order and, for each, the index of its first
    occurrence in `x` -/
def uniqueIndex (x : List Int) : List Int × List Nat :=
  let u := (x.mergeSort (fun a b => decide (a ≤ b))).eraseDups
  (u, u.map (fun v => x.idxOf v))

/-- `np.maximum.reduceat(x, idx)`: entry `k` is `max(x[idx[k]:idx[k+1]])` (`x[idx[k]:]` for the last `k`), or `x[idx[k]]`
    when `idx[k] >= idx[k+1]`; `IndexError` when an index is not `< len(x)` -/
def reduceatMax (x : List Rat) (idx : List Nat) : Except String (List Rat) :=
  (idx.zip (idx.drop 1 ++ [x.length])).mapM (fun p =>
    if p.1 < x.length then
      .ok (if p.1 < p.2 then maxOf ((x.drop p.1).take (p.2 - p.1)) else x.getD p.1 0)
    else .error "IndexError")

end PyElem
