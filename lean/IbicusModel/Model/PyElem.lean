/-
  Prelude for the element-wise / list-level readings of `translator/extract_isimip_steps.py` (tier A, ISIMIP steps):
  numpy operations on whole arrays that `Model/Py.lean` does not have.  Import-free apart from `Model/Py.lean`, executable.
-/
import IbicusModel.Model.Py

namespace PyElem

/-- Python's normalisation of a slice bound `i` on a sequence of length `n` (negative = from the end, clipped) -/
def sliceIdx (i : Int) (n : Nat) : Nat := if i < 0 then (i + (n : Int)).toNat else min i.toNat n

/-- `x[lo:hi] = v` (scalar into a basic slice, step 1; `none` = bound omitted) -/
def setSlice {α} (x : List α) (lo hi : Option Int) (v : α) : List α :=
  let n := x.length
  let l := match lo with | none => 0 | some i => sliceIdx i n
  let h := match hi with | none => n | some i => sliceIdx i n
  (x.zip (List.range n)).map (fun p => if l ≤ p.2 ∧ p.2 < h then v else p.1)

/-- a float as numpy sees it in `np.isnan` / `np.isinf` (step 2) -/
inductive FVal where
  | nan
  | negInf
  | posInf
  | fin (q : Rat)
deriving DecidableEq, Repr

namespace FVal
/-- `np.isnan` -/
def isnan : FVal → Bool
  | nan => true | _ => false
/-- `np.isinf` -/
def isinf : FVal → Bool
  | negInf => true | posInf => true | _ => false
/-- the model's view of a possibly missing value (`none` = `nan` or `±inf`) -/
def toOption : FVal → Option Rat
  | fin q => some q | _ => none
end FVal

/-- `for k, v in enumerate(keys): t[ys == v] = a[k]` (step 3: the annual trend mapped onto daily resolution), `k` counted
    from `k0`.  `a[k]` raises `IndexError` when `a` is shorter than `keys`; the theorems carry the guard (`a.getD k 0`). -/
def assignByKeyFrom (k0 : Nat) (t : List Rat) (ys : List Int) (a : List Rat) : List Int → List Rat
  | [] => t
  | v :: vs => assignByKeyFrom (k0 + 1) (Py.setWhere t (ys.map (fun y => decide (y = v))) (a.getD k0 0)) ys a vs

def assignByKey (t : List Rat) (ys keys : List Int) (a : List Rat) : List Rat := assignByKeyFrom 0 t ys a keys

end PyElem
