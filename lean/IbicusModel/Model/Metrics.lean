/-
  Layer N/K: threshold metrics (hand-written model of `ibicus/evaluate/metrics.py`,
  classes `ThresholdMetric` and `AccumulativeThresholdMetric`).  Import-free (core Lean + `Model/`), executable.

  Representation.  A numpy array of shape `(T, I, J)` is a function `Nat → Nat → Nat → α` (`[t][i][j]`) together with
  its three dimensions; this keeps the spatial shape when the time axis is empty (numpy does too) and turns every
  `einsum` into a sum over `List.range`.  All statements are about indices inside the dimensions.
  Time information is computed by Python (`utils.day_of_year / month / season / year`) and reaches the model as
  integer codes `grp : Nat → Int` (`none` = the caller passed `time=None`) and `yr : Nat → Int`.
-/
import IbicusModel.Model.Stats

namespace Model.Metrics

abbrev Data := Nat → Nat → Nat → Rat
abbrev Mask := Nat → Nat → Nat → Bool

/-- `Σ_{k < n} f k` — what `einsum` / `.sum()` compute along one axis -/
def sumR {α} [Add α] [Zero α] (n : Nat) (f : Nat → α) : α := ((List.range n).map f).sum

/-- sum over the two spatial axes -/
def sumIJ {α} [Add α] [Zero α] (I J : Nat) (f : Nat → Nat → α) : α := sumR I (fun i => sumR J (fun j => f i j))

/-- sum over the whole array -/
def sum3 {α} [Add α] [Zero α] (T I J : Nat) (f : Nat → Nat → Nat → α) : α := sumR T (fun t => sumIJ I J (f t))

/-! ### thresholds -/

inductive ThType where
  | higher | lower | between | outside
deriving DecidableEq, Repr

inductive HL where
  | higher | lower
deriving DecidableEq, Repr

/-- one threshold: a number (`threshold_locality = "global"`) or one number per location (`"local"`) -/
inductive Thr where
  | glob (v : Rat)
  | loc (g : Nat → Nat → Rat)

def Thr.at : Thr → Nat → Nat → Rat
  | .glob v, _, _ => v
  | .loc g, i, j => g i j

/-- what `_get_mask_higher_or_lower` receives as `threshold_value`: one threshold (`threshold_scope = "overall"`) or a
    dict `time group ↦ threshold` (`"day" | "month" | "season"`; `none` = key absent) -/
inductive Spec where
  | overall (v : Thr)
  | grouped (f : Int → Option Thr)

/-- the broadcast `thresholds` array of `_get_mask_higher_or_lower`.
    `overall`: `time` is ignored.  Time scopes: `time is None` ⇒ `ValueError`; a time step whose group has no key
    (`not np.all(np.isin(time, keys))`) ⇒ `ValueError`; otherwise the left merge looks every step's group up. -/
def thresholds (s : Spec) (grp : Option (Nat → Int)) (T : Nat) : Except String (Nat → Nat → Nat → Rat) :=
  match s with
  | .overall v => .ok (fun _ i j => v.at i j)
  | .grouped f =>
    match grp with
    | none => .error "ValueError"
    | some g =>
      if (List.range T).all (fun t => (f (g t)).isSome) then
        .ok (fun t i j => match f (g t) with
          | some v => v.at i j
          | none => 0)  -- unreachable for `t < T` (guarded by the check above)
      else .error "ValueError"

/-- `x > thresholds` / `x < thresholds` -/
def cmpHL (hl : HL) (x th : Rat) : Bool :=
  match hl with
  | .higher => decide (x > th)
  | .lower => decide (x < th)

/-- `_get_mask_higher_or_lower` -/
def maskHL (x : Data) (s : Spec) (hl : HL) (grp : Option (Nat → Int)) (T : Nat) : Except String Mask :=
  match thresholds s grp T with
  | .error e => .error e
  | .ok th => .ok (fun t i j => cmpHL hl (x t i j) (th t i j))

/-- a metric: type, `threshold_value` (`v0`; for `between`/`outside` `v0 = threshold_value[0]`, `v1 = threshold_value[1]`) -/
structure Metric where
  ty : ThType
  v0 : Spec
  v1 : Spec

/-- `_get_mask_threshold_condition` (both operands of `np.logical_and/or` are evaluated, so an error in either one
    surfaces; the first one wins) -/
def mask (m : Metric) (x : Data) (grp : Option (Nat → Int)) (T : Nat) : Except String Mask :=
  match m.ty with
  | .higher => maskHL x m.v0 .higher grp T
  | .lower => maskHL x m.v0 .lower grp T
  | .between =>
    match maskHL x m.v0 .higher grp T, maskHL x m.v1 .lower grp T with
    | .ok a, .ok b => .ok (fun t i j => a t i j && b t i j)
    | .error e, _ => .error e
    | _, .error e => .error e
  | .outside =>
    match maskHL x m.v0 .lower grp T, maskHL x m.v1 .higher grp T with
    | .ok a, .ok b => .ok (fun t i j => a t i j || b t i j)
    | .error e, _ => .error e
    | _, .error e => .error e

/-- `.astype(int)` -/
def inst (m : Mask) : Nat → Nat → Nat → Nat := fun t i j => if m t i j then 1 else 0

/-- `calculate_instances_of_threshold_exceedance` -/
def instances (m : Metric) (x : Data) (grp : Option (Nat → Int)) (T : Nat) : Except String (Nat → Nat → Nat → Nat) :=
  (mask m x grp T).map inst

/-- the total number of instances -/
def total (m : Mask) (T I J : Nat) : Nat := sum3 T I J (inst m)

/-- number of instances at one location -/
def countAt (m : Mask) (T i j : Nat) : Nat := sumR T (fun t => inst m t i j)

/-! ### exceedance probability -/

/-- `np.einsum("ijk -> jk", inst) / inst.shape[0]` (for `T = 0` numpy returns NaN; the theorems carry `0 < T`) -/
def prob (m : Mask) (T : Nat) (i j : Nat) : Rat :=
  ((sumR T (fun t => inst m t i j) : Nat) : Rat) / (T : Rat)

/-! ### annual counts / values -/

/-- distinct elements (last occurrences kept) -/
def uniq : List Int → List Int
  | [] => []
  | a :: t => if t.contains a then uniq t else a :: uniq t

/-- `np.unique`: sorted distinct values -/
def unique (l : List Int) : List Int := (uniq l).mergeSort (fun a b => decide (a ≤ b))

def yearList (yr : Nat → Int) (T : Nat) : List Int := (List.range T).map yr

/-- `a[time_array == y].sum()` along the time axis: select the steps of year `y`, then sum -/
def sumYear {α} [Add α] [Zero α] (yr : Nat → Int) (T : Nat) (y : Int) (f : Nat → α) : α :=
  (((List.range T).filter (fun t => decide (yr t = y))).map f).sum

/-- `calculate_number_annual_days_beyond_threshold`: entry `[y][i][j]` for `y` in `np.unique(year(time))` -/
def annualCount (m : Mask) (yr : Nat → Int) (T : Nat) (y : Int) (i j : Nat) : Nat :=
  sumYear yr T y (fun t => inst m t i j)

/-! ### spell lengths -/

/-- `m[:-1] != m[1:]` -/
def changes : List Bool → List Bool
  | a :: b :: t => (a != b) :: changes (b :: t)
  | _ => []

/-- `np.concatenate(([m[0]], m[:-1] != m[1:], [True]))`; `m[0]` on an empty array raises `IndexError` -/
def flags : List Bool → Option (List Bool)
  | [] => none
  | a :: t => some (a :: changes (a :: t) ++ [true])

/-- `np.where(mask)[0]` (positions of `True`, counted from `k`) -/
def whereFrom (k : Int) : List Bool → List Int
  | [] => []
  | b :: t => if b then k :: whereFrom (k + 1) t else whereFrom (k + 1) t

/-- `np.diff` -/
def diff : List Int → List Int
  | a :: b :: t => (b - a) :: diff (b :: t)
  | _ => []

/-- `a[::2]` -/
def everyOther {α} : List α → List α
  | a :: _ :: t => a :: everyOther t
  | l => l

/-- `_calculate_spell_lengths_one_location`, literally:
    `np.diff(np.where(np.concatenate(([m[0]], m[:-1] != m[1:], [True])))[0])[::2]` -/
def spellsLiteral (m : List Bool) : Option (List Int) :=
  (flags m).map (fun c => everyOther (diff (whereFrom 0 c)))

/-- reference: recursive run-length encoder of the `True`-runs (`cur` = length of the run that is open) -/
def rleAux : Nat → List Bool → List Nat
  | cur, [] => if cur = 0 then [] else [cur]
  | cur, true :: t => rleAux (cur + 1) t
  | cur, false :: t => if cur = 0 then rleAux 0 t else cur :: rleAux 0 t

def rle (m : List Bool) : List Nat := rleAux 0 m

/-- the mask column of one location -/
def column (m : Mask) (T i j : Nat) : List Bool := (List.range T).map (fun t => m t i j)

/-- all `(i, j)` in `np.ndindex` (row-major) order -/
def cells (I J : Nat) : List (Nat × Nat) := (List.range I).flatMap (fun i => (List.range J).map (fun j => (i, j)))

/-- `calculate_spell_length` for one data set: the spells of all locations concatenated, those with
    `spell_length > minimum_length` kept.  `none` = `IndexError` (empty time axis). -/
def spellLengths (m : Mask) (T I J : Nat) (minLen : Int) : Option (List Int) :=
  ((cells I J).mapM (fun c => spellsLiteral (column m T c.1 c.2))).map
    (fun ls => ls.flatten.filter (fun s => decide (s > minLen)))

/-! ### spatial extent -/

/-- number of instances at time step `t` -/
def cellsAt (m : Mask) (I J t : Nat) : Nat := sumIJ I J (inst m t)

/-- `einsum("ijk -> i") / prod(shape[1:])`, zero entries dropped (`I * J = 0` gives NaN in numpy: guard `0 < I * J`) -/
def spatialExtent (m : Mask) (T I J : Nat) : List Rat :=
  ((List.range T).map (fun t => ((cellsAt m I J t : Nat) : Rat) / ((I * J : Nat) : Rat))).filter (fun e => decide (e ≠ 0))

/-! ### spatiotemporal clusters (the labelling `scipy.ndimage.label` is an oracle argument) -/

def maxR (n : Nat) (f : Nat → Nat) : Nat := (List.range n).foldl (fun a k => max a (f k)) 0

/-- `labels.max()` -/
def maxLabel (lab : Nat → Nat → Nat → Nat) (T I J : Nat) : Nat :=
  maxR T (fun t => maxR I (fun i => maxR J (fun j => lab t i j)))

/-- `measurements.sum(inst, labels, index = l)` -/
def clusterSize (m : Mask) (lab : Nat → Nat → Nat → Nat) (T I J : Nat) (l : Nat) : Nat :=
  sum3 T I J (fun t i j => if lab t i j = l then inst m t i j else 0)

/-- `measurements.sum(inst, labels, index=np.arange(1, labels.max() + 1))` -/
def clusterSizes (m : Mask) (lab : Nat → Nat → Nat → Nat) (T I J : Nat) : List Nat :=
  (List.range (maxLabel lab T I J)).map (fun l => clusterSize m lab T I J (l + 1))

/-- the law assumed of the labelling: labels are `0..k`, positive exactly on the instances, every label `1..k` is used -/
structure LabelLaw (m : Mask) (lab : Nat → Nat → Nat → Nat) (T I J k : Nat) : Prop where
  le_k : ∀ t i j, t < T → i < I → j < J → lab t i j ≤ k
  pos_iff : ∀ t i j, t < T → i < I → j < J → (0 < lab t i j ↔ m t i j = true)
  nonempty : ∀ l, 1 ≤ l → l ≤ k → ∃ t i j, t < T ∧ i < I ∧ j < J ∧ lab t i j = l

/-! ### accumulative metrics -/

/-- `np.where(mask, dataset, 0)`: the values where the condition is met, zero elsewhere -/
def filt (x : Data) (m : Mask) : Data := fun t i j => if m t i j then x t i j else 0

/-- `calculate_percent_of_total_amount_beyond_threshold`; a zero total gives NaN/inf in numpy: `none` -/
def percent (x : Data) (m : Mask) (T i j : Nat) : Option Rat :=
  let tot := sumR T (fun t => x t i j)
  if tot = 0 then none else some (100 * sumR T (fun t => filt x m t i j) / tot)

/-- `calculate_annual_value_beyond_threshold`, entry `[y][i][j]` -/
def annualValue (x : Data) (m : Mask) (yr : Nat → Int) (T : Nat) (y : Int) (i j : Nat) : Rat :=
  sumYear yr T y (fun t => filt x m t i j)

/-- `calculate_intensity_index`: amount over the exceeding steps / their number; no exceeding step gives
    `0/0 = NaN` in numpy: `none` -/
def intensity (x : Data) (m : Mask) (T i j : Nat) : Option Rat :=
  let c := sumR T (fun t => inst m t i j)
  if c = 0 then none else some (sumR T (fun t => filt x m t i j) / ((c : Nat) : Rat))

/-! ### aliasing model of `filter_threshold_exceedances` (C12-style store)

  A heap is a list of buffers; arrays are buffer ids.  `inPlace = false` is the code as it is now
  (`np.where(mask, dataset, 0)` allocates); `inPlace = true` is the code before repair F7
  (`dataset[mask] = 0; return dataset` — with the inverted mask).  Which of the two the real code is, is
  observed on every run by the harness (`np.shares_memory`, byte comparison of the caller's array). -/

structure Heap where
  bufs : List Data

def Heap.get (h : Heap) (id : Nat) : Data := h.bufs.getD id (fun _ _ _ => 0)

/-- returns the new heap and the id of the result buffer -/
def filterStore (inPlace : Bool) (h : Heap) (src : Nat) (m : Mask) : Heap × Nat :=
  if inPlace then (⟨h.bufs.set src (filt (h.get src) m)⟩, src)
  else (⟨h.bufs ++ [filt (h.get src) m]⟩, h.bufs.length)

/-! ### thresholds from quantiles (`from_quantile`) -/

inductive Locality where
  | global | local
deriving DecidableEq, Repr

/-- `x[ts]` flattened (C order) -/
def flat (x : Data) (ts : List Nat) (I J : Nat) : List Rat :=
  ts.flatMap (fun t => (List.range I).flatMap (fun i => (List.range J).map (fun j => x t i j)))

/-- `np.quantile(x[ts], q)` (global) / `np.quantile(x[ts], q, axis=0)` (local); numpy's default method `linear` -/
def qThr (lc : Locality) (x : Data) (ts : List Nat) (I J : Nat) (q : Rat) : Thr :=
  match lc with
  | .global => .glob (Stats.quantileLinear (Stats.sortQ (flat x ts I J)) q)
  | .local => .loc (fun i j => Stats.quantileLinear (Stats.sortQ (ts.map (fun t => x t i j))) q)

/-- `_get_threshold_from_quantile`: one threshold, or one per time group present in the data
    (`grp = none` with a time scope ⇒ `ValueError`) -/
def qSpec (byTime : Bool) (lc : Locality) (x : Data) (grp : Option (Nat → Int)) (T I J : Nat) (q : Rat) :
    Except String Spec :=
  if byTime then
    match grp with
    | none => .error "ValueError"
    | some g => .ok (.grouped (fun key =>
        let ts := (List.range T).filter (fun t => decide (g t = key))
        if ts.isEmpty then none else some (qThr lc x ts I J q)))
  else .ok (.overall (qThr lc x (List.range T) I J q))

/-- `from_quantile` (`q1` is ignored for `higher`/`lower`; for `between`/`outside` `q0 < q1` is required) -/
def fromQuantile (ty : ThType) (byTime : Bool) (lc : Locality) (x : Data) (grp : Option (Nat → Int))
    (T I J : Nat) (q0 q1 : Rat) : Except String Metric :=
  match ty with
  | .higher | .lower =>
    match qSpec byTime lc x grp T I J q0 with
    | .ok s => .ok ⟨ty, s, s⟩
    | .error e => .error e
  | .between | .outside =>
    if ¬ (q0 < q1) then .error "ValueError"
    else match qSpec byTime lc x grp T I J q0, qSpec byTime lc x grp T I J q1 with
      | .ok s0, .ok s1 => .ok ⟨ty, s0, s1⟩
      | .error e, _ => .error e
      | _, .error e => .error e

/-! ### storage order of the time axis

  `perm` lists, for every storage position, the position the same time step has in another storage order
  (a permutation of `0 … T−1`: chronological vs. shuffled / descending / yearly blocks out of order / two runs
  concatenated).  `reindex perm f` is the array `f` stored in that other order. -/

def reindex {α} (perm : List Nat) (f : Nat → α) : Nat → α := fun t => f (perm.getD t 0)

/-! ### values that are not numbers (`NaN`, `±inf` as missing-value markers)

  The rational model has no such values; this small extension carries exactly the two facts the metrics rely on:
  IEEE comparisons with `NaN` are false (so `NaN` is never an instance), and `np.where(mask, x, 0)` *selects* — it never
  computes with the value it does not select (`filtG` is polymorphic in the value type). -/

inductive XVal where
  | fin (q : Rat) | nan | pinf | ninf
deriving DecidableEq, Repr

/-- IEEE `x > th` / `x < th` for a finite threshold -/
def XVal.gt : XVal → Rat → Bool
  | .fin q, th => decide (q > th)
  | .pinf, _ => true
  | _, _ => false

def XVal.lt : XVal → Rat → Bool
  | .fin q, th => decide (q < th)
  | .ninf, _ => true
  | _, _ => false

/-- the defining comparison of the four threshold types on extended values (`lo` = the threshold for
    `higher`/`lower`, the lower bound otherwise) -/
def condX (ty : ThType) (x : XVal) (lo hi : Rat) : Bool :=
  match ty with
  | .higher => x.gt lo
  | .lower => x.lt lo
  | .between => x.gt lo && x.lt hi
  | .outside => x.lt lo || x.gt hi

instance : Zero XVal := ⟨.fin 0⟩

def XVal.isFin : XVal → Bool
  | .fin _ => true
  | _ => false

/-- `np.where(mask, dataset, 0)` for an arbitrary value type -/
def filtG {α} [Zero α] (x : Nat → Nat → Nat → α) (m : Mask) : Nat → Nat → Nat → α :=
  fun t i j => if m t i j then x t i j else 0

/-! ### a metric object used repeatedly (attributes reassigned, buffers rewritten in place between calls)

  The specification is cache-free: every evaluation reads the *current* attributes and the *current* content of the
  array objects.  `runCachedById` is the behaviour of a memo keyed on the identity of the array object (which an
  in-place write or an attribute assignment does not change) — it is what the specification excludes. -/

structure MState where
  ty : ThType
  v0 : Spec
  v1 : Spec
  x : Data
  grp : Option (Nat → Int)

inductive Op where
  | setType (ty : ThType)            -- `metric.threshold_type = …`
  | setThr (v0 v1 : Spec)            -- `metric.threshold_value = …`
  | write (x : Data)                 -- `dataset[...] = …` (same array object)
  | scale (c : Rat)                  -- `dataset *= c`
  | setTime (grp : Option (Nat → Int)) -- `time[...] = …` (same array object)
  | eval                             -- `calculate_instances_of_threshold_exceedance(dataset, time)`

def applyOp (s : MState) : Op → MState
  | .setType ty => { s with ty := ty }
  | .setThr v0 v1 => { s with v0 := v0, v1 := v1 }
  | .write x => { s with x := x }
  | .scale c => { s with x := fun t i j => s.x t i j * c }
  | .setTime g => { s with grp := g }
  | .eval => s

def applyAll (s : MState) (ops : List Op) : MState := ops.foldl applyOp s

def evalNow (s : MState) (T : Nat) : Except String (Nat → Nat → Nat → Nat) :=
  instances ⟨s.ty, s.v0, s.v1⟩ s.x s.grp T

/-- the outputs of the `eval` calls of a sequence, in order -/
def runOps (T : Nat) : MState → List Op → List (Except String (Nat → Nat → Nat → Nat))
  | _, [] => []
  | s, .eval :: rest => evalNow s T :: runOps T s rest
  | s, op :: rest => runOps T (applyOp s op) rest

/-- a memo keyed on array identity: once filled it is returned for every later call on the same objects -/
def runCachedById (T : Nat) : MState → Option (Except String (Nat → Nat → Nat → Nat)) → List Op →
    List (Except String (Nat → Nat → Nat → Nat))
  | _, _, [] => []
  | s, none, .eval :: rest => evalNow s T :: runCachedById T s (some (evalNow s T)) rest
  | s, some c, .eval :: rest => c :: runCachedById T s (some c) rest
  | s, c, op :: rest => runCachedById T (applyOp s op) c rest

/-! ### the documented seasons (`utils.season`): DJF = Winter (0), MAM = Spring (1), JJA = Summer (2), SON = Autumn (3) -/

def seasonOfMonth (m : Int) : Option Int :=
  if m = 3 ∨ m = 4 ∨ m = 5 then some 1
  else if m = 6 ∨ m = 7 ∨ m = 8 then some 2
  else if m = 9 ∨ m = 10 ∨ m = 11 then some 3
  else if m = 12 ∨ m = 1 ∨ m = 2 then some 0
  else none

end Model.Metrics
