/-
  Layer S, grid part, tier A ("semantic"): a small DSL for the *structure* of
  `Debiaser._run_func_on_location_and_catch_error`, `Debiaser.map_over_locations`,
  `Debiaser.parallel_map_over_locations`, `Debiaser.apply` and `DeltaChange.apply` (C05, C13).

  `translator/extract_gridloops.py` regenerates one spec value per function from /repo's current AST
  (`Gen/GridLoops.lean`); this file holds the hand-written expected values and the denotation of a spec, built from
  the primitives of `Model/Grid.lean` (`slice`, `ndindex`, `empty3`, `setColumn`, `starmap`).
  `Lemmas/GenGridLoops.lean` proves `Gen.GridLoops.X = Model.GridLoops.X` and
  `denote… Model.GridLoops.X = Model.Grid.Y` — so `runCatch`, `applySerial`, `applyParallel`, `debiaserApplyKw`,
  `deltaChangeApplyKw` (what every C05 / C13 theorem is stated on) are the denotation of what the code says now.

  Names are not part of a spec.  The extractor resolves every local to its *role* (the buffer, a cell enumeration, a
  component of the current cell, the position in the enumeration, the result list) and every parameter to its position
  in the current signature; calls are bound to the callee's current signature the way Python binds them.
-/
import IbicusModel.Model.Grid

namespace Model.GridLoops
open Model.Grid

/-- the three input arrays, by position in the signatures (`obs`, `cm_hist`, `cm_future`) -/
inductive Series | obs | hist | fut
  deriving DecidableEq, Repr

/-- the three data parameters of the catch wrapper, by position -/
inductive ArgIx | a0 | a1 | a2
  deriving DecidableEq, Repr

/-- a component of the current grid cell (`i`, `j` of `for i, j in …`; `index[0]`, `index[1]`); in a comprehension
    `[(e0, e1) for v0 in range(…) for v1 in range(…)]`: `c0` = the outer variable, `c1` = the inner one -/
inductive Comp | c0 | c1
  deriving DecidableEq, Repr

/-- axis of a `(time, x, y)` shape: `shape[0]`, `shape[1]`, `shape[2]` -/
inductive Axis | t | x | y
  deriving DecidableEq, Repr

/-- shape-valued expressions: `<array>.shape`, or the parameter `output_size` -/
inductive ShapeExpr
  | ofArr (s : Series)
  | outputSize
  deriving DecidableEq, Repr

/-- `sh[axis]` -/
structure DimExpr where
  sh : ShapeExpr
  axis : Axis
  deriving DecidableEq, Repr

/-- a cell enumeration.
    `ndindexTail sh`               `np.ndindex(sh[1:])`
    `ndindexDims d0 d1`            `np.ndindex(d0, d1)` (also inside `list(…)`)
    `comprehension o i e0 e1`      `[(e0, e1) for v0 in range(o) for v1 in range(i)]` -/
inductive CellsExpr
  | ndindexTail (sh : ShapeExpr)
  | ndindexDims (d0 d1 : DimExpr)
  | comprehension (outer inner : DimExpr) (e0 e1 : Comp)
  deriving DecidableEq, Repr

/-- `arr[:, i, j]` -/
structure ColRef where
  arr : Series
  i : Comp
  j : Comp
  deriving DecidableEq, Repr

/-- the class named in `except <class>` (a bare `except:` is `baseException`) -/
inductive ExcClass
  | exception
  | baseException
  | named (n : String)
  deriving DecidableEq, Repr

/-- how a branch of the handler ends: `return np.nan`, or `raise` -/
inductive Exit | returnNan | reraise
  deriving DecidableEq, Repr

/-- what a `failsafe` parameter receives at a call site: the caller's own failsafe parameter, nothing (the callee's
    default applies), or a literal -/
inductive FlagArg
  | param
  | omitted
  | const (b : Bool)
  deriving DecidableEq, Repr

/-- what another optional parameter (`progressbar`, `nr_processes`, `processes`) receives -/
inductive OptArg
  | param (name : String)
  | omitted
  | literal (src : String)
  deriving DecidableEq, Repr

/-- `_run_func_on_location_and_catch_error(a0, a1, a2, func, flag=flagDefault, **kwargs)`:
    `try: return func(<tryArgs>, [**kwargs]) except <excClass>: if flag: <onTrue> else: <onFalse>` -/
structure CatchSpec where
  tryArgs : ArgIx × ArgIx × ArgIx
  tryStarKw : Bool
  excClass : ExcClass
  flagDefault : Bool
  onTrue : Exit
  onFalse : Exit
  deriving DecidableEq, Repr

/-- a call of the catch wrapper from a map function, bound to the wrapper's signature: which column reaches data
    parameter 0 / 1 / 2 (the wrapper's `func` always receives the map function's `func` — anything else is rejected by
    the extractor), what the flag receives, whether the map function's `**kwargs` are forwarded -/
structure WrapCall where
  d0 : ColRef
  d1 : ColRef
  d2 : ColRef
  failsafe : FlagArg
  starKw : Bool
  deriving DecidableEq, Repr

def WrapCall.data (c : WrapCall) : ArgIx → ColRef
  | .a0 => c.d0
  | .a1 => c.d1
  | .a2 => c.d2

/-- `np.empty(size, dtype=<dtypeOf>.dtype)` -/
structure Alloc where
  fn : String
  size : ShapeExpr
  dtypeOf : Series
  deriving DecidableEq, Repr

/-- `map_over_locations(func, output_size, obs, cm_hist, cm_future, …, failsafe=failsafeDefault, **kwargs)`:
    `output = <alloc>; for (c0, c1) in <cells>: output[:, <target>] = wrapper(<call>); return output` -/
structure SerialSpec where
  failsafeDefault : Bool
  alloc : Alloc
  cells : CellsExpr
  call : WrapCall
  target : Comp × Comp
  deriving DecidableEq, Repr

/-- `Pool(processes=…)`, the map method, `chunksize=` (`none`: not passed) -/
structure PoolSpec where
  processes : OptArg
  method : String
  chunksize : Option Nat
  deriving DecidableEq, Repr

/-- `parallel_map_over_locations(…)`:
    `with <pool> as p: result = p.starmap(partial(wrapper, <call: keywords>), [(<call: columns>) for (c0, c1) in <argsOver>])`
    `output = <alloc>; for k, (c0, c1) in enumerate(<writeOver>): output[:, <target>] = result[k]; return output` -/
structure ParallelSpec where
  failsafeDefault : Bool
  pool : PoolSpec
  argsOver : CellsExpr
  call : WrapCall
  alloc : Alloc
  writeOver : CellsExpr
  target : Comp × Comp
  deriving DecidableEq, Repr

/-- which map function a branch of `apply` calls -/
inductive MapFn | serial | parallel
  deriving DecidableEq, Repr

/-- `output = Debiaser.<callee>(self.apply_location, output_size=<outputSizeOf>.shape, obs=…, cm_hist=…, cm_future=…,
    failsafe=…, <opts>, [**kwargs])`, bound to the callee's signature: which of `apply`'s arrays reaches the callee's
    array parameters obs / hist / fut -/
structure BranchCall where
  callee : MapFn
  outputSizeOf : Series
  obs : Series
  hist : Series
  fut : Series
  failsafe : FlagArg
  starKw : Bool
  opts : List (String × OptArg)
  deriving DecidableEq, Repr

def BranchCall.src (b : BranchCall) : Series → Series
  | .obs => b.obs
  | .hist => b.hist
  | .fut => b.fut

/-- statements of `apply` before the dispatch: `self.__attrs_post_init__()`;
    `x, y, z = self._check_inputs_and_convert_if_possible(a, b, c)` (the three targets carry on the roles of `a b c`) -/
inductive PreStep
  | postInit
  | checkInputs (a b c : Series)
  deriving DecidableEq, Repr

/-- statements between the dispatch and `return output`: `self._check_output(output)` -/
inductive PostStep
  | checkOutput
  deriving DecidableEq, Repr

/-- `apply(self, obs, cm_hist, cm_future, …, parallel=False, …, failsafe=False, **kwargs)`:
    `<pre>; if parallel: output = <parallelBranch> else: output = <serialBranch>; <post>; return output` -/
structure ApplySpec where
  cls : String
  pre : List PreStep
  parallelBranch : BranchCall
  serialBranch : BranchCall
  post : List PostStep
  deriving DecidableEq, Repr

/-! ### expected values (what `Model/Grid.lean` was written from) -/

def catchSpec : CatchSpec where
  tryArgs := (.a0, .a1, .a2)
  tryStarKw := true
  excClass := .exception
  flagDefault := false
  onTrue := .returnNan
  onFalse := .reraise

/-- the three columns of the current cell, in the order obs, cm_hist, cm_future; flag and `**kwargs` forwarded -/
def cellCall : WrapCall :=
  { d0 := ⟨.obs, .c0, .c1⟩, d1 := ⟨.hist, .c0, .c1⟩, d2 := ⟨.fut, .c0, .c1⟩, failsafe := .param, starKw := true }

def outputAlloc : Alloc := ⟨"np.empty", .outputSize, .fut⟩

def serialSpec : SerialSpec where
  failsafeDefault := false
  alloc := outputAlloc
  cells := .ndindexTail (.ofArr .obs)
  call := cellCall
  target := (.c0, .c1)

/-- `[(i, j) for i in range(obs.shape[1]) for j in range(obs.shape[2])]` -/
def indexList : CellsExpr := .comprehension ⟨.ofArr .obs, .x⟩ ⟨.ofArr .obs, .y⟩ .c0 .c1

def parallelSpec : ParallelSpec where
  failsafeDefault := false
  pool := ⟨.param "nr_processes", "starmap", none⟩
  argsOver := indexList
  call := cellCall
  alloc := outputAlloc
  writeOver := indexList
  target := (.c0, .c1)

def branch (callee : MapFn) (size : Series) (opt : String) : BranchCall :=
  { callee := callee, outputSizeOf := size, obs := .obs, hist := .hist, fut := .fut, failsafe := .param, starKw := true,
    opts := [(opt, .param opt)] }

/-- `Debiaser.apply`: `output_size = cm_future.shape` -/
def applyDebiaser : ApplySpec where
  cls := "Debiaser"
  pre := [.postInit, .checkInputs .obs .hist .fut]
  parallelBranch := branch .parallel .fut "nr_processes"
  serialBranch := branch .serial .fut "progressbar"
  post := [.checkOutput]

/-- `DeltaChange.apply`: `output_size = obs.shape` -/
def applyDeltaChange : ApplySpec where
  cls := "DeltaChange"
  pre := [.postInit, .checkInputs .obs .hist .fut]
  parallelBranch := branch .parallel .obs "nr_processes"
  serialBranch := branch .serial .obs "progressbar"
  post := [.checkOutput]

/-! ### denotation -/

/-- does `except <class>` catch `e`?  `isa n e` = "`e` is an instance of the class named `n`" (the location function's
    exceptions are `Exception`s: `ε` is the type of `Exception` instances) -/
def catches {ε} (c : ExcClass) (isa : String → ε → Bool) (e : ε) : Bool :=
  match c with
  | .exception => true
  | .baseException => true
  | .named n => isa n e

def denoteExit {α ε} (x : Exit) (e : ε) : Except (Err ε) (CellResult α) :=
  match x with
  | .returnNan => .ok .nan
  | .reraise => .error (.cell e)

/-- what the wrapper makes of the outcome `r` of the call in the `try` -/
def catchResult {α ε} (s : CatchSpec) (isa : String → ε → Bool) (fs : Bool) (r : Except ε (List α)) :
    Except (Err ε) (CellResult α) :=
  match r with
  | .ok v => .ok (.series v)
  | .error e =>
    if catches s.excClass isa e then (if fs then denoteExit s.onTrue e else denoteExit s.onFalse e)
    else .error (.cell e)

/-- the catch wrapper called with data arguments `a`, location function `loc`, flag `fs`, keyword arguments `kw`
    (`noKw`: what `loc` sees when the wrapper does not forward `**kwargs`) -/
def denoteCatch {κ α ε} (s : CatchSpec) (isa : String → ε → Bool) (loc : LocFnKw κ α ε) (kw noKw : κ) (fs : Bool)
    (a : ArgIx → List α) : Except (Err ε) (CellResult α) :=
  catchResult s isa fs (loc (if s.tryStarKw then kw else noKw) (a s.tryArgs.1) (a s.tryArgs.2.1) (a s.tryArgs.2.2))

/-- the arrays a map function is called with: `output_size`, the three arrays and their spatial shapes
    `(shape[1], shape[2])` (`shape[0]` is the length of the array) -/
structure ArrEnv (α : Type) where
  outputSize : Nat × Nat × Nat
  arr : Series → Arr3 α
  spatial : Series → Nat × Nat

/-- what a map function is called with: the location function, the keyword arguments, its `failsafe` argument (`none`:
    not passed), and the arrays -/
structure MapEnv (κ α ε : Type) extends ArrEnv α where
  loc : LocFnKw κ α ε
  kw : κ
  noKw : κ
  isa : String → ε → Bool
  failsafe : Option Bool

variable {κ α ε : Type}

def evalShape (env : ArrEnv α) : ShapeExpr → Nat × Nat × Nat
  | .ofArr s => ((env.arr s).length, (env.spatial s).1, (env.spatial s).2)
  | .outputSize => env.outputSize

def evalDim (env : ArrEnv α) (d : DimExpr) : Nat :=
  match d.axis with
  | .t => (evalShape env d.sh).1
  | .x => (evalShape env d.sh).2.1
  | .y => (evalShape env d.sh).2.2

def comp (k : Comp) (c : Cell) : Nat :=
  match k with
  | .c0 => c.1
  | .c1 => c.2

def evalCells (env : ArrEnv α) : CellsExpr → List Cell
  | .ndindexTail sh => ndindex (evalShape env sh).2.1 (evalShape env sh).2.2
  | .ndindexDims d0 d1 => ndindex (evalDim env d0) (evalDim env d1)
  | .comprehension o i e0 e1 =>
      (List.range (evalDim env o)).flatMap (fun a => (List.range (evalDim env i)).map (fun b => (comp e0 (a, b), comp e1 (a, b))))

/-- `arr[:, i, j]` at the current cell -/
def evalCol (env : ArrEnv α) (r : ColRef) (c : Cell) : List α :=
  slice (env.arr r.arr) (comp r.i c) (comp r.j c)

/-- the flag the wrapper runs with -/
def evalFlag (dflt : Bool) (caller : Bool) : FlagArg → Bool
  | .param => caller
  | .omitted => dflt
  | .const b => b

/-- the call of the wrapper at cell `c` from a map function whose own failsafe parameter has default `mapDefault` -/
def denoteCall (w : CatchSpec) (mapDefault : Bool) (call : WrapCall) (env : MapEnv κ α ε) (c : Cell) :
    Except (Err ε) (CellResult α) :=
  denoteCatch w env.isa env.loc (if call.starKw then env.kw else env.noKw) env.noKw
    (evalFlag w.flagDefault (env.failsafe.getD mapDefault) call.failsafe) (fun k => evalCol env.toArrEnv (call.data k) c)

/-- `map_over_locations` -/
def denoteSerial (s : SerialSpec) (w : CatchSpec) (env : MapEnv κ α ε) : Except (Err ε) (Arr3 (Elem α)) :=
  let sz := evalShape env.toArrEnv s.alloc.size
  (evalCells env.toArrEnv s.cells).foldlM (fun out c => do
      let r ← denoteCall w s.failsafeDefault s.call env c
      setColumn sz.1 sz.2.1 sz.2.2 out (comp s.target.1 c, comp s.target.2 c) r)
    (empty3 sz.1 sz.2.1 sz.2.2)

/-- `parallel_map_over_locations` under completion schedule `sched` of the pool (`Model.Grid.starmap`) -/
def denoteParallel (s : ParallelSpec) (w : CatchSpec) (env : MapEnv κ α ε) (sched : List Nat) :
    Except (Err ε) (Arr3 (Elem α)) := do
  let sz := evalShape env.toArrEnv s.alloc.size
  let result ← starmap (fun c => denoteCall w s.failsafeDefault s.call env c) (evalCells env.toArrEnv s.argsOver) sched
  ((evalCells env.toArrEnv s.writeOver).zip result).foldlM
    (fun out cr => setColumn sz.1 sz.2.1 sz.2.2 out (comp s.target.1 cr.1, comp s.target.2 cr.1) cr.2)
    (empty3 sz.1 sz.2.1 sz.2.2)

/-- what `apply` is called with (after the input check: three arrays with spatial shapes `spatial`) -/
structure ApplyEnv (κ α ε : Type) where
  loc : LocFnKw κ α ε
  kw : κ
  noKw : κ
  isa : String → ε → Bool
  failsafe : Bool
  parallel : Bool
  sched : List Nat
  arr : Series → Arr3 α
  spatial : Series → Nat × Nat

/-- the environment a branch call sets up for the map function -/
def branchEnv (b : BranchCall) (E : ApplyEnv κ α ε) : MapEnv κ α ε where
  loc := E.loc
  kw := if b.starKw then E.kw else E.noKw
  noKw := E.noKw
  isa := E.isa
  failsafe := match b.failsafe with
    | .param => some E.failsafe
    | .omitted => none
    | .const c => some c
  outputSize := ((E.arr b.outputSizeOf).length, (E.spatial b.outputSizeOf).1, (E.spatial b.outputSizeOf).2)
  arr := fun s => E.arr (b.src s)
  spatial := fun s => E.spatial (b.src s)

def denoteBranch (b : BranchCall) (ser : SerialSpec) (par : ParallelSpec) (w : CatchSpec) (E : ApplyEnv κ α ε) :
    Except (Err ε) (Arr3 (Elem α)) :=
  match b.callee with
  | .serial => denoteSerial ser w (branchEnv b E)
  | .parallel => denoteParallel par w (branchEnv b E) E.sched

/-- the roles the names `obs, cm_hist, cm_future` carry after the pre-steps -/
def preRoles : List PreStep → (Series → Series) → (Series → Series)
  | [], r => r
  | .postInit :: t, r => preRoles t r
  | .checkInputs a b c :: t, r => preRoles t (fun s => match s with | .obs => r a | .hist => r b | .fut => r c)

/-- `apply`: the array the dispatch hands back (`_check_output` only warns; post-init and the input check are part of the
    identity, their effect is the guard `spatial` = common spatial shape) -/
def denoteApply (a : ApplySpec) (ser : SerialSpec) (par : ParallelSpec) (w : CatchSpec) (E : ApplyEnv κ α ε) :
    Except (Err ε) (Arr3 (Elem α)) :=
  let r := preRoles a.pre id
  let E' : ApplyEnv κ α ε := { E with arr := fun s => E.arr (r s), spatial := fun s => E.spatial (r s) }
  denoteBranch (if E.parallel then a.parallelBranch else a.serialBranch) ser par w E'

/-! ### a debiaser instance that carries state, and the pool's chunking (`Model.Grid.applySerialSt` / `applyParallelSt`)

  The same specs read with a location function that may read and replace the state of the instance it is a bound method
  of: `loc kw s obs hist fut = (result, s')`.  Serial: the state is threaded through the cells in iteration order.
  Parallel: the argument list is cut into chunks of `chunksize` (not passed: `Pool._map_async`'s default for the number of
  worker processes), every chunk runs on its own copy of the instance in state `s0`, the parent keeps `s0`. -/

/-- `apply_location` of an instance in state `s`: the result and the state it leaves behind -/
abbrev LocFnKwSt (κ σ α ε : Type) := κ → σ → List α → List α → List α → Except ε (List α) × σ

structure MapEnvSt (κ σ α ε : Type) extends ArrEnv α where
  loc : LocFnKwSt κ σ α ε
  kw : κ
  noKw : κ
  isa : String → ε → Bool
  failsafe : Option Bool
  /-- the number of worker processes the pool is created with (the value of what `Pool(processes=…)` receives) -/
  processes : Nat

variable {σ : Type}

/-- the call of the wrapper at cell `c` on an instance in state `st` -/
def denoteCallSt (w : CatchSpec) (mapDefault : Bool) (call : WrapCall) (env : MapEnvSt κ σ α ε) (st : σ) (c : Cell) :
    Except (Err ε) (CellResult α) × σ :=
  let r := env.loc (if w.tryStarKw then (if call.starKw then env.kw else env.noKw) else env.noKw) st
    (evalCol env.toArrEnv (call.data w.tryArgs.1) c) (evalCol env.toArrEnv (call.data w.tryArgs.2.1) c)
    (evalCol env.toArrEnv (call.data w.tryArgs.2.2) c)
  (catchResult w env.isa (evalFlag w.flagDefault (env.failsafe.getD mapDefault) call.failsafe) r.1, r.2)

/-- `map_over_locations` on an instance in state `s0`: the array and the state the instance is left in -/
def denoteSerialSt (s : SerialSpec) (w : CatchSpec) (env : MapEnvSt κ σ α ε) (s0 : σ) :
    Except (Err ε) (Arr3 (Elem α) × σ) :=
  let sz := evalShape env.toArrEnv s.alloc.size
  (evalCells env.toArrEnv s.cells).foldlM (fun (st : Arr3 (Elem α) × σ) c =>
      match (denoteCallSt w s.failsafeDefault s.call env st.2 c).1 with
      | .error e => .error e
      | .ok x =>
        match setColumn sz.1 sz.2.1 sz.2.2 st.1 (comp s.target.1 c, comp s.target.2 c) x with
        | .error e => .error e
        | .ok out => .ok (out, (denoteCallSt w s.failsafeDefault s.call env st.2 c).2))
    (empty3 sz.1 sz.2.1 sz.2.2, s0)

/-- one pool task: `list(starmap(func, chunk))` on a copy of the instance in state `s` -/
def chunkRun (g : σ → Cell → Except (Err ε) (CellResult α) × σ) : σ → List Cell → Except (Err ε) (List (CellResult α))
  | _, [] => .ok []
  | s, c :: cs =>
    match (g s c).1 with
    | .error e => .error e
    | .ok r =>
      match chunkRun g (g s c).2 cs with
      | .error e => .error e
      | .ok rs => .ok (r :: rs)

/-- the chunk size the pool uses for `n` tasks -/
def chunkSizeOf (p : PoolSpec) (processes n : Nat) : Nat :=
  match p.chunksize with
  | some k => k
  | none => defaultChunksize n processes

/-- `parallel_map_over_locations` on an instance in state `s0`; `sched` = completion order of the *chunks* -/
def denoteParallelSt (s : ParallelSpec) (w : CatchSpec) (env : MapEnvSt κ σ α ε) (s0 : σ) (sched : List Nat) :
    Except (Err ε) (Arr3 (Elem α) × σ) :=
  let sz := evalShape env.toArrEnv s.alloc.size
  let args := evalCells env.toArrEnv s.argsOver
  match starmap (chunkRun (fun st c => denoteCallSt w s.failsafeDefault s.call env st c) s0)
      (chunksOf (chunkSizeOf s.pool env.processes args.length) args) sched with
  | .error e => .error e
  | .ok res =>
    match ((evalCells env.toArrEnv s.writeOver).zip res.flatten).foldlM
        (fun out cr => setColumn sz.1 sz.2.1 sz.2.2 out (comp s.target.1 cr.1, comp s.target.2 cr.1) cr.2)
        (empty3 sz.1 sz.2.1 sz.2.2) with
    | .error e => .error e
    | .ok out => .ok (out, s0)

/-- the per-cell function of an instance: `self.apply_location(obs[:, i, j], cm_hist[:, i, j], cm_future[:, i, j], **kw)` -/
def cellFnSt (env : MapEnvSt κ σ α ε) : StCell σ α ε :=
  fun s c => env.loc env.kw s (slice (env.arr .obs) c.1 c.2) (slice (env.arr .hist) c.1 c.2) (slice (env.arr .fut) c.1 c.2)

end Model.GridLoops
