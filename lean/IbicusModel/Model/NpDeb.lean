/-
  Layer N, tier-A tie of the per-window transfer functions (C01–C04, C06, C09, C10): a small DSL for the *dataflow* of
  `_apply_CDFt_mapping`, `ECDFM.apply_on_window`, `QuantileDeltaMapping._apply_debiasing_steps`,
  `QuantileMapping.apply_on_window` / `_standard_qm`, `ScaledDistributionMapping._apply_on_window_absolute_sdm` /
  `_apply_on_window_relative_sdm`, `CDFt._apply_debiasing_steps` (SSR) as straight-line programs.

  * A program (`Prog`) is a dispatch table of paths; a path is a list of conditions on settings
    (`self.<setting> == "literal"`, `if self.<flag>:`), an ordered list of statements — bindings `loc k := expr`, numbered
    in execution order (local *names* are resolved by the extractor and are not part of the program), and data-dependent
    `if cond: raise Cls(…)` guards — and the result expression(s).
    The first path whose conditions hold is run; a path may end in `raise <class>` (the `else: raise …` of the
    `if / elif` chains).
  * Expressions (`Expr`) are the arguments, setting reads, literals, numpy element-wise arithmetic / comparisons / masks,
    and the library toolkit as OPAQUE primitives.  The denotation (`eval`) of every primitive is the EXISTING definition
    of `Model/Stats.lean`, `Model/Family.lean`, `Model/Py.lean`, `Model/Debiasers.lean`; no numerics are defined here.
  * `np.random.uniform` is call number `k` of the path and denotes the first `size` elements of `env.draws k`
    (the explicit draw lists; `low` / `high` are part of the program's identity, not of its value).
  * Totalisation: element-wise operations on two arrays are `List.zipWith` (numpy raises on unequal lengths); this is
    the same totalisation `Model/Debiasers.lean` uses.  Ill-typed applications evaluate to `Val.err`.
  The expected programs below are what `translator/extract_debiasers.py` regenerates from /repo on every run
  (`Gen.DebWin.<f>`); `Lemmas/GenDebWin.lean` proves `Gen.DebWin.<f> = Model.NpDeb.<f>` and
  `denote Model.NpDeb.<f> … = Model.Debiasers.<f> …`.
  Import-free (Model/ only), executable.
-/
import IbicusModel.Model.Debiasers

namespace Model.NpDeb
open Model.Stats Model.Family Model.Debiasers

/-- the `method=` keyword of `ecdf` / `iecdf` -/
inductive Meth where
  | setting (name : String)   -- `method=self.<name>`
  | lit (s : String)          -- `method="<s>"`
  | default                   -- keyword absent
deriving Repr, DecidableEq

inductive UnOp where
  | mean          -- `np.mean(x)`
  | abs           -- `np.abs(x)`
  | sign          -- `np.sign(x)`
  | neg           -- `-x`
  | sort          -- `np.sort(x)`
  | argsort       -- `np.argsort(x)`
  | detrendConst  -- `scipy.signal.detrend(x, type="constant")`
  | size          -- `x.size`
  | lnot          -- `np.logical_not(m)`
  | minOr0        -- `x.min() if x.size > 0 else 0`
  | sum           -- `m.sum()` of a boolean mask
  | round         -- Python `round(x)`
deriving Repr, DecidableEq

inductive BinOp where
  | add | sub | mul | div
  | lt | le | gt | ge | eq
  | maximum       -- `np.maximum(a, b)`
  | getitem       -- `x[idx]`, `x[mask]`
  | or            -- `a or b` of two Python booleans
deriving Repr, DecidableEq

inductive Expr where
  | arg (i : Nat)                        -- the `i`-th parameter after `self`
  | loc (k : Nat)                        -- the `k`-th binding of the path
  | num (q : Rat)                        -- numeric literal
  | setNum (s : String)                  -- `self.<s>` read as a number
  | un (op : UnOp) (a : Expr)
  | bin (op : BinOp) (a b : Expr)
  | ecdf (x y : Expr) (m : Meth)         -- `ecdf(x, y, method)`
  | iecdf (x p : Expr) (m : Meth)        -- `iecdf(x, p, method)`
  | qmapExtrap (x y vals : Expr)         -- `quantile_map_non_parametically_with_constant_extrapolation(x, y, vals)`
  | thresh (v t : Expr)                  -- `threshold_cdf_vals(v, t)`
  | threshD (v : Expr)                   -- `threshold_cdf_vals(v)`
  | interpLen (c n : Expr)               -- `interp_sorted_cdf_vals_on_given_length(c, n)`
  | fit (x : Expr)                       -- `self.distribution.fit(x)`
  | fitKw (x : Expr) (kw : String)       -- `self.distribution.fit(x, **self.<kw>)`
  | cdf (x p : Expr)                     -- `self.distribution.cdf(x, *p)`
  | ppf (q p : Expr)                     -- `self.distribution.ppf(q, *p)`
  | parIdx (p : Expr) (i : Nat)          -- `p[i]` of a fit tuple
  | where_ (c a b : Expr)                -- `np.where(c, a, b)`
  | setMask (x m v : Expr)               -- `x[m] = v` (the array after the assignment)
  | concat3 (a b c : Expr)               -- `np.concatenate([a, b, c])`
  | uniform (call : Nat) (lo hi size : Expr)  -- `np.random.uniform(low, high, size)`, `call`-th draw of the path
  | ite (c a b : Expr)                   -- `if c: x = a` (value of `x` afterwards; `b` = value before)
  | sliceFrom (y k : Expr)               -- `y[k:]`
  | setSliceTo (x k v : Expr)            -- `x[:k] = v` (the array after the assignment)
  | setSliceFrom (x k y : Expr)          -- `x[k:] = y` (the array after the assignment)
deriving Repr

inductive Val (P : Type) where
  | arr (l : List Rat)
  | num (q : Rat)
  | par (p : P)
  | mask (m : List Bool)
  | idx (l : List Nat)
  | int (i : Int)
  | bool (b : Bool)
  | err

/-- what a program is run with: the arguments, the debiaser's settings and the parameters of the existing model
    (distribution family, the empirical cdf / quantile function selected by a method attribute, the random draws) -/
structure Env (P : Type) where
  args : List (Val P)
  str : String → String
  num : String → Rat
  flag : String → Bool
  /-- `ecdf(·, ·, method=self.<name>)` -/
  ecdfM : String → List Rat → Rat → Rat
  /-- `iecdf(·, ·, method=self.<name>)` -/
  iecdfM : String → List Rat → Rat → Rat
  fam : Family P
  parIdx : P → Nat → Rat
  draws : Nat → List Rat

variable {P : Type}

def ecdfMethodOfString (s : String) : Option EcdfMethod :=
  if s = "step_function" then some .step else if s = "linear_interpolation" then some .linear else none

def iecdfMethodOfString (s : String) : Option IecdfMethod :=
  if s = "inverted_cdf" then some .inverted_cdf
  else if s = "averaged_inverted_cdf" then some .averaged_inverted_cdf
  else if s = "closest_observation" then some .closest_observation
  else if s = "interpolated_inverted_cdf" then some .interpolated_inverted_cdf
  else if s = "hazen" then some .hazen
  else if s = "weibull" then some .weibull
  else if s = "linear" then some .linear
  else if s = "median_unbiased" then some .median_unbiased
  else if s = "normal_unbiased" then some .normal_unbiased
  else none

/-- the function a `method=` keyword of `ecdf` selects (library default `"step_function"`) -/
def ecdfOf (env : Env P) : Meth → Option (List Rat → Rat → Rat)
  | .setting n => some (env.ecdfM n)
  | .lit s => (ecdfMethodOfString s).map ecdf1
  | .default => some (ecdf1 .step)

/-- the function a `method=` keyword of `iecdf` selects (library default `"inverted_cdf"`) -/
def iecdfOf (env : Env P) : Meth → Option (List Rat → Rat → Rat)
  | .setting n => some (env.iecdfM n)
  | .lit s => (iecdfMethodOfString s).map iecdf1
  | .default => some (iecdf1 .inverted_cdf)

/-! ### denotation of the operators (existing definitions only) -/

def liftU (f : Rat → Rat) : Val P → Val P
  | .arr a => .arr (a.map f)
  | .num q => .num (f q)
  | _ => .err

def meanV : Val P → Val P
  | .arr a => .num (mean a)
  | _ => .err

def sortV : Val P → Val P
  | .arr a => .arr (sortQ a)
  | _ => .err

def argsortV : Val P → Val P
  | .arr a => .idx (argsort a)
  | .idx i => .idx (argsort (i.map (fun (k : Nat) => (k : Rat))))
  | _ => .err

def detrendV : Val P → Val P
  | .arr a => .arr (detrendConst a)
  | _ => .err

def sizeV : Val P → Val P
  | .arr a => .int (a.length : Nat)
  | .mask m => .int (m.length : Nat)
  | _ => .err

def sumV : Val P → Val P
  | .mask m => .int (m.count true : Nat)
  | _ => .err

def roundV : Val P → Val P
  | .num q => .int (Py.roundHalfEven q)
  | _ => .err

def lnotV : Val P → Val P
  | .mask m => .mask (m.map not)
  | _ => .err

def minOr0V : Val P → Val P
  | .arr a => .num (if a.isEmpty then 0 else minQ a)
  | _ => .err

def evalUn : UnOp → Val P → Val P
  | .mean => meanV
  | .abs => liftU Py.absQ
  | .sign => liftU signQ
  | .neg => liftU (fun x => -x)
  | .sort => sortV
  | .argsort => argsortV
  | .detrendConst => detrendV
  | .size => sizeV
  | .lnot => lnotV
  | .minOr0 => minOr0V
  | .sum => sumV
  | .round => roundV

/-- element-wise arithmetic with scalar broadcasting; `fi` is the operation on Python `int`s (`none` for true division,
    which yields a float) -/
def binQ (f : Rat → Rat → Rat) (fi : Option (Int → Int → Int)) : Val P → Val P → Val P
  | .arr a, .arr b => .arr (List.zipWith f a b)
  | .arr a, .num b => .arr (a.map (fun x => f x b))
  | .num a, .arr b => .arr (b.map (fun y => f a y))
  | .num a, .num b => .num (f a b)
  | .int a, .num b => .num (f (a : Rat) b)
  | .num a, .int b => .num (f a (b : Rat))
  | .int a, .int b => match fi with
    | some g => .int (g a b)
    | none => .num (f (a : Rat) (b : Rat))
  | _, _ => .err

/-- element-wise comparison with scalar broadcasting -/
def cmpQ (f : Rat → Rat → Bool) : Val P → Val P → Val P
  | .arr a, .arr b => .mask (List.zipWith f a b)
  | .arr a, .num b => .mask (a.map (fun x => f x b))
  | .num a, .arr b => .mask (b.map (fun y => f a y))
  | .int a, .int b => .bool (f (a : Rat) (b : Rat))
  | .int a, .num b => .bool (f (a : Rat) b)
  | .num a, .int b => .bool (f a (b : Rat))
  | _, _ => .err

def orV : Val P → Val P → Val P
  | .bool a, .bool b => .bool (a || b)
  | _, _ => .err

def getitemV : Val P → Val P → Val P
  | .arr a, .idx i => .arr (takeIdx a i)
  | .arr a, .mask m => .arr (Py.selectWhere a m)
  | _, _ => .err

def evalBin : BinOp → Val P → Val P → Val P
  | .add => binQ (fun x y => x + y) (some (fun x y => x + y))
  | .sub => binQ (fun x y => x - y) (some (fun x y => x - y))
  | .mul => binQ (fun x y => x * y) (some (fun x y => x * y))
  | .div => binQ (fun x y => x / y) none
  | .lt => cmpQ (fun x y => decide (x < y))
  | .le => cmpQ (fun x y => decide (x ≤ y))
  | .gt => cmpQ (fun x y => decide (x > y))
  | .ge => cmpQ (fun x y => decide (x ≥ y))
  | .eq => cmpQ (fun x y => decide (x = y))
  | .maximum => binQ (fun x y => max x y) (some (fun x y => max x y))
  | .getitem => getitemV
  | .or => orV

def mapByV (f : Option (List Rat → Rat → Rat)) : Val P → Val P → Val P
  | .arr x, .arr y => match f with
    | some g => .arr (y.map (g x))
    | none => .err
  | _, _ => .err

def qmapExtrapV : Val P → Val P → Val P → Val P
  | .arr x, .arr y, .arr v => .arr (qmapExtrap .step .inverted_cdf x y v)
  | _, _, _ => .err

def threshV : Val P → Val P → Val P
  | .arr v, .num t => .arr (v.map (thresholdCdf t))
  | _, _ => .err

def interpLenV : Val P → Val P → Val P
  | .arr c, .int n => .arr (interpOnLength c n.toNat)
  | _, _ => .err

def fitV (fam : Family P) : Val P → Val P
  | .arr x => .par (fam.fit x)
  | _ => .err

def cdfV (fam : Family P) : Val P → Val P → Val P
  | .arr x, .par p => .arr (x.map (fam.cdf p))
  | _, _ => .err

def ppfV (fam : Family P) : Val P → Val P → Val P
  | .arr q, .par p => .arr (q.map (fam.ppf p))
  | _, _ => .err

def parIdxV (proj : P → Nat → Rat) (i : Nat) : Val P → Val P
  | .par p => .num (proj p i)
  | _ => .err

def whereV : Val P → Val P → Val P → Val P
  | .mask m, .arr a, .arr b => .arr (List.zipWith (fun (c : Bool) (p : Rat × Rat) => if c then p.1 else p.2) m (a.zip b))
  | .mask m, .num a, .arr b => .arr (List.zipWith (fun (c : Bool) (y : Rat) => if c then a else y) m b)
  | .mask m, .arr a, .num b => .arr (List.zipWith (fun (c : Bool) (x : Rat) => if c then x else b) m a)
  | _, _, _ => .err

def setMaskV : Val P → Val P → Val P → Val P
  | .arr x, .mask m, .num v => .arr (Py.setWhere x m v)
  | _, _, _ => .err

def concat3V : Val P → Val P → Val P → Val P
  | .arr a, .arr b, .arr c => .arr (a ++ b ++ c)
  | _, _, _ => .err

def iteV : Val P → Val P → Val P → Val P
  | .bool c, a, b => if c then a else b
  | _, _, _ => .err

/-- `y[k:]`, `x[:k] = v`, `x[k:] = y` for a non-negative bound (a negative bound counts from the end in Python: not
    modelled, `err`); `x[k:] = y` is totalised (numpy raises unless `len(y) = len(x) - k`) -/
def sliceFromV : Val P → Val P → Val P
  | .arr y, .int k => if 0 ≤ k then .arr (y.drop k.toNat) else .err
  | _, _ => .err

def setSliceToV : Val P → Val P → Val P → Val P
  | .arr x, .int k, .num v => if 0 ≤ k then .arr (List.replicate (min k.toNat x.length) v ++ x.drop k.toNat) else .err
  | _, _, _ => .err

def setSliceFromV : Val P → Val P → Val P → Val P
  | .arr x, .int k, .arr y => if 0 ≤ k then .arr (x.take k.toNat ++ y) else .err
  | _, _, _ => .err

def uniformV (draws : List Rat) : Val P → Val P → Val P → Val P
  | .num _, .num _, .int n => .arr (draws.take n.toNat)
  | _, _, _ => .err

/-- the value of an expression under the environment and the values of the bindings made so far -/
def eval (env : Env P) (locs : List (Val P)) : Expr → Val P
  | .arg i => env.args.getD i .err
  | .loc k => locs.getD k .err
  | .num q => .num q
  | .setNum s => .num (env.num s)
  | .un op a => evalUn op (eval env locs a)
  | .bin op a b => evalBin op (eval env locs a) (eval env locs b)
  | .ecdf x y m => mapByV (ecdfOf env m) (eval env locs x) (eval env locs y)
  | .iecdf x p m => mapByV (iecdfOf env m) (eval env locs x) (eval env locs p)
  | .qmapExtrap x y v => qmapExtrapV (eval env locs x) (eval env locs y) (eval env locs v)
  | .thresh v t => threshV (eval env locs v) (eval env locs t)
  | .threshD v => threshV (eval env locs v) (.num defaultCdfThreshold)
  | .interpLen c n => interpLenV (eval env locs c) (eval env locs n)
  | .fit x => fitV env.fam (eval env locs x)
  | .fitKw x _ => fitV env.fam (eval env locs x)
  | .cdf x p => cdfV env.fam (eval env locs x) (eval env locs p)
  | .ppf q p => ppfV env.fam (eval env locs q) (eval env locs p)
  | .parIdx p i => parIdxV env.parIdx i (eval env locs p)
  | .where_ c a b => whereV (eval env locs c) (eval env locs a) (eval env locs b)
  | .setMask x m v => setMaskV (eval env locs x) (eval env locs m) (eval env locs v)
  | .concat3 a b c => concat3V (eval env locs a) (eval env locs b) (eval env locs c)
  | .uniform k lo hi n => uniformV (env.draws k) (eval env locs lo) (eval env locs hi) (eval env locs n)
  | .ite c a b => iteV (eval env locs c) (eval env locs a) (eval env locs b)
  | .sliceFrom y k => sliceFromV (eval env locs y) (eval env locs k)
  | .setSliceTo x k v => setSliceToV (eval env locs x) (eval env locs k) (eval env locs v)
  | .setSliceFrom x k y => setSliceFromV (eval env locs x) (eval env locs k) (eval env locs y)

/-! ### programs -/

inductive Cond where
  | strEq (setting lit : String)     -- `self.<setting> == "<lit>"`
  | flag (setting : String) (value : Bool)  -- `if self.<setting>:` taken / not taken
deriving Repr, DecidableEq

/-- a statement of a path: a binding `loc k := e` (k = number of bindings made before it), or a data-dependent
    `if c: raise cls(…)` -/
inductive Bind where
  | let_ (e : Expr)
  | raiseIf (c : Expr) (cls : String)
deriving Repr

structure Path where
  conds : List Cond
  binds : List Bind
  result : List Expr
  /-- `some cls`: the path ends in `raise cls(…)` (then `result = []`) -/
  raises : Option String
deriving Repr

structure Prog where
  /-- the parameters after `self`, in order -/
  params : List String
  /-- the leaves of the decision tree over the settings in depth-first order, taken branch first: the first path whose
      (positive) conditions hold is the one the code runs -/
  paths : List Path
deriving Repr

def Cond.holds (env : Env P) : Cond → Bool
  | .strEq s l => decide (env.str s = l)
  | .flag s b => env.flag s == b

def runBinds (env : Env P) : List Bind → List (Val P) → Except String (List (Val P))
  | [], locs => .ok locs
  | .let_ e :: bs, locs => runBinds env bs (locs ++ [eval env locs e])
  | .raiseIf c cls :: bs, locs =>
    match eval env locs c with
    | .bool true => .error cls
    | .bool false => runBinds env bs locs
    | _ => .error "ill-typed"

def Path.run (env : Env P) (p : Path) : Except String (List (Val P)) :=
  match runBinds env p.binds [] with
  | .error cls => .error cls
  | .ok locs => match p.raises with
    | some cls => .error cls
    | none => .ok (p.result.map (eval env locs))

def selectPath (env : Env P) : List Path → Option Path
  | [] => none
  | p :: ps => if p.conds.all (Cond.holds env) then some p else selectPath env ps

/-- the denotation of a program: the values it returns, or the exception class it raises
    (`"no-path"` cannot occur for an extracted program: the last leaf of every decision has no condition of its own) -/
def denote (prog : Prog) (env : Env P) : Except String (List (Val P)) :=
  match selectPath env prog.paths with
  | some p => p.run env
  | none => .error "no-path"

/-! ### the attribute strings of the typed settings of `Model/Debiasers.lean` -/

def deltaShiftStr : DeltaShift → String
  | .additive => "additive" | .multiplicative => "multiplicative" | .no_shift => "no_shift"

def detrendingStr : Detrending → String
  | .additive => "additive" | .multiplicative => "multiplicative" | .no_detrending => "no_detrending"

def trendPresStr : TrendPres → String
  | .absolute => "absolute" | .relative => "relative"

/-- `fit[i]` of a location–scale family's parameter tuple `(loc, scale)` -/
def locScaleIdx (p : Rat × Rat) (i : Nat) : Rat := if i = 0 then p.1 else p.2

/-! ### the expected programs

  Transcribed from /repo's source as of the pinned tree (each binding is annotated with a readable rendering; `vK` is
  `loc K`, parameters by name).  `Lemmas/GenDebWin.lean` proves that the programs regenerated on every run are these,
  and that these denote the hand-written transfer functions of `Model/Debiasers.lean`. -/
/-- `CDFt._apply_CDFt_mapping` (ibicus/debias/_cdft.py) -/
def cdft_apply_CDFt_mapping : Prog :=
  { params := ["obs", "cm_hist", "cm_future"],
    paths := [
      { conds := [.strEq "delta_shift" "additive"],
        binds := [
          -- v0 := (mean(obs) - mean(cm_hist))
          .let_ (.bin .sub (.un .mean (.arg 0)) (.un .mean (.arg 1))),
          -- v1 := (cm_hist + v0)
          .let_ (.bin .add (.arg 1) (.loc 0)),
          -- v2 := (cm_future + v0)
          .let_ (.bin .add (.arg 2) (.loc 0))
        ],
        result := [(.iecdf (.loc 2) (.ecdf (.loc 1) (.iecdf (.arg 0) (.ecdf (.loc 2) (.loc 2) (.setting "ecdf_method")) (.setting "iecdf_method")) (.setting "ecdf_method")) (.setting "iecdf_method"))],
          -- return iecdf(v2, ecdf(v1, iecdf(obs, ecdf(v2, v2, method=self.ecdf_method), method=self.iecdf_method), method=self.ecdf_method), method=self.iecdf_method)
        raises := none },
      { conds := [.strEq "delta_shift" "multiplicative"],
        binds := [
          -- v0 := (mean(obs) / mean(cm_hist))
          .let_ (.bin .div (.un .mean (.arg 0)) (.un .mean (.arg 1))),
          -- v1 := (cm_hist * v0)
          .let_ (.bin .mul (.arg 1) (.loc 0)),
          -- v2 := (cm_future * v0)
          .let_ (.bin .mul (.arg 2) (.loc 0))
        ],
        result := [(.iecdf (.loc 2) (.ecdf (.loc 1) (.iecdf (.arg 0) (.ecdf (.loc 2) (.loc 2) (.setting "ecdf_method")) (.setting "iecdf_method")) (.setting "ecdf_method")) (.setting "iecdf_method"))],
          -- return iecdf(v2, ecdf(v1, iecdf(obs, ecdf(v2, v2, method=self.ecdf_method), method=self.iecdf_method), method=self.ecdf_method), method=self.iecdf_method)
        raises := none },
      { conds := [.strEq "delta_shift" "no_shift"],
        binds := [
        ],
        result := [(.iecdf (.arg 2) (.ecdf (.arg 1) (.iecdf (.arg 0) (.ecdf (.arg 2) (.arg 2) (.setting "ecdf_method")) (.setting "iecdf_method")) (.setting "ecdf_method")) (.setting "iecdf_method"))],
          -- return iecdf(cm_future, ecdf(cm_hist, iecdf(obs, ecdf(cm_future, cm_future, method=self.ecdf_method), method=self.iecdf_method), method=self.ecdf_method), method=self.iecdf_method)
        raises := none },
      { conds := [],
        binds := [
        ],
        result := [],
        raises := some "ValueError" }
    ] }

/-- `ECDFM.apply_on_window` (ibicus/debias/_ecdfm.py) -/
def ecdfm_apply_on_window : Prog :=
  { params := ["obs", "cm_hist", "cm_future"],
    paths := [
      { conds := [],
        binds := [
          -- v0 := fit(obs)
          .let_ (.fit (.arg 0)),
          -- v1 := fit(cm_hist)
          .let_ (.fit (.arg 1)),
          -- v2 := fit(cm_future)
          .let_ (.fit (.arg 2)),
          -- v3 := thresh(cdf(cm_future, v2), self.cdf_threshold)
          .let_ (.thresh (.cdf (.arg 2) (.loc 2)) (.setNum "cdf_threshold"))
        ],
        result := [(.bin .sub (.bin .add (.arg 2) (.ppf (.loc 3) (.loc 0))) (.ppf (.loc 3) (.loc 1)))],
          -- return ((cm_future + ppf(v3, v0)) - ppf(v3, v1))
        raises := none }
    ] }

/-- `QuantileDeltaMapping._apply_debiasing_steps` (ibicus/debias/_quantile_delta_mapping.py) -/
def qdm_apply_debiasing_steps : Prog :=
  { params := ["cm_future", "fit_obs", "fit_cm_hist"],
    paths := [
      { conds := [.strEq "trend_preservation" "absolute", .flag "censor_values_to_zero" true],
        binds := [
          -- v0 := thresh(ecdf(cm_future, cm_future, method=self.ecdf_method), self.cdf_threshold)
          .let_ (.thresh (.ecdf (.arg 0) (.arg 0) (.setting "ecdf_method")) (.setNum "cdf_threshold")),
          -- v1 := ((cm_future + ppf(v0, fit_obs)) - ppf(v0, fit_cm_hist))
          .let_ (.bin .sub (.bin .add (.arg 0) (.ppf (.loc 0) (.arg 1))) (.ppf (.loc 0) (.arg 2))),
          -- v2 := setMask(v1, (v1 < self.censoring_threshold), 0)
          .let_ (.setMask (.loc 1) (.bin .lt (.loc 1) (.setNum "censoring_threshold")) (.num 0))
        ],
        result := [(.loc 2)],
          -- return v2
        raises := none },
      { conds := [.strEq "trend_preservation" "absolute", .flag "censor_values_to_zero" false],
        binds := [
          -- v0 := thresh(ecdf(cm_future, cm_future, method=self.ecdf_method), self.cdf_threshold)
          .let_ (.thresh (.ecdf (.arg 0) (.arg 0) (.setting "ecdf_method")) (.setNum "cdf_threshold")),
          -- v1 := ((cm_future + ppf(v0, fit_obs)) - ppf(v0, fit_cm_hist))
          .let_ (.bin .sub (.bin .add (.arg 0) (.ppf (.loc 0) (.arg 1))) (.ppf (.loc 0) (.arg 2)))
        ],
        result := [(.loc 1)],
          -- return v1
        raises := none },
      { conds := [.strEq "trend_preservation" "relative", .flag "censor_values_to_zero" true],
        binds := [
          -- v0 := thresh(ecdf(cm_future, cm_future, method=self.ecdf_method), self.cdf_threshold)
          .let_ (.thresh (.ecdf (.arg 0) (.arg 0) (.setting "ecdf_method")) (.setNum "cdf_threshold")),
          -- v1 := ((cm_future * ppf(v0, fit_obs)) / ppf(v0, fit_cm_hist))
          .let_ (.bin .div (.bin .mul (.arg 0) (.ppf (.loc 0) (.arg 1))) (.ppf (.loc 0) (.arg 2))),
          -- v2 := setMask(v1, (v1 < self.censoring_threshold), 0)
          .let_ (.setMask (.loc 1) (.bin .lt (.loc 1) (.setNum "censoring_threshold")) (.num 0))
        ],
        result := [(.loc 2)],
          -- return v2
        raises := none },
      { conds := [.strEq "trend_preservation" "relative", .flag "censor_values_to_zero" false],
        binds := [
          -- v0 := thresh(ecdf(cm_future, cm_future, method=self.ecdf_method), self.cdf_threshold)
          .let_ (.thresh (.ecdf (.arg 0) (.arg 0) (.setting "ecdf_method")) (.setNum "cdf_threshold")),
          -- v1 := ((cm_future * ppf(v0, fit_obs)) / ppf(v0, fit_cm_hist))
          .let_ (.bin .div (.bin .mul (.arg 0) (.ppf (.loc 0) (.arg 1))) (.ppf (.loc 0) (.arg 2)))
        ],
        result := [(.loc 1)],
          -- return v1
        raises := none },
      { conds := [],
        binds := [
          -- v0 := thresh(ecdf(cm_future, cm_future, method=self.ecdf_method), self.cdf_threshold)
          .let_ (.thresh (.ecdf (.arg 0) (.arg 0) (.setting "ecdf_method")) (.setNum "cdf_threshold"))
        ],
        result := [],
        raises := some "ValueError" }
    ] }

/-- `QuantileDeltaMapping._get_obs_and_cm_hist_fits` (ibicus/debias/_quantile_delta_mapping.py) -/
def qdm_get_obs_and_cm_hist_fits : Prog :=
  { params := ["obs", "cm_hist"],
    paths := [
      { conds := [],
        binds := [
          -- v0 := fit(obs)
          .let_ (.fit (.arg 0)),
          -- v1 := fit(cm_hist)
          .let_ (.fit (.arg 1))
        ],
        result := [(.loc 0), (.loc 1)],
          -- return v0
          -- return v1
        raises := none }
    ] }

/-- `QuantileMapping._standard_qm` (ibicus/debias/_quantile_mapping.py) -/
def qm_standard_qm : Prog :=
  { params := ["x", "obs", "cm_hist"],
    paths := [
      { conds := [.strEq "mapping_type" "parametric"],
        binds := [
          -- v0 := fit(obs)
          .let_ (.fit (.arg 1)),
          -- v1 := fit(cm_hist)
          .let_ (.fit (.arg 2))
        ],
        result := [(.ppf (.thresh (.cdf (.arg 0) (.loc 1)) (.setNum "cdf_threshold")) (.loc 0))],
          -- return ppf(thresh(cdf(x, v1), self.cdf_threshold), v0)
        raises := none },
      { conds := [.strEq "mapping_type" "nonparametric"],
        binds := [
        ],
        result := [(.qmapExtrap (.arg 2) (.arg 1) (.arg 0))],
          -- return qmapExtrap(cm_hist, obs, x)
        raises := none },
      { conds := [],
        binds := [
        ],
        result := [],
        raises := some "ValueError" }
    ] }

/-- `QuantileMapping.apply_on_window` (ibicus/debias/_quantile_mapping.py) -/
def qm_apply_on_window : Prog :=
  { params := ["obs", "cm_hist", "cm_future"],
    paths := [
      { conds := [.strEq "detrending" "additive", .strEq "mapping_type" "parametric"],
        binds := [
          -- v0 := (mean(cm_future) - mean(cm_hist))
          .let_ (.bin .sub (.un .mean (.arg 2)) (.un .mean (.arg 1))),
          -- v1 := fit(obs)
          .let_ (.fit (.arg 0)),
          -- v2 := fit(cm_hist)
          .let_ (.fit (.arg 1))
        ],
        result := [(.bin .add (.ppf (.thresh (.cdf (.bin .sub (.arg 2) (.loc 0)) (.loc 2)) (.setNum "cdf_threshold")) (.loc 1)) (.loc 0))],
          -- return (ppf(thresh(cdf((cm_future - v0), v2), self.cdf_threshold), v1) + v0)
        raises := none },
      { conds := [.strEq "detrending" "additive", .strEq "mapping_type" "nonparametric"],
        binds := [
          -- v0 := (mean(cm_future) - mean(cm_hist))
          .let_ (.bin .sub (.un .mean (.arg 2)) (.un .mean (.arg 1)))
        ],
        result := [(.bin .add (.qmapExtrap (.arg 1) (.arg 0) (.bin .sub (.arg 2) (.loc 0))) (.loc 0))],
          -- return (qmapExtrap(cm_hist, obs, (cm_future - v0)) + v0)
        raises := none },
      { conds := [.strEq "detrending" "additive"],
        binds := [
          -- v0 := (mean(cm_future) - mean(cm_hist))
          .let_ (.bin .sub (.un .mean (.arg 2)) (.un .mean (.arg 1)))
        ],
        result := [],
        raises := some "ValueError" },
      { conds := [.strEq "detrending" "multiplicative", .strEq "mapping_type" "parametric"],
        binds := [
          -- v0 := (mean(cm_future) / mean(cm_hist))
          .let_ (.bin .div (.un .mean (.arg 2)) (.un .mean (.arg 1))),
          -- v1 := fit(obs)
          .let_ (.fit (.arg 0)),
          -- v2 := fit(cm_hist)
          .let_ (.fit (.arg 1))
        ],
        result := [(.bin .mul (.ppf (.thresh (.cdf (.bin .div (.arg 2) (.loc 0)) (.loc 2)) (.setNum "cdf_threshold")) (.loc 1)) (.loc 0))],
          -- return (ppf(thresh(cdf((cm_future / v0), v2), self.cdf_threshold), v1) * v0)
        raises := none },
      { conds := [.strEq "detrending" "multiplicative", .strEq "mapping_type" "nonparametric"],
        binds := [
          -- v0 := (mean(cm_future) / mean(cm_hist))
          .let_ (.bin .div (.un .mean (.arg 2)) (.un .mean (.arg 1)))
        ],
        result := [(.bin .mul (.qmapExtrap (.arg 1) (.arg 0) (.bin .div (.arg 2) (.loc 0))) (.loc 0))],
          -- return (qmapExtrap(cm_hist, obs, (cm_future / v0)) * v0)
        raises := none },
      { conds := [.strEq "detrending" "multiplicative"],
        binds := [
          -- v0 := (mean(cm_future) / mean(cm_hist))
          .let_ (.bin .div (.un .mean (.arg 2)) (.un .mean (.arg 1)))
        ],
        result := [],
        raises := some "ValueError" },
      { conds := [.strEq "detrending" "no_detrending", .strEq "mapping_type" "parametric"],
        binds := [
          -- v0 := fit(obs)
          .let_ (.fit (.arg 0)),
          -- v1 := fit(cm_hist)
          .let_ (.fit (.arg 1))
        ],
        result := [(.ppf (.thresh (.cdf (.arg 2) (.loc 1)) (.setNum "cdf_threshold")) (.loc 0))],
          -- return ppf(thresh(cdf(cm_future, v1), self.cdf_threshold), v0)
        raises := none },
      { conds := [.strEq "detrending" "no_detrending", .strEq "mapping_type" "nonparametric"],
        binds := [
        ],
        result := [(.qmapExtrap (.arg 1) (.arg 0) (.arg 2))],
          -- return qmapExtrap(cm_hist, obs, cm_future)
        raises := none },
      { conds := [.strEq "detrending" "no_detrending"],
        binds := [
        ],
        result := [],
        raises := some "ValueError" },
      { conds := [],
        binds := [
        ],
        result := [],
        raises := some "ValueError" }
    ] }

/-- `ScaledDistributionMapping._apply_on_window_absolute_sdm` (ibicus/debias/_scaled_distribution_mapping.py) -/
def sdm_apply_on_window_absolute_sdm : Prog :=
  { params := ["obs", "cm_hist", "cm_future"],
    paths := [
      { conds := [],
        binds := [
          -- v0 := detrendConst(obs)
          .let_ (.un .detrendConst (.arg 0)),
          -- v1 := detrendConst(cm_hist)
          .let_ (.un .detrendConst (.arg 1)),
          -- v2 := detrendConst(cm_future)
          .let_ (.un .detrendConst (.arg 2)),
          -- v3 := fit(v0)
          .let_ (.fit (.loc 0)),
          -- v4 := fit(v1)
          .let_ (.fit (.loc 1)),
          -- v5 := fit(v2)
          .let_ (.fit (.loc 2)),
          -- v6 := argsort(v2)
          .let_ (.un .argsort (.loc 2)),
          -- v7 := threshD(sort(cdf(v0, v3)))
          .let_ (.threshD (.un .sort (.cdf (.loc 0) (.loc 3)))),
          -- v8 := threshD(sort(cdf(v1, v4)))
          .let_ (.threshD (.un .sort (.cdf (.loc 1) (.loc 4)))),
          -- v9 := threshD(cdf(v2, v5)[v6])
          .let_ (.threshD (.bin .getitem (.cdf (.loc 2) (.loc 5)) (.loc 6))),
          -- v10 := interpLen(v7, size(cm_future))
          .let_ (.interpLen (.loc 7) (.un .size (.arg 2))),
          -- v11 := interpLen(v8, size(cm_future))
          .let_ (.interpLen (.loc 8) (.un .size (.arg 2))),
          -- v12 := (((ppf(v9, v5) - ppf(v9, v4)) * v3[1]) / v4[1])
          .let_ (.bin .div (.bin .mul (.bin .sub (.ppf (.loc 9) (.loc 5)) (.ppf (.loc 9) (.loc 4))) (.parIdx (.loc 3) 1)) (.parIdx (.loc 4) 1)),
          -- v13 := (1 / (1/2 - abs((v10 - 1/2))))
          .let_ (.bin .div (.num 1) (.bin .sub (.num (1/2)) (.un .abs (.bin .sub (.loc 10) (.num (1/2)))))),
          -- v14 := (1 / (1/2 - abs((v11 - 1/2))))
          .let_ (.bin .div (.num 1) (.bin .sub (.num (1/2)) (.un .abs (.bin .sub (.loc 11) (.num (1/2)))))),
          -- v15 := (1 / (1/2 - abs((v9 - 1/2))))
          .let_ (.bin .div (.num 1) (.bin .sub (.num (1/2)) (.un .abs (.bin .sub (.loc 9) (.num (1/2)))))),
          -- v16 := maximum(1, ((v13 * v15) / v14))
          .let_ (.bin .maximum (.num 1) (.bin .div (.bin .mul (.loc 13) (.loc 15)) (.loc 14))),
          -- v17 := threshD((1/2 + (sign((v10 - 1/2)) * abs((1/2 - (1 / v16))))))
          .let_ (.threshD (.bin .add (.num (1/2)) (.bin .mul (.un .sign (.bin .sub (.loc 10) (.num (1/2)))) (.un .abs (.bin .sub (.num (1/2)) (.bin .div (.num 1) (.loc 16))))))),
          -- v18 := (ppf(v17, v3) + v12)
          .let_ (.bin .add (.ppf (.loc 17) (.loc 3)) (.loc 12)),
          -- v19 := (cm_future - v2)
          .let_ (.bin .sub (.arg 2) (.loc 2)),
          -- v20 := (mean(cm_hist) - mean(obs))
          .let_ (.bin .sub (.un .mean (.arg 1)) (.un .mean (.arg 0))),
          -- v21 := argsort(v6)
          .let_ (.un .argsort (.loc 6))
        ],
        result := [(.bin .sub (.bin .add (.bin .getitem (.loc 18) (.loc 21)) (.loc 19)) (.loc 20))],
          -- return ((v18[v21] + v19) - v20)
        raises := none }
    ] }

/-- `CDFt._apply_debiasing_steps` (ibicus/debias/_cdft.py) -/
def cdft_apply_debiasing_steps : Prog :=
  { params := ["obs", "cm_hist", "cm_future"],
    paths := [
      { conds := [.flag "SSR" true, .strEq "delta_shift" "additive"],
        binds := [
          -- v0 := concat3(obs[(obs > 0)], cm_hist[(cm_hist > 0)], cm_future[(cm_future > 0)])
          .let_ (.concat3 (.bin .getitem (.arg 0) (.bin .gt (.arg 0) (.num 0))) (.bin .getitem (.arg 1) (.bin .gt (.arg 1) (.num 0))) (.bin .getitem (.arg 2) (.bin .gt (.arg 2) (.num 0)))),
          -- v1 := minOr0(v0)
          .let_ (.un .minOr0 (.loc 0)),
          -- v2 := where((obs == 0), uniform#0(0, v1, size(obs)), obs)
          .let_ (.where_ (.bin .eq (.arg 0) (.num 0)) (.uniform 0 (.num 0) (.loc 1) (.un .size (.arg 0))) (.arg 0)),
          -- v3 := where((cm_hist == 0), uniform#1(0, v1, size(cm_hist)), cm_hist)
          .let_ (.where_ (.bin .eq (.arg 1) (.num 0)) (.uniform 1 (.num 0) (.loc 1) (.un .size (.arg 1))) (.arg 1)),
          -- v4 := where((cm_future == 0), uniform#2(0, v1, size(cm_future)), cm_future)
          .let_ (.where_ (.bin .eq (.arg 2) (.num 0)) (.uniform 2 (.num 0) (.loc 1) (.un .size (.arg 2))) (.arg 2)),
          -- v5 := (mean(v2) - mean(v3))
          .let_ (.bin .sub (.un .mean (.loc 2)) (.un .mean (.loc 3))),
          -- v6 := (v3 + v5)
          .let_ (.bin .add (.loc 3) (.loc 5)),
          -- v7 := (v4 + v5)
          .let_ (.bin .add (.loc 4) (.loc 5)),
          -- v8 := iecdf(v7, ecdf(v6, iecdf(v2, ecdf(v7, v7, method=self.ecdf_method), method=self.iecdf_method), method=self.ecdf_method), method=self.iecdf_method)
          .let_ (.iecdf (.loc 7) (.ecdf (.loc 6) (.iecdf (.loc 2) (.ecdf (.loc 7) (.loc 7) (.setting "ecdf_method")) (.setting "iecdf_method")) (.setting "ecdf_method")) (.setting "iecdf_method")),
          -- v9 := where((v8 < v1), 0, v8)
          .let_ (.where_ (.bin .lt (.loc 8) (.loc 1)) (.num 0) (.loc 8))
        ],
        result := [(.loc 9)],
          -- return v9
        raises := none },
      { conds := [.flag "SSR" true, .strEq "delta_shift" "multiplicative"],
        binds := [
          -- v0 := concat3(obs[(obs > 0)], cm_hist[(cm_hist > 0)], cm_future[(cm_future > 0)])
          .let_ (.concat3 (.bin .getitem (.arg 0) (.bin .gt (.arg 0) (.num 0))) (.bin .getitem (.arg 1) (.bin .gt (.arg 1) (.num 0))) (.bin .getitem (.arg 2) (.bin .gt (.arg 2) (.num 0)))),
          -- v1 := minOr0(v0)
          .let_ (.un .minOr0 (.loc 0)),
          -- v2 := where((obs == 0), uniform#0(0, v1, size(obs)), obs)
          .let_ (.where_ (.bin .eq (.arg 0) (.num 0)) (.uniform 0 (.num 0) (.loc 1) (.un .size (.arg 0))) (.arg 0)),
          -- v3 := where((cm_hist == 0), uniform#1(0, v1, size(cm_hist)), cm_hist)
          .let_ (.where_ (.bin .eq (.arg 1) (.num 0)) (.uniform 1 (.num 0) (.loc 1) (.un .size (.arg 1))) (.arg 1)),
          -- v4 := where((cm_future == 0), uniform#2(0, v1, size(cm_future)), cm_future)
          .let_ (.where_ (.bin .eq (.arg 2) (.num 0)) (.uniform 2 (.num 0) (.loc 1) (.un .size (.arg 2))) (.arg 2)),
          -- v5 := (mean(v2) / mean(v3))
          .let_ (.bin .div (.un .mean (.loc 2)) (.un .mean (.loc 3))),
          -- v6 := (v3 * v5)
          .let_ (.bin .mul (.loc 3) (.loc 5)),
          -- v7 := (v4 * v5)
          .let_ (.bin .mul (.loc 4) (.loc 5)),
          -- v8 := iecdf(v7, ecdf(v6, iecdf(v2, ecdf(v7, v7, method=self.ecdf_method), method=self.iecdf_method), method=self.ecdf_method), method=self.iecdf_method)
          .let_ (.iecdf (.loc 7) (.ecdf (.loc 6) (.iecdf (.loc 2) (.ecdf (.loc 7) (.loc 7) (.setting "ecdf_method")) (.setting "iecdf_method")) (.setting "ecdf_method")) (.setting "iecdf_method")),
          -- v9 := where((v8 < v1), 0, v8)
          .let_ (.where_ (.bin .lt (.loc 8) (.loc 1)) (.num 0) (.loc 8))
        ],
        result := [(.loc 9)],
          -- return v9
        raises := none },
      { conds := [.flag "SSR" true, .strEq "delta_shift" "no_shift"],
        binds := [
          -- v0 := concat3(obs[(obs > 0)], cm_hist[(cm_hist > 0)], cm_future[(cm_future > 0)])
          .let_ (.concat3 (.bin .getitem (.arg 0) (.bin .gt (.arg 0) (.num 0))) (.bin .getitem (.arg 1) (.bin .gt (.arg 1) (.num 0))) (.bin .getitem (.arg 2) (.bin .gt (.arg 2) (.num 0)))),
          -- v1 := minOr0(v0)
          .let_ (.un .minOr0 (.loc 0)),
          -- v2 := where((obs == 0), uniform#0(0, v1, size(obs)), obs)
          .let_ (.where_ (.bin .eq (.arg 0) (.num 0)) (.uniform 0 (.num 0) (.loc 1) (.un .size (.arg 0))) (.arg 0)),
          -- v3 := where((cm_hist == 0), uniform#1(0, v1, size(cm_hist)), cm_hist)
          .let_ (.where_ (.bin .eq (.arg 1) (.num 0)) (.uniform 1 (.num 0) (.loc 1) (.un .size (.arg 1))) (.arg 1)),
          -- v4 := where((cm_future == 0), uniform#2(0, v1, size(cm_future)), cm_future)
          .let_ (.where_ (.bin .eq (.arg 2) (.num 0)) (.uniform 2 (.num 0) (.loc 1) (.un .size (.arg 2))) (.arg 2)),
          -- v5 := iecdf(v4, ecdf(v3, iecdf(v2, ecdf(v4, v4, method=self.ecdf_method), method=self.iecdf_method), method=self.ecdf_method), method=self.iecdf_method)
          .let_ (.iecdf (.loc 4) (.ecdf (.loc 3) (.iecdf (.loc 2) (.ecdf (.loc 4) (.loc 4) (.setting "ecdf_method")) (.setting "iecdf_method")) (.setting "ecdf_method")) (.setting "iecdf_method")),
          -- v6 := where((v5 < v1), 0, v5)
          .let_ (.where_ (.bin .lt (.loc 5) (.loc 1)) (.num 0) (.loc 5))
        ],
        result := [(.loc 6)],
          -- return v6
        raises := none },
      { conds := [.flag "SSR" true],
        binds := [
          -- v0 := concat3(obs[(obs > 0)], cm_hist[(cm_hist > 0)], cm_future[(cm_future > 0)])
          .let_ (.concat3 (.bin .getitem (.arg 0) (.bin .gt (.arg 0) (.num 0))) (.bin .getitem (.arg 1) (.bin .gt (.arg 1) (.num 0))) (.bin .getitem (.arg 2) (.bin .gt (.arg 2) (.num 0)))),
          -- v1 := minOr0(v0)
          .let_ (.un .minOr0 (.loc 0)),
          -- v2 := where((obs == 0), uniform#0(0, v1, size(obs)), obs)
          .let_ (.where_ (.bin .eq (.arg 0) (.num 0)) (.uniform 0 (.num 0) (.loc 1) (.un .size (.arg 0))) (.arg 0)),
          -- v3 := where((cm_hist == 0), uniform#1(0, v1, size(cm_hist)), cm_hist)
          .let_ (.where_ (.bin .eq (.arg 1) (.num 0)) (.uniform 1 (.num 0) (.loc 1) (.un .size (.arg 1))) (.arg 1)),
          -- v4 := where((cm_future == 0), uniform#2(0, v1, size(cm_future)), cm_future)
          .let_ (.where_ (.bin .eq (.arg 2) (.num 0)) (.uniform 2 (.num 0) (.loc 1) (.un .size (.arg 2))) (.arg 2))
        ],
        result := [],
        raises := some "ValueError" },
      { conds := [.flag "SSR" false, .strEq "delta_shift" "additive"],
        binds := [
          -- v0 := (mean(obs) - mean(cm_hist))
          .let_ (.bin .sub (.un .mean (.arg 0)) (.un .mean (.arg 1))),
          -- v1 := (cm_hist + v0)
          .let_ (.bin .add (.arg 1) (.loc 0)),
          -- v2 := (cm_future + v0)
          .let_ (.bin .add (.arg 2) (.loc 0)),
          -- v3 := iecdf(v2, ecdf(v1, iecdf(obs, ecdf(v2, v2, method=self.ecdf_method), method=self.iecdf_method), method=self.ecdf_method), method=self.iecdf_method)
          .let_ (.iecdf (.loc 2) (.ecdf (.loc 1) (.iecdf (.arg 0) (.ecdf (.loc 2) (.loc 2) (.setting "ecdf_method")) (.setting "iecdf_method")) (.setting "ecdf_method")) (.setting "iecdf_method"))
        ],
        result := [(.loc 3)],
          -- return v3
        raises := none },
      { conds := [.flag "SSR" false, .strEq "delta_shift" "multiplicative"],
        binds := [
          -- v0 := (mean(obs) / mean(cm_hist))
          .let_ (.bin .div (.un .mean (.arg 0)) (.un .mean (.arg 1))),
          -- v1 := (cm_hist * v0)
          .let_ (.bin .mul (.arg 1) (.loc 0)),
          -- v2 := (cm_future * v0)
          .let_ (.bin .mul (.arg 2) (.loc 0)),
          -- v3 := iecdf(v2, ecdf(v1, iecdf(obs, ecdf(v2, v2, method=self.ecdf_method), method=self.iecdf_method), method=self.ecdf_method), method=self.iecdf_method)
          .let_ (.iecdf (.loc 2) (.ecdf (.loc 1) (.iecdf (.arg 0) (.ecdf (.loc 2) (.loc 2) (.setting "ecdf_method")) (.setting "iecdf_method")) (.setting "ecdf_method")) (.setting "iecdf_method"))
        ],
        result := [(.loc 3)],
          -- return v3
        raises := none },
      { conds := [.flag "SSR" false, .strEq "delta_shift" "no_shift"],
        binds := [
          -- v0 := iecdf(cm_future, ecdf(cm_hist, iecdf(obs, ecdf(cm_future, cm_future, method=self.ecdf_method), method=self.iecdf_method), method=self.ecdf_method), method=self.iecdf_method)
          .let_ (.iecdf (.arg 2) (.ecdf (.arg 1) (.iecdf (.arg 0) (.ecdf (.arg 2) (.arg 2) (.setting "ecdf_method")) (.setting "iecdf_method")) (.setting "ecdf_method")) (.setting "iecdf_method"))
        ],
        result := [(.loc 0)],
          -- return v0
        raises := none },
      { conds := [.flag "SSR" false],
        binds := [
        ],
        result := [],
        raises := some "ValueError" }
    ] }

/-- `ScaledDistributionMapping._apply_on_window_relative_sdm` (ibicus/debias/_scaled_distribution_mapping.py) -/
def sdm_apply_on_window_relative_sdm : Prog :=
  { params := ["obs", "cm_hist", "cm_future"],
    paths := [
      { conds := [],
        binds := [
          -- v0 := sort(obs)
          .let_ (.un .sort (.arg 0)),
          -- v1 := sort(cm_hist)
          .let_ (.un .sort (.arg 1)),
          -- v2 := argsort(cm_future)
          .let_ (.un .argsort (.arg 2)),
          -- v3 := cm_future[v2]
          .let_ (.bin .getitem (.arg 2) (.loc 2)),
          -- v4 := (v0 >= self.pr_lower_threshold)
          .let_ (.bin .ge (.loc 0) (.setNum "pr_lower_threshold")),
          -- v5 := (v1 >= self.pr_lower_threshold)
          .let_ (.bin .ge (.loc 1) (.setNum "pr_lower_threshold")),
          -- v6 := (v3 >= self.pr_lower_threshold)
          .let_ (.bin .ge (.loc 3) (.setNum "pr_lower_threshold")),
          -- v7 := v0[v4]
          .let_ (.bin .getitem (.loc 0) (.loc 4)),
          -- v8 := v1[v5]
          .let_ (.bin .getitem (.loc 1) (.loc 5)),
          -- v9 := v3[v6]
          .let_ (.bin .getitem (.loc 3) (.loc 6)),
          -- if (((size(v7) == 0) or (size(v8) == 0)) or (size(v9) == 0)): raise ValueError
          .raiseIf (.bin .or (.bin .or (.bin .eq (.un .size (.loc 7)) (.num 0)) (.bin .eq (.un .size (.loc 8)) (.num 0))) (.bin .eq (.un .size (.loc 9)) (.num 0))) "ValueError",
          -- v10 := setMask(v0, lnot(v4), 0)
          .let_ (.setMask (.loc 0) (.un .lnot (.loc 4)) (.num 0)),
          -- v11 := setMask(v1, lnot(v5), 0)
          .let_ (.setMask (.loc 1) (.un .lnot (.loc 5)) (.num 0)),
          -- v12 := round(((sum(v6) * (sum(v4) / size(v4))) / (sum(v5) / size(v5))))
          .let_ (.un .round (.bin .div (.bin .mul (.un .sum (.loc 6)) (.bin .div (.un .sum (.loc 4)) (.un .size (.loc 4)))) (.bin .div (.un .sum (.loc 5)) (.un .size (.loc 5))))),
          -- v13 := ite((v12 > sum(v6)), sum(v6), v12)
          .let_ (.ite (.bin .gt (.loc 12) (.un .sum (.loc 6))) (.un .sum (.loc 6)) (.loc 12)),
          -- v14 := fit(v7, **self.distribution_fit_kwargs)
          .let_ (.fitKw (.loc 7) "distribution_fit_kwargs"),
          -- v15 := fit(v8, **self.distribution_fit_kwargs)
          .let_ (.fitKw (.loc 8) "distribution_fit_kwargs"),
          -- v16 := fit(v9, **self.distribution_fit_kwargs)
          .let_ (.fitKw (.loc 9) "distribution_fit_kwargs"),
          -- v17 := thresh(cdf(v7, v14), self.cdf_threshold)
          .let_ (.thresh (.cdf (.loc 7) (.loc 14)) (.setNum "cdf_threshold")),
          -- v18 := thresh(cdf(v8, v15), self.cdf_threshold)
          .let_ (.thresh (.cdf (.loc 8) (.loc 15)) (.setNum "cdf_threshold")),
          -- v19 := thresh(cdf(v9, v16), self.cdf_threshold)
          .let_ (.thresh (.cdf (.loc 9) (.loc 16)) (.setNum "cdf_threshold")),
          -- v20 := interpLen(v17, size(v19))
          .let_ (.interpLen (.loc 17) (.un .size (.loc 19))),
          -- v21 := interpLen(v18, size(v19))
          .let_ (.interpLen (.loc 18) (.un .size (.loc 19))),
          -- v22 := (ppf(v19, v16) / ppf(v19, v15))
          .let_ (.bin .div (.ppf (.loc 19) (.loc 16)) (.ppf (.loc 19) (.loc 15))),
          -- v23 := (1 / (1 - v20))
          .let_ (.bin .div (.num 1) (.bin .sub (.num 1) (.loc 20))),
          -- v24 := (1 / (1 - v21))
          .let_ (.bin .div (.num 1) (.bin .sub (.num 1) (.loc 21))),
          -- v25 := (1 / (1 - v19))
          .let_ (.bin .div (.num 1) (.bin .sub (.num 1) (.loc 19))),
          -- v26 := maximum(1, ((v23 * v25) / v24))
          .let_ (.bin .maximum (.num 1) (.bin .div (.bin .mul (.loc 23) (.loc 25)) (.loc 24))),
          -- v27 := threshD((1 - (1 / v26)))
          .let_ (.threshD (.bin .sub (.num 1) (.bin .div (.num 1) (.loc 26)))),
          -- v28 := (ppf(v27, v14) * v22)
          .let_ (.bin .mul (.ppf (.loc 27) (.loc 14)) (.loc 22)),
          -- v29 := setSliceTo(v3, (size(v3) - v13), 0)
          .let_ (.setSliceTo (.loc 3) (.bin .sub (.un .size (.loc 3)) (.loc 13)) (.num 0)),
          -- v30 := setSliceFrom(v29, (size(v29) - v13), sliceFrom(v28, (size(v28) - v13)))
          .let_ (.setSliceFrom (.loc 29) (.bin .sub (.un .size (.loc 29)) (.loc 13)) (.sliceFrom (.loc 28) (.bin .sub (.un .size (.loc 28)) (.loc 13)))),
          -- v31 := argsort(v2)
          .let_ (.un .argsort (.loc 2))
        ],
        result := [(.bin .getitem (.loc 30) (.loc 31))],
          -- return v30[v31]
        raises := none }
    ] }


end Model.NpDeb
