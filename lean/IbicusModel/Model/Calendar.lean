/-
  Layer K, calendar part: the proleptic Gregorian calendar as far as ibicus uses it — `ibicus.utils.day_of_year`,
  `month`, `year`, `season` (and through them every seasonal window, time group and annual statistic) and
  `create_array_of_consecutive_dates` (the calendar the library infers when a time array is omitted: consecutive days
  from 1950-01-01).  The library delegates the arithmetic to Python's `datetime` (`timetuple().tm_yday`, or
  `(x - type(x)(year, 1, 1)).days + 1` for date types without `timetuple`); this model is tied to that behaviour by the
  correspondence check of `harness/c07.py` / `harness/c08.py` (driver `DrvCalendar`), not by translation.
  Import-free, executable; dates are `(y : Int, m : Nat, d : Nat)`.
-/
namespace Model.Calendar

/-- Gregorian leap-year rule -/
def isLeap (y : Int) : Bool := (y % 4 == 0 && y % 100 != 0) || y % 400 == 0

/-- number of days of month `m` (1..12); 0 for anything else -/
def monthLen (leap : Bool) (m : Nat) : Nat :=
  if m = 2 then (if leap then 29 else 28)
  else if m = 4 ∨ m = 6 ∨ m = 9 ∨ m = 11 then 30
  else if 1 ≤ m ∧ m ≤ 12 then 31
  else 0

def yearLen (leap : Bool) : Nat := if leap then 366 else 365

/-- days of the year before the first of month `m` -/
def daysBefore (leap : Bool) (m : Nat) : Nat := ((List.range (m - 1)).map (fun k => monthLen leap (k + 1))).sum

/-- a date of the calendar -/
def valid (y : Int) (m d : Nat) : Bool := decide (1 ≤ m ∧ m ≤ 12 ∧ 1 ≤ d ∧ d ≤ monthLen (isLeap y) m)

/-- `ibicus.utils.day_of_year` on one date -/
def dayOfYear (y : Int) (m d : Nat) : Nat := daysBefore (isLeap y) m + d

/-- the calendar day following `(y, m, d)` -/
def next (y : Int) (m d : Nat) : Int × Nat × Nat :=
  if d < monthLen (isLeap y) m then (y, m, d + 1)
  else if m < 12 then (y, m + 1, 1)
  else (y + 1, 1, 1)

/-- `n` consecutive days starting with `(y, m, d)` (`create_array_of_consecutive_dates`) -/
def run : Nat → Int → Nat → Nat → List (Int × Nat × Nat)
  | 0, _, _, _ => []
  | n + 1, y, m, d => (y, m, d) :: (let p := next y m d; run n p.1 p.2.1 p.2.2)

/-- the calendar the library infers for a series of `n` steps without a time array -/
def inferred (n : Nat) : List (Int × Nat × Nat) := run n 1950 1 1

/-- inverse of `dayOfYear` within a year: the `(month, day)` of the `k`-th day of a (leap / non-leap) year -/
def ofDoyFrom (leap : Bool) : Nat → Nat → Nat → Nat × Nat
  | 0, m, k => (m, k)
  | fuel + 1, m, k => if k ≤ monthLen leap m then (m, k) else ofDoyFrom leap fuel (m + 1) (k - monthLen leap m)

def ofDoy (leap : Bool) (k : Nat) : Nat × Nat := ofDoyFrom leap 11 1 k

/-- `ibicus.utils.season` on a month number (`none`: not a month) -/
def season (m : Nat) : Option String :=
  if m = 3 ∨ m = 4 ∨ m = 5 then some "Spring"
  else if m = 6 ∨ m = 7 ∨ m = 8 then some "Summer"
  else if m = 9 ∨ m = 10 ∨ m = 11 then some "Autumn"
  else if m = 12 ∨ m = 1 ∨ m = 2 then some "Winter"
  else none

end Model.Calendar
