/-
  Layer N, part 2: distribution families as *parameters* of the parametric debiasers
  (DESIGN.md §2.1).  A family is a triple `fit / cdf / ppf` — exactly the interface of
  `ibicus.utils.StatisticalModel` (and of the `scipy.stats` distributions the debiasers accept).
  Laws are *not* fields: they are separate `Prop` structures, proved for the executable rational
  test-double `ratSigmoid` (in `Lemmas/Family.lean`) and assumed for scipy's families (trusted base).
  Import-free, executable.
-/
import IbicusModel.Model.Stats

namespace Model.Family
open Model.Stats

/-- a distribution family with parameter type `P`: `fit : data → P`, `cdf p x`, `ppf p q`
    (`distribution.fit(x)`, `distribution.cdf(x, *fit)`, `distribution.ppf(q, *fit)`) -/
structure Family (P : Type) where
  fit : List Rat → P
  cdf : P → Rat → Rat
  ppf : P → Rat → Rat

/-- a location–scale family: standard cdf `G`, its inverse `Ginv`, and the two estimators.
    The parameter tuple is the pair `(loc, scale)` — `fit[0]`, `fit[1]` in the Python code
    (`ScaledDistributionMapping` reads `fit[1]` as the scale). -/
structure LocScaleFam where
  G : Rat → Rat
  Ginv : Rat → Rat
  loc : List Rat → Rat
  scale : List Rat → Rat

namespace LocScaleFam

def fit (F : LocScaleFam) (xs : List Rat) : Rat × Rat := (F.loc xs, F.scale xs)
/-- `cdf(x, loc, scale) = G((x - loc) / scale)` -/
def cdf (F : LocScaleFam) (p : Rat × Rat) (x : Rat) : Rat := F.G ((x - p.1) / p.2)
/-- `ppf(q, loc, scale) = loc + scale * Ginv(q)` -/
def ppf (F : LocScaleFam) (p : Rat × Rat) (q : Rat) : Rat := p.1 + p.2 * F.Ginv q

/-- a location–scale family seen as a general family with `P = Rat × Rat` -/
def toFamily (F : LocScaleFam) : Family (Rat × Rat) :=
  { fit := F.fit, cdf := F.cdf, ppf := F.ppf }

end LocScaleFam

/-- `a • xs + b` -/
def affine (a b : Rat) (xs : List Rat) : List Rat := xs.map (fun x => a * x + b)

/-- The laws of a (symmetric) location–scale family that the property theorems use.  Guards are explicit:
    the estimator laws need a non-empty sample; everything that divides by the scale carries `scale ≠ 0`
    (resp. `0 < scale`) as a hypothesis *of the derived lemma* (see `Lemmas/Family.lean`), not here. -/
structure LocScaleLaws (F : LocScaleFam) : Prop where
  /-- the standard cdf is strictly increasing -/
  G_strictMono : ∀ a b : Rat, a < b → F.G a < F.G b
  /-- … with values strictly inside `(0, 1)` -/
  G_pos : ∀ z : Rat, 0 < F.G z
  G_lt_one : ∀ z : Rat, F.G z < 1
  /-- `ppf ∘ cdf = id` (standardised) -/
  Ginv_G : ∀ z : Rat, F.Ginv (F.G z) = z
  /-- `cdf ∘ ppf = id` on `(0, 1)` (standardised) -/
  G_Ginv : ∀ p : Rat, 0 < p → p < 1 → F.G (F.Ginv p) = p
  /-- symmetry about the location -/
  G_zero : F.G 0 = 1 / 2
  G_neg : ∀ z : Rat, F.G (-z) = 1 - F.G z
  Ginv_symm : ∀ q : Rat, F.Ginv (1 - q) = - F.Ginv q
  /-- equivariance of the estimators under `x ↦ a x + b`, `a > 0` -/
  loc_affine : ∀ (a b : Rat) (xs : List Rat), 0 < a → xs ≠ [] → F.loc (affine a b xs) = a * F.loc xs + b
  scale_affine : ∀ (a b : Rat) (xs : List Rat), 0 < a → xs ≠ [] → F.scale (affine a b xs) = a * F.scale xs
  /-- the estimators do not depend on the order of the sample -/
  loc_perm : ∀ xs ys : List Rat, xs.Perm ys → F.loc xs = F.loc ys
  scale_perm : ∀ xs ys : List Rat, xs.Perm ys → F.scale xs = F.scale ys
  /-- the scale estimate is never negative -/
  scale_nonneg : ∀ xs : List Rat, 0 ≤ F.scale xs

/-- a multiplicative (scale-only) family `cdf(x; s) = G(x / s)`, `ppf(q; s) = s * Ginv q` — the shape of the
    gamma-like families with `floc = 0` restricted to a fixed shape parameter; used only to state the
    `relative` formulas' laws.  (Precipitation models — hurdle, censored — are modelled elsewhere.) -/
structure ScaleFam where
  G : Rat → Rat
  Ginv : Rat → Rat
  scale : List Rat → Rat

namespace ScaleFam
def toFamily (F : ScaleFam) : Family Rat :=
  { fit := F.scale, cdf := fun s x => F.G (x / s), ppf := fun s q => s * F.Ginv q }
end ScaleFam

structure ScaleLaws (F : ScaleFam) : Prop where
  G_strictMono : ∀ a b : Rat, 0 ≤ a → a < b → F.G a < F.G b
  Ginv_G : ∀ z : Rat, 0 < z → F.Ginv (F.G z) = z
  G_Ginv : ∀ p : Rat, 0 < p → p < 1 → F.G (F.Ginv p) = p
  Ginv_pos : ∀ p : Rat, 0 < p → p < 1 → 0 < F.Ginv p
  scale_mul : ∀ (k : Rat) (xs : List Rat), 0 < k → xs ≠ [] → F.scale (xs.map (k * ·)) = k * F.scale xs
  scale_perm : ∀ xs ys : List Rat, xs.Perm ys → F.scale xs = F.scale ys
  scale_pos : ∀ xs : List Rat, xs ≠ [] → (∀ x ∈ xs, 0 < x) → 0 < F.scale xs

/-! ### The executable rational test-double `RatSigmoid` (harness/families.py implements the same formulas) -/

/-- `G(z) = (1 + z / (1 + |z|)) / 2` -/
def sigG (z : Rat) : Rat := (1 + z / (1 + Py.absQ z)) / 2
/-- `G⁻¹(p) = (2p − 1) / (1 − |2p − 1|)` -/
def sigGinv (p : Rat) : Rat := (2 * p - 1) / (1 - Py.absQ (2 * p - 1))
/-- mean absolute deviation about the mean -/
def meanAbsDev (xs : List Rat) : Rat := mean (xs.map (fun x => Py.absQ (x - mean xs)))

def ratSigmoid : LocScaleFam :=
  { G := sigG, Ginv := sigGinv, loc := mean, scale := meanAbsDev }

/-- a rational scale family for the `relative` formulas: `G(z) = z / (1 + z)` on `z ≥ 0`,
    `Ginv p = p / (1 − p)`, scale = the mean -/
def ratOdds : ScaleFam :=
  { G := fun z => z / (1 + z), Ginv := fun p => p / (1 - p), scale := mean }

end Model.Family
