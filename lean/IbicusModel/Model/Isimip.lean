/-
  Layer N: the per-window pipeline of `ibicus.debias.ISIMIP` (`ibicus/debias/_isimip.py`):
  `_apply_on_window` = `step2 … step7`, and the scaling by the annual cycle of upper bounds (`step1`/`step8`).
  Hand-written, import-free (other `Model/` files only), executable, exact rational arithmetic
  (float rounding is not modelled).  The definitions follow the code's order of operations.

  What is a *parameter* (never re-implemented):
  * the distribution family (`IsiFamily`: `fit` with the fixed `floc`/`fscale` arguments step 6 passes, `cdf`, `ppf`;
    `fit = none` models "the fit raised", which step 6 catches) — executable instance `ratSigmoid`;
  * `Oracles`: the `linregress` p-value decisions (`p < 0.05`) of step 3 (the slope IS modelled: it is rational),
    the Kolmogorov–Smirnov decision of step 6, `t ↦ cos(t·π/8)` of the `mixed` trend transfer,
    `scipy.special.logit` / `expit` and `np.log(10)` of the event likelihood adjustment;
  * `Draws`: every call of `np.random.uniform` / `np.random.random`, as the list of values the call returned.

  Settings are `Cfg` (mirrors the attrs fields). Bounds / thresholds are `ExtRat` (−∞ | finite | +∞) so that the
  `has_*` properties and comparisons with infinite thresholds are the code's.

  Errors: `Except String`.  Strings without prefix are Python exception class names (`"ValueError"`);
  `"unmodelled:…"` marks inputs on which the code computes with `inf`/`nan`/empty arrays — outside the model's domain
  (the model does not claim anything about them):
    `unmodelled:NonFiniteBound`  — `bounded` trend transfer with an infinite bound; an infinite bound written into the result;
                                   an infinite threshold used as `floc`/`fscale`;
    `unmodelled:EmptySample`     — `_step5_transfer_trend` on an empty sample;
    `unmodelled:DrawsLength`     — a `Draws` field whose length is not the size the code requests;
    `unmodelled:MissingValues`   — missing values with `impute_missing_values = False` (NaN would propagate).
  Not modelled at all: `ecdf_method = "kernel_density"` (histogram bins are an oracle of `Model.Stats.ecdfHist1`,
  not wired in here), NaN/inf data when `impute_missing_values = False`, the `np.nan in fit` test of step 6,
  in-place mutation of the caller's arrays (steps 2 and 4 write into their arguments).

  Sort stability: `argsort` / `rankOf` of `Model.Stats` are the *stable* sort; numpy's default is not, so wherever equal
  values are ranked (step 4 re-insertion, step 6 which of several tied values goes to a bound, step 2 ranks of equal
  valid values) the real code's choice among the tied positions is arbitrary — statements about single positions of a
  tied group need a tie-free hypothesis; the correspondence compares tied groups as multisets.
  `ecdf(method = "linear_interpolation")` at a *duplicated* sample value: the model has numpy's exact semantics
  (right-most knot); the float code returns either side of the jump depending on the rounding of `np.quantile`'s knots
  (observed; flagged `ecdftie` by the correspondence).

  Contents: `ExtRat`, `Cfg`, `IsiFamily` (`ofLocScale`, `ratSigmoid`), `Oracles`, `Draws`; masks;
  `step3RemoveTrend`/`step3`/`step7`; `step4`; `step5TransferTrend`/`step5`; `adjustBetween`/`step6Full`/`step6`;
  `applyOnWindow` (steps 3–7), `winFn` (the `Skeleton.WinFn` shape); `step2Impute`/`step2`/`applyOnWindowImpute`;
  `annualCycle`/`step1`/`step8`; `applyLocationRW`/`applyLocationMonths` (step 1 + `Model/Skeleton` loop + step 8).
-/
import IbicusModel.Model.Py
import IbicusModel.Model.Stats
import IbicusModel.Model.Family
import IbicusModel.Model.IsimipFreq
import IbicusModel.Model.Skeleton

namespace Model.Isimip
open Model.Stats

/-! ### Extended reals for bounds and thresholds -/

inductive ExtRat where
  | negInf
  | fin (q : Rat)
  | posInf
deriving DecidableEq, Repr

namespace ExtRat
/-- `x <= t` -/
def leOf (x : Rat) : ExtRat → Bool
  | negInf => false | fin q => decide (x ≤ q) | posInf => true
/-- `x >= t` -/
def geOf (x : Rat) : ExtRat → Bool
  | negInf => true | fin q => decide (x ≥ q) | posInf => false
/-- `x > t` -/
def gtOf (x : Rat) : ExtRat → Bool
  | negInf => true | fin q => decide (x > q) | posInf => false
/-- `x < t` -/
def ltOf (x : Rat) : ExtRat → Bool
  | negInf => false | fin q => decide (x < q) | posInf => true
/-- `t > -np.inf` -/
def gtNegInf : ExtRat → Bool
  | negInf => false | _ => true
/-- `t < np.inf` -/
def ltPosInf : ExtRat → Bool
  | posInf => false | _ => true
/-- the finite value, or the marker for computations with `±inf` -/
def toRat : ExtRat → Except String Rat
  | fin q => .ok q
  | _ => .error "unmodelled:NonFiniteBound"
end ExtRat

/-! ### Settings, family, oracles, draws -/

inductive TrendMethod where
  | additive | multiplicative | mixed | bounded
deriving DecidableEq, Repr

inductive NpqmMode where
  | normal | isimipv30
deriving DecidableEq, Repr

/-- the attrs fields of `ISIMIP` that `_apply_on_window` reads (`distribution` is the `IsiFamily` argument;
    `riceOrWeibull` is the outcome of `type(self.distribution) is type(scipy.stats.rice) or … weibull_min`) -/
structure Cfg where
  trendMethod : TrendMethod
  nonparametricQm : Bool
  detrending : Bool
  lowerBound : ExtRat := .negInf
  lowerThreshold : ExtRat := .negInf
  upperBound : ExtRat := .posInf
  upperThreshold : ExtRat := .posInf
  imputeMissingValues : Bool := false
  detrendingWithSignificanceTest : Bool := true
  trendTransferOnlyWithinThreshold : Bool := true
  biasCorrectFrequencies : Bool := true
  eventLikelihoodAdjustment : Bool := false
  ksTest : Bool := true
  ecdfMethod : EcdfMethod := .linear
  iecdfMethod : IecdfMethod := .linear
  modeNpqm : NpqmMode := .normal
  riceOrWeibull : Bool := false
  scaleByAnnualCycle : Bool := false
  windowLengthAnnualCycle : Nat := 31
deriving Repr

namespace Cfg
def hasLowerThreshold (c : Cfg) : Bool := c.lowerThreshold.gtNegInf
def hasLowerBound (c : Cfg) : Bool := c.lowerBound.gtNegInf
def hasUpperThreshold (c : Cfg) : Bool := c.upperThreshold.ltPosInf
def hasUpperBound (c : Cfg) : Bool := c.upperBound.ltPosInf
def hasBound (c : Cfg) : Bool := c.hasUpperBound || c.hasLowerBound
def hasThreshold (c : Cfg) : Bool := c.hasUpperThreshold || c.hasLowerThreshold
end Cfg

/-- a distribution family as step 6 uses it: parameters are `(loc, scale)`;
    `fit data floc fscale` (`none` for an argument = not fixed; result `none` = the fit raised) -/
structure IsiFamily where
  fit : List Rat → Option Rat → Option Rat → Option (Rat × Rat)
  cdf : (Rat × Rat) → Rat → Rat
  ppf : (Rat × Rat) → Rat → Rat

/-- step 6's use of a location–scale family of `Model/Family.lean`: `loc = floc` or the family's location
    estimate; `scale = fscale`, or the family's scale estimate when nothing is fixed, or `scaleAt floc data`
    (a scale estimate about the fixed location) when only `floc` is fixed.  The fit fails (`none`) on an empty
    sample and when the scale is 0.  Without fixed arguments this is `F.fit` (guarded). -/
def IsiFamily.ofLocScale (F : Family.LocScaleFam) (scaleAt : Rat → List Rat → Rat) : IsiFamily where
  fit := fun d floc fscale =>
    if d.length = 0 then none else
    let loc := match floc with | some l => l | none => F.loc d
    let scale := match fscale, floc with
      | some s, _ => s
      | none, none => F.scale d
      | none, some l => scaleAt l d
    if scale = 0 then none else some (loc, scale)
  cdf := F.cdf
  ppf := F.ppf

/-- mean absolute deviation about a given location -/
def meanAbsDevAt (l : Rat) (d : List Rat) : Rat := mean (d.map (fun x => Py.absQ (x - l)))

/-- the rational test double (DESIGN §2.1, `Model.Family.ratSigmoid`): `G(z) = (1 + z/(1+|z|))/2`,
    `G⁻¹(p) = (2p−1)/(1−|2p−1|)`, `loc` = mean, `scale` = mean absolute deviation
    (harness double honouring `floc`/`fscale`: `harness/isimip_family.py`) -/
def ratSigmoid : IsiFamily := IsiFamily.ofLocScale Family.ratSigmoid meanAbsDevAt

structure Oracles where
  /-- `linregress(unique_years, annual_means).pvalue < 0.05` for `obs_hist`, `cm_hist`, `cm_future` -/
  sigO : Bool := false
  sigH : Bool := false
  sigF : Bool := false
  /-- both `_step6_fit_good_enough` calls (short-circuit `and`) -/
  ksGood : Bool := true
  /-- `t ↦ np.cos(t * np.pi / 8)` -/
  cosPi8 : Rat → Rat := fun _ => 0
  logit : Rat → Rat := fun _ => 0
  expit : Rat → Rat := fun _ => 0
  /-- `np.log(10)` -/
  log10 : Rat := 0

/-- the values returned by each random call of one `_apply_on_window` (in the interval numpy documents:
    `[low, high)` for `uniform`, `[0, 1)` for `random`) -/
structure Draws where
  lowO : List Rat := []
  lowH : List Rat := []
  lowF : List Rat := []
  upO : List Rat := []
  upH : List Rat := []
  upF : List Rat := []
  impO : List Rat := []
  impH : List Rat := []
  impF : List Rat := []

/-! ### Masks -/

def maskBeyondLower (c : Cfg) (x : List Rat) : List Bool := x.map (fun v => ExtRat.leOf v c.lowerThreshold)
def maskBeyondUpper (c : Cfg) (x : List Rat) : List Bool := x.map (fun v => ExtRat.geOf v c.upperThreshold)
def maskBetween (c : Cfg) (x : List Rat) : List Bool :=
  x.map (fun v => ExtRat.gtOf v c.lowerThreshold && ExtRat.ltOf v c.upperThreshold)
def valuesBetween (c : Cfg) (x : List Rat) : List Rat := Py.selectWhere x (maskBetween c x)

/-- `get_proportion_of_days_beyond_lower_threshold` (`mask.mean()`) -/
def proportionBeyondLower (c : Cfg) (x : List Rat) : Rat := IsimipFreq.freq (maskBeyondLower c x)
def proportionBeyondUpper (c : Cfg) (x : List Rat) : Rat := IsimipFreq.freq (maskBeyondUpper c x)

/-! ### Step 3 / step 7: removal and restoration of the within-period trend -/

/-- `np.unique(years)` -/
def uniqueYears (years : List Int) : List Int := (years.mergeSort (fun a b => decide (a ≤ b))).eraseDups

/-- `get_yearly_means` -/
def yearlyMeans (x : List Rat) (years : List Int) : List Rat :=
  (uniqueYears years).map (fun y => mean (Py.selectWhere x (years.map (fun t => decide (t = y)))))

/-- `linregress(xs, ys).slope = ssxym / ssxm` -/
def linSlope (xs ys : List Rat) : Rat :=
  let xm := mean xs
  let ym := mean ys
  let dx := xs.map (· - xm)
  let dy := ys.map (· - ym)
  (List.zipWith (· * ·) dx dy).sum / (List.zipWith (· * ·) dx dx).sum

/-- annual trend of `_step3_remove_trend`: `slope · (year − mean(unique years))` per unique year when the
    oracle says `pvalue < 0.05` **and** `detrending_with_significance_test` (this is the code's condition:
    with the flag off nothing is removed), else zeros -/
def annualTrend (c : Cfg) (significant : Bool) (x : List Rat) (years : List Int) : List Rat :=
  let uy := (uniqueYears years).map (fun (y : Int) => (y : Rat))
  if significant && c.detrendingWithSignificanceTest then
    let s := linSlope uy (yearlyMeans x years)
    let m := mean uy
    uy.map (fun y => s * (y - m))
  else uy.map (fun _ => 0)

/-- the daily trend: each value gets the annual trend of its year -/
def dailyTrend (c : Cfg) (significant : Bool) (x : List Rat) (years : List Int) : List Rat :=
  let uy := uniqueYears years
  let ann := annualTrend c significant x years
  (List.zipWith (fun (_ : Rat) (y : Int) => ann.getD (uy.idxOf y) 0) x years)

/-- `_step3_remove_trend(x, years)`: `(x − trend, trend)`; `years` is parallel to `x` -/
def step3RemoveTrend (c : Cfg) (significant : Bool) (x : List Rat) (years : List Int) : List Rat × List Rat :=
  let tr := dailyTrend c significant x years
  (List.zipWith (· - ·) x tr, tr)

/-- `step3`: `(obs, cm_hist, cm_future, trend_cm_future)` -/
def step3 (c : Cfg) (o : Oracles) (obs H F : List Rat) (yO yH yF : List Int) :
    List Rat × List Rat × List Rat × List Rat :=
  if c.detrending then
    let fo := step3RemoveTrend c o.sigF F yF
    ((step3RemoveTrend c o.sigO obs yO).1, (step3RemoveTrend c o.sigH H yH).1, fo.1, fo.2)
  else (obs, H, F, F.map (fun _ => 0))

/-- `step7` -/
def step7 (c : Cfg) (F trend : List Rat) : List Rat :=
  if c.detrending then List.zipWith (· + ·) F trend else F

/-! ### Step 4: randomisation of the values beyond the thresholds -/

/-- `vals[mask] = sort_array_like_another_one(np.sort(draws), vals[mask])` -/
def randomizeMasked (vals : List Rat) (mask : List Bool) (draws : List Rat) : Except String (List Rat) :=
  let sel := Py.selectWhere vals mask
  if draws.length = sel.length then .ok (IsimipFreq.fillWhere vals mask (sortLike (sortQ draws) sel))
  else .error "unmodelled:DrawsLength"

def step4RandomizeLower (c : Cfg) (vals draws : List Rat) : Except String (List Rat) :=
  randomizeMasked vals (maskBeyondLower c vals) draws

def step4RandomizeUpper (c : Cfg) (vals draws : List Rat) : Except String (List Rat) :=
  randomizeMasked vals (maskBeyondUpper c vals) draws

/-- `step4` -/
def step4 (c : Cfg) (d : Draws) (obs H F : List Rat) : Except String (List Rat × List Rat × List Rat) := do
  let (obs, H, F) ←
    if c.hasLowerBound && c.hasLowerThreshold then do
      let o ← step4RandomizeLower c obs d.lowO
      let h ← step4RandomizeLower c H d.lowH
      let f ← step4RandomizeLower c F d.lowF
      pure (o, h, f)
    else pure (obs, H, F)
  if c.hasUpperBound && c.hasUpperThreshold then do
    let o ← step4RandomizeUpper c obs d.upO
    let h ← step4RandomizeUpper c H d.upH
    let f ← step4RandomizeUpper c F d.upF
    pure (o, h, f)
  else pure (obs, H, F)

/-! ### Step 5: pseudo future observations -/

/-- `np.maximum(0.01, np.minimum(100, np.where(qH == 0, 1, qF / qH)))` -/
def deltaMult (qH qF : Rat) : Rat :=
  max (1 / 100) (min 100 (if qH = 0 then 1 else qF / qH))

/-- `gamma` of the `mixed` method (formula 7) -/
def gammaMixed (o : Oracles) (qO qH : Rat) : Rat :=
  if qH < qO ∧ qO < 9 * qH then (1 / 2) * (1 + o.cosPi8 (qO / qH - 1))
  else if qH ≥ qO then 1
  else 0

/-- one value of the `bounded` method (the four masked assignments in the code's order: negative bias,
    zero bias (`np.isclose`), positive bias, additive correction — later ones overwrite earlier ones),
    then clipped to `[a, b]`.  For data inside `[a, b]` no denominator is 0 (`qH < qO ≤ b`, `qH > qO ≥ a`). -/
def boundedTransfer (a b qO qH qF : Rat) : Rat :=
  let neg := decide (qH < qO)
  let pos := decide (qH > qO)
  let additive := (neg && decide (qF < qH)) || (pos && decide (qF > qH))
  let v :=
    if additive then qO + qF - qH
    else if pos then a + (qO - a) * (qF - a) / (qH - a)
    else if Py.isclose qH qO then qF
    else b - (b - qO) * (b - qF) / (b - qH)
  max a (min v b)

/-- `_step5_transfer_trend(obs_hist, cm_hist, cm_future)` -/
def step5TransferTrend (c : Cfg) (o : Oracles) (obs H F : List Rat) : Except String (List Rat) :=
  if obs.length = 0 || H.length = 0 || F.length = 0 then .error "unmodelled:EmptySample" else
  let p := ecdf c.ecdfMethod obs obs
  let qF := iecdf c.iecdfMethod F p
  let qH := iecdf c.iecdfMethod H p
  let z := obs.zip (qH.zip qF)
  match c.trendMethod with
  | .additive => .ok (z.map (fun t => t.1 + (t.2.2 - t.2.1)))
  | .multiplicative => .ok (z.map (fun t => t.1 * deltaMult t.2.1 t.2.2))
  | .mixed => .ok (z.map (fun t =>
      let g := gammaMixed o t.1 t.2.1
      g * t.1 * deltaMult t.2.1 t.2.2 + (1 - g) * (t.1 + (t.2.2 - t.2.1))))
  | .bounded => do
      let a ← c.lowerBound.toRat
      let b ← c.upperBound.toRat
      pure (z.map (fun t => boundedTransfer a b t.1 t.2.1 t.2.2))

/-- `step5` -/
def step5 (c : Cfg) (o : Oracles) (obs H F : List Rat) : Except String (List Rat) :=
  if c.trendTransferOnlyWithinThreshold then
    let m := maskBetween c obs
    let Hb := valuesBetween c H
    let Fb := valuesBetween c F
    if m.any id && decide (Hb.length > 0) && decide (Fb.length > 0) then do
      let t ← step5TransferTrend c o (Py.selectWhere obs m) Hb Fb
      pure (IsimipFreq.fillWhere obs m t)
    else .ok obs
  else step5TransferTrend c o obs H F

/-! ### Step 6: quantile mapping with frequency adjustment -/

/-- which return statement of `_step6_adjust_values_between_thresholds` (or of `step6` around it) was taken -/
inductive Branch where
  | allToBounds      -- no entry left between the bounds: nothing mapped
  | noPseudoObs      -- warning path: no pseudo-future observations between thresholds, entries left unadjusted
  | npqm             -- `nonparametric_qm = True`
  | noneBetween      -- cm_future has no value between thresholds
  | tooFew           -- one value in cm_future between thresholds / ≤ 1 pseudo-future observation
  | fitFailed        -- a parametric fit raised
  | ksRejected       -- Kolmogorov–Smirnov misfit
  | parametric       -- parametric quantile mapping
  | parametricEla    -- parametric with event likelihood adjustment
deriving DecidableEq, Repr

/-- `quantile_map_x_on_y_non_parametically(x, y, mode, …)` -/
def qmapXonY (c : Cfg) (x y : List Rat) : List Rat :=
  match c.modeNpqm with
  | .normal => qmap c.ecdfMethod c.iecdfMethod x y x
  | .isimipv30 => qmapIsimip x y

/-- `threshold_cdf_vals` with the default `cdf_threshold = 1e-10` -/
def thrCdf (v : Rat) : Rat := thresholdCdf (1 / 10000000000) v

/-- `floc`, `fscale` of step 6 ("ISIMIP v2.5: fix location and scale as function of upper and lower threshold") -/
def fixedArgs (c : Cfg) : Except String (Option Rat × Option Rat) := do
  let floc ← if c.hasLowerThreshold then (c.lowerThreshold.toRat).map some else pure none
  let fscale ←
    if c.hasLowerThreshold && c.hasUpperThreshold then do
      let l ← c.lowerThreshold.toRat
      let u ← c.upperThreshold.toRat
      pure (some (u - l))
    else pure none
  pure (floc, if c.riceOrWeibull then none else fscale)

/-- the event-likelihood-adjusted probabilities (formulas 10–14 of Lange 2019) -/
def elaProbabilities (o : Oracles) (cdfO cdfH cdfF : List Rat) : List Rat :=
  let lO := cdfO.map o.logit
  let lH := cdfH.map o.logit
  let lF := cdfF.map o.logit
  let delta := List.zipWith (fun f h => max (-o.log10) (min o.log10 (f - h))) lF lH
  (List.zipWith (· + ·) lO delta).map o.expit

/-- `_step6_adjust_values_between_thresholds(obs_hist_bt, obs_future_bt, cm_hist_bt, cm_future_not_sent, cm_future_bt)`
    (all arguments sorted); returns the mapped values, the branch taken and whether the ISIMIP v2.5
    non-parametric pre-mapping of `cm_future_not_sent` onto `cm_future_bt` was applied -/
def adjustBetween (c : Cfg) (fam : IsiFamily) (o : Oracles) (Obt OFbt Hbt Fns Fbt : List Rat) :
    Except String (List Rat × Branch × Bool) :=
  if c.nonparametricQm then .ok (qmap c.ecdfMethod c.iecdfMethod Fns OFbt Fns, .npqm, false) else
  let pre := c.hasThreshold && decide (Fbt.length > 0)
  let Fns := if pre then qmapXonY c Fns Fbt else Fns
  let fallback := qmap c.ecdfMethod c.iecdfMethod Fns OFbt Fns
  if Fbt.length = 0 then .ok (fallback, .noneBetween, pre)
  else if Fbt.length = 1 || OFbt.length ≤ 1 then .ok (fallback, .tooFew, pre)
  else do
    let (floc, fscale) ← fixedArgs c
    match fam.fit Fbt floc fscale, fam.fit OFbt floc fscale with
    | some fitF, some fitOF =>
      if c.ksTest && !o.ksGood then pure (fallback, .ksRejected, pre)
      else
        let cdfF := Fns.map (fun v => thrCdf (fam.cdf fitF v))
        if !c.eventLikelihoodAdjustment then pure (cdfF.map (fam.ppf fitOF), .parametric, pre)
        else
          match fam.fit Hbt none none, fam.fit Obt none none with
          | some fitH, some fitO =>
            let cdfO := interpOnLength (Obt.map (fun v => thrCdf (fam.cdf fitO v))) cdfF.length
            let cdfH := interpOnLength (Hbt.map (fun v => thrCdf (fam.cdf fitH v))) cdfF.length
            pure ((elaProbabilities o cdfO cdfH cdfF).map (fam.ppf fitOF), .parametricEla, pre)
          | _, _ => .error "ValueError"   -- these two fits are outside the `try`
    | _, _ => pure (fallback, .fitFailed, pre)

/-- `mapped[mask] = bound` (an infinite bound written into the result is outside the model) -/
def setBound (xs : List Rat) (m : List Bool) (b : ExtRat) : Except String (List Rat) :=
  if m.any id then (b.toRat).map (fun q => Py.setWhere xs m q) else .ok xs

structure Step6Out where
  /-- entries set to the lower / upper bound (after the rescaling) -/
  nL : Int
  nU : Int
  branch : Branch
  premapped : Bool
  /-- `mapped_vals` in the sorted order of `cm_future` -/
  mappedSorted : List Rat
  /-- the return value: `mapped_vals[np.argsort(cm_future_argsort)]` -/
  result : List Rat
deriving Repr

/-- `step6(obs_hist, obs_future, cm_hist, cm_future)` with its intermediate results -/
def step6Full (c : Cfg) (fam : IsiFamily) (o : Oracles) (obs obsFut H F : List Rat) : Except String Step6Out := do
  let Fs := takeIdx F (argsort F)
  let Os := sortQ obs
  let OFs := sortQ obsFut
  let Hs := sortQ H
  let n := Fs.length
  let nL0 : Int := if c.hasLowerThreshold then
      IsimipFreq.nrToBound c.biasCorrectFrequencies (maskBeyondLower c Os) (maskBeyondLower c Hs) (maskBeyondLower c Fs)
    else 0
  let nU0 : Int := if c.hasUpperThreshold then
      IsimipFreq.nrToBound c.biasCorrectFrequencies (maskBeyondUpper c Os) (maskBeyondUpper c Hs) (maskBeyondUpper c Fs)
    else 0
  let (nL, nU) := IsimipFreq.finalCounts nL0 nU0 (n : Int)
  let mL := IsimipFreq.lowerMask nL n
  let mU := IsimipFreq.upperMask nU n
  let mapped ← setBound Fs mL c.lowerBound
  let mapped ← setBound mapped mU c.upperBound
  let mN := IsimipFreq.notMask mL mU
  let (mapped, br, pre) ←
    if mN.any id then
      let OFbt := valuesBetween c OFs
      if OFbt.length > 0 then do
        let (v, br, pre) ← adjustBetween c fam o (valuesBetween c Os) OFbt (valuesBetween c Hs)
          (Py.selectWhere mapped mN) (valuesBetween c Fs)
        pure (IsimipFreq.fillWhere mapped mN v, br, pre)
      else pure (mapped, Branch.noPseudoObs, false)
    else pure (mapped, Branch.allToBounds, false)
  pure { nL := nL, nU := nU, branch := br, premapped := pre, mappedSorted := mapped,
         result := takeIdx mapped (rankOf F) }

def step6 (c : Cfg) (fam : IsiFamily) (o : Oracles) (obs obsFut H F : List Rat) : Except String (List Rat) :=
  (step6Full c fam o obs obsFut H F).map (·.result)

/-! ### `_apply_on_window` (steps 3–7; step 2 is `applyOnWindowImpute` below) -/

/-- `_apply_on_window` for finite data (`impute_missing_values = False`, or data without missing values —
    step 2 is then the identity).  `yO yH yF` are the years of the window samples (parallel lists). -/
def applyOnWindow (c : Cfg) (fam : IsiFamily) (o : Oracles) (d : Draws)
    (obs H F : List Rat) (yO yH yF : List Int) : Except String (List Rat) := do
  let (o3, h3, f3, tr) := step3 c o obs H F yO yH yF
  let (o4, h4, f4) ← step4 c d o3 h3 f3
  let oF ← step5 c o o4 h4 f4
  let r ← step6 c fam o o4 oF h4 f4
  pure (step7 c r tr)

/-- the `Skeleton.WinFn` shape: the years of a window sample are looked up in the full-series year lists
    by the window's index lists; oracles and draws are per window (keyed by the index list of `cm_future`) -/
def winFn (c : Cfg) (fam : IsiFamily) (orc : List Nat → Oracles) (drw : List Nat → Draws)
    (yearsO yearsH yearsF : List Int) : Skeleton.WinFn Rat :=
  fun obs H F iO iH iF =>
    applyOnWindow c fam (orc iF) (drw iF) obs H F (Skeleton.take yearsO iO) (Skeleton.take yearsH iH) (Skeleton.take yearsF iF)

/-! ### Step 2: imputation of missing values (`none` = `nan` or `±inf`) -/

/-- `scipy.interpolate.interp1d(xs, ys, fill_value="extrapolate")(x)` (linear; `xs` increasing, at least two knots):
    the segment is `searchsorted(xs, x).clip(1, n−1)`, i.e. the first / last segment extrapolates -/
def interp1dExtrap (xs ys : List Rat) (x : Rat) : Rat :=
  let k := (xs.filter (fun v => decide (v < x))).length
  let hi := max 1 (min k (xs.length - 1))
  let lo := hi - 1
  let slope := (ys.getD hi 0 - ys.getD lo 0) / (xs.getD hi 0 - xs.getD lo 0)
  slope * (x - xs.getD lo 0) + ys.getD lo 0

/-- `_step2_impute_values(x)`; `u` = the values `np.random.random(size = number of missing values)` returned
    (not requested when fewer than two values are valid) -/
def step2Impute (c : Cfg) (x : List (Option Rat)) (u : List Rat) : Except String (List Rat) :=
  let valid := x.filterMap id
  let maskInv := x.map (fun v => v.isNone)
  let base := x.map (fun v => v.getD 0)
  match valid with
  | [] => .error "ValueError"
  | [v] => .ok (Py.setWhere base maskInv v)
  | _ =>
    let idxInv := Py.whereTrue maskInv
    if u.length ≠ idxInv.length then .error "unmodelled:DrawsLength" else
    let sampled := iecdf c.iecdfMethod valid u
    let idxValid := (Py.whereTrue (maskInv.map (fun b => !b))).map (fun (i : Nat) => (i : Rat))
    let backsort := (rankOf valid).map (fun (i : Nat) => (i : Rat))
    let interpolated := idxInv.map (fun (i : Nat) => interp1dExtrap idxValid backsort (i : Rat))
    .ok (IsimipFreq.fillWhere base maskInv (takeIdx (sortQ sampled) (rankOf interpolated)))

/-- all values present -/
def allSome (x : List (Option Rat)) : Except String (List Rat) :=
  x.mapM (fun v => match v with | some q => .ok q | none => .error "unmodelled:MissingValues")

/-- `step2` -/
def step2 (c : Cfg) (d : Draws) (obs H F : List (Option Rat)) : Except String (List Rat × List Rat × List Rat) :=
  if c.imputeMissingValues then do
    let o ← step2Impute c obs d.impO
    let h ← step2Impute c H d.impH
    let f ← step2Impute c F d.impF
    pure (o, h, f)
  else do
    let o ← allSome obs
    let h ← allSome H
    let f ← allSome F
    pure (o, h, f)

/-- `_apply_on_window` including step 2 (data with missing values) -/
def applyOnWindowImpute (c : Cfg) (fam : IsiFamily) (o : Oracles) (d : Draws)
    (obs H F : List (Option Rat)) (yO yH yF : List Int) : Except String (List Rat) := do
  let (o2, h2, f2) ← step2 c d obs H F
  applyOnWindow c fam o d o2 h2 f2 yO yH yF

/-! ### Step 1 / step 8: scaling by the annual cycle of upper bounds (outside the window loop) -/

/-- the `size` values `a[(start + k) mod n]`, `k = 0 … size−1` (`mode="wrap"`: the array is continued periodically) -/
def wrapWindow (a : List Rat) (start : Int) (size : Nat) : List Rat :=
  let n := a.length
  ((List.replicate (size / n + 1) (a.rotateLeft (start % (n : Int)).toNat)).flatten).take size

/-- `scipy.ndimage.maximum_filter1d(a, size, mode="wrap")`: window `[i − size/2, i − size/2 + size − 1]`, indices mod `n` -/
def maximumFilterWrap (size : Nat) (a : List Rat) : List Rat :=
  (List.range a.length).map (fun (i : Nat) => maxQ (wrapWindow a ((i : Int) - ((size / 2 : Nat) : Int)) size))

/-- `scipy.ndimage.uniform_filter1d(a, size, mode="wrap")` -/
def uniformFilterWrap (size : Nat) (a : List Rat) : List Rat :=
  (List.range a.length).map (fun (i : Nat) => (wrapWindow a ((i : Int) - ((size / 2 : Nat) : Int)) size).sum / (size : Rat))

/-- `_step1_get_annual_cycle_of_upper_bounds(vals, days_of_year)`: running mean of the running maximum of the
    multi-year daily maxima; returns `(cycle, unique days of year)` -/
def annualCycle (c : Cfg) (vals : List Rat) (doy : List Int) : List Rat × List Int :=
  let ud := uniqueYears doy
  let maxima := ud.map (fun d => maxQ (Py.selectWhere vals (doy.map (fun t => decide (t = d)))))
  (uniformFilterWrap c.windowLengthAnnualCycle (maximumFilterWrap c.windowLengthAnnualCycle maxima), ud)

/-- lookup of a per-day-of-year value: `arr[doy − 1]` when all 366 days are present, else `arr[days == doy][0]`
    (`IndexError` when the day is absent) -/
def lookupDay (arr : List Rat) (days : List Int) (d : Int) : Except String Rat :=
  if days.length = 366 then
    match arr[(d - 1).toNat]? with
    | some v => if d ≥ 1 then .ok v else .error "unmodelled:NegativeIndex"
    | none => .error "IndexError"
  else
    match arr[days.idxOf d]? with
    | some v => if days.contains d then .ok v else .error "IndexError"
    | none => .error "IndexError"

/-- `_step1_scale_by_annual_cycle_of_upper_bounds` -/
def scaleByCycle (vals : List Rat) (doy : List Int) (cycle : List Rat) (days : List Int) : Except String (List Rat) :=
  let scaling := cycle.map (fun v => if v = 0 then 1 else 1 / v)
  (vals.zip doy).mapM (fun p => (lookupDay scaling days p.2).map (fun s => p.1 * s))

/-- `_step1_calculate_debiased_annual_cycle_of_upper_bounds` -/
def debiasedCycle (cO : List Rat) (dO : List Int) (cH : List Rat) (dH : List Int) (cF : List Rat) (dF : List Int) : List Rat :=
  if dH = dF ∧ dO = dF then
    List.zipWith (fun o hf =>
      let factor := if hf.1 ≠ 0 then hf.2 / hf.1 else 1
      o * max (1 / 10) (min 10 factor)) cO (cH.zip cF)
  else
    (cF.zip dF).map (fun p =>
      if dH.contains p.2 ∧ dO.contains p.2 then
        let vH := cH.getD (dH.idxOf p.2) 0
        let vO := cO.getD (dO.idxOf p.2) 0
        if vH ≠ 0 then vO * p.1 / vH else vO
      else p.1)

/-- `step1`: the three scaled series and the debiased annual cycle (`none` when the scaling is off) -/
def step1 (c : Cfg) (obs H F : List Rat) (doyO doyH doyF : List Int) :
    Except String (List Rat × List Rat × List Rat × Option (List Rat)) :=
  if c.scaleByAnnualCycle then do
    let (cO, dO) := annualCycle c obs doyO
    let (cH, dH) := annualCycle c H doyH
    let (cF, dF) := annualCycle c F doyF
    let o ← scaleByCycle obs doyO cO dO
    let h ← scaleByCycle H doyH cH dH
    let f ← scaleByCycle F doyF cF dF
    pure (o, h, f, some (debiasedCycle cO dO cH dH cF dF))
  else pure (obs, H, F, none)

/-- `step8` (`_step8_rescale_by_annual_cycle_of_upper_bounds` with `np.unique(days_of_year_cm_future)`) -/
def step8 (c : Cfg) (F : List Rat) (cycle : Option (List Rat)) (doyF : List Int) : Except String (List Rat) :=
  if c.scaleByAnnualCycle then
    match cycle with
    | some cyc => (F.zip doyF).mapM (fun p => (lookupDay cyc (uniqueYears doyF) p.2).map (fun s => p.1 * s))
    | none => .error "TypeError"
  else .ok F

/-! ### `apply_location`: step 1, the window loop of `Model/Skeleton.lean`, step 8 -/

/-- step 8 on a result buffer (`none` = never written stays `none`) -/
def step8Buffer (c : Cfg) (out : List (Option Rat)) (cycle : Option (List Rat)) (doyF : List Int) :
    Except String (List (Option Rat)) :=
  if c.scaleByAnnualCycle then
    match cycle with
    | some cyc => (out.zip doyF).mapM (fun p => match p.1 with
        | some v => (lookupDay cyc (uniqueYears doyF) p.2).map (fun s => some (v * s))
        | none => .ok none)
    | none => .error "TypeError"
  else .ok out

/-- `ISIMIP.apply_location` in running-window mode (`L`, `S` normalised window length / step) -/
def applyLocationRW (c : Cfg) (fam : IsiFamily) (orc : List Nat → Oracles) (drw : List Nat → Draws) (L S : Int)
    (doyO doyH doyF yearsO yearsH yearsF : List Int) (obs H F : List Rat) : Except String (List (Option Rat)) := do
  let (o1, h1, f1, cyc) ← step1 c obs H F doyO doyH doyF
  let out ← Skeleton.applyLocationRW (winFn c fam orc drw yearsO yearsH yearsF) L S doyO doyH doyF o1 h1 f1
  step8Buffer c out cyc doyF

/-- `ISIMIP.apply_location` in month mode -/
def applyLocationMonths (c : Cfg) (fam : IsiFamily) (orc : List Nat → Oracles) (drw : List Nat → Draws)
    (mO mH mF doyO doyH doyF yearsO yearsH yearsF : List Int) (obs H F : List Rat) : Except String (List (Option Rat)) := do
  let (o1, h1, f1, cyc) ← step1 c obs H F doyO doyH doyF
  let out ← Skeleton.applyLocationMonths (winFn c fam orc drw yearsO yearsH yearsF) mO mH mF o1 h1 f1
  step8Buffer c out cyc doyF

end Model.Isimip
