/-
  Layer N: derived-variable conversions (`ibicus/utils/_utils.py`, property C18).

  numpy applies each of these formulas element by element, so the model is the scalar kernel over `Rat` and its
  element-wise lifting to lists (`mapN`, an array of any shape flattened in C order; shape plays no role).

  **Division is partial.**  `get_tasskew`, `get_prsnratio`, `get_pr` divide; where the divisor is 0 the real code
  yields `inf`/`NaN` (a numpy warning, no exception).  The model returns `Except String Rat` with the error
  `"div0"` there (`Py.divE`) instead of Lean's total `x / 0 = 0`, so no round-trip theorem can hold "for free" at a
  zero divisor.  The functions that do not divide are total.
-/
import IbicusModel.Model.Py

namespace Model.Convert

/-- `_get_tasmax_from_tasmin_and_range(tasrange, tasmin)` (parameter order of the source) -/
def tasmaxFromTasminAndRange (tasrange tasmin : Rat) : Rat := tasrange + tasmin

/-- `get_tasrange(tasmin, tasmax)` -/
def getTasrange (tasmin tasmax : Rat) : Rat := tasmax - tasmin

/-- `get_tasskew(tas, tasmin, tasmax)` — `"div0"` iff `tasmax = tasmin` -/
def getTasskew (tas tasmin tasmax : Rat) : Except String Rat := Py.divE (tas - tasmin) (tasmax - tasmin)

/-- `get_tasmin(tas, tasrange, tasskew)` -/
def getTasmin (tas tasrange tasskew : Rat) : Rat := tas - tasskew * tasrange

/-- `get_tasmax(tas, tasrange, tasskew)`: the source passes `(get_tasmin(..), tasrange)` to a helper whose
    parameters are named `(tasrange, tasmin)`; the sum is the same -/
def getTasmax (tas tasrange tasskew : Rat) : Rat := tasmaxFromTasminAndRange (getTasmin tas tasrange tasskew) tasrange

/-- `get_tasmin_tasmax(tas, tasrange, tasskew)` -/
def getTasminTasmax (tas tasrange tasskew : Rat) : Rat × Rat :=
  let tasmin := getTasmin tas tasrange tasskew
  (tasmin, tasmaxFromTasminAndRange tasmin tasrange)

/-- `get_tasrange_tasskew(tas, tasmin, tasmax)` -/
def getTasrangeTasskew (tas tasmin tasmax : Rat) : Except String (Rat × Rat) :=
  match getTasskew tas tasmin tasmax with
  | .ok s => .ok (getTasrange tasmin tasmax, s)
  | .error e => .error e

/-- `get_prsnratio(pr, prsn)` — `"div0"` iff `pr = 0` -/
def getPrsnratio (pr prsn : Rat) : Except String Rat := Py.divE prsn pr

/-- `get_pr(prsn, prsnratio)` — `"div0"` iff `prsnratio = 0` -/
def getPr (prsn prsnratio : Rat) : Except String Rat := Py.divE prsn prsnratio

/-- `get_prsn(pr, prsnratio)` -/
def getPrsn (pr prsnratio : Rat) : Rat := prsnratio * pr

/-! ### element-wise lifting (arrays of any shape, flattened) -/

/-- apply a ternary kernel element by element (numpy broadcasting of equal shapes) -/
def map3 {β} (f : Rat → Rat → Rat → β) : List Rat → List Rat → List Rat → List β
  | a :: as, b :: bs, c :: cs => f a b c :: map3 f as bs cs
  | _, _, _ => []

def map2 {β} (f : Rat → Rat → β) : List Rat → List Rat → List β
  | a :: as, b :: bs => f a b :: map2 f as bs
  | _, _ => []

/-! ### storage order -/

/-- the elements of an array visited in another order (`idx` = the logical index of each visited element): what a
    transposed / Fortran-ordered / strided / reversed view of the same values is, at the value level -/
def pick {β} (l : List β) (idx : List Nat) (d : β) : List β := idx.map (fun i => l.getD i d)

/-! ### sequences of calls and in-place modifications on the same arrays

The conversions are pure: a call returns the formula of the *current* content of its arguments and changes nothing.
`run` is that specification for a script of calls and in-place modifications of one set of named arrays
(`tas, tasmin, tasmax, tasrange r, tasskew s, pr, prsn, prsnratio q`); the harness runs the same script on the real
functions with the same array objects (tier B, driver op `seq`). -/

structure Env where
  tas : List Rat
  tasmin : List Rat
  tasmax : List Rat
  r : List Rat
  s : List Rat
  pr : List Rat
  prsn : List Rat
  q : List Rat

inductive Fn where
  | tasrange | tasskew | rangeskew | tasmin | tasmax | minmax | prsnratio | prsn | pr

/-- the output arrays of one call on the current content of the arrays (element-wise; `"div0"` = inf/NaN) -/
def Fn.eval (e : Env) : Fn → List (List (Except String Rat))
  | .tasrange => [(map2 getTasrange e.tasmin e.tasmax).map .ok]
  | .tasskew => [map3 getTasskew e.tas e.tasmin e.tasmax]
  | .rangeskew => [(map2 getTasrange e.tasmin e.tasmax).map .ok, map3 getTasskew e.tas e.tasmin e.tasmax]
  | .tasmin => [(map3 getTasmin e.tas e.r e.s).map .ok]
  | .tasmax => [(map3 getTasmax e.tas e.r e.s).map .ok]
  | .minmax => [(map3 getTasmin e.tas e.r e.s).map .ok, (map3 getTasmax e.tas e.r e.s).map .ok]
  | .prsnratio => [map2 getPrsnratio e.pr e.prsn]
  | .prsn => [(map2 getPrsn e.pr e.q).map .ok]
  | .pr => [map2 getPr e.prsn e.q]

/-- the in-place modifications the harness performs between calls -/
inductive Mod where
  | shiftT (c : Rat)      -- tas, tasmin, tasmax -= c  (unit change; range and skew stay valid)
  | scaleT (c : Rat)      -- tas, tasmin, tasmax, r *= c
  | perturbTas (c : Rat)  -- tas += c
  | scaleRS (c : Rat)     -- r *= c, s *= 1/2
  | scalePr (c : Rat)     -- pr, prsn *= c

def Mod.apply (e : Env) : Mod → Env
  | .shiftT c => { e with tas := e.tas.map (· - c), tasmin := e.tasmin.map (· - c), tasmax := e.tasmax.map (· - c) }
  | .scaleT c => { e with tas := e.tas.map (· * c), tasmin := e.tasmin.map (· * c), tasmax := e.tasmax.map (· * c), r := e.r.map (· * c) }
  | .perturbTas c => { e with tas := e.tas.map (· + c) }
  | .scaleRS c => { e with r := e.r.map (· * c), s := e.s.map (· * (1 / 2)) }
  | .scalePr c => { e with pr := e.pr.map (· * c), prsn := e.prsn.map (· * c) }

inductive Step where
  | call (f : Fn)
  | mod (m : Mod)

def Step.isMod : Step → Bool
  | .mod _ => true
  | .call _ => false

/-- the content of the arrays after a script: only the modifications act on it -/
def envAfter : Env → List Step → Env
  | e, [] => e
  | e, .call _ :: t => envAfter e t
  | e, .mod m :: t => envAfter (m.apply e) t

/-- the outputs of the calls of a script, in order -/
def run : Env → List Step → List (List (List (Except String Rat)))
  | _, [] => []
  | e, .call f :: t => f.eval e :: run e t
  | e, .mod m :: t => run (m.apply e) t

end Model.Convert
