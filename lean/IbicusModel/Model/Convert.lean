/-
  Layer N: derived-variable conversions (`ibicus/utils/_utils.py`, property C18).

  numpy applies each of these formulas element by element, so the model is the scalar kernel over `Rat` and its
  element-wise lifting to lists (`mapN`, an array of any shape flattened in C order; shape plays no role).

  **Division is partial.**  `get_tasskew`, `get_prsnratio`, `get_pr` divide; where the divisor is 0 the real code
  yields `inf`/`NaN` (a numpy warning, no exception).  The model returns `Except String Rat` with the error
  `"div0"` there (`Py.divE`) instead of Lean's total `x / 0 = 0`, so no round-trip theorem can hold "for free" at a
  zero divisor.  The functions that do not divide are total.
-/
import IbicusModel.Model.Py

namespace Model.Convert

/-- `_get_tasmax_from_tasmin_and_range(tasrange, tasmin)` (parameter order of the source) -/
def tasmaxFromTasminAndRange (tasrange tasmin : Rat) : Rat := tasrange + tasmin

/-- `get_tasrange(tasmin, tasmax)` -/
def getTasrange (tasmin tasmax : Rat) : Rat := tasmax - tasmin

/-- `get_tasskew(tas, tasmin, tasmax)` — `"div0"` iff `tasmax = tasmin` -/
def getTasskew (tas tasmin tasmax : Rat) : Except String Rat := Py.divE (tas - tasmin) (tasmax - tasmin)

/-- `get_tasmin(tas, tasrange, tasskew)` -/
def getTasmin (tas tasrange tasskew : Rat) : Rat := tas - tasskew * tasrange

/-- `get_tasmax(tas, tasrange, tasskew)`: the source passes `(get_tasmin(..), tasrange)` to a helper whose
    parameters are named `(tasrange, tasmin)`; the sum is the same -/
def getTasmax (tas tasrange tasskew : Rat) : Rat := tasmaxFromTasminAndRange (getTasmin tas tasrange tasskew) tasrange

/-- `get_tasmin_tasmax(tas, tasrange, tasskew)` -/
def getTasminTasmax (tas tasrange tasskew : Rat) : Rat × Rat :=
  let tasmin := getTasmin tas tasrange tasskew
  (tasmin, tasmaxFromTasminAndRange tasmin tasrange)

/-- `get_tasrange_tasskew(tas, tasmin, tasmax)` -/
def getTasrangeTasskew (tas tasmin tasmax : Rat) : Except String (Rat × Rat) :=
  match getTasskew tas tasmin tasmax with
  | .ok s => .ok (getTasrange tasmin tasmax, s)
  | .error e => .error e

/-- `get_prsnratio(pr, prsn)` — `"div0"` iff `pr = 0` -/
def getPrsnratio (pr prsn : Rat) : Except String Rat := Py.divE prsn pr

/-- `get_pr(prsn, prsnratio)` — `"div0"` iff `prsnratio = 0` -/
def getPr (prsn prsnratio : Rat) : Except String Rat := Py.divE prsn prsnratio

/-- `get_prsn(pr, prsnratio)` -/
def getPrsn (pr prsnratio : Rat) : Rat := prsnratio * pr

/-! ### element-wise lifting (arrays of any shape, flattened) -/

/-- apply a ternary kernel element by element (numpy broadcasting of equal shapes) -/
def map3 {β} (f : Rat → Rat → Rat → β) : List Rat → List Rat → List Rat → List β
  | a :: as, b :: bs, c :: cs => f a b c :: map3 f as bs cs
  | _, _, _ => []

def map2 {β} (f : Rat → Rat → β) : List Rat → List Rat → List β
  | a :: as, b :: bs => f a b :: map2 f as bs
  | _, _ => []

end Model.Convert
