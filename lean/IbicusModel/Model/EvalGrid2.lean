/-
  Grid-level structure of `ibicus/evaluate`, part 2 (property C20):

  * `FV`, `fdiv`, `dropSem` — the values a bias array can hold (finite, ±inf, NaN) and what the regenerated drop test of a row
    (`RowSpec.dropIf`, a string regenerated from the source) MEANS on such an array.  Only the two tests the current source
    contains have a meaning (`""` = never, `np.any(np.isinf(CALL0))`); any other text denotes nothing (`none`).
  * `YV / YM / YE / YP` — `_yearly_exceedances` / `_mean_yearly_exceedances` as grid programs: the instance matrix `[time, loc]`
    is split along axis 0 at `np.cumsum(counts)[:-1]` (one index list for ALL locations), every section summed along axis 0,
    the sums stacked by year, and (mean variant) averaged along axis 0.  `translator/extract_evalgrid2.py` regenerates the
    terms (`Gen/EvaluateGrid2.lean`); `Lemmas/GenEvaluateGrid2.lean` proves `Gen = Expected` and column `j` of the denotation
    = `Model.Evaluate.yearlyExceedances` / `meanYearlyExceedances` of column `j`.
-/
import IbicusModel.Model.EvalGrid

namespace Model.EvalGrid
open Model.Evaluate

/-! ### values of a bias array and the drop test -/

/-- one entry of a float array as far as the drop test can tell: finite, `+inf`, `-inf`, `NaN` -/
inductive FV where
  | fin (q : Rat) | pinf | ninf | nan
deriving DecidableEq

def FV.isInf : FV → Bool
  | .pinf => true | .ninf => true | _ => false

def FV.isFinite : FV → Bool
  | .fin _ => true | _ => false

/-- numpy's division of two finite numbers: `x/0` is `±inf` for `x ≠ 0` and `NaN` for `x = 0` -/
def fdiv (a b : Rat) : FV :=
  if b = 0 then (if a = 0 then .nan else if a > 0 then .pinf else .ninf) else .fin (a / b)

/-- the model's partial value (`Py.divE`: `"div0"` = not finite at that location) -/
def FV.toExcept : FV → Except String Rat
  | .fin q => .ok q
  | _ => .error "div0"

/-- the meaning of a regenerated `dropIf` text on the array `CALL0` (one `FV` per location) -/
def dropSem : String → Option (List FV → Bool)
  | "" => some (fun _ => false)
  | "np.any(np.isinf(CALL0))" => some (fun v => v.any FV.isInf)
  | _ => none

def dropTest (d : String) (v : List FV) : Bool :=
  match dropSem d with
  | some f => f v
  | none => false

/-- what seeded change C20-15 tested instead (`not np.all(np.isfinite(·))`): NaN rows go as well -/
def notAllFinite (v : List FV) : Bool := !(v.all FV.isFinite)

/-! ### `_yearly_exceedances` / `_mean_yearly_exceedances` on a grid -/

/-- 1-d integer arrays -/
inductive YV where
  | years (tm : String)                     -- `year(tm)`
  | uniqueCounts (a : YV)                   -- `np.unique(a, return_counts=True)[1]`
  | cumsum (a : YV)                         -- `np.cumsum(a)`
  | dropLast (a : YV)                       -- `a[:-1]`
deriving DecidableEq

/-- `[time, loc]` integer matrices -/
inductive YM where
  | inst (metric ds tm : String)            -- `<metric>.calculate_instances_of_threshold_exceedance(ds, time=tm)`
deriving DecidableEq

/-- `[year, loc]` matrices -/
inductive YE where
  | sumSplit (m : YM) (idx : YV)            -- `np.stack([np.sum(s, axis=0) for s in np.split(m, idx, axis=0)], axis=0)`
  | bad (why : String)
deriving DecidableEq

inductive YP where
  | ret (e : YE)                            -- `return e`
  | meanYears (e : YE)                      -- `return np.mean(e, axis=0)`
deriving DecidableEq

structure YEnv where
  n : Nat                                   -- number of locations (flattened)
  ds : String → List (List Rat)             -- data sets, time-major: one row per time step, one entry per location
  tm : String → List Int
  yearOf : List Int → List Int              -- `year(·)`
  I : String → List (List Rat) → List Int → List (List Int)   -- instances of a metric, time-major

def YV.den (E : YEnv) : YV → List Int
  | .years t => E.yearOf (E.tm t)
  | .uniqueCounts a => Py.uniqueCounts (a.den E)
  | .cumsum a => Py.cumsum (a.den E)
  | .dropLast a => (a.den E).dropLast

def YM.den (E : YEnv) : YM → List (List Int)
  | .inst m d t => E.I m (E.ds d) (E.tm t)

/-- column `j` of a time-major matrix -/
def colI (j : Nat) (m : List (List Int)) : List Int := m.map (fun row => row.getD j 0)
def colQ (j : Nat) (m : List (List Rat)) : List Rat := m.map (fun row => row.getD j 0)

/-- `np.sum(sec, axis=0)` of a section with `n` locations -/
def sumAxis0 (n : Nat) (sec : List (List Int)) : List Int := (List.range n).map fun j => (colI j sec).sum

/-- `np.mean(ys, axis=0)` -/
def meanAxis0 (n : Nat) (ys : List (List Int)) : List Rat :=
  (List.range n).map fun j => Py.mean ((colI j ys).map (fun (z : Int) => (z : Rat)))

def YE.den (E : YEnv) : YE → List (List Int)
  | .sumSplit m idx => (Py.splitAtIdx (m.den E) (idx.den E)).map (sumAxis0 E.n)
  | .bad _ => []

inductive YOut where
  | mat (m : List (List Int)) | vec (v : List Rat)

def YP.den (E : YEnv) : YP → YOut
  | .ret e => .mat (e.den E)
  | .meanYears e => .vec (meanAxis0 E.n (e.den E))

/-! ### rows appended directly in the outer loop; the environment of a `_mean_yearly_exceedances` call -/

/-- The rows a public function appends outside any inner loop (`loop = ""`, no path condition): for every key (keyword order)
    the sites in source order, unless dropped.  (`FrameSpec.den` covers the sites inside `statistics` / `metrics` loops.) -/
def FrameSpec.denOuter {κ ν} (F : FrameSpec) (keys : List κ) (V : κ → RowSpec → ν) (dropped : ν → Bool) : List (κ × ν) :=
  keys.flatMap fun k => (F.rows.filter (fun r => decide (r.loop = "") && r.path.isEmpty)).filterMap fun r =>
    if r.dropIf ≠ "" ∧ dropped (V k r) = true then none else some (k, V k r)

/-- the environment a `_yearly_exceedances` / `_mean_yearly_exceedances` call runs in: the callee's `metric` / `dataset` / `time`
    are whatever caller-side texts the call site binds to them -/
def Call.yenv (c : Call) (n : Nat) (callerDs : String → List (List Rat)) (callerTm : String → List Int)
    (yearOf : List Int → List Int) (callerI : String → List (List Rat) → List Int → List (List Int)) : YEnv :=
  { n := n,
    ds := fun p => callerDs ((c.args.lookup p).getD ("<unbound " ++ p ++ ">")),
    tm := fun p => callerTm ((c.args.lookup p).getD ("<unbound " ++ p ++ ">")),
    yearOf := yearOf,
    I := fun p => callerI ((c.args.lookup p).getD ("<unbound " ++ p ++ ">")) }

/-! ### what an `RmseSpec` denotes -/

/-- a slice text of the RMSE loop as a function of `obs_data`, `cm_data[K]` of the current key, the outer location `ab` (`A, B`)
    and the inner location `ij` (`I, J`).  Any other text denotes nothing. -/
def sliceSem {κ : Type} : String → Option ((κ → List Rat) → (κ → List Rat) → κ → κ → List Rat)
  | "obs_data[:, A, B]" => some (fun obs _ ab _ => obs ab)
  | "obs_data[:, I, J]" => some (fun obs _ _ ij => obs ij)
  | "cm_data[K][:, A, B]" => some (fun _ cm ab _ => cm ab)
  | "cm_data[K][:, I, J]" => some (fun _ cm _ ij => cm ij)
  | _ => none

/-- the value text: `sqrt` of sklearn's mean squared error between the two filled matrices (in this order) -/
def valueSem (sqrt : Rat → Rat) (m0 m1 : String) : String → Option (List Rat → List Rat → Except String Rat)
  | "math.sqrt(sklearn.metrics.mean_squared_error(M0, M1))" =>
    if m0 = "M0[I, J]" ∧ m1 = "M1[I, J]" then some (rmse sqrt) else none
  | _ => none

/-- Denotation of the regenerated RMSE loop: for every key (outer loop), for every location `ab` in the enumeration order of the
    location loop, the value of the two matrices filled over the inner location loop.  Defined only if both location loops are the
    same row-major `np.ndindex` enumeration, there are exactly two fills and every text is one the model knows. -/
def RmseSpec.den {κ' κ : Type} (S : RmseSpec) (corr : List Rat → List Rat → Rat) (sqrt : Rat → Rat) (keys : List κ') (cells : List κ)
    (obs : κ → List Rat) (cm : κ' → κ → List Rat) : Option (List (κ' × κ × Except String Rat)) :=
  if S.rowMajor = true ∧ S.cells = S.inner ∧ S.outer = "cm_data.keys()" then
    match S.fills with
    | [(m0, a0, b0), (m1, a1, b1)] =>
      match valueSem sqrt m0 m1 S.value, sliceSem (κ := κ) a0, sliceSem (κ := κ) b0, sliceSem (κ := κ) a1, sliceSem (κ := κ) b1 with
      | some val, some fa0, some fb0, some fa1, some fb1 =>
        some (keys.flatMap fun k => cells.map fun ab =>
          (k, ab, val (cells.map fun ij => corr (fa0 obs (cm k) ab ij) (fb0 obs (cm k) ab ij))
                      (cells.map fun ij => corr (fa1 obs (cm k) ab ij) (fb1 obs (cm k) ab ij))))
      | _, _, _, _, _ => none
    | _ => none
  else none

namespace Expected2

/-- expected (hand-checked against `ibicus/evaluate/marginal.py`): `_yearly_exceedances` -/
def yearly_exceedances : YP :=
  .ret (.sumSplit (.inst "metric" "dataset" "time") (.dropLast (.cumsum (.uniqueCounts (.years "time")))))

def yearly_exceedances_params : List String := ["metric", "dataset", "time"]

/-- expected: `_mean_yearly_exceedances` (the call of `_yearly_exceedances` inlined under Python's argument binding) -/
def mean_yearly_exceedances : YP :=
  .meanYears (.sumSplit (.inst "metric" "dataset" "time") (.dropLast (.cumsum (.uniqueCounts (.years "time")))))

def mean_yearly_exceedances_params : List String := ["metric", "dataset", "time"]

/-- the split indices of the code before repair 7cffa2c on a single year of `c` days would be `[c]` (a second, empty section) -/
def legacy_single_year_idx (c : Int) : List Int := [c]

end Expected2

end Model.EvalGrid
