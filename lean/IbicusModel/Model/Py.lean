/-
  Prelude: the Python / numpy operations that the translated kernels use, with the
  semantics stated in DESIGN.md §3 (trusted base).  Import-free, executable.
-/
namespace Py

/-- `np.arange(start, stop, step)` for integers, `step > 0`. -/
def arange (start stop step : Int) : List Int :=
  (List.range ((stop - start + step - 1) / step).toNat).map (fun (k : Nat) => start + (k : Int) * step)

/-- `np.arange(start, stop)`. -/
def arange1 (start stop : Int) : List Int := arange start stop 1

/-- `np.min` of an integer array (0 on the empty array, which numpy rejects). -/
def minL : List Int → Int
  | [] => 0
  | x :: xs => xs.foldl min x

def maxL : List Int → Int
  | [] => 0
  | x :: xs => xs.foldl max x

/-- `np.isin(a, b)`. -/
def isin (a b : List Int) : List Bool := a.map (fun x => b.contains x)

/-- `np.where(mask)[0]`. -/
def whereTrue (m : List Bool) : List Nat :=
  (List.range m.length).filter (fun i => m.getD i false)

/-- `x[mask]` (boolean indexing). -/
def selectWhere {α} (x : List α) (m : List Bool) : List α :=
  (x.zip m).filterMap (fun p => if p.2 then some p.1 else none)

/-- `x[mask] = v` (scalar assignment through a boolean mask). -/
def setWhere {α} (x : List α) (m : List Bool) (v : α) : List α :=
  (x.zip m).map (fun p => if p.2 then v else p.1)

/-- Python `round` on a rational: round half to even. -/
def roundHalfEven (q : Rat) : Int :=
  let f := q.floor
  let r := q - (f : Rat)
  if r < 1/2 then f else if r > 1/2 then f + 1 else if f % 2 = 0 then f else f + 1

/-- `np.isclose(a, b)` with numpy's defaults `rtol = 1e-5`, `atol = 1e-8` (finite arguments). -/
def absQ (q : Rat) : Rat := if q < 0 then -q else q

def isclose (a b : Rat) : Bool :=
  decide (absQ (a - b) ≤ (1 : Rat) / 100000000 + (1 : Rat) / 100000 * absQ b)

def mean (l : List Rat) : Rat := l.sum / (l.length : Rat)

/-- **Partial division** (translator option `partial_div`, C18/C20): numpy's `a / b` yields `inf`/`NaN` for `b = 0`
    (no exception); the model reports that as the error `"div0"` instead of Lean's total `x / 0 = 0`. -/
def divE (a b : Rat) : Except String Rat := if b = 0 then .error "div0" else .ok (a / b)

/-! ### translator option `column` (C20): one location's column of a `[time, i, j]` array is a list over time -/

/-- `np.cumsum` of an integer array -/
def cumsumFrom (acc : Int) : List Int → List Int
  | [] => []
  | a :: t => (acc + a) :: cumsumFrom (acc + a) t

def cumsum (l : List Int) : List Int := cumsumFrom 0 l

/-- `np.split(x, idx, axis=0)` for non-negative split points: the sections `x[0:i₀], x[i₀:i₁], …, x[i_last:]`
    (numpy: `div_points = [0] + idx + [len]`, section `k` is the Python slice `x[div[k]:div[k+1]]`) -/
def splitFrom {α} (x : List α) (prev : Int) : List Int → List (List α)
  | [] => [x.drop prev.toNat]
  | i :: t => ((x.drop prev.toNat).take (i - prev).toNat) :: splitFrom x i t

def splitAtIdx {α} (x : List α) (idx : List Int) : List (List α) := splitFrom x 0 idx

/-- run-length encoding of a list: `(value, length)` of every maximal run -/
def runs : List Int → List (Int × Nat)
  | [] => []
  | a :: t =>
    match runs t with
    | (b, n) :: r => if a = b then (b, n + 1) :: r else (a, 1) :: (b, n) :: r
    | [] => [(a, 1)]

/-- `np.unique(x)` / `np.unique(x, return_counts=True)`: the distinct values in ascending order and how often each occurs -/
def uniqueSorted (l : List Int) : List Int := (runs (l.mergeSort (fun a b => decide (a ≤ b)))).map (·.1)
def uniqueCounts (l : List Int) : List Int := (runs (l.mergeSort (fun a b => decide (a ≤ b)))).map (fun p => (p.2 : Int))

end Py
