/-
  Grid-level structure of `ibicus/evaluate/{trend,marginal,multivariate,correlation}.py` (property C20): a small DSL, its
  denotation, and the EXPECTED terms.  `translator/extract_evalgrid.py` regenerates the same data from /repo's current AST
  (`Gen/EvaluateGrid.lean`); `Lemmas/GenEvaluateGrid.lean` proves `Gen = Expected` and, for every helper, that the denotation of
  the expected program over ANY grid is `Model.Evaluate.gridEval` of the per-location model function.

  * `Stat`  — a reduction over time (axis 0) of one named data set: one number per location.
  * `GE`    — per-location arithmetic on such numbers; `/` is partial (`Py.divE`, `"div0"` = inf/NaN at that location).
  * `Cond`  — what an `if` tests: a string parameter, the `quantile` parameter, or a GLOBAL guard `np.all / np.any (stat ≠ 0 / = 0)`
              over all locations of the grid.
  * `Prog`  — a helper's body: branches ending in `return <GE>` (every location carries its own value) or `raise`.
  * `FrameSpec` — a public function: loop nest, checks, and per appended row the helper calls with their argument binding.
-/
import IbicusModel.Model.Evaluate

namespace Model.EvalGrid
open Model.Evaluate

/-- instance arrays (0/1 per time step) -/
inductive IE where
  | inst (metric ds tm : String)            -- `<metric>.calculate_instances_of_threshold_exceedance(ds, time=tm)`
  | setWhereEq (a : IE) (v w : Int)         -- `a[a == v] = w`
  | eqInt (a b : IE)                        -- `(a == b).astype(int)`

inductive Stat where
  | mean (ds : String)                      -- `np.mean(ds, axis=0)`
  | quantile (ds : String)                  -- `np.quantile(ds, quantile, axis=0)`
  | prob (ds tm : String)                   -- `metric.calculate_exceedance_probability(ds, time=tm)`
  | sumT (a : IE)                           -- `np.einsum("ijk -> jk", a)`

inductive GE where
  | stat (s : Stat) | lit (q : Rat)
  | add (a b : GE) | sub (a b : GE) | mul (a b : GE) | div (a b : GE)

inductive Cond where
  | strEq (param lit : String)
  | qLt (r : Rat) | qGt (r : Rat) | qLe (r : Rat) | qGe (r : Rat)
  | allNe0 (s : Stat) | anyNe0 (s : Stat) | allEq0 (s : Stat) | anyEq0 (s : Stat)
  | and (a b : Cond) | or (a b : Cond)

inductive Prog where
  | ret (e : GE) | raise (exc : String) | ite (c : Cond) (th el : Prog)

/-- what a helper is called with: the grid (list of locations), every data-set parameter as location ↦ column, the time
    parameters, the string parameters, `quantile`, and the statistics that are not formulas of these modules -/
structure Env (κ : Type) where
  cells : List κ
  ds : String → κ → List Rat
  tm : String → List Int
  str : String → String
  q : Rat
  Q : List Rat → Rat → Rat
  P : List Rat → List Int → Rat
  I : String → List Rat → List Int → List Int

def IE.den {κ} (E : Env κ) (c : κ) : IE → List Int
  | .inst m d t => E.I m (E.ds d c) (E.tm t)
  | .setWhereEq a v w => (a.den E c).map (fun x => if x = v then w else x)
  | .eqInt a b => List.zipWith (fun x y => if x = y then (1 : Int) else 0) (a.den E c) (b.den E c)

def Stat.den {κ} (E : Env κ) (c : κ) : Stat → Rat
  | .mean d => Py.mean (E.ds d c)
  | .quantile d => E.Q (E.ds d c) E.q
  | .prob d t => E.P (E.ds d c) (E.tm t)
  | .sumT a => (((a.den E c).sum : Int) : Rat)

/-- strict binary operation on partial values (left operand first) -/
def bin (f : Rat → Rat → Except String Rat) (x y : Except String Rat) : Except String Rat :=
  match x with
  | .error e => .error e
  | .ok a => match y with
    | .error e => .error e
    | .ok b => f a b

def GE.den {κ} (E : Env κ) (c : κ) : GE → Except String Rat
  | .stat s => .ok (s.den E c)
  | .lit q => .ok q
  | .add a b => bin (fun x y => .ok (x + y)) (a.den E c) (b.den E c)
  | .sub a b => bin (fun x y => .ok (x - y)) (a.den E c) (b.den E c)
  | .mul a b => bin (fun x y => .ok (x * y)) (a.den E c) (b.den E c)
  | .div a b => bin Py.divE (a.den E c) (b.den E c)

def Cond.den {κ} (E : Env κ) : Cond → Bool
  | .strEq p l => decide (E.str p = l)
  | .qLt r => decide (E.q < r) | .qGt r => decide (E.q > r) | .qLe r => decide (E.q ≤ r) | .qGe r => decide (E.q ≥ r)
  | .allNe0 s => E.cells.all (fun c => decide (s.den E c ≠ 0))
  | .anyNe0 s => E.cells.any (fun c => decide (s.den E c ≠ 0))
  | .allEq0 s => E.cells.all (fun c => decide (s.den E c = 0))
  | .anyEq0 s => E.cells.any (fun c => decide (s.den E c = 0))
  | .and a b => a.den E && b.den E
  | .or a b => a.den E || b.den E

/-- grid-level result of a helper: an exception, or one (partial) value per location, in the order of `cells` -/
def Prog.den {κ} (E : Env κ) : Prog → Except String (List (κ × Except String Rat))
  | .ret e => .ok (E.cells.map (fun c => (c, e.den E c)))
  | .raise x => .error x
  | .ite c t e => if c.den E then t.den E else e.den E

/-! ### public functions -/

structure Call where
  callee : String
  args : List (String × String)      -- callee parameter ↦ caller-side value (locals resolved; `KEY`/`VALUE`/`ITEM` = loop variables)

/-- a condition on the way to an append site -/
inductive PC where
  | isMean                           -- `ITEM == "mean"`
  | qIn01                            -- `ITEM <= 1 and ITEM >= 0`
  | strEq (param lit : String)

structure RowSpec where
  loop : String                      -- the list parameter whose loop contains the site ("" = directly in the outer loop)
  path : List (PC × Bool)
  calls : List Call                  -- `CALLi` of `dropIf` / `columns`
  dropIf : String                    -- the row is appended only if this is false ("" = always appended)
  columns : List (String × String)

structure FrameSpec where
  outer : String                     -- `for KEY, VALUE in <outer>`
  checks : List (String × String × String)   -- (where, test, exception), in source order
  inner : List String                -- the loops inside the outer loop, in source order
  rows : List RowSpec
  warns : List (String × List (PC × Bool))
  result : String

structure RmseSpec where
  outer : String
  cells : String
  inner : String
  rowMajor : Bool                    -- both location loops are `np.ndindex(obs_data.shape[1:])`
  fills : List (String × String × String)    -- (matrix entry, first / second argument of `np.corrcoef(·,·)[0, 1]`)
  value : String
  columns : List (String × String)
  tail : List String

/-- an element of `statistics` / `metrics` -/
inductive Ent where
  | mean | q (r : Rat) | metric (i : Nat)

def PC.holds (str : String → String) : PC → Ent → Bool
  | .isMean, .mean => true
  | .isMean, _ => false
  | .qIn01, .q r => decide (r ≤ 1 ∧ r ≥ 0)
  | .qIn01, _ => false
  | .strEq p l, _ => decide (str p = l)

def RowSpec.matches (str : String → String) (r : RowSpec) (lp : String) (e : Ent) : Bool :=
  decide (r.loop = lp) && r.path.all (fun cb => PC.holds str cb.1 e == cb.2)

def entries (stats : List Ent) (nMetrics : Nat) (lp : String) : List Ent :=
  if lp = "statistics" then stats else if lp = "metrics" then (List.range nMetrics).map Ent.metric else []

/-- The rows a public function appends, in order: for every key (keyword order), for every inner loop in source order, for every
    element of that list, the first append site whose path conditions hold — unless its `dropIf` test is true for the value.
    `V k r e` is the value the site `r` computes for key `k` and element `e`; `dropped` the inf test. -/
def FrameSpec.den {κ ν} (F : FrameSpec) (str : String → String) (keys : List κ) (stats : List Ent) (nMetrics : Nat)
    (V : κ → RowSpec → Ent → ν) (dropped : ν → Bool) : List (κ × Ent × ν) :=
  keys.flatMap fun k => F.inner.flatMap fun lp => (entries stats nMetrics lp).filterMap fun e =>
    match F.rows.find? (fun r => r.matches str lp e) with
    | none => none
    | some r => if r.dropIf ≠ "" ∧ dropped (V k r e) = true then none else some (k, e, V k r e)

/-- the environment a helper call runs in: the callee's data-set / time / string parameters are whatever the caller bound to
    them (`caller` resolves the caller-side texts `raw_validate`, `VALUE[0]`, `UNPACK2(obs)[0]`, …) -/
def Call.env {κ} (c : Call) (cells : List κ) (callerDs : String → κ → List Rat) (callerTm : String → List Int)
    (callerStr : String → String) (q : Rat) (Q : List Rat → Rat → Rat) (P : List Rat → List Int → Rat)
    (I : String → List Rat → List Int → List Int) : Env κ :=
  { cells := cells,
    ds := fun p => callerDs ((c.args.lookup p).getD ("<unbound " ++ p ++ ">")),
    tm := fun p => callerTm ((c.args.lookup p).getD ("<unbound " ++ p ++ ">")),
    str := fun p => callerStr ((c.args.lookup p).getD ("<unbound " ++ p ++ ">")),
    q := q, Q := Q, P := P, I := I }

/-- `rmse_spatial_correlation_distribution` for one data set: for every location `ab` (in the order of `cells`) the RMSE between
    the map of correlations of `ab` with every location in the observations and in the model (`corr`, `sqrt` parameters) -/
def rmseGrid {κ} (corr : List Rat → List Rat → Rat) (sqrt : Rat → Rat) (cells : List κ) (obs cm : κ → List Rat) :
    List (κ × Except String Rat) :=
  cells.map fun ab => (ab, rmse sqrt (cells.map fun ij => corr (obs ab) (obs ij)) (cells.map fun ij => corr (cm ab) (cm ij)))

/-- `np.ndindex(n, m)` / `.flatten()` (C order): row-major enumeration of an `n × m` grid -/
def rowMajor (n m : Nat) : List (Nat × Nat) := (List.range n).flatMap fun i => (List.range m).map fun j => (i, j)

namespace Expected

/-- expected (hand-checked against the source), cf. `ibicus/evaluate/trend.py`: `_calculate_mean_trend_bias` (grid program) -/
def calculate_mean_trend_bias : Prog :=
  (.ite (.strEq "trend_type" "additive")
    (.ret (.div (.mul (.lit (100 : Rat)) (.sub (.sub (.stat (.mean "bc_future")) (.stat (.mean "bc_validate"))) (.sub (.stat (.mean "raw_future")) (.stat (.mean "raw_validate"))))) (.sub (.stat (.mean "raw_future")) (.stat (.mean "raw_validate")))))
    (.ite (.strEq "trend_type" "multiplicative")
      (.ret (.div (.mul (.lit (100 : Rat)) (.sub (.div (.stat (.mean "bc_future")) (.stat (.mean "bc_validate"))) (.div (.stat (.mean "raw_future")) (.stat (.mean "raw_validate"))))) (.div (.stat (.mean "raw_future")) (.stat (.mean "raw_validate")))))
      (.raise "ValueError")))

/-- parameter order of `_calculate_mean_trend_bias` -/
def calculate_mean_trend_bias_params : List String := ["trend_type", "raw_validate", "raw_future", "bc_validate", "bc_future"]

/-- expected (hand-checked against the source), cf. `ibicus/evaluate/trend.py`: `_calculate_mean_trend` (grid program) -/
def calculate_mean_trend : Prog :=
  (.ite (.strEq "trend_type" "additive")
    (.ret (.sub (.stat (.mean "bc_future")) (.stat (.mean "bc_validate"))))
    (.ite (.strEq "trend_type" "multiplicative")
      (.ret (.div (.stat (.mean "bc_future")) (.stat (.mean "bc_validate"))))
      (.raise "ValueError")))

/-- parameter order of `_calculate_mean_trend` -/
def calculate_mean_trend_params : List String := ["trend_type", "bc_validate", "bc_future"]

/-- expected (hand-checked against the source), cf. `ibicus/evaluate/trend.py`: `_calculate_quantile_trend_bias` (grid program) -/
def calculate_quantile_trend_bias : Prog :=
  (.ite (.strEq "trend_type" "additive")
    (.ret (.div (.mul (.lit (100 : Rat)) (.sub (.sub (.stat (.quantile "bc_future")) (.stat (.quantile "bc_validate"))) (.sub (.stat (.quantile "raw_future")) (.stat (.quantile "raw_validate"))))) (.sub (.stat (.quantile "raw_future")) (.stat (.quantile "raw_validate")))))
    (.ite (.strEq "trend_type" "multiplicative")
      (.ite (.and (.allNe0 (.quantile "bc_validate")) (.allNe0 (.quantile "raw_validate")))
        (.ret (.div (.mul (.lit (100 : Rat)) (.sub (.div (.stat (.quantile "bc_future")) (.stat (.quantile "bc_validate"))) (.div (.stat (.quantile "raw_future")) (.stat (.quantile "raw_validate"))))) (.div (.stat (.quantile "raw_future")) (.stat (.quantile "raw_validate")))))
        (.raise "ZeroDivisionError"))
      (.raise "ValueError")))

/-- parameter order of `_calculate_quantile_trend_bias` -/
def calculate_quantile_trend_bias_params : List String := ["trend_type", "quantile", "raw_validate", "raw_future", "bc_validate", "bc_future"]

/-- expected (hand-checked against the source), cf. `ibicus/evaluate/trend.py`: `_calculate_quantile_trend` (grid program) -/
def calculate_quantile_trend : Prog :=
  (.ite (.strEq "trend_type" "additive")
    (.ret (.sub (.stat (.quantile "bc_future")) (.stat (.quantile "bc_validate"))))
    (.ite (.strEq "trend_type" "multiplicative")
      (.ite (.allNe0 (.quantile "bc_validate"))
        (.ret (.div (.stat (.quantile "bc_future")) (.stat (.quantile "bc_validate"))))
        (.raise "ZeroDivisionError"))
      (.raise "ValueError")))

/-- parameter order of `_calculate_quantile_trend` -/
def calculate_quantile_trend_params : List String := ["trend_type", "quantile", "bc_validate", "bc_future"]

/-- expected (hand-checked against the source), cf. `ibicus/evaluate/trend.py`: `_calculate_metrics_trend_bias` (grid program) -/
def calculate_metrics_trend_bias : Prog :=
  (.ite (.strEq "trend_type" "additive")
    (.ret (.div (.mul (.lit (100 : Rat)) (.sub (.sub (.stat (.prob "bc_future" "time_future")) (.stat (.prob "bc_validate" "time_validate"))) (.sub (.stat (.prob "raw_future" "time_future")) (.stat (.prob "raw_validate" "time_validate"))))) (.sub (.stat (.prob "raw_future" "time_future")) (.stat (.prob "raw_validate" "time_validate")))))
    (.ite (.strEq "trend_type" "multiplicative")
      (.ite (.and (.allNe0 (.prob "bc_validate" "time_validate")) (.allNe0 (.prob "raw_validate" "time_validate")))
        (.ret (.div (.mul (.lit (100 : Rat)) (.sub (.div (.stat (.prob "bc_future" "time_future")) (.stat (.prob "bc_validate" "time_validate"))) (.div (.stat (.prob "raw_future" "time_future")) (.stat (.prob "raw_validate" "time_validate"))))) (.div (.stat (.prob "raw_future" "time_future")) (.stat (.prob "raw_validate" "time_validate")))))
        (.raise "ZeroDivisionError"))
      (.raise "ValueError")))

/-- parameter order of `_calculate_metrics_trend_bias` -/
def calculate_metrics_trend_bias_params : List String := ["trend_type", "metric", "raw_validate", "raw_future", "bc_validate", "bc_future", "time_validate", "time_future"]

/-- expected (hand-checked against the source), cf. `ibicus/evaluate/trend.py`: `_calculate_metrics_trend` (grid program) -/
def calculate_metrics_trend : Prog :=
  (.ite (.strEq "trend_type" "additive")
    (.ret (.sub (.stat (.prob "bc_future" "time_future")) (.stat (.prob "bc_validate" "time_validate"))))
    (.ite (.strEq "trend_type" "multiplicative")
      (.ite (.allNe0 (.prob "bc_validate" "time_validate"))
        (.ret (.div (.stat (.prob "bc_future" "time_future")) (.stat (.prob "bc_validate" "time_validate"))))
        (.raise "ZeroDivisionError"))
      (.raise "ValueError")))

/-- parameter order of `_calculate_metrics_trend` -/
def calculate_metrics_trend_params : List String := ["trend_type", "metric", "bc_validate", "bc_future", "time_validate", "time_future"]

/-- expected (hand-checked against the source), cf. `ibicus/evaluate/marginal.py`: `_marginal_mean_bias` (grid program) -/
def marginal_mean_bias : Prog :=
  (.ite (.strEq "bias_type" "percentage")
    (.ite (.strEq "bias_type" "absolute")
      (.ret (.sub (.stat (.mean "cm_data")) (.stat (.mean "obs_data"))))
      (.ret (.div (.mul (.lit (100 : Rat)) (.sub (.stat (.mean "cm_data")) (.stat (.mean "obs_data")))) (.stat (.mean "obs_data")))))
    (.ite (.strEq "bias_type" "absolute")
      (.ret (.sub (.stat (.mean "cm_data")) (.stat (.mean "obs_data"))))
      (.raise "UnboundLocalError")))

/-- parameter order of `_marginal_mean_bias` -/
def marginal_mean_bias_params : List String := ["obs_data", "cm_data", "bias_type"]

/-- expected (hand-checked against the source), cf. `ibicus/evaluate/marginal.py`: `_marginal_quantile_bias` (grid program) -/
def marginal_quantile_bias : Prog :=
  (.ite (.or (.qLt (0 : Rat)) (.qGt (1 : Rat)))
    (.raise "ValueError")
    (.ite (.strEq "bias_type" "percentage")
      (.ite (.strEq "bias_type" "absolute")
        (.ret (.sub (.stat (.quantile "cm_data")) (.stat (.quantile "obs_data"))))
        (.ret (.div (.mul (.lit (100 : Rat)) (.sub (.stat (.quantile "cm_data")) (.stat (.quantile "obs_data")))) (.stat (.quantile "obs_data")))))
      (.ite (.strEq "bias_type" "absolute")
        (.ret (.sub (.stat (.quantile "cm_data")) (.stat (.quantile "obs_data"))))
        (.raise "UnboundLocalError"))))

/-- parameter order of `_marginal_quantile_bias` -/
def marginal_quantile_bias_params : List String := ["quantile", "obs_data", "cm_data", "bias_type"]

/-- expected (hand-checked against the source), cf. `ibicus/evaluate/marginal.py`: `_marginal_metrics_bias` (grid program) -/
def marginal_metrics_bias : Prog :=
  (.ret (.div (.mul (.lit (100 : Rat)) (.sub (.stat (.prob "cm_data" "time_cm_data")) (.stat (.prob "obs_data" "time_obs_data")))) (.stat (.prob "obs_data" "time_obs_data"))))

/-- parameter order of `_marginal_metrics_bias` -/
def marginal_metrics_bias_params : List String := ["metric", "obs_data", "cm_data", "time_obs_data", "time_cm_data"]

/-- expected (hand-checked against the source), cf. `ibicus/evaluate/marginal.py`: `_marginal_metrics_absolute_bias` (grid program) -/
def marginal_metrics_absolute_bias : Prog :=
  (.ret (.sub (.mul (.lit (365 : Rat)) (.stat (.prob "cm_data" "time_cm_data"))) (.mul (.lit (365 : Rat)) (.stat (.prob "obs_data" "time_obs_data")))))

/-- parameter order of `_marginal_metrics_absolute_bias` -/
def marginal_metrics_absolute_bias_params : List String := ["metric", "obs_data", "cm_data", "time_obs_data", "time_cm_data"]

/-- expected (hand-checked against the source), cf. `ibicus/evaluate/multivariate.py`: `_calculate_chi` (grid program) -/
def calculate_chi : Prog :=
  (.ite (.anyEq0 (.sumT (.inst "metric2" "dataset2" "time")))
    (.raise "ValueError")
    (.ret (.div (.stat (.sumT (.eqInt (.setWhereEq (.inst "metric1" "dataset1" "time") (0) (2)) (.inst "metric2" "dataset2" "time")))) (.stat (.sumT (.inst "metric2" "dataset2" "time"))))))

/-- parameter order of `_calculate_chi` -/
def calculate_chi_params : List String := ["metric1", "metric2", "dataset1", "dataset2", "time"]

/-- expected (hand-checked against the source), cf. `ibicus/evaluate/trend.py`: `calculate_future_trend_bias` (frame specification) -/
def calculate_future_trend_bias : FrameSpec :=
  { outer := "debiased_cms.items()",
    checks := [("loop", "len(VALUE) != 2", "ValueError")],
    inner := ["statistics", "metrics"],
    rows := [
    { loop := "statistics", path := [(.isMean, true)],
      calls := [{ callee := "_calculate_mean_trend_bias", args := [("trend_type", "trend_type"), ("raw_validate", "raw_validate"), ("raw_future", "raw_future"), ("bc_validate", "VALUE[0]"), ("bc_future", "VALUE[1]")] }],
      dropIf := "np.any(np.isinf(CALL0))",
      columns := [("Correction Method", "KEY"), ("Metric", "'Mean'"), ("Bias", "[CALL0]")] },
    { loop := "statistics", path := [(.isMean, false), (.qIn01, true)],
      calls := [{ callee := "_calculate_quantile_trend_bias", args := [("trend_type", "trend_type"), ("quantile", "ITEM"), ("raw_validate", "raw_validate"), ("raw_future", "raw_future"), ("bc_validate", "VALUE[0]"), ("bc_future", "VALUE[1]")] }],
      dropIf := "np.any(np.isinf(CALL0))",
      columns := [("Correction Method", "KEY"), ("Metric", "str(ITEM) + ' qn'"), ("Bias", "[CALL0]")] },
    { loop := "metrics", path := [],
      calls := [{ callee := "_calculate_metrics_trend_bias", args := [("trend_type", "trend_type"), ("metric", "ITEM"), ("raw_validate", "raw_validate"), ("raw_future", "raw_future"), ("bc_validate", "VALUE[0]"), ("bc_future", "VALUE[1]"), ("time_validate", "time_validate"), ("time_future", "time_future")] }],
      dropIf := "np.any(np.isinf(CALL0))",
      columns := [("Correction Method", "KEY"), ("Metric", "ITEM.name"), ("Bias", "[CALL0]")] }],
    warns := [("statistics", [(.isMean, false), (.qIn01, false)])],
    result := "pd.concat(ROWS)" }

/-- expected (hand-checked against the source), cf. `ibicus/evaluate/trend.py`: `calculate_future_trend` (frame specification) -/
def calculate_future_trend : FrameSpec :=
  { outer := "debiased_cms.items()",
    checks := [("loop", "len(VALUE) != 2", "ValueError")],
    inner := ["statistics", "metrics"],
    rows := [
    { loop := "statistics", path := [(.isMean, true)],
      calls := [{ callee := "_calculate_mean_trend", args := [("trend_type", "trend_type"), ("bc_validate", "VALUE[0]"), ("bc_future", "VALUE[1]")] }],
      dropIf := "np.any(np.isinf(CALL0))",
      columns := [("Correction Method", "KEY"), ("Metric", "'Mean'"), ("Bias", "[CALL0]")] },
    { loop := "statistics", path := [(.isMean, false), (.qIn01, true)],
      calls := [{ callee := "_calculate_quantile_trend", args := [("trend_type", "trend_type"), ("quantile", "ITEM"), ("bc_validate", "VALUE[0]"), ("bc_future", "VALUE[1]")] }],
      dropIf := "np.any(np.isinf(CALL0))",
      columns := [("Correction Method", "KEY"), ("Metric", "str(ITEM) + ' qn'"), ("Bias", "[CALL0]")] },
    { loop := "metrics", path := [],
      calls := [{ callee := "_calculate_metrics_trend", args := [("trend_type", "trend_type"), ("metric", "ITEM"), ("bc_validate", "VALUE[0]"), ("bc_future", "VALUE[1]"), ("time_validate", "time_validate"), ("time_future", "time_future")] }],
      dropIf := "np.any(np.isinf(CALL0))",
      columns := [("Correction Method", "KEY"), ("Metric", "ITEM.name"), ("Bias", "[CALL0]")] }],
    warns := [("statistics", [(.isMean, false), (.qIn01, false)])],
    result := "pd.concat(ROWS)" }

/-- expected (hand-checked against the source), cf. `ibicus/evaluate/marginal.py`: `calculate_marginal_bias` (frame specification) -/
def calculate_marginal_bias : FrameSpec :=
  { outer := "cm_data.items()",
    checks := [("pre", "UNPACK2(obs)", "ValueError"), ("loop", "UNPACK2(VALUE)", "ValueError")],
    inner := ["statistics", "metrics"],
    rows := [
    { loop := "statistics", path := [(.isMean, true)],
      calls := [{ callee := "_marginal_mean_bias", args := [("obs_data", "UNPACK2(obs)[0]"), ("cm_data", "UNPACK2(VALUE)[0]"), ("bias_type", "percentage_or_absolute")] }],
      dropIf := "np.any(np.isinf(CALL0))",
      columns := [("Correction Method", "KEY"), ("Metric", "'Mean'"), ("Type", "percentage_or_absolute"), ("Bias", "[CALL0]")] },
    { loop := "statistics", path := [(.isMean, false), (.qIn01, true)],
      calls := [{ callee := "_marginal_quantile_bias", args := [("quantile", "ITEM"), ("obs_data", "UNPACK2(obs)[0]"), ("cm_data", "UNPACK2(VALUE)[0]"), ("bias_type", "percentage_or_absolute")] }],
      dropIf := "np.any(np.isinf(CALL0))",
      columns := [("Correction Method", "KEY"), ("Metric", "str(ITEM) + ' qn'"), ("Type", "percentage_or_absolute"), ("Bias", "[CALL0]")] },
    { loop := "metrics", path := [((.strEq "percentage_or_absolute" "percentage"), true)],
      calls := [{ callee := "_marginal_metrics_bias", args := [("metric", "ITEM"), ("obs_data", "UNPACK2(obs)[0]"), ("cm_data", "UNPACK2(VALUE)[0]"), ("time_obs_data", "UNPACK2(obs)[1]"), ("time_cm_data", "UNPACK2(VALUE)[1]")] }],
      dropIf := "np.any(np.isinf(CALL0))",
      columns := [("Correction Method", "KEY"), ("Metric", "ITEM.name"), ("Type", "percentage_or_absolute"), ("Bias", "[CALL0]")] },
    { loop := "metrics", path := [((.strEq "percentage_or_absolute" "percentage"), false), ((.strEq "percentage_or_absolute" "absolute"), true)],
      calls := [{ callee := "_marginal_metrics_absolute_bias", args := [("metric", "ITEM"), ("obs_data", "UNPACK2(obs)[0]"), ("cm_data", "UNPACK2(VALUE)[0]"), ("time_obs_data", "UNPACK2(obs)[1]"), ("time_cm_data", "UNPACK2(VALUE)[1]")] }],
      dropIf := "",
      columns := [("Correction Method", "KEY"), ("Metric", "ITEM.name"), ("Type", "percentage_or_absolute"), ("Bias", "[CALL0]")] }],
    warns := [("statistics", [(.isMean, false), (.qIn01, false)]), ("metrics", [((.strEq "percentage_or_absolute" "percentage"), false), ((.strEq "percentage_or_absolute" "absolute"), false)])],
    result := "pd.concat(ROWS)" }

/-- expected (hand-checked against the source), cf. `ibicus/evaluate/marginal.py`: `calculate_bias_days_metrics` (frame specification) -/
def calculate_bias_days_metrics : FrameSpec :=
  { outer := "cm_data.items()",
    checks := [("pre", "not isinstance(obs_data, (list, tuple))", "ValueError"), ("pre", "not len(obs_data) == 2", "ValueError"), ("loop", "not isinstance(VALUE, (list, tuple))", "ValueError"), ("loop", "not len(VALUE) == 2", "ValueError")],
    inner := ["metrics"],
    rows := [
    { loop := "metrics", path := [],
      calls := [{ callee := "_mean_yearly_exceedances", args := [("metric", "ITEM"), ("dataset", "VALUE[0]"), ("time", "VALUE[1]")] },
                { callee := "_mean_yearly_exceedances", args := [("metric", "ITEM"), ("dataset", "obs_data[0]"), ("time", "obs_data[1]")] }],
      dropIf := "",
      columns := [("Correction Method", "KEY"), ("Metric", "ITEM.name"), ("CM", "[CALL0]"), ("Obs", "[CALL1]"), ("Bias", "[CALL0 - CALL1]")] }],
    warns := [],
    result := "pd.concat(ROWS)" }

/-- expected (hand-checked against the source), cf. `ibicus/evaluate/multivariate.py`: `calculate_conditional_joint_threshold_exceedance` (frame specification) -/
def calculate_conditional_joint_threshold_exceedance : FrameSpec :=
  { outer := "climate_data.items()",
    checks := [],
    inner := [],
    rows := [
    { loop := "", path := [],
      calls := [{ callee := "_calculate_chi", args := [("metric1", "metric1"), ("metric2", "metric2"), ("dataset1", "VALUE[0]"), ("dataset2", "VALUE[1]"), ("time", "VALUE[2] if len(VALUE) > 2 else None")] }],
      dropIf := "",
      columns := [("Correction Method", "KEY"), ("Compound metric", "'{} given {}'.format(metric1.name, metric2.name)"), ("Conditional exceedance probability", "[CALL0 * 100]")] }],
    warns := [],
    result := "pd.concat(ROWS)" }

/-- expected (hand-checked against the source), cf. `ibicus/evaluate/correlation.py`: `rmse_spatial_correlation_distribution` -/
def rmse_spatial_correlation_distribution : RmseSpec :=
  { outer := "cm_data.keys()", cells := "np.ndindex(obs_data.shape[1:])", inner := "np.ndindex(obs_data.shape[1:])",
    rowMajor := true,
    fills := [("M0[I, J]", "obs_data[:, A, B]", "obs_data[:, I, J]"), ("M1[I, J]", "cm_data[K][:, A, B]", "cm_data[K][:, I, J]")],
    value := "math.sqrt(sklearn.metrics.mean_squared_error(M0, M1))",
    columns := [("x", "[A]"), ("y", "[B]"), ("Correction Method", "K"), ("RMSE spatial correlation", "RMSD")],
    tail := ["RESULT['RMSE spatial correlation'] = pd.to_numeric(RESULT['RMSE spatial correlation'])", "return RESULT"] }

/-- expected (hand-checked against the source), cf. `ibicus/utils/_utils.py`: `_unpack_df_of_numpy_arrays`, alpha-normalised -/
def unpack_df_of_numpy_arrays_text : String :=
  "v2 = []; for v3, v4 in v0.iterrows(): v5 = {} for v6, v7 in v4.items(): if v6 == v1: v5[v6] = v7.flatten() else: v5[v6] = v7 v2.append(pd.DataFrame(data=v5)); v8 = pd.concat(v2); v8[v1] = pd.to_numeric(v8[v1]); return v8"

/-- expected (hand-checked against the source), cf. `ibicus/utils/_utils.py`: `_check_if_list_of_two_and_unpack_else_none`, alpha-normalised -/
def check_if_list_of_two_and_unpack_else_none_text : String :=
  "if isinstance(v0, (list, tuple)): if len(v0) > 2: raise ValueError return (v0[0], v0[1]) else: return (v0, None)"

/-- memory order in which `_unpack_df_of_numpy_arrays` flattens the per-location array of a row (`C` = row-major) -/
def unpack_flatten_order : String := "C"


end Expected

end Model.EvalGrid
