/-
  Threshold metrics, the string-level dispatch (hand-written; C19 tier A compares `Gen/Metrics.lean` with this file).

  `Model/Metrics.lean` works with enumerations (`ThType`, `HL`, `Spec.overall | grouped`) and with time groups that were
  already computed.  The real code dispatches on *strings* (`threshold_type`, `threshold_scope`, `higher_or_lower`) and on
  `time is None`.  This file states which string is which constructor, what each branch does, and the meaning of the three
  array pipelines that the regenerated definitions take as parameters (key test, merge lookup, overall value).
-/
import IbicusModel.Model.Metrics

namespace Model.Metrics

def ThType.str : ThType → String
  | .higher => "higher"
  | .lower => "lower"
  | .between => "between"
  | .outside => "outside"

def HL.str : HL → String
  | .higher => "higher"
  | .lower => "lower"

inductive Scope where
  | overall | day | month | season
deriving DecidableEq, Repr

def Scope.str : Scope → String
  | .overall => "overall"
  | .day => "day"
  | .month => "month"
  | .season => "season"

/-- `_get_time_group_by_scope(time, threshold_scope)`: `None` for `overall` (whatever `time` is); `ValueError` for a time
    scope without `time`; otherwise `utils.day_of_year | month | season` of `time`. -/
def timeGroup {τ γ : Type} (doy mon sea : τ → γ) (time : Option τ) : Scope → Except String (Option γ)
  | .overall => .ok none
  | .day => match time with | none => .error "ValueError" | some t => .ok (some (doy t))
  | .month => match time with | none => .error "ValueError" | some t => .ok (some (mon t))
  | .season => match time with | none => .error "ValueError" | some t => .ok (some (sea t))

/-- the time groups `Model.Metrics.thresholds` is given: none for `overall`, else the scope's function of `time` -/
def grpOf {τ : Type} (doy mon sea : τ → Nat → Int) (sc : Scope) (time : Option τ) : Option (Nat → Int) :=
  match sc with
  | .overall => none
  | .day => time.map doy
  | .month => time.map mon
  | .season => time.map sea

/-- `__attrs_post_init__` (`_check_types_scope_and_locality`): a dict of thresholds iff the scope is a time scope -/
def Scope.agrees : Scope → Spec → Prop
  | .overall, .overall _ => True
  | .overall, .grouped _ => False
  | _, .grouped _ => True
  | _, .overall _ => False

/-- `np.all(np.isin(time, list(threshold_value.keys())))` over the `T` time steps -/
def allIsinKeys (T : Nat) (g : Option (Nat → Int)) (s : Spec) : Bool :=
  match g, s with
  | some g, .grouped f => (List.range T).all (fun t => (f (g t)).isSome)
  | _, _ => false

/-- the left merge of the time groups with the `(key, threshold)` table, `.threshold.values`, broadcast -/
def mergeLookup (g : Option (Nat → Int)) (s : Spec) : Nat → Nat → Nat → Rat :=
  match g, s with
  | some g, .grouped f => fun t i j => match f (g t) with
    | some v => v.at i j
    | none => 0
  | _, _ => fun _ _ _ => 0

/-- `thresholds = threshold_value` for `overall`, broadcast -/
def overallValue (s : Spec) : Nat → Nat → Nat → Rat :=
  match s with
  | .overall v => fun _ i j => v.at i j
  | .grouped _ => fun _ _ _ => 0

/-- `np.logical_and` / `np.logical_or` on masks -/
def maskAnd (a b : Mask) : Mask := fun t i j => a t i j && b t i j
def maskOr (a b : Mask) : Mask := fun t i j => a t i j || b t i j

/-- `_get_mask_higher_or_lower` with its string argument: thresholds first, then the dispatch on the string -/
def maskHLStr (x : Data) (grp : Option (Nat → Int)) (T : Nat) (s : Spec) (h : String) : Except String Mask :=
  match thresholds s grp T with
  | .error e => .error e
  | .ok th =>
    if h = "higher" then .ok (fun t i j => decide (x t i j > th t i j))
    else if h = "lower" then .ok (fun t i j => decide (x t i j < th t i j))
    else .error "ValueError"

/-- the defining comparison of one value with its threshold(s), by the *string* type (`ValueError` for any other string) -/
def condStr (ty : String) (x lo hi : Rat) : Except String Bool :=
  if ty = "higher" then .ok (decide (x > lo))
  else if ty = "lower" then .ok (decide (x < lo))
  else if ty = "between" then .ok (decide (x > lo) && decide (x < hi))
  else if ty = "outside" then .ok (decide (x < lo) || decide (x > hi))
  else .error "ValueError"

/-! ### `from_quantile`: the argument `q` as Python passes it -/

inductive QArg where
  | scalar (q : Rat)
  | seq (l : List Rat)

def QArg.isSeq : QArg → Bool
  | .scalar _ => false
  | .seq _ => true

/-- `len(q)` (only evaluated after `isinstance(q, (list, tuple, np.ndarray))`) -/
def QArg.len : QArg → Int
  | .scalar _ => 0
  | .seq l => l.length

/-- `q[k]` (only evaluated after `len(q) == 2`) -/
def QArg.item (k : Nat) : QArg → Rat
  | .scalar q => q
  | .seq l => l.getD k 0

/-- `from_quantile` on the argument as passed: `between` / `outside` need a sequence of exactly two quantiles
    (`ValueError` otherwise, also when they are not increasing); `higher` / `lower` with a scalar use it for the single
    threshold.  (`higher` / `lower` with a *sequence* `q` is not modelled: numpy then returns an array of quantiles.) -/
def fromQuantileQ (ty : ThType) (byTime : Bool) (lc : Locality) (x : Data) (grp : Option (Nat → Int))
    (T I J : Nat) : QArg → Except String Metric
  | .scalar q =>
    match ty with
    | .higher | .lower => fromQuantile ty byTime lc x grp T I J q q
    | .between | .outside => .error "ValueError"
  | .seq l =>
    match ty with
    | .between | .outside =>
      match l with
      | [q0, q1] => fromQuantile ty byTime lc x grp T I J q0 q1
      | _ => .error "ValueError"
    | .higher | .lower => .error "unmodelled"

end Model.Metrics
