/-
  C19 tier A, part 2: the data the second half of `translator/extract_metrics.py` regenerates from
  `ibicus/evaluate/metrics.py`, and its meaning.

  * `A` — the expressions of the per-data-set body of `calculate_spatial_extent` and
    `calculate_spatiotemporal_clusters` (whole-array operations on the `[time, i, j]` instances array), `denote` gives each
    constructor the numpy / scipy meaning (trusted base: `einsum("ijk -> i")` sums over the two spatial axes, `np.prod` of
    a shape, `a.max()`, `np.arange`, `measurements.sum(input, labels, index)` sums `input` over the cells carrying each
    listed label, `a[a != 0]`).  The labelling `measurements.label(..)[0]` is an *extern*: a parameter of `denote`.
  * `Head` — the statements every per-data-set method shares (`for key, value in climate_data.items(): …`).
  * `AnnualLoop` — allocation, loop nest and store of the two annual functions around the per-year comprehension.
  * the meaning of the four `np.quantile` pipelines `_get_quantile_by_locality` dispatches between, and of the constructor's
    type check, as the parameters the regenerated dispatch functions are instantiated with.

  Import-free apart from `Model/`, executable where the extern is.
-/
import IbicusModel.Model.Metrics
import IbicusModel.Model.MetricsDispatch

namespace Model.NpGrid
open Model.Metrics

abbrev Arr := Nat → Nat → Nat → Nat

inductive A where
  | inst                               -- the instances array of the data set (`threshold_data`)
  | label0 (a : A)                     -- first component of `measurements.label(a)` (extern)
  | lit (k : Nat)                      -- a non-negative integer literal
  | add (a b : A)                      -- `a + b` on integers
  | amax (a : A)                       -- `a.max()`
  | arange (lo hi : A)                 -- `np.arange(lo, hi)`; `np.arange(hi)` is read as `arange (lit 0) hi`
  | labelSum (inp lab idx : A)         -- `measurements.sum(inp, lab, index=idx)`
  | einsumTime (a : A)                 -- `np.einsum("ijk -> i", a)`
  | prodShapeFrom (a : A) (k : Nat)    -- `np.prod(a.shape[k:])`
  | shapeAt (a : A) (k : Nat)          -- `a.shape[k]`
  | div (a b : A)                      -- `a / b` (vector / integer)
  | selNeZero (a : A)                  -- `a[a != 0]`
deriving DecidableEq, Repr

inductive V where
  | arr (T I J : Nat) (f : Arr)
  | nat (k : Nat)
  | vecN (l : List Nat)
  | vecQ (l : List Rat)

/-- meaning of an expression.  `label` is the extern `fun a => measurements.label(a)[0]`; `x` the value of `inst`.
    `a.max()` of an empty array is numpy's `ValueError`; a division by zero gives `nan` / `inf` entries (and a
    `RuntimeWarning`) in numpy — reported as `"nan"` here, never totalised away. -/
def denote (label : Arr → Arr) (x : V) : A → Except String V
  | .inst => .ok x
  | .label0 a =>
    match denote label x a with
    | .error e => .error e
    | .ok (.arr T I J f) => .ok (.arr T I J (label f))
    | .ok _ => .error "TypeError"
  | .lit k => .ok (.nat k)
  | .add a b =>
    match denote label x a with
    | .error e => .error e
    | .ok va =>
      match denote label x b with
      | .error e => .error e
      | .ok vb =>
        match va, vb with
        | .nat p, .nat q => .ok (.nat (p + q))
        | _, _ => .error "TypeError"
  | .amax a =>
    match denote label x a with
    | .error e => .error e
    | .ok (.arr T I J f) => if T * I * J = 0 then .error "ValueError" else .ok (.nat (maxLabel f T I J))
    | .ok _ => .error "TypeError"
  | .arange lo hi =>
    match denote label x lo with
    | .error e => .error e
    | .ok va =>
      match denote label x hi with
      | .error e => .error e
      | .ok vb =>
        match va, vb with
        | .nat p, .nat q => .ok (.vecN ((List.range (q - p)).map (fun l => l + p)))
        | _, _ => .error "TypeError"
  | .labelSum inp lab idx =>
    match denote label x inp with
    | .error e => .error e
    | .ok vi =>
      match denote label x lab with
      | .error e => .error e
      | .ok vl =>
        match denote label x idx with
        | .error e => .error e
        | .ok vx =>
          match vi, vl, vx with
          | .arr T I J f, .arr T' I' J' g, .vecN ls =>
            if T = T' ∧ I = I' ∧ J = J' then
              .ok (.vecN (ls.map (fun l => sum3 T I J (fun t i j => if g t i j = l then f t i j else 0))))
            else .error "RuntimeError"
          | _, _, _ => .error "TypeError"
  | .einsumTime a =>
    match denote label x a with
    | .error e => .error e
    | .ok (.arr T I J f) => .ok (.vecN ((List.range T).map (fun t => sumIJ I J (f t))))
    | .ok _ => .error "TypeError"
  | .prodShapeFrom a k =>
    match denote label x a with
    | .error e => .error e
    | .ok (.arr T I J _) => .ok (.nat (([T, I, J].drop k).foldl (fun p d => p * d) 1))
    | .ok _ => .error "TypeError"
  | .shapeAt a k =>
    match denote label x a with
    | .error e => .error e
    | .ok (.arr T I J _) =>
      match [T, I, J][k]? with
      | some d => .ok (.nat d)
      | none => .error "IndexError"
    | .ok _ => .error "TypeError"
  | .div a b =>
    match denote label x a with
    | .error e => .error e
    | .ok va =>
      match denote label x b with
      | .error e => .error e
      | .ok vb =>
        match va, vb with
        | .vecN l, .nat n => if n = 0 then .error "nan" else .ok (.vecQ (l.map (fun c => ((c : Nat) : Rat) / ((n : Nat) : Rat))))
        | _, _ => .error "TypeError"
  | .selNeZero a =>
    match denote label x a with
    | .error e => .error e
    | .ok (.vecQ l) => .ok (.vecQ (l.filter (fun e => decide (e ≠ 0))))
    | .ok (.vecN l) => .ok (.vecN (l.filter (fun e => decide (e ≠ 0))))
    | .ok _ => .error "TypeError"

/-- The statements shared by `calculate_spatial_extent` / `calculate_spatiotemporal_clusters` (and, with the mask instead
    of the instances, `calculate_spell_length`), read structurally by the extractor:

        for KEY, VALUE in <**kwargs>.items():
            if isinstance(VALUE, (list, tuple)):  D = self.<source>(VALUE[0], time=VALUE[1])
            else:
                if self.threshold_scope in <timeScopes>: raise <raises>(…)
                D = self.<source>(VALUE, time=None)
            R = <body over D>
            <frames>.append(pd.DataFrame(data={<c0>: [KEY] * R.size, <c1>: [self.name] * R.size, <c2>: R}))
        <out> = pd.concat(<frames>);  <out>[<c2>] = pd.to_numeric(<out>[<c2>]);  return <out>

    Anything else (another argument order, another method, a second use of `VALUE`, the frame built from another local …)
    is outside the recognised shape.  `columns` = `[c0, c1, c2]`, `numericColumn` = the column converted after `concat`. -/
structure Head where
  source : String
  timeScopes : List String
  raises : String
  columns : List String
  numericColumn : String
deriving DecidableEq, Repr

/-! ### the annual functions: allocation, loop nest, store -/

/-- a dimension read from an array's shape -/
inductive Dim where
  | years                   -- `years.shape[0]` (`years` = the local the comprehension iterates over)
  | data (k : Nat)          -- `dataset.shape[k]` (the method's first parameter)
  | values (k : Nat)        -- `<values>.shape[k]` (the instances / filtered array the comprehension reads)
deriving DecidableEq, Repr

/-- `OUT = np.zeros((d0, d1, d2)); for j in range(r1): for k in range(r2): OUT[:, j, k] = [… for i in years]; return OUT` -/
structure AnnualLoop where
  alloc : List Dim          -- the tuple given to `np.zeros`
  outer : Dim               -- `range(..)` of the outer loop
  inner : Dim               -- `range(..)` of the inner loop
  storeOuter : Bool         -- the store is `OUT[:, <outer var>, <inner var>]` (the extractor requires the slice; `true, true`
  storeInner : Bool         --  = outer variable on axis 1, inner on axis 2)
  returnsAlloc : Bool       -- the allocated array is what is returned
deriving DecidableEq, Repr

def Dim.val (Y : Nat) (dd dv : List Nat) : Dim → Option Nat
  | .years => some Y
  | .data k => dd[k]?
  | .values k => dv[k]?

/-- the returned array: entry `[y][i][j]` is `comp i j` at `y` when the loops reach `(i, j)`, the `np.zeros` entry
    otherwise.  `none` = the program is not of the recognised shape, raises (`IndexError`: a dimension that does not exist;
    `ValueError`: a comprehension of the wrong length stored into a slice) or does not return the array. -/
def AnnualLoop.run {α : Type} [Zero α] (s : AnnualLoop) (Y : Nat) (dd dv : List Nat) (comp : Nat → Nat → List α) :
    Option (List Nat × (Nat → Nat → Nat → α)) :=
  match s.alloc.mapM (Dim.val Y dd dv), s.outer.val Y dd dv, s.inner.val Y dd dv with
  | some [a0, a1, a2], some r1, some r2 =>
    if s.storeOuter ∧ s.storeInner ∧ s.returnsAlloc ∧ r1 ≤ a1 ∧ r2 ≤ a2 ∧ a0 = Y then
      some ([a0, a1, a2], fun y i j => if i < r1 ∧ j < r2 then (comp i j).getD y 0 else 0)
    else none
  | _, _, _ => none

/-! ### `_get_quantile_by_locality`: the four `np.quantile` pipelines -/

/-- the time groups as `_get_threshold_from_quantile` passes them on: the result of `_get_time_group_by_scope` -/
abbrev Groups := Option (Nat → Int)

/-- `np.quantile(x, q)` → one number for the whole array -/
def quantileFlat (T I J : Nat) (x : Data) (q : Rat) : Spec := .overall (qThr .global x (List.range T) I J q)

/-- `np.quantile(x, q, axis=0)` → one number per location -/
def quantileAxis0 (T I J : Nat) (x : Data) (q : Rat) : Spec := .overall (qThr .local x (List.range T) I J q)

/-- `{t: <quantile of x[np.where(time == t)]> for t in np.unique(time)}`: a key for every group that occurs -/
def groupDict (lc : Locality) (T I J : Nat) (x : Data) (time : Groups) (q : Rat) : Spec :=
  match time with
  | some g => .grouped (fun key =>
      let ts := (List.range T).filter (fun t => decide (g t = key))
      if ts.isEmpty then none else some (qThr lc x ts I J q))
  | none => .grouped (fun _ => none)  -- `np.unique(None)` = `[None]`, `time == None` selects nothing: unreachable, see `qSpec`

def _root_.Model.Metrics.Locality.str : Locality → String
  | .global => "global"
  | .local => "local"

end Model.NpGrid
