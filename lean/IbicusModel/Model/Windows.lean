/-
  Layer K: running-window bookkeeping (hand-written model of
  `ibicus/utils/_running_window_mode.py`).  Import-free, executable.
-/
import IbicusModel.Model.Py

namespace Model.Windows

/-- "make it odd" normalisation of both `__attrs_post_init__`s. -/
def normOdd (n : Int) : Int := if n % 2 = 0 then n + 1 else n

/-- `__attrs_post_init__`: normalised `(length, step)` or `ValueError`. -/
def postInit (L S : Int) : Except String (Int × Int) :=
  if normOdd S > normOdd L then .error "ValueError" else .ok (normOdd L, normOdd S)

/-- first window centre of `_get_window_centers` -/
def firstCenter (mn mx S : Int) : Int :=
  if (mx - mn + 1) % S = 0 then mn + S / 2 else mn + S / 2 - (S - (mx - mn + 1) % S) / 2

def centersMM (mn mx S : Int) : List Int := Py.arange (firstCenter mn mx S) (mx + 1) S

/-- `_get_window_centers` -/
def centers (S : Int) (doy : List Int) : List Int := centersMM (Py.minL doy) (Py.maxL doy) S

/-- `np.mod(x, 366)` followed by `0 ↦ 366` -/
def wrap366 (x : Int) : Int := if x % 366 = 0 then 366 else x % 366

def windowRange (L c : Int) : List Int := (Py.arange1 (c - L / 2) (c + L / 2 + 1)).map wrap366

def adjustRange (S c : Int) : List Int :=
  (Py.arange1 (c - S / 2) (c + S / 2 + 1)).filter (fun d => decide (0 ≤ d) && decide (d ≤ 366))

/-- `np.where(np.isin(doy, range))[0]` -/
def indicesIn (doy range : List Int) : List Nat := Py.whereTrue (Py.isin doy range)

/-- `get_indices_vals_in_window` -/
def idxWindow (L : Int) (doy : List Int) (c : Int) : List Nat := indicesIn doy (windowRange L c)

/-- `get_indices_vals_to_adjust` -/
def idxAdjust (S : Int) (doy : List Int) (c : Int) : List Nat := indicesIn doy (adjustRange S c)

/-- `RunningWindowOverDaysOfYear.use`: the centres that adjust at least one time step (centres on days
    of year that are absent from the data are skipped) -/
def useCenters (S : Int) (doy : List Int) : List Int :=
  (centers S doy).filter (fun c => !(idxAdjust S doy c).isEmpty)

/-! ### Years -/

def yearsInWindow (L c : Int) : List Int := Py.arange1 (c - L / 2) (c + L / 2 + 1)
def yearsAdjusted (S c : Int) : List Int := Py.arange1 (c - S / 2) (c + S / 2 + 1)

/-- round-half-even of `(a + b) / 2` on integers -/
def midRound (a b : Int) : Int :=
  if (a + b) % 2 = 0 then (a + b) / 2 else if ((a + b) / 2) % 2 = 0 then (a + b) / 2 else (a + b) / 2 + 1

/-- `_get_years_forming_window_centers` (repaired: spans the years present) -/
def yearCenters (S : Int) (ys : List Int) : List Int :=
  let mn := Py.minL ys
  let mx := Py.maxL ys
  if mx - mn + 1 ≤ S then [midRound mn mx]
  else (centersMM mn mx S).filter (fun c => (Py.isin (yearsAdjusted S c) ys).any id)

/-- `np.isin(years, chosen)` as used by CDFt / QDM -/
def yearMask (years chosen : List Int) : List Bool := Py.isin years chosen

end Model.Windows
