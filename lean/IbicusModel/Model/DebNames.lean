/-
  The eight debiasers of `ibicus.debias` (shared by the contract model C14 and the configuration model C15).
  Import-free.
-/
namespace Model.DebNames

inductive Deb | linearScaling | deltaChange | quantileMapping | scaledDistributionMapping | cdft | ecdfm | quantileDeltaMapping | isimip
  deriving DecidableEq, Repr

/-- column order of the support table in `ibicus/debias/__init__.py` -/
def Deb.all : List Deb := [.linearScaling, .deltaChange, .quantileMapping, .scaledDistributionMapping, .cdft, .ecdfm, .quantileDeltaMapping, .isimip]

/-- Python class name -/
def Deb.className : Deb → String
  | .linearScaling => "LinearScaling"
  | .deltaChange => "DeltaChange"
  | .quantileMapping => "QuantileMapping"
  | .scaledDistributionMapping => "ScaledDistributionMapping"
  | .cdft => "CDFt"
  | .ecdfm => "ECDFM"
  | .quantileDeltaMapping => "QuantileDeltaMapping"
  | .isimip => "ISIMIP"

def Deb.ofClassName (s : String) : Option Deb := Deb.all.find? (fun d => d.className == s)

end Model.DebNames
