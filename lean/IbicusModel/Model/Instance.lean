/-
  C12 — the INSTANCE MODEL: a debiaser instance is `settings × derived`; `apply` = `derive`
  (`self.__attrs_post_init__()`, the first statement of `Debiaser.apply` and `DeltaChange.apply`) followed by a run
  that reads the settings and the *active* derived attributes and writes nothing to the instance (tier A:
  every `self.<attr> = …` of ibicus/debias lies in an `__attrs_post_init__`).

  Models the code that exists: `QuantileDeltaMapping.__attrs_post_init__` overwrites the SETTING `cdf_threshold`
  when it is `None`; a derived attribute whose mode flag is off is left as it is (stale); an exception in the middle of
  `__attrs_post_init__` leaves the assignments made before it in place.

  Import-free apart from `Model/Windows` (the "make it odd" normalisation of the window classes), executable.
-/
import IbicusModel.Model.Windows

namespace Model.Instance

inductive Kind
  | linearScaling | deltaChange | quantileMapping | scaledDistributionMapping | cdft | ecdfm | quantileDeltaMapping | isimip
  deriving DecidableEq, Repr

/-- the attrs fields `__attrs_post_init__` reads; `other` stands for all the remaining fields -/
structure Settings (σ : Type) where
  rwMode : Bool
  rwLen : Int
  rwStep : Int
  yrMode : Bool
  yrLen : Int
  yrStep : Int
  cdfThreshold : Option Rat        -- QuantileDeltaMapping.cdf_threshold (`none` = Python `None`)
  distributionNone : Bool          -- ISIMIP: `self.distribution is None`
  nonparametricQm : Bool
  other : σ

/-- the non-field attributes: normalised (length, step) of the window objects; `none` = attribute absent -/
structure Derived where
  runningWindow : Option (Int × Int)
  yearWindow : Option (Int × Int)
  deriving DecidableEq, Repr

structure Inst (σ : Type) where
  settings : Settings σ
  derived : Derived

/-- construction of a window object: validators `> 0`, then `__attrs_post_init__` (odd lengths, step ≤ length) -/
def mkWindow (L S : Int) : Except String (Int × Int) :=
  if L ≤ 0 ∨ S ≤ 0 then .error "ValueError" else Model.Windows.postInit L S

/-- the statements of the `__attrs_post_init__` methods -/
inductive Step
  | checkStepLeLen     -- `if self.running_window_step_length > self.running_window_length: raise ValueError`
  | buildRw            -- `if self.running_window_mode: self.running_window = RunningWindowOverDaysOfYear(…)`
  | buildYr            -- `if self.running_window_mode_over_years_of_cm_future: self.running_window_over_years_of_cm_future = …`
  | fillCdf            -- `if self.cdf_threshold is None: self.cdf_threshold = 1 / (self.running_window_length * …years_length + 1)`
  | checkDistribution  -- `if self.distribution is None and not self.nonparametric_qm: raise ValueError`
  deriving DecidableEq, Repr

/-- `__attrs_post_init__` of every debiaser, `super()` calls inlined -/
def steps : Kind → List Step
  | .linearScaling | .quantileMapping | .scaledDistributionMapping | .ecdfm => [.checkStepLeLen, .buildRw]
  | .deltaChange => [.buildRw]
  | .cdft => [.checkStepLeLen, .buildRw, .buildYr]
  | .quantileDeltaMapping => [.checkStepLeLen, .buildRw, .buildYr, .fillCdf]
  | .isimip => [.buildRw, .checkDistribution]

def Kind.hasYearWindow : Kind → Bool
  | .cdft | .quantileDeltaMapping => true
  | _ => false

variable {σ : Type}

def setRw (i : Inst σ) (w : Int × Int) : Inst σ := ⟨i.settings, ⟨some w, i.derived.yearWindow⟩⟩
def setYr (i : Inst σ) (w : Int × Int) : Inst σ := ⟨i.settings, ⟨i.derived.runningWindow, some w⟩⟩
def setCdf (i : Inst σ) (q : Rat) : Inst σ := ⟨{ i.settings with cdfThreshold := some q }, i.derived⟩

/-- `1 / (self.running_window_length * self.running_window_over_years_of_cm_future_length + 1)` -/
def cdfDefault (L Y : Int) : Rat := 1 / ((L * Y + 1 : Int) : Rat)

/-- one statement: the instance afterwards and the exception, if any -/
def step (st : Step) (i : Inst σ) : Inst σ × Option String :=
  match st with
  | .checkStepLeLen => if i.settings.rwStep > i.settings.rwLen then (i, some "ValueError") else (i, none)
  | .buildRw =>
      if i.settings.rwMode then
        match mkWindow i.settings.rwLen i.settings.rwStep with
        | .ok w => (setRw i w, none)
        | .error e => (i, some e)
      else (i, none)
  | .buildYr =>
      if i.settings.yrMode then
        match mkWindow i.settings.yrLen i.settings.yrStep with
        | .ok w => (setYr i w, none)
        | .error e => (i, some e)
      else (i, none)
  | .fillCdf =>
      match i.settings.cdfThreshold with
      | none =>
          if i.settings.rwLen * i.settings.yrLen + 1 = 0 then (i, some "ZeroDivisionError")
          else (setCdf i (cdfDefault i.settings.rwLen i.settings.yrLen), none)
      | some _ => (i, none)
  | .checkDistribution =>
      if i.settings.distributionNone && !i.settings.nonparametricQm then (i, some "ValueError") else (i, none)

/-- run the statements in order, stop at the first exception (what was assigned before stays assigned) -/
def deriveL : List Step → Inst σ → Inst σ × Option String
  | [], i => (i, none)
  | st :: r, i => match step st i with
      | (j, none) => deriveL r j
      | (j, some e) => (j, some e)

/-- `self.__attrs_post_init__()` -/
def derive (k : Kind) (i : Inst σ) : Inst σ × Option String := deriveL (steps k) i

/-- what a run can read: the settings and the derived attributes whose mode flag is on -/
structure View (σ : Type) where
  settings : Settings σ
  runningWindow : Option (Int × Int)
  yearWindow : Option (Int × Int)

def view (k : Kind) (i : Inst σ) : View σ :=
  ⟨i.settings,
   if i.settings.rwMode then i.derived.runningWindow else none,
   if k.hasYearWindow && i.settings.yrMode then i.derived.yearWindow else none⟩

/-- `apply`: derive, then run.  `run` is the whole numerical computation — a parameter: a function of the view, the
    arguments and the random draws (it may raise).  The instance afterwards is the derived one: the run assigns
    nothing to `self`. -/
def apply {A U O : Type} (run : Kind → View σ → A → U → Except String O) (k : Kind) (i : Inst σ) (a : A) (u : U) :
    Inst σ × Except String O :=
  match derive k i with
  | (j, some e) => (j, .error e)
  | (j, none) => (j, run k (view k j) a u)

/-- a sequence of earlier calls on the same instance (their outputs are dropped) -/
def applySeq {A U O : Type} (run : Kind → View σ → A → U → Except String O) (k : Kind) :
    Inst σ → List (A × U) → Inst σ
  | i, [] => i
  | i, (a, u) :: r => applySeq run k (apply run k i a u).1 r

/-- `apply_location` called directly: no `__attrs_post_init__`; it reads whatever derived attributes the instance
    carries (built at construction or by the last `apply`) and assigns nothing -/
def applyLocation {A U O : Type} (runLoc : Kind → View σ → A → U → Except String O) (k : Kind) (i : Inst σ) (a : A) (u : U) :
    Inst σ × Except String O :=
  (i, runLoc k (view k i) a u)

/-- one call on an instance, through either entry point -/
inductive Call (A U : Type)
  | apply (a : A) (u : U)
  | applyLocation (a : A) (u : U)

def runCall {A U O : Type} (run runLoc : Kind → View σ → A → U → Except String O) (k : Kind) (i : Inst σ) :
    Call A U → Inst σ × Except String O
  | .apply a u => apply run k i a u
  | .applyLocation a u => applyLocation runLoc k i a u

/-- the instance after a sequence of calls through both entry points -/
def runSeq {A U O : Type} (run runLoc : Kind → View σ → A → U → Except String O) (k : Kind) :
    Inst σ → List (Call A U) → Inst σ
  | i, [] => i
  | i, c :: r => runSeq run runLoc k (runCall run runLoc k i c).1 r

/-- attribute assignment of the field `running_window_length` (validators passed) -/
def setRwLen (i : Inst σ) (L : Int) : Inst σ := { i with settings := { i.settings with rwLen := L } }

/-- a freshly constructed instance: no derived attribute yet, then `__attrs_post_init__` -/
def construct (k : Kind) (s : Settings σ) : Inst σ × Option String := derive k ⟨s, ⟨none, none⟩⟩

end Model.Instance
