/-
  Layer K: `Debiaser._from_variable` as a step of a state machine whose state is the table of general default
  settings the class hands in (`isimip3_general_settings` for ISIMIP, nothing for the other debiasers).
  The code builds the constructor arguments as a *fresh* dict literal
      {"variable": …, "reasonable_physical_range": …, **default_settings_general, **variable_settings, **kwargs}
  (later entries win) and writes to none of its arguments — `fromVariableStep` is that.  `aliasingStep` is what an
  implementation does that merges *into* the general settings (`general.update(variable_settings)`): the
  counter-model that shows the sequence statement of `Props/C04.lean` is not vacuous.
  Import-free, executable.  Values are opaque tokens (the Python `repr`).
-/
namespace Model.FromVariable

/-- a settings dict: key ↦ value token, in insertion order, keys unique -/
abbrev Settings := List (String × String)

/-- `d[k] = v` -/
def set (d : Settings) (k v : String) : Settings :=
  if d.any (fun p => p.1 == k) then d.map (fun p => if p.1 == k then (k, v) else p) else d ++ [(k, v)]

/-- `{**d, **u}` / `d.update(u)`: later entries win -/
def merge (d u : Settings) : Settings := u.foldl (fun acc kv => set acc kv.1 kv.2) d

def get (d : Settings) (k : String) : Option String := (d.find? (fun p => p.1 == k)).map (·.2)

/-- one call `cls.from_variable(variable, **kwargs)`: the variable and the keyword arguments -/
structure Call where
  var : String
  kwargs : Settings := []

/-- the constructor arguments `_from_variable` passes on (`none`: the variable has no default settings: `ValueError`) -/
def params (general : Settings) (table : String → Option Settings) (c : Call) : Option Settings :=
  (table c.var).map (fun vs => merge (merge (merge [("variable", c.var)] general) vs) c.kwargs)

/-- **the code**: the general settings are read, never written -/
def fromVariableStep (table : String → Option Settings) (general : Settings) (c : Call) : Settings × Option Settings :=
  (general, params general table c)

/-- the counter-model: variable settings merged *into* the shared general settings, which persist -/
def aliasingStep (table : String → Option Settings) (general : Settings) (c : Call) : Settings × Option Settings :=
  match table c.var with
  | none => (general, none)
  | some vs =>
    let g' := merge general vs
    (g', some (merge (merge [("variable", c.var)] g') c.kwargs))

/-- a session: the calls are made one after the other in one process; the result of the last one -/
def session (step : Settings → Call → Settings × Option Settings) (general : Settings) (before : List Call) (c : Call) :
    Option Settings :=
  (step (before.foldl (fun g b => (step g b).1) general) c).2

end Model.FromVariable
