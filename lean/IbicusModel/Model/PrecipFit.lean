/-
  Layer N: which part of a sample the fit of the left-censored gamma precipitation model
  (`ibicus.utils.gen_PrecipitationGammaLeftCensoredModel.fit`) looks at: the values above the censoring threshold and the
  NUMBER of censored values; the likelihood optimiser `_fit_censored_gamma` is a parameter.  Import-free, executable.
-/
import IbicusModel.Model.Py

namespace Model.PrecipFit

/-- `fit(data)`: `_fit_censored_gamma(data[data > thr], data.size - noncensored.size, thr)` -/
def censoredFit {P : Type} (inner : List Rat → Int → Rat → P) (thr : Rat) (data : List Rat) : P :=
  let noncensored := data.filter (fun v => decide (v > thr))
  inner noncensored ((data.length : Int) - (noncensored.length : Int)) thr

end Model.PrecipFit
