/-
  A small numpy-expression language for the ecdf / quantile toolkit (C16 tier A).
  `translator/extract_stats.py` reads the bodies of `IECDF`, `iecdf`, `ecdf`, `quantile_map_non_parametically`,
  `quantile_map_non_parametically_with_constant_extrapolation`, `quantile_map_x_on_y_non_parametically`,
  `_isimip_quantile_map_x_on_y_non_parametically` (`ibicus/utils/_math_utils.py`) and `sort_array_like_another_one`
  (`ibicus/utils/_utils.py`) from the AST into closed terms of `E` over the function's parameters (local variables are
  resolved by following assignments, calls between these functions are inlined by Python's argument-binding rules).
  `denote` is the meaning given to every constructor — each one is an EXISTING definition of `Model/Stats.lean` /
  `Model/Py.lean` (trusted base: these are the numpy / statsmodels / scipy semantics on 1-d arrays in exact arithmetic).
  The terms the hand-written model was transcribed from are the `…T` / top-level definitions at the end;
  `Lemmas/GenStats.lean` proves `Gen.Stats.f = Model.NpStats.f` (regenerated term = expected term) and
  `denote Model.NpStats.f = Model.Stats.f` (expected term means the model function) for all inputs.

  Partiality is kept: a `raise` is `Err.raised cls`; an index / mask of the wrong length is `IndexError`; element-wise
  arithmetic on arrays of different lengths is `ValueError` (numpy's length-1 broadcasting is not modelled); a method
  string that `np.quantile` accepts but the model does not cover is `Err.unmodelled`; an ill-typed term is `Err.stuck`.
  Import-free apart from `Model/`, executable.
-/
import IbicusModel.Model.Stats
import IbicusModel.Model.StatsSeq

namespace Model.NpStats
open Model.Stats

/-- string-valued expressions (method names) -/
inductive SE where
  | lit (s : String)      -- a string literal
  | arg (name : String)   -- a string-valued parameter of the function
  | dflt                  -- keyword not given: the callee's default (`np.quantile`: `"linear"`)
deriving DecidableEq, Repr

inductive E where
  | arg (name : String)              -- an array parameter of the function
  | lit (q : Rat)                    -- a numeric literal
  | sort (a : E)                     -- `np.sort(a)`
  | argsort (a : E)                  -- `np.argsort(a)`
  | size (a : E)                     -- `a.size`
  | shape0 (a : E)                   -- `a.shape[0]`
  | linspace (a b n : E)             -- `np.linspace(a, b, n)`
  | interp (x xp fp : E)             -- `np.interp(x, xp, fp)`
  | ecdfStep (x y : E)               -- `statsmodels…ECDF(x)(y)`
  | histCdf (x y : E)                -- `scipy.stats.rv_histogram(np.histogram(x, bins="auto")).cdf(y)`
  | rankdata (a : E)                 -- `scipy.stats.rankdata(a)`
  | quantile (x p : E) (m : SE)      -- `np.quantile(x, p, method=m)`
  | floorInt (a : E)                 -- `np.floor(a).astype(int)`
  | index (a i : E)                  -- `a[i]`, `i` an integer index array or a Boolean mask
  | item (a : E) (k : Nat)           -- `a[k]`, `k` a non-negative integer literal
  | amin (a : E)                     -- `np.min(a)` / `a.min()`
  | amax (a : E)                     -- `np.max(a)` / `a.max()`
  | lt (a b : E) | gt (a b : E) | le (a b : E) | ge (a b : E)
  | add (a b : E) | sub (a b : E) | mul (a b : E) | div (a b : E)
  | arr2 (a b : E)                   -- `np.array([a, b])`
  | maskSet (t m v : E)              -- the array `t` after the statement `t[m] = v`
  | ifEq (s : SE) (lit : String) (t e : E)   -- `if s == "lit": t  else: e`
  | raise (cls : String)             -- `raise cls(...)`
deriving DecidableEq, Repr

inductive Err where
  | raised (cls : String)
  | unmodelled (what : String)
  | stuck
deriving DecidableEq, Repr

inductive Val where
  | nat (n : Nat)            -- sizes
  | num (q : Rat)            -- scalars
  | arr (a : List Rat)       -- float arrays
  | idx (i : List Int)       -- integer (index) arrays
  | mask (m : List Bool)     -- Boolean arrays
deriving DecidableEq, Repr

/-- the arguments of a call: arrays and strings by parameter name, and the oracle for `np.histogram(·, bins="auto")`
    (bin edges, counts) — numpy's binning rule is not modelled -/
structure Env where
  arr : String → Option (List Rat)
  str : String → Option String
  hist : List Rat → List Rat × List Nat

def Env.strOf (env : Env) : SE → Option String
  | .lit s => some s
  | .arg n => env.str n
  | .dflt => none

abbrev R := Except Err Val

def bnd (r : R) (f : Val → R) : R :=
  match r with
  | .ok v => f v
  | .error e => .error e

@[simp] theorem bnd_ok (v : Val) (f : Val → R) : bnd (.ok v) f = f v := rfl
@[simp] theorem bnd_error (e : Err) (f : Val → R) : bnd (.error e) f = .error e := rfl

def Val.scalar? : Val → Option Rat
  | .nat n => some (n : Rat)
  | .num q => some q
  | _ => none

/-! ### the primitives (every one an existing definition of `Model/Stats.lean` / `Model/Py.lean`) -/

namespace Prim

/-- the methods `np.quantile` is modelled for, as a finite table; `"inverted_cdf"` is absent on purpose: the model's
    `IecdfMethod.inverted_cdf` is ibicus' own `IECDF`, not numpy's method of that name -/
def npMethods : List (String × IecdfMethod) :=
  [("averaged_inverted_cdf", .averaged_inverted_cdf), ("closest_observation", .closest_observation),
   ("interpolated_inverted_cdf", .interpolated_inverted_cdf), ("hazen", .hazen), ("weibull", .weibull),
   ("linear", .linear), ("median_unbiased", .median_unbiased), ("normal_unbiased", .normal_unbiased)]

/-- method strings numpy accepts that the model does not cover -/
def npUnmodelled : List String := ["inverted_cdf", "lower", "higher", "midpoint", "nearest"]

def sort : Val → R
  | .arr a => .ok (.arr (sortQ a))
  | _ => .error .stuck

def argsort : Val → R
  | .arr a => .ok (.idx ((Stats.argsort a).map Int.ofNat))
  | .idx i => .ok (.idx ((Stats.argsort (i.map (fun (z : Int) => (z : Rat)))).map Int.ofNat))
  | _ => .error .stuck

def size : Val → R
  | .arr a => .ok (.nat a.length)
  | .idx a => .ok (.nat a.length)
  | .mask a => .ok (.nat a.length)
  | _ => .error .stuck

def linspace (a b n : Val) : R :=
  match a.scalar?, b.scalar?, n with
  | some a, some b, .nat n => .ok (.arr (Stats.linspace a b n))
  | _, _, _ => .error .stuck

def interp : Val → Val → Val → R
  | .arr x, .arr xp, .arr fp => .ok (.arr (Stats.interp x xp fp))
  | _, _, _ => .error .stuck

def ecdfStep : Val → Val → R
  | .arr x, .arr y => .ok (.arr (y.map (ecdfStep1 x)))
  | _, _ => .error .stuck

def histCdf (hist : List Rat → List Rat × List Nat) : Val → Val → R
  | .arr x, .arr y => .ok (.arr (y.map (ecdfHist1 (hist x).1 (hist x).2)))
  | _, _ => .error .stuck

def rankdata : Val → R
  | .arr a => .ok (.arr (rankAvg a))
  | _ => .error .stuck

/-- `np.quantile(x, p, method=s)`; `none` = keyword absent = numpy's default `"linear"` -/
def quantile (x p : Val) (s : Option String) : R :=
  match x, p with
  | .arr x, .arr p =>
    match s with
    | none => .ok (.arr (Stats.iecdf .linear x p))
    | some s =>
      match npMethods.lookup s with
      | some m => .ok (.arr (Stats.iecdf m x p))
      | none => if npUnmodelled.contains s then .error (.unmodelled s) else .error (.raised "ValueError")
  | _, _ => .error .stuck

def floorInt : Val → R
  | .arr a => .ok (.idx (a.map Rat.floor))
  | _ => .error .stuck

def index : Val → Val → R
  | .arr a, .idx i => .ok (.arr (i.map (pyIdx a)))
  | .arr a, .mask m => if a.length = m.length then .ok (.arr (Py.selectWhere a m)) else .error (.raised "IndexError")
  | _, _ => .error .stuck

def item (k : Nat) : Val → R
  | .arr a => match a[k]? with | some v => .ok (.num v) | none => .error (.raised "IndexError")
  | _ => .error .stuck

def amin : Val → R
  | .arr a => .ok (.num (minQ a))
  | _ => .error .stuck

def amax : Val → R
  | .arr a => .ok (.num (maxQ a))
  | _ => .error .stuck

/-- `array ⋈ scalar` → Boolean array -/
def cmp (f : Rat → Rat → Bool) (a b : Val) : R :=
  match a, b.scalar? with
  | .arr a, some s => .ok (.mask (a.map (fun v => f v s)))
  | _, _ => .error .stuck

/-- element-wise arithmetic: array ∘ array (equal lengths), array ∘ scalar, scalar ∘ array, scalar ∘ scalar -/
def arith (f : Rat → Rat → Rat) (a b : Val) : R :=
  match a, b with
  | .arr a, .arr b => if a.length = b.length then .ok (.arr (List.zipWith f a b)) else .error (.raised "ValueError")
  | .arr a, b => match b.scalar? with | some s => .ok (.arr (a.map (fun v => f v s))) | none => .error .stuck
  | a, .arr b => match a.scalar? with | some s => .ok (.arr (b.map (fun v => f s v))) | none => .error .stuck
  | a, b => match a.scalar?, b.scalar? with | some s, some t => .ok (.num (f s t)) | _, _ => .error .stuck

def arr2 (a b : Val) : R :=
  match a.scalar?, b.scalar? with
  | some a, some b => .ok (.arr [a, b])
  | _, _ => .error .stuck

/-- `t[m] = v` for an array `v`: the selected positions receive the values of `v` in order; `none` if the mask does not
    have the length of `t` or `v` does not have as many values as the mask selects (numpy raises) -/
def scatter? : List Rat → List Bool → List Rat → Option (List Rat)
  | [], [], [] => some []
  | _ :: ts, true :: ms, v :: vs => (scatter? ts ms vs).map (v :: ·)
  | t :: ts, false :: ms, vs => (scatter? ts ms vs).map (t :: ·)
  | _, _, _ => none

def maskSet : Val → Val → Val → R
  | .arr t, .mask m, .arr v => match scatter? t m v with | some r => .ok (.arr r) | none => .error (.raised "ValueError")
  | _, _, _ => .error .stuck

end Prim

/-! ### denotation -/

def denote (env : Env) : E → R
  | .arg n => match env.arr n with | some a => .ok (.arr a) | none => .error .stuck
  | .lit q => .ok (.num q)
  | .sort a => bnd (denote env a) Prim.sort
  | .argsort a => bnd (denote env a) Prim.argsort
  | .size a => bnd (denote env a) Prim.size
  | .shape0 a => bnd (denote env a) Prim.size
  | .linspace a b n => bnd (denote env a) fun va => bnd (denote env b) fun vb => bnd (denote env n) fun vn => Prim.linspace va vb vn
  | .interp x xp fp => bnd (denote env x) fun vx => bnd (denote env xp) fun vxp => bnd (denote env fp) fun vfp => Prim.interp vx vxp vfp
  | .ecdfStep x y => bnd (denote env x) fun vx => bnd (denote env y) fun vy => Prim.ecdfStep vx vy
  | .histCdf x y => bnd (denote env x) fun vx => bnd (denote env y) fun vy => Prim.histCdf env.hist vx vy
  | .rankdata a => bnd (denote env a) Prim.rankdata
  | .quantile x p m =>
    bnd (denote env x) fun vx => bnd (denote env p) fun vp =>
      match m with
      | .dflt => Prim.quantile vx vp none
      | m => match env.strOf m with | some s => Prim.quantile vx vp (some s) | none => .error .stuck
  | .floorInt a => bnd (denote env a) Prim.floorInt
  | .index a i => bnd (denote env a) fun va => bnd (denote env i) fun vi => Prim.index va vi
  | .item a k => bnd (denote env a) (Prim.item k)
  | .amin a => bnd (denote env a) Prim.amin
  | .amax a => bnd (denote env a) Prim.amax
  | .lt a b => bnd (denote env a) fun va => bnd (denote env b) fun vb => Prim.cmp (fun u v => decide (u < v)) va vb
  | .gt a b => bnd (denote env a) fun va => bnd (denote env b) fun vb => Prim.cmp (fun u v => decide (u > v)) va vb
  | .le a b => bnd (denote env a) fun va => bnd (denote env b) fun vb => Prim.cmp (fun u v => decide (u ≤ v)) va vb
  | .ge a b => bnd (denote env a) fun va => bnd (denote env b) fun vb => Prim.cmp (fun u v => decide (u ≥ v)) va vb
  | .add a b => bnd (denote env a) fun va => bnd (denote env b) fun vb => Prim.arith (· + ·) va vb
  | .sub a b => bnd (denote env a) fun va => bnd (denote env b) fun vb => Prim.arith (· - ·) va vb
  | .mul a b => bnd (denote env a) fun va => bnd (denote env b) fun vb => Prim.arith (· * ·) va vb
  | .div a b => bnd (denote env a) fun va => bnd (denote env b) fun vb => Prim.arith (· / ·) va vb
  | .arr2 a b => bnd (denote env a) fun va => bnd (denote env b) fun vb => Prim.arr2 va vb
  | .maskSet t m v => bnd (denote env t) fun vt => bnd (denote env m) fun vm => bnd (denote env v) fun vv => Prim.maskSet vt vm vv
  | .ifEq s lit t e =>
    match env.strOf s with
    | some v => if v = lit then denote env t else denote env e
    | none => .error .stuck
  | .raise cls => .error (.raised cls)

/-! ### the expected terms: what `Model/Stats.lean` was transcribed from -/

/-- the method names of `ibicus.utils.iecdf` -/
def iecdfName : IecdfMethod → String
  | .inverted_cdf => "inverted_cdf" | .averaged_inverted_cdf => "averaged_inverted_cdf"
  | .closest_observation => "closest_observation" | .interpolated_inverted_cdf => "interpolated_inverted_cdf"
  | .hazen => "hazen" | .weibull => "weibull" | .linear => "linear" | .median_unbiased => "median_unbiased"
  | .normal_unbiased => "normal_unbiased"

def iecdfNames : List String :=
  ["inverted_cdf", "averaged_inverted_cdf", "closest_observation", "interpolated_inverted_cdf", "hazen", "weibull",
   "linear", "median_unbiased", "normal_unbiased"]

/-- the method names of `ibicus.utils.ecdf` that `EcdfMethod` covers (`"kernel_density"` is stated separately: its bins
    are an oracle argument) -/
def ecdfName : EcdfMethod → String
  | .step => "step_function" | .linear => "linear_interpolation"

/-- `IECDF(x)(q)`: `y = np.sort(x); n = y.shape[0]; y[np.floor((n - 1) * q).astype(int)]` -/
def IECDFT (x q : E) : E :=
  .index (.sort x) (.floorInt (.mul (.sub (.shape0 (.sort x)) (.lit 1)) q))

/-- `iecdf(x, p, method)` -/
def iecdfT (x p : E) (m : SE) : E :=
  .ifEq m "inverted_cdf" (IECDFT x p) (.quantile x p m)

/-- `ecdf(x, y, method)` -/
def ecdfT (x y : E) (m : SE) : E :=
  .ifEq m "kernel_density" (.histCdf x y)
    (.ifEq m "linear_interpolation"
      (.interp y (.quantile x (.linspace (.lit 0) (.lit 1) (.size x)) .dflt) (.linspace (.lit 0) (.lit 1) (.size x)))
      (.ifEq m "step_function" (.ecdfStep x y) (.raise "ValueError")))

/-- `quantile_map_non_parametically(x, y, vals, ecdf_method, iecdf_method)` -/
def qmapT (x y vals : E) (em im : SE) : E := iecdfT y (ecdfT x vals em) im

/-- `quantile_map_non_parametically_with_constant_extrapolation` -/
def qmapExtrapT (x y vals : E) (em im : SE) : E :=
  let under : E := .lt vals (.amin x)
  let above : E := .gt vals (.amax x)
  let corr : E := .sub (.arr2 (.amin y) (.amax y)) (.arr2 (.amin x) (.amax x))
  .maskSet (.maskSet (qmapT x y vals em im) under (.add (.index vals under) (.item corr 0)))
    above (.add (.index vals above) (.item corr 1))

/-- `_isimip_quantile_map_x_on_y_non_parametically(x, y)` (the `dtype` conversions are outside the rational model) -/
def isimipT (x y : E) : E :=
  .interp (.div (.sub (.rankdata x) (.lit 1)) (.size x)) (.linspace (.lit 0) (.lit 1) (.size y)) (.sort y)

/-- `quantile_map_x_on_y_non_parametically(x, y, mode, ecdf_method, iecdf_method)` -/
def qmapXonYT (x y : E) (mode em im : SE) : E :=
  .ifEq mode "normal" (qmapT x y x em im) (.ifEq mode "isimipv3.0" (isimipT x y) (.raise "ValueError"))

/-- `sort_array_like_another_one(x, y)` -/
def sortLikeT (x y : E) : E := .index (.sort x) (.argsort (.argsort y))

def IECDF : E := IECDFT (.arg "x") (.arg "q")
def iecdf : E := iecdfT (.arg "x") (.arg "p") (.arg "method")
def ecdf : E := ecdfT (.arg "x") (.arg "y") (.arg "method")
def quantile_map_non_parametically : E :=
  qmapT (.arg "x") (.arg "y") (.arg "vals") (.arg "ecdf_method") (.arg "iecdf_method")
def quantile_map_non_parametically_with_constant_extrapolation : E :=
  qmapExtrapT (.arg "x") (.arg "y") (.arg "vals") (.arg "ecdf_method") (.arg "iecdf_method")
def isimip_quantile_map_x_on_y_non_parametically : E := isimipT (.arg "x") (.arg "y")
def quantile_map_x_on_y_non_parametically : E :=
  qmapXonYT (.arg "x") (.arg "y") (.arg "mode") (.arg "ecdf_method") (.arg "iecdf_method")
def sort_array_like_another_one : E := sortLikeT (.arg "x") (.arg "y")

/-- the defaults of the string parameters (part of the regenerated data: a changed default changes which branch a
    caller without the keyword takes) -/
def defaults : List (String × String × String) :=
  [("iecdf", "method", "inverted_cdf"), ("ecdf", "method", "step_function"),
   ("quantile_map_non_parametically", "ecdf_method", "step_function"),
   ("quantile_map_non_parametically", "iecdf_method", "inverted_cdf"),
   ("quantile_map_non_parametically_with_constant_extrapolation", "ecdf_method", "step_function"),
   ("quantile_map_non_parametically_with_constant_extrapolation", "iecdf_method", "inverted_cdf"),
   ("quantile_map_x_on_y_non_parametically", "mode", "normal"),
   ("quantile_map_x_on_y_non_parametically", "ecdf_method", "step_function"),
   ("quantile_map_x_on_y_non_parametically", "iecdf_method", "inverted_cdf")]

end Model.NpStats
