/-
  Layer K: ISIMIP step 6 — frequency adjustment of values beyond the thresholds (C11).
  Hand-written model of `ibicus/debias/_isimip.py`:
  `_step6_calculate_percent_values_beyond_threshold`, `_step6_get_P_obs_future`,
  `_step6_get_nr_of_entries_to_set_to_bound`, `_step6_scale_nr_of_entries_to_set_to_bounds`,
  `_step6_get_mask_for_entries_to_set_to_{lower,upper}_bound` and the bound assignment of `step6`.
  Import-free (core Lean only), executable.  Exact rational arithmetic: float rounding is not modelled.
-/
import IbicusModel.Model.Py

namespace Model.IsimipFreq

/-! ### The bias-adjusted future frequency -/

/-- `_step6_get_P_obs_future(P_obs_hist, P_cm_hist, P_cm_future)`.
    `np.isclose` is kept as the decidable relation the code uses (`Py.isclose`).  The divisions are by
    `Ph` (second branch, where `Ph > Po`) and `1 - Ph` (third branch, where `Ph < Po`); that they are
    non-zero on frequencies is `Props.C11.pObsFuture_no_div0`. -/
def pObsFuture (Po Ph Pf : Rat) : Rat :=
  if Py.isclose Ph Po = true then Pf
  else if Pf ≤ Ph ∧ Ph > Po then Po * Pf / Ph
  else if Pf ≥ Ph ∧ Ph < Po then 1 - (1 - Po) * (1 - Pf) / (1 - Ph)
  else Po + Pf - Ph

/-- which of the four branches is taken (coverage histogram of the correspondence check) -/
def pBranch (Po Ph Pf : Rat) : Nat :=
  if Py.isclose Ph Po = true then 1
  else if Pf ≤ Ph ∧ Ph > Po then 2
  else if Pf ≥ Ph ∧ Ph < Po then 3
  else 4

/-- the computed difference sits exactly on `np.isclose`'s tolerance (a float evaluation may fall on either side) -/
def iscloseTie (a b : Rat) : Bool :=
  decide (Py.absQ (a - b) = (1 : Rat) / 100000000 + (1 : Rat) / 100000 * Py.absQ b)

/-! ### Frequencies of Boolean masks and the number of entries sent to a bound -/

/-- `mask.sum()` -/
def countTrue (m : List Bool) : Int := ((m.count true : Nat) : Int)

/-- `_step6_calculate_percent_values_beyond_threshold`: `mask.sum() / mask.size`.
    (numpy yields NaN on an empty mask and `round` then raises; every theorem that uses `freq` carries the
    guard that the mask is non-empty.) -/
def freq (m : List Bool) : Rat := (countTrue m : Rat) / (((m.length : Int)) : Rat)

/-- the frequency used for the count: the bias-adjusted one, or the observed one when
    `bias_correct_frequencies_of_values_beyond_thresholds` is off -/
def pFuture (adjust : Bool) (mo mh mf : List Bool) : Rat :=
  if adjust = true then pObsFuture (freq mo) (freq mh) (freq mf) else freq mo

/-- `_step6_get_nr_of_entries_to_set_to_bound`: `round(size_cm_future * P)` -/
def nrToBound (adjust : Bool) (mo mh mf : List Bool) : Int :=
  Py.roundHalfEven ((((mf.length : Int)) : Rat) * pFuture adjust mo mh mf)

/-- `size * P` is exactly a half: a float evaluation may round to either neighbour -/
def nrTie (adjust : Bool) (mo mh mf : List Bool) : Bool :=
  let q := (((mf.length : Int)) : Rat) * pFuture adjust mo mh mf
  decide (q - (q.floor : Rat) = 1 / 2)

/-! ### Integer kernels -/

/-- round-half-even of `a / b` on integers (`b > 0`) -/
def rhe (a b : Int) : Int :=
  if 2 * (a % b) < b then a / b
  else if 2 * (a % b) > b then a / b + 1
  else if (a / b) % 2 = 0 then a / b else a / b + 1

/-- `_step6_scale_nr_of_entries_to_set_to_bounds` (current, repaired code): the lower count is the rounded
    proportional share, the upper count is the remainder -/
def scaleCounts (l u n : Int) : Int × Int := (rhe (l * n) (l + u), n - rhe (l * n) (l + u))

/-- the formula before the repair (F4): the upper count was divided by a sum that already contained the
    rescaled lower count -/
def legacyScaleCounts (l u n : Int) : Int × Int :=
  let l' := rhe (l * n) (l + u)
  (l', rhe (u * n) (l' + u))

/-! ### Masks of the entries sent to the bounds, bound assignment -/

/-- Python's normalisation of a slice bound `i` on a sequence of length `n` (negative = from the end, clipped) -/
def pySliceIdx (i : Int) (n : Nat) : Nat := if i < 0 then (i + (n : Int)).toNat else min i.toNat n

/-- `_step6_get_mask_for_entries_to_set_to_lower_bound`: `zeros(n)`, `mask[0:nr] = True` -/
def lowerMask (nr : Int) (n : Nat) : List Bool :=
  List.replicate (pySliceIdx nr n) true ++ List.replicate (n - pySliceIdx nr n) false

/-- `_step6_get_mask_for_entries_to_set_to_upper_bound`: `zeros(n)`, `mask[(n - nr):] = True` -/
def upperMask (nr : Int) (n : Nat) : List Bool :=
  List.replicate (pySliceIdx ((n : Int) - nr) n) false ++ List.replicate (n - pySliceIdx ((n : Int) - nr) n) true

/-- `x[mask] = vals` with an array on the right-hand side (numpy raises `ValueError` unless
    `vals.size = mask.sum()`; the theorems carry that guard; surplus / missing values leave `x` as it is) -/
def fillWhere {α} : List α → List Bool → List α → List α
  | [], _, _ => []
  | x :: xs, [], _ => x :: xs
  | x :: xs, false :: ms, vs => x :: fillWhere xs ms vs
  | x :: xs, true :: ms, [] => x :: fillWhere xs ms []
  | _ :: xs, true :: ms, v :: vs => v :: fillWhere xs ms vs

/-- mask of the entries set to neither bound -/
def notMask (ml mu : List Bool) : List Bool := List.zipWith (fun a b => !a && !b) ml mu

/-- The bound assignment of `step6` on the **sorted** `cm_future` values `xs`:
    `mapped[lower mask] = lo; mapped[upper mask] = hi; mapped[not either] = mid`
    where `mid` stands for what `_step6_adjust_values_between_thresholds` returns for the remaining
    entries (a parameter of the model: the quantile mapping itself is not part of C11). -/
def assignBounds {α} (lo hi : α) (nl nu : Int) (xs mid : List α) : List α :=
  let ml := lowerMask nl xs.length
  let mu := upperMask nu xs.length
  fillWhere (Py.setWhere (Py.setWhere xs ml lo) mu hi) (notMask ml mu) mid

/-- number of entries set to neither bound (`mask_for_entries_not_set_to_either_bound.sum()`) -/
def nrMiddle (nl nu : Int) (n : Nat) : Nat := (notMask (lowerMask nl n) (upperMask nu n)).count true

/-! ### The counts `step6` uses -/

/-- `x <= lower_threshold` -/
def maskLower (t : Rat) (xs : List Rat) : List Bool := xs.map (fun x => decide (x ≤ t))
/-- `x >= upper_threshold` -/
def maskUpper (t : Rat) (xs : List Rat) : List Bool := xs.map (fun x => decide (x ≥ t))

/-- `(x > lower_threshold) & (x < upper_threshold)` -/
def maskMiddle (tl tu : Rat) (xs : List Rat) : List Bool := xs.map (fun x => decide (x > tl) && decide (x < tu))

/-- the two raw counts of `step6` (`0` where the variable has no threshold on that side; `none` = no threshold) -/
def rawCounts (adjust : Bool) (lthr uthr : Option Rat) (obs cmh cmf : List Rat) : Int × Int :=
  ((match lthr with
    | some t => nrToBound adjust (maskLower t obs) (maskLower t cmh) (maskLower t cmf)
    | none => 0),
   (match uthr with
    | some t => nrToBound adjust (maskUpper t obs) (maskUpper t cmh) (maskUpper t cmf)
    | none => 0))

/-- rescale when both bounds together claim more entries than exist -/
def finalCounts (nl nu n : Int) : Int × Int := if nl + nu > n then scaleCounts nl nu n else (nl, nu)

/-- `(nr_of_entries_to_set_to_lower_bound, nr_of_entries_to_set_to_upper_bound)` as used by `step6`
    for the masks.  The code computes the masks on sorted arrays; counts do not depend on the order. -/
def step6Counts (adjust : Bool) (lthr uthr : Option Rat) (obs cmh cmf : List Rat) : Int × Int :=
  let r := rawCounts adjust lthr uthr obs cmh cmf
  finalCounts r.1 r.2 ((cmf.length : Int))

/-- any of the roundings behind the two counts sits on an exact half -/
def step6Tie (adjust : Bool) (lthr uthr : Option Rat) (obs cmh cmf : List Rat) : Bool :=
  (match lthr with
    | some t => nrTie adjust (maskLower t obs) (maskLower t cmh) (maskLower t cmf)
    | none => false) ||
  (match uthr with
    | some t => nrTie adjust (maskUpper t obs) (maskUpper t cmh) (maskUpper t cmf)
    | none => false)

/-! ### The thresholds as instance state: attribute assignments and uses in any order

The real object keeps `lower_threshold` / `upper_threshold` as plain attributes and derives `has_lower_threshold` /
`has_upper_threshold` from their *current* values on every use.  The specification is therefore cache-free: the state
is the pair of attribute values (`none` = infinite = no threshold), an assignment replaces one of them, a use reads
them and leaves the state as it is. -/

structure ThrState where
  lower : Option Rat
  upper : Option Rat
deriving DecidableEq, Repr

inductive ThrEvent where
  | setLower (t : Option Rat)
  | setUpper (t : Option Rat)
  | use
deriving DecidableEq, Repr

def ThrState.step (s : ThrState) : ThrEvent → ThrState
  | .setLower t => { s with lower := t }
  | .setUpper t => { s with upper := t }
  | .use => s

/-- the state after a sequence of events -/
def ThrState.run (s : ThrState) (es : List ThrEvent) : ThrState := es.foldl ThrState.step s

/-- the counts a use computes in state `s` -/
def thrCountsOf (adjust : Bool) (s : ThrState) (obs cmh cmf : List Rat) : Int × Int :=
  step6Counts adjust s.lower s.upper obs cmh cmf

end Model.IsimipFreq
