/-
  Layer S, tier A: `ISIMIP._step2_impute_values` as DATA.  `translator/extract_isimip_steps.py` (`generate_step2`)
  evaluates the function symbolically — every local name replaced by the expression tree it was computed from — and emits
  one `Step2Spec` (`Gen/IsimipStep2.lean`): which values count as valid, the exception raised when none is valid, the
  single-valid-value branch, and mask / value of the final masked assignment `x[mask] = …`.  This file holds the DSL, the
  expected value and the denotation; `Lemmas/GenIsimipSteps3.lean` proves `Gen = expected` and
  `denote expected = Model.Isimip.step2Impute` (the function the F21 witness of `Props/C06Detrend.lean` §5 is stated on).

  The argument `x` is seen as the model sees it: `none` = `nan` / `±inf` (`_step2_get_mask_for_values_to_impute` is tied to
  that reading by `Lemmas.GenIsimipSteps.get_mask_for_values_to_impute_eq`); arithmetic is never applied to a missing entry
  by the expected spec (the array is only read through the mask of valid values), and the evaluator carries `0` there like
  `step2Impute` does.
-/
import IbicusModel.Model.Isimip

namespace Model.IsimipStep2
open Model.Stats Model.Isimip

/-- expressions of `_step2_impute_values`, locals inlined -/
inductive E
  | x                                   -- the argument
  | maskImpute                          -- `self._step2_get_mask_for_values_to_impute(x)`
  | not (m : E)                         -- `np.logical_not(m)`
  | sel (a m : E)                       -- `a[m]`, `m` a boolean mask
  | whereIdx (m : E)                    -- `np.where(m)[0]`
  | rank (a : E)                        -- `np.argsort(np.argsort(a))`
  | sort (a : E)                        -- `np.sort(a)`
  | take (a i : E)                      -- `a[i]`, `i` an integer array
  | iecdf (x p : E) (method : String)   -- `iecdf(x=x, p=p, method=<method>)`
  | random (n : E)                      -- `np.random.random(size=n)`
  | count (m : E)                       -- `m.sum()`
  | interp (xs ys pt : E)               -- `scipy.interpolate.interp1d(xs, ys, fill_value="extrapolate")(at)`
  | first (a : E)                       -- `a[0]`
  deriving DecidableEq, Repr

structure Step2Spec where
  /-- the array whose `.size` is tested against 0 and 1 -/
  valid : E
  /-- `if valid.size == 0: raise <this>` -/
  emptyRaises : String
  /-- `if valid.size == 1: x[singleMask] = singleValue; return x` -/
  singleMask : E
  singleValue : E
  /-- otherwise `x[fillMask] = fillValue; return x` -/
  fillMask : E
  fillValue : E
  deriving DecidableEq, Repr

/-- the valid values: `x[np.logical_not(mask_values_to_impute)]` -/
def validE : E := .sel .x (.not .maskImpute)

/-- expected: the values to impute are drawn with `iecdf(valid, np.random.random(size = number of missing values))`, sorted,
    and placed by the rank of the *interpolated rank of the valid values along the array position* -/
def imputeValues : Step2Spec where
  valid := validE
  emptyRaises := "ValueError"
  singleMask := .maskImpute
  singleValue := .first validE
  fillMask := .maskImpute
  fillValue :=
    .take (.sort (.iecdf validE (.random (.count .maskImpute)) "self.iecdf_method"))
      (.rank (.interp (.whereIdx (.not .maskImpute)) (.rank validE) (.whereIdx .maskImpute)))

/-! ### denotation -/

inductive Val
  | arr (l : List Rat)
  | mask (l : List Bool)
  | idx (l : List Nat)
  | nat (n : Nat)
  | num (q : Rat)
  deriving DecidableEq, Repr

/-- an integer array used as numbers (knots / evaluation points of the interpolant, the argument of `argsort`) -/
def asRats : Val → Option (List Rat)
  | .arr l => some l
  | .idx l => some (l.map (fun (i : Nat) => (i : Rat)))
  | _ => none

/-- `base` = the values of `x` (`0` at a missing entry), `miss` = which entries are missing, `u` = what
    `np.random.random` returns (requested once, with the size of the request checked) -/
def eval (c : Cfg) (base : List Rat) (miss : List Bool) (u : List Rat) : E → Except String Val
  | .x => .ok (.arr base)
  | .maskImpute => .ok (.mask miss)
  | .not m =>
    match eval c base miss u m with
    | .ok (.mask l) => .ok (.mask (l.map (fun b => !b)))
    | .ok _ => .error "TypeError"
    | .error e => .error e
  | .sel a m =>
    match eval c base miss u a, eval c base miss u m with
    | .ok (.arr l), .ok (.mask b) => .ok (.arr (Py.selectWhere l b))
    | .error e, _ => .error e
    | _, .error e => .error e
    | _, _ => .error "TypeError"
  | .whereIdx m =>
    match eval c base miss u m with
    | .ok (.mask l) => .ok (.idx (Py.whereTrue l))
    | .ok _ => .error "TypeError"
    | .error e => .error e
  | .rank a =>
    match eval c base miss u a with
    | .ok v =>
      match asRats v with
      | some l => .ok (.idx (rankOf l))
      | none => .error "TypeError"
    | .error e => .error e
  | .sort a =>
    match eval c base miss u a with
    | .ok (.arr l) => .ok (.arr (sortQ l))
    | .ok _ => .error "TypeError"
    | .error e => .error e
  | .take a i =>
    match eval c base miss u a, eval c base miss u i with
    | .ok (.arr l), .ok (.idx j) => .ok (.arr (takeIdx l j))
    | .error e, _ => .error e
    | _, .error e => .error e
    | _, _ => .error "TypeError"
  | .iecdf a p method =>
    match eval c base miss u a, eval c base miss u p with
    | .ok (.arr l), .ok (.arr q) =>
      if method = "self.iecdf_method" then .ok (.arr (Model.Stats.iecdf c.iecdfMethod l q)) else .error "bad-spec"
    | .error e, _ => .error e
    | _, .error e => .error e
    | _, _ => .error "TypeError"
  | .random n =>
    match eval c base miss u n with
    | .ok (.nat k) => if u.length ≠ k then .error "unmodelled:DrawsLength" else .ok (.arr u)
    | .ok _ => .error "TypeError"
    | .error e => .error e
  | .count m =>
    match eval c base miss u m with
    | .ok (.mask l) => .ok (.nat (Py.whereTrue l).length)
    | .ok _ => .error "TypeError"
    | .error e => .error e
  | .interp xs ys pt =>
    match eval c base miss u xs, eval c base miss u ys, eval c base miss u pt with
    | .ok vx, .ok vy, .ok va =>
      match asRats vx, asRats vy, asRats va with
      | some kx, some ky, some pts => .ok (.arr (pts.map (interp1dExtrap kx ky)))
      | _, _, _ => .error "TypeError"
    | .error e, _, _ => .error e
    | _, .error e, _ => .error e
    | _, _, .error e => .error e
  | .first a =>
    match eval c base miss u a with
    | .ok (.arr (v :: _)) => .ok (.num v)
    | .ok (.arr []) => .error "IndexError"
    | .ok _ => .error "TypeError"
    | .error e => .error e

/-- `_step2_impute_values(x)` read off a spec -/
def denote (sp : Step2Spec) (c : Cfg) (x : List (Option Rat)) (u : List Rat) : Except String (List Rat) :=
  let base := x.map (fun v => v.getD 0)
  let miss := x.map (fun v => v.isNone)
  match eval c base miss u sp.valid with
  | .ok (.arr valid) =>
    if valid.length = 0 then .error sp.emptyRaises
    else if valid.length = 1 then
      match eval c base miss u sp.singleMask, eval c base miss u sp.singleValue with
      | .ok (.mask m), .ok (.num v) => .ok (Py.setWhere base m v)
      | .error e, _ => .error e
      | _, .error e => .error e
      | _, _ => .error "TypeError"
    else
      match eval c base miss u sp.fillMask, eval c base miss u sp.fillValue with
      | .ok (.mask m), .ok (.arr v) => .ok (IsimipFreq.fillWhere base m v)
      | .error e, _ => .error e
      | _, .error e => .error e
      | _, _ => .error "TypeError"
  | .ok _ => .error "TypeError"
  | .error e => .error e

end Model.IsimipStep2
