/-
  Layer N, part 1: the numeric toolkit over exact rationals — sorting, ranks, means, the
  empirical CDFs (`ibicus.utils.ecdf`), the inverse empirical CDFs (`ibicus.utils.iecdf`: the library's own
  `IECDF` and the eight `np.quantile` methods it forwards to), `np.interp`, and the non-parametric quantile
  maps of `ibicus/utils/_math_utils.py`.  Definitions only (laws are proved in `Lemmas/`, `Props/C16`).
  Import-free, executable.  numpy's formulas are transcribed from `numpy/lib/_function_base_impl.py`
  (`_QuantileMethods`, `_compute_virtual_index`, `_get_indexes`, `_lerp`) — trusted base.
-/
import IbicusModel.Model.Py

namespace Model.Stats

/-! ### basics -/

def sum (l : List Rat) : Rat := l.sum
def mean (l : List Rat) : Rat := l.sum / (l.length : Rat)

/-- `np.sort` -/
def sortQ (l : List Rat) : List Rat := l.mergeSort (fun a b => decide (a ≤ b))

/-- `np.argsort` (modelled as the *stable* sort; numpy's default is not stable, so every statement that
    depends on the order of equal elements carries a tie-free hypothesis) -/
def argsort (l : List Rat) : List Nat :=
  ((l.zip (List.range l.length)).mergeSort (fun a b => decide (a.1 ≤ b.1))).map (·.2)

/-- `x[idx]` -/
def takeIdx (l : List Rat) (idx : List Nat) : List Rat := idx.map (fun i => l.getD i 0)

/-- `np.argsort(np.argsort(x))`: the rank (0-based position in the sorted order) of every element -/
def rankOf (l : List Rat) : List Nat := argsort ((argsort l).map (fun (i : Nat) => (i : Rat)))

/-- `sort_array_like_another_one(x, y) = np.sort(x)[np.argsort(np.argsort(y))]` -/
def sortLike (x y : List Rat) : List Rat := takeIdx (sortQ x) (rankOf y)

def minQ (l : List Rat) : Rat := match l with | [] => 0 | a :: t => t.foldl min a
def maxQ (l : List Rat) : Rat := match l with | [] => 0 | a :: t => t.foldl max a

/-- Python-style index into a (sorted) sample: negative indices count from the end -/
def pyIdx (s : List Rat) (i : Int) : Rat :=
  if i < 0 then s.getD (s.length - (-i).toNat) 0 else s.getD i.toNat 0

/-- `np.linspace(a, b, n)` -/
def linspace (a b : Rat) (n : Nat) : List Rat :=
  if n = 1 then [a] else (List.range n).map (fun (k : Nat) => a + (k : Rat) * (b - a) / ((n : Rat) - 1))

/-! ### `np.interp` -/

/-- largest index `j` with `xp[j] ≤ x` (`none` if `x < xp[0]`), for non-decreasing `xp` -/
def lastLE (xp : List Rat) (x : Rat) : Option Nat :=
  let n := (xp.takeWhile (fun v => decide (v ≤ x))).length
  if n = 0 then none else some (n - 1)

/-- `np.interp(x, xp, fp)` for non-decreasing `xp` (numpy: constant extension outside `[xp[0], xp[-1]]`,
    right-most knot on ties) -/
def interp1 (xp fp : List Rat) (x : Rat) : Rat :=
  match lastLE xp x with
  | none => fp.getD 0 0
  | some j =>
    if j + 1 ≥ xp.length then fp.getD (fp.length - 1) 0
    else
      let x0 := xp.getD j 0
      let x1 := xp.getD (j + 1) 0
      let f0 := fp.getD j 0
      let f1 := fp.getD (j + 1) 0
      if x = x0 then f0 else f0 + (f1 - f0) / (x1 - x0) * (x - x0)

def interp (xs xp fp : List Rat) : List Rat := xs.map (interp1 xp fp)

/-- `interp_sorted_cdf_vals_on_given_length(cdf_vals, m)` -/
def interpOnLength (cdf : List Rat) (m : Nat) : List Rat :=
  interp (linspace 1 (cdf.length : Rat) m) (linspace 1 (cdf.length : Rat) cdf.length) cdf

/-! ### empirical CDF (`ibicus.utils.ecdf`) -/

/-- `statsmodels` `ECDF(x)(y)`: right-continuous step function `#{x_i ≤ y} / n` -/
def ecdfStep1 (x : List Rat) (y : Rat) : Rat := ((x.filter (fun v => decide (v ≤ y))).length : Rat) / (x.length : Rat)

/-- `linear_interpolation`: `np.interp(y, np.quantile(x, linspace(0,1,n)), linspace(0,1,n))`; in exact arithmetic
    `np.quantile(x, k/(n-1))` (method `linear`) is the `k`-th order statistic -/
def ecdfLin1 (x : List Rat) (y : Rat) : Rat := interp1 (sortQ x) (linspace 0 1 x.length) y

/-- `kernel_density`: cdf of the histogram with the given bin edges (length `k+1`, increasing) and counts
    (length `k`); the edges come from `np.histogram(x, bins="auto")` and are an oracle argument -/
def ecdfHist1 (edges : List Rat) (counts : List Nat) (y : Rat) : Rat :=
  let total : Nat := counts.sum
  let k := counts.length
  if y ≤ edges.getD 0 0 then 0
  else if y ≥ edges.getD k 0 then 1
  else
    match lastLE edges y with
    | none => 0
    | some j =>
      let before : Nat := (counts.take j).sum
      let e0 := edges.getD j 0
      let e1 := edges.getD (j + 1) 0
      (((before : Nat) : Rat) + ((counts.getD j 0 : Nat) : Rat) * (y - e0) / (e1 - e0)) / ((total : Nat) : Rat)

inductive EcdfMethod where
  | step | linear
deriving DecidableEq, Repr

def ecdf1 (m : EcdfMethod) (x : List Rat) (y : Rat) : Rat :=
  match m with
  | .step => ecdfStep1 x y
  | .linear => ecdfLin1 x y

def ecdf (m : EcdfMethod) (x ys : List Rat) : List Rat := ys.map (ecdf1 m x)

/-! ### inverse empirical CDF (`ibicus.utils.iecdf`) -/

/-- `_lerp(a, b, t)` (both branches of numpy's formula are the same rational number) -/
def lerp (a b t : Rat) : Rat := a + (b - a) * t

/-- continuous Hyndman–Fan family: virtual index `n q + α + q (1 − α − β) − 1`, `_get_indexes` clipping, lerp -/
def quantileAB (α β : Rat) (s : List Rat) (q : Rat) : Rat :=
  let n : Rat := (s.length : Rat)
  let vi := n * q + (α + q * (1 - α - β)) - 1
  if vi ≥ n - 1 then pyIdx s (-1)
  else if vi < 0 then pyIdx s 0
  else lerp (pyIdx s vi.floor) (pyIdx s (vi.floor + 1)) (vi - (vi.floor : Rat))

/-- `linear` (numpy's default): virtual index `(n − 1) q` -/
def quantileLinear (s : List Rat) (q : Rat) : Rat :=
  let n : Rat := (s.length : Rat)
  let vi := (n - 1) * q
  if vi ≥ n - 1 then pyIdx s (-1)
  else if vi < 0 then pyIdx s 0
  else lerp (pyIdx s vi.floor) (pyIdx s (vi.floor + 1)) (vi - (vi.floor : Rat))

/-- `averaged_inverted_cdf`: virtual index `n q − 1`, gamma forced to `1/2` at integers and `1` otherwise -/
def quantileAveraged (s : List Rat) (q : Rat) : Rat :=
  let n : Rat := (s.length : Rat)
  let vi := n * q - 1
  if vi ≥ n - 1 then pyIdx s (-1)
  else if vi < 0 then pyIdx s 0
  else
    let g : Rat := if vi - (vi.floor : Rat) = 0 then 1 / 2 else 1
    lerp (pyIdx s vi.floor) (pyIdx s (vi.floor + 1)) g

/-- `_discrete_interpolation_to_boundaries` -/
def discreteIdx (index : Rat) (usePrev : Bool) : Int :=
  let r := if usePrev then index.floor else index.floor + 1
  if r < 0 then 0 else r

/-- `closest_observation`: index `n q − 3/2`, previous iff gamma = 0 and floor odd -/
def quantileClosest (s : List Rat) (q : Rat) : Rat :=
  let index := (s.length : Rat) * q - 3 / 2
  pyIdx s (discreteIdx index (decide (index - (index.floor : Rat) = 0 ∧ index.floor % 2 = 1)))

/-- ibicus' own `IECDF`: `sorted[floor((n − 1) q)]` (this is what `method="inverted_cdf"` selects in ibicus) -/
def iecdfInverted (s : List Rat) (q : Rat) : Rat := pyIdx s (((s.length : Rat) - 1) * q).floor

inductive IecdfMethod where
  | inverted_cdf | averaged_inverted_cdf | closest_observation | interpolated_inverted_cdf
  | hazen | weibull | linear | median_unbiased | normal_unbiased
deriving DecidableEq, Repr

/-- `iecdf(x, p, method)` on the *sorted* sample `s` -/
def iecdfSorted (m : IecdfMethod) (s : List Rat) (q : Rat) : Rat :=
  match m with
  | .inverted_cdf => iecdfInverted s q
  | .averaged_inverted_cdf => quantileAveraged s q
  | .closest_observation => quantileClosest s q
  | .interpolated_inverted_cdf => quantileAB 0 1 s q
  | .hazen => quantileAB (1 / 2) (1 / 2) s q
  | .weibull => quantileAB 0 0 s q
  | .linear => quantileLinear s q
  | .median_unbiased => quantileAB (1 / 3) (1 / 3) s q
  | .normal_unbiased => quantileAB (3 / 8) (3 / 8) s q

def iecdf1 (m : IecdfMethod) (x : List Rat) (q : Rat) : Rat := iecdfSorted m (sortQ x) q
def iecdf (m : IecdfMethod) (x qs : List Rat) : List Rat := qs.map (iecdfSorted m (sortQ x))

/-! ### non-parametric quantile maps -/

/-- `quantile_map_non_parametically(x, y, vals)` = `iecdf(y, ecdf(x, vals))` -/
def qmap (em : EcdfMethod) (im : IecdfMethod) (x y vals : List Rat) : List Rat :=
  iecdf im y (ecdf em x vals)

/-- `quantile_map_non_parametically_with_constant_extrapolation` -/
def qmapExtrap (em : EcdfMethod) (im : IecdfMethod) (x y vals : List Rat) : List Rat :=
  let mapped := qmap em im x y vals
  let xmin := minQ x
  let xmax := maxQ x
  let c0 := minQ y - xmin
  let c1 := maxQ y - xmax
  List.zipWith (fun v m => if v > xmax then v + c1 else if v < xmin then v + c0 else m) vals mapped

/-- `scipy.stats.rankdata` (average ranks, 1-based) -/
def rankAvg (x : List Rat) : List Rat :=
  x.map (fun v =>
    let less := (x.filter (fun w => decide (w < v))).length
    let eq := (x.filter (fun w => decide (w = v))).length
    ((less : Nat) : Rat) + (((eq : Nat) : Rat) + 1) / 2)

/-- `_isimip_quantile_map_x_on_y_non_parametically` -/
def qmapIsimip (x y : List Rat) : List Rat :=
  let px := (rankAvg x).map (fun r => (r - 1) / (x.length : Rat))
  interp px (linspace 0 1 y.length) (sortQ y)

/-- `threshold_cdf_vals(v, t)` -/
def thresholdCdf (t : Rat) (v : Rat) : Rat := max (min v (1 - t)) t

end Model.Stats
