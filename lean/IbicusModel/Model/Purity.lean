/-
  C12 — purity of debiasing: an explicit STORE MODEL (partial by nature: numpy's real view/copy behaviour is a
  TRUSTED classification, validated on every run by the tier-B probes of harness/c12.py).

  * tier-A data: the in-place write sites and the `self.<attr> = …` sites of the anchored files (regenerated in
    `Gen/WriteSites.lean`; the hand-written tables with the reason why each target is not a caller buffer are below);
  * the ALIAS MODEL: buffers carry a provenance `own | caller k`; each modelled function of ibicus is a short
    straight-line program over named buffers (`alias`, `fresh`, `store`, `call`); an abstract checker (`check`) that
    refuses every store into a buffer whose provenance is not `own`, and a concrete heap semantics (`Exec`) against
    which the checker is proved sound in `Lemmas/Purity.lean`.

  Import-free, executable.
-/
namespace Model.Purity

/-! ## tier-A data types -/

inductive WriteKind
  | subscriptAssign | augAssignName | augAssignSubscript | augAssignAttr | attrAssign | methodInPlace
  | outKeyword | overwriteKeyword | npInPlaceFn | delete
  deriving DecidableEq, Repr

/-- an in-place write site, identified line-independently -/
structure WriteSite where
  file : String
  fn : String      -- `Class.method[.inner]` or `function`
  base : String    -- the variable written into
  kind : WriteKind
  key : String     -- normalised text of the target / call
  occ : Nat        -- occurrence number of this key inside the function
  deriving DecidableEq, Repr

inductive SelfKind | assign | augAssign | nestedAssign | nestedAugAssign | setattr | dictAccess | delete
  deriving DecidableEq, Repr

/-- a site that changes the state of `self` -/
structure SelfAssign where
  file : String
  cls : String
  method : String
  attr : String
  kind : SelfKind
  deriving DecidableEq, Repr

structure GlobalState where
  file : String
  fn : String
  kind : String
  what : String
  deriving DecidableEq, Repr

inductive ArgShape | name | indexByName | basicSlice | other
  deriving DecidableEq, Repr

/-- an argument at a call site of a per-window function -/
structure CallArg where
  file : String
  fn : String
  callee : String
  param : String
  text : String
  shape : ArgShape
  deriving DecidableEq, Repr

/-- a call site that draws from a random generator -/
structure RngSite where
  file : String
  fn : String
  callee : String
  occ : Nat
  deriving DecidableEq, Repr

/-! ## provenance and the TRUSTED numpy classification -/

/-- the caller's buffers: 0 obs, 1 cm_hist, 2 cm_future, 3 time_obs, 4 time_cm_hist, 5 time_cm_future -/
abbrev nCaller : Nat := 6

inductive Prov | own | caller (k : Nat)
  deriving DecidableEq, Repr

/-- buffers `0 … nCaller-1` are the caller's, everything allocated later is the library's own -/
def provOf (b : Nat) : Prov := if b < nCaller then .caller b else .own

/-- numpy operations that occur on the modelled paths -/
inductive NpOp
  | name          -- `y = x`, passing / returning a name
  | basicSlice    -- `x[a:b]`, `x[:, i, j]`, `x[::2]`
  | fancyIndex    -- `x[int_array]`
  | boolIndex     -- `x[bool_mask]`
  | sort          -- `np.sort(x)`
  | where_        -- `np.where(c, a, b)`
  | arith         -- `x + c`, `x * c`, `np.maximum(a, b)`, ufuncs without `out=`
  | copy          -- `x.copy()`
  | astype        -- `x.astype(t)`, `np.array(x)`, `masked.filled(v)` when a cell is masked (numpy returns the data buffer itself — `name` — when nothing is masked)
  | zerosLike     -- `np.zeros_like(x)`
  | emptyLike     -- `np.empty_like(x)`
  | alloc         -- `np.empty(shape)`, `np.zeros(n)`, `np.arange(…)`, `create_array_of_consecutive_dates`
  | libCall       -- result of a numpy / scipy / statsmodels routine (`np.quantile`, `np.interp`, `dist.ppf`, `np.vectorize(f)(x)` …)
  deriving DecidableEq, Repr

/-- TRUSTED: which operations return a view of (or the very same object as) their operand.  Everything else
    returns a freshly allocated array that shares no memory with its operands. -/
def NpOp.aliases : NpOp → Bool
  | .name | .basicSlice => true
  | _ => false

/-! ## names -/

/-- variables of the modelled functions (Python identifiers, camel-cased) -/
inductive V
  | obs | cmHist | cmFuture | timeObs | timeCmHist | timeCmFuture
  | obsLoc | cmHistLoc | cmFutureLoc
  | output | debiasedCmFuture | res | res2 | ret | ret2 | result
  | wObs | wHist | wFut | wTObs | wTHist | wTFut | wYObs | wYHist | wYFut
  | yearsObs | yearsCmHist | yearsCmFuture
  | obsHist | obsFuture | timeObsHist | yearsObsHist | years
  | x | y | vals | xq | mappedVals | mask | windowRange | idx
  | biasCorrectedVals | trend | trendCmFuture | gamma | returnVals | cmFutureSorted | sorted
  | debiasedAnnualCycle | t1 | t2 | t3
  deriving DecidableEq, Repr

def V.py : V → String
  | .obs => "obs" | .cmHist => "cm_hist" | .cmFuture => "cm_future"
  | .timeObs => "time_obs" | .timeCmHist => "time_cm_hist" | .timeCmFuture => "time_cm_future"
  | .obsLoc => "obs[:, i, j]" | .cmHistLoc => "cm_hist[:, i, j]" | .cmFutureLoc => "cm_future[:, i, j]"
  | .output => "output" | .debiasedCmFuture => "debiased_cm_future" | .res => "<result>" | .res2 => "<result>[mask]"
  | .ret => "<return>" | .ret2 => "<return 2>" | .result => "<entry result>"
  | .wObs => "obs[window]" | .wHist => "cm_hist[window]" | .wFut => "cm_future[window]"
  | .wTObs => "time_obs[window]" | .wTHist => "time_cm_hist[window]" | .wTFut => "time_cm_future[window]"
  | .wYObs => "years_obs[window]" | .wYHist => "years_cm_hist[window]" | .wYFut => "years_cm_future[window]"
  | .yearsObs => "years_obs" | .yearsCmHist => "years_cm_hist" | .yearsCmFuture => "years_cm_future"
  | .obsHist => "obs_hist" | .obsFuture => "obs_future" | .timeObsHist => "time_obs_hist"
  | .yearsObsHist => "years_obs_hist" | .years => "years"
  | .x => "x" | .y => "y" | .vals => "vals" | .xq => "<x of _standard_qm>" | .mappedVals => "mapped_vals" | .mask => "mask"
  | .windowRange => "window_range" | .idx => "<indices>"
  | .biasCorrectedVals => "bias_corrected_vals" | .trend => "trend" | .trendCmFuture => "trend_cm_future"
  | .gamma => "gamma" | .returnVals => "return_vals" | .cmFutureSorted => "cm_future_sorted" | .sorted => "<sorted>"
  | .debiasedAnnualCycle => "debiased_annual_cycle" | .t1 => "<tmp1>" | .t2 => "<tmp2>" | .t3 => "<tmp3>"

/-- the modelled functions -/
inductive Fn
  | applyDeb | applyDC | mapOverLocations | runFunc | markUnassigned | uniqueMask | idxWindow
  | applyLocationRW | applyLocationDC | applyLocationISIMIP
  | aowLS | aowQM | standardQm | qmConstExtrap | aowECDFM
  | aowCDFt | cdftSteps | cdftRandomize | distCdf | aowQDM | qdmSteps | aowSDM | sdmRel | sdmAbs | dcWithin
  | step1 | step1Debiased | isiAow | step2 | step2Impute | step3 | step3Remove | step4 | step4Lower | step4Upper
  | step5 | step5Transfer | step6 | step6MaskLower | step6MaskUpper | step7 | step8
  deriving DecidableEq, Repr

/-- the qualified Python name, as the write-site extractor prints it -/
def Fn.py : Fn → String
  | .applyDeb => "Debiaser.apply" | .applyDC => "DeltaChange.apply"
  | .mapOverLocations => "Debiaser.map_over_locations" | .runFunc => "Debiaser._run_func_on_location_and_catch_error"
  | .markUnassigned => "_verif_mark_unassigned" | .uniqueMask => "get_mask_for_unique_subarray"
  | .idxWindow => "RunningWindowOverDaysOfYear.get_indices_vals_in_window"
  | .applyLocationRW => "RunningWindowDebiaser.apply_location" | .applyLocationDC => "DeltaChange.apply_location"
  | .applyLocationISIMIP => "ISIMIP.apply_location"
  | .aowLS => "LinearScaling.apply_on_window" | .aowQM => "QuantileMapping.apply_on_window"
  | .standardQm => "QuantileMapping._standard_qm"
  | .qmConstExtrap => "quantile_map_non_parametically_with_constant_extrapolation"
  | .aowECDFM => "ECDFM.apply_on_window" | .aowCDFt => "CDFt.apply_on_window" | .cdftSteps => "CDFt._apply_debiasing_steps"
  | .cdftRandomize => "CDFt._randomize_zero_values_between_zero_and_threshold"
  | .distCdf => "<self.distribution>.cdf"
  | .aowQDM => "QuantileDeltaMapping.apply_on_window" | .qdmSteps => "QuantileDeltaMapping._apply_debiasing_steps"
  | .aowSDM => "ScaledDistributionMapping.apply_on_window"
  | .sdmRel => "ScaledDistributionMapping._apply_on_window_relative_sdm"
  | .sdmAbs => "ScaledDistributionMapping._apply_on_window_absolute_sdm"
  | .dcWithin => "DeltaChange._apply_on_within_year_window"
  | .step1 => "ISIMIP.step1" | .step1Debiased => "ISIMIP._step1_calculate_debiased_annual_cycle_of_upper_bounds"
  | .isiAow => "ISIMIP._apply_on_window" | .step2 => "ISIMIP.step2" | .step2Impute => "ISIMIP._step2_impute_values"
  | .step3 => "ISIMIP.step3" | .step3Remove => "ISIMIP._step3_remove_trend" | .step4 => "ISIMIP.step4"
  | .step4Lower => "ISIMIP._step4_randomize_values_between_lower_threshold_and_bound"
  | .step4Upper => "ISIMIP._step4_randomize_values_between_upper_threshold_and_bound"
  | .step5 => "ISIMIP.step5" | .step5Transfer => "ISIMIP._step5_transfer_trend" | .step6 => "ISIMIP.step6"
  | .step6MaskLower => "ISIMIP._step6_get_mask_for_entries_to_set_to_lower_bound"
  | .step6MaskUpper => "ISIMIP._step6_get_mask_for_entries_to_set_to_upper_bound"
  | .step7 => "ISIMIP.step7" | .step8 => "ISIMIP.step8"

def allFns : List Fn := [
  .applyDeb, .applyDC, .mapOverLocations, .runFunc, .markUnassigned, .uniqueMask, .idxWindow,
  .applyLocationRW, .applyLocationDC, .applyLocationISIMIP, .aowLS, .aowQM, .standardQm, .qmConstExtrap, .aowECDFM,
  .aowCDFt, .cdftSteps, .cdftRandomize, .distCdf, .aowQDM, .qdmSteps, .aowSDM, .sdmRel, .sdmAbs, .dcWithin,
  .step1, .step1Debiased, .isiAow, .step2, .step2Impute, .step3, .step3Remove, .step4, .step4Lower, .step4Upper,
  .step5, .step5Transfer, .step6, .step6MaskLower, .step6MaskUpper, .step7, .step8]

/-! ## programs -/

/-- what switches a draw site on -/
inductive RngGuard
  | cdftSSR                 -- CDFt with `SSR = True`
  | isimipImpute            -- ISIMIP with `impute_missing_values = True` (and a missing value in the window)
  | isimipLower             -- ISIMIP with a lower bound and a lower threshold
  | isimipUpper             -- ISIMIP with an upper bound and an upper threshold
  | hurdleRandomization     -- `distribution` is a `gen_PrecipitationHurdleModel` with `cdf_randomization = True`
  | censoredModel           -- `distribution` is a `gen_PrecipitationGammaLeftCensoredModel`
  deriving DecidableEq, Repr


inductive Stmt
  | alias (dst src : V) (op : NpOp)                        -- `dst` names the buffer of `src` (op is `name` / `basicSlice`)
  | fresh (dst : V) (op : NpOp) (srcs : List V)            -- `dst` names a newly allocated buffer computed from `srcs`
  | store (tgt : V)                                        -- an in-place write into the buffer of `tgt`
  | draw (g : RngGuard)                                    -- `np.random.<f>(…)`: consumes numpy's GLOBAL generator if the guard is on
  | call (fn : Fn) (args : List (V × V)) (rets : List (V × V))
      -- `args`: (parameter, caller variable) — an unbound caller variable is Python's `None`: the parameter stays unbound;
      -- `rets`: (caller variable, callee variable) bound after the body has run
  | callWin (args : List (V × V)) (dst : V)
      -- `dst = self._apply_on_window(…)` of ISIMIP.  The window function is checked separately, for every one of its
      -- settings branches (`Cfg.isimipWindow`), under the contract "its three arguments are buffers the library owns";
      -- the call site must establish the contract
  deriving Repr

/-- how the debiaser is entered -/
inductive Entry
  | applyLocation (times : Bool)          -- `deb.apply_location(obs, cm_hist, cm_future[, time_obs, time_cm_hist, time_cm_future])`
  | apply (conv times : Bool)             -- `deb.apply(…)` on 3-d arrays; `conv`: the inputs are copied by the input check (int dtype → astype; masked array with a masked cell → filled)
  deriving DecidableEq, Repr

def Entry.times : Entry → Bool
  | .applyLocation t => t
  | .apply _ t => t

inductive Detr | additive | multiplicative | noDetrending
  deriving DecidableEq, Repr

inductive Trend | additive | multiplicative | mixed | bounded
  deriving DecidableEq, Repr

/-- every settings-dependent branch of the modelled paths.  `w` = running_window_mode, `yr` =
    running_window_mode_over_years_of_cm_future.  Data-dependent branches are merged inside the bodies (union of the
    stores; where one side rebinds a name to a fresh array and the other keeps the alias, the alias is kept). -/
inductive Cfg
  | ls (e : Entry) (w : Bool)
  | qm (e : Entry) (w : Bool) (detr : Detr) (parametric : Bool)
  | ecdfm (e : Entry) (w : Bool)
  | cdft (e : Entry) (w yr ssr shift : Bool)
  | qdm (e : Entry) (w yr censor : Bool)
  | sdm (e : Entry) (w relative : Bool)
  | dc (e : Entry) (w : Bool)
  | isimip (e : Entry) (w scale : Bool)       -- ISIMIP.apply_location: window / month mode, steps 1 and 8
  | isimipWindow (impute detrending lower upper within : Bool) (trend : Trend)
      -- ISIMIP._apply_on_window (steps 2–7) entered with three buffers the library owns
  deriving DecidableEq, Repr

/-- the configurations under which `Stmt.callWin` may run its callee -/
def Cfg.isInner : Cfg → Bool
  | .isimipWindow .. => true
  | _ => false

def Cfg.entry : Cfg → Entry
  | .ls e _ | .qm e _ _ _ | .ecdfm e _ | .cdft e _ _ _ _ | .qdm e _ _ _ | .sdm e _ _ | .dc e _ => e
  | .isimip e _ _ => e
  | .isimipWindow .. => .applyLocation false

def Cfg.window : Cfg → Bool
  | .ls _ w | .qm _ w _ _ | .ecdfm _ w | .cdft _ w _ _ _ | .qdm _ w _ _ | .sdm _ w _ | .dc _ w => w
  | .isimip _ w _ => w
  | .isimipWindow .. => false

def Cfg.applyFn : Cfg → Fn
  | .dc _ _ => .applyDC
  | _ => .applyDeb

def Cfg.applyLocationFn : Cfg → Fn
  | .dc _ _ => .applyLocationDC
  | .isimip .. => .applyLocationISIMIP
  | _ => .applyLocationRW

def Cfg.aowFn : Cfg → Fn
  | .ls .. => .aowLS | .qm .. => .aowQM | .ecdfm .. => .aowECDFM | .cdft .. => .aowCDFt | .qdm .. => .aowQDM
  | .sdm .. => .aowSDM | .dc .. => .dcWithin | .isimip .. => .isiAow | .isimipWindow .. => .isiAow

open Stmt V NpOp

private def dataArgs : List (V × V) := [(obs, obs), (cmHist, cmHist), (cmFuture, cmFuture)]
private def timeArgs : List (V × V) := [(timeObs, timeObs), (timeCmHist, timeCmHist), (timeCmFuture, timeCmFuture)]
private def inferTimes (c : Cfg) : List Stmt :=
  -- `infer_and_create_time_arrays_if_not_given`: only the missing ones are created
  if c.entry.times then [] else [fresh timeObs alloc [], fresh timeCmHist alloc [], fresh timeCmFuture alloc []]
private def windowArgs : List (V × V) :=
  [(obs, wObs), (cmHist, wHist), (cmFuture, wFut), (timeObs, wTObs), (timeCmHist, wTHist), (timeCmFuture, wTFut)]
private def onIf (b : Bool) (l : List Stmt) : List Stmt := if b then l else []

/-- the body of every modelled function (one straight-line program per settings branch) -/
def body (c : Cfg) : Fn → List Stmt
  -- Debiaser.apply / DeltaChange.apply: `_check_inputs_and_convert_if_possible` (astype / filled when needed), map
  | .applyDeb | .applyDC =>
      (match c.entry with
       | .apply true _ => [fresh obs astype [obs], fresh cmHist astype [cmHist], fresh cmFuture astype [cmFuture]]
       | _ => []) ++
      [call .mapOverLocations (dataArgs ++ timeArgs) [(output, ret)], alias ret output name]
  | .mapOverLocations =>
      [fresh output alloc [], call .markUnassigned [(x, output)] [],
       alias obsLoc obs basicSlice, alias cmHistLoc cmHist basicSlice, alias cmFutureLoc cmFuture basicSlice,
       call .runFunc ([(obs, obsLoc), (cmHist, cmHistLoc), (cmFuture, cmFutureLoc)] ++ timeArgs) [(res, ret)],
       store output, alias ret output name]
  | .runFunc => [call c.applyLocationFn (dataArgs ++ timeArgs) [(ret, ret)]]
  | .markUnassigned => [store x]                                   -- the verification hook: `x.fill(np.nan)`
  | .uniqueMask => [fresh mask astype [], store mask, alias ret mask name]
  | .idxWindow => [fresh windowRange arith [], store windowRange, fresh ret libCall [windowRange]]
  -- RunningWindowDebiaser.apply_location
  | .applyLocationRW =>
      if c.window then
        inferTimes c ++
        [fresh debiasedCmFuture emptyLike [cmFuture], call .markUnassigned [(x, debiasedCmFuture)] [],
         call .idxWindow [] [(idx, ret)], call .uniqueMask [] [(mask, ret)],
         fresh wObs fancyIndex [obs], fresh wHist fancyIndex [cmHist], fresh wFut fancyIndex [cmFuture],
         fresh wTObs fancyIndex [timeObs], fresh wTHist fancyIndex [timeCmHist], fresh wTFut fancyIndex [timeCmFuture],
         call c.aowFn windowArgs [(res, ret)], fresh res2 boolIndex [res],
         store debiasedCmFuture, alias ret debiasedCmFuture name]
      else [call c.aowFn (dataArgs ++ timeArgs) [(ret, ret)]]
  -- DeltaChange.apply_location
  | .applyLocationDC =>
      if c.window then
        inferTimes c ++
        [fresh debiasedCmFuture emptyLike [obs], call .markUnassigned [(x, debiasedCmFuture)] [],
         call .idxWindow [] [(idx, ret)], call .uniqueMask [] [(mask, ret)],
         fresh wObs fancyIndex [obs], fresh wHist fancyIndex [cmHist], fresh wFut fancyIndex [cmFuture],
         call .dcWithin [(obs, wObs), (cmHist, wHist), (cmFuture, wFut)] [(res, ret)], fresh res2 boolIndex [res],
         store debiasedCmFuture, alias ret debiasedCmFuture name]
      else [call .dcWithin dataArgs [(ret, ret)]]
  | .dcWithin => [fresh ret arith [obs, cmHist, cmFuture]]
  -- LinearScaling / ECDFM
  | .aowLS => [fresh ret arith [obs, cmHist, cmFuture]]
  | .aowECDFM => [call .distCdf [] [(t1, ret)], fresh ret arith [obs, cmHist, cmFuture]]
  -- QuantileMapping
  | .aowQM =>
      (match c with
       | .qm _ _ .noDetrending _ =>
           [alias xq cmFuture name, call .standardQm [(x, xq), (obs, obs), (cmHist, cmHist)] [(res, ret)], alias ret res name]
       | _ =>
           [fresh xq arith [cmFuture, cmHist], call .standardQm [(x, xq), (obs, obs), (cmHist, cmHist)] [(res, ret)],
            fresh ret arith [res]])
  | .standardQm =>
      (match c with
       | .qm _ _ _ false => [call .qmConstExtrap [(x, cmHist), (y, obs), (vals, x)] [(ret, ret)]]
       | _ => [call .distCdf [] [(t1, ret)], fresh ret libCall [x, obs, cmHist]])
  | .qmConstExtrap => [fresh mappedVals libCall [x, y, vals], store mappedVals, store mappedVals, alias ret mappedVals name]
  -- CDFt
  | .aowCDFt =>
      (match c with
       | .cdft e _ true _ _ =>
           onIf (!e.times) [fresh timeCmFuture alloc []] ++
           [fresh yearsCmFuture libCall [timeCmFuture],
            fresh debiasedCmFuture emptyLike [cmFuture], call .markUnassigned [(x, debiasedCmFuture)] [],
            fresh wFut boolIndex [cmFuture],
            call .cdftSteps [(obs, obs), (cmHist, cmHist), (cmFuture, wFut)] [(res, ret)], fresh res2 boolIndex [res],
            store debiasedCmFuture, alias ret debiasedCmFuture name]
       | _ => [call .cdftSteps dataArgs [(ret, ret)]])
  | .cdftSteps =>
      (match c with
       | .cdft _ _ _ ssr shift =>
           onIf ssr [call .cdftRandomize [(x, obs)] [(obs, ret)], call .cdftRandomize [(x, cmHist)] [(cmHist, ret)],
                     call .cdftRandomize [(x, cmFuture)] [(cmFuture, ret)]] ++
           onIf shift [fresh cmHist arith [cmHist, obs], fresh cmFuture arith [cmFuture, obs, cmHist]] ++
           [fresh res libCall [obs, cmHist, cmFuture]] ++
           (if ssr then [fresh ret where_ [res]] else [alias ret res name])
       | _ => [])
  | .cdftRandomize => [draw .cdftSSR, fresh ret where_ [x]]       -- `np.where(x == 0, np.random.uniform(…), x)`
  -- `self.distribution.cdf(…)`: the two StatisticalModel classes that randomise inside `cdf`
  | .distCdf => [draw .hurdleRandomization, draw .censoredModel, fresh ret libCall []]
  -- QuantileDeltaMapping (uses `distribution.fit` / `.ppf` only: no `cdf`, hence no draw)
  | .aowQDM =>
      (match c with
       | .qdm e _ true _ =>
           onIf (!e.times) [fresh timeCmFuture alloc []] ++
           [fresh yearsCmFuture libCall [timeCmFuture],
            fresh debiasedCmFuture emptyLike [cmFuture], call .markUnassigned [(x, debiasedCmFuture)] [],
            fresh wFut boolIndex [cmFuture],
            call .qdmSteps [(cmFuture, wFut)] [(res, ret)], fresh res2 boolIndex [res],
            store debiasedCmFuture, alias ret debiasedCmFuture name]
       | _ => [call .qdmSteps [(cmFuture, cmFuture)] [(ret, ret)]])
  | .qdmSteps =>
      (match c with
       | .qdm _ _ _ censor =>
           [fresh biasCorrectedVals arith [cmFuture]] ++ onIf censor [store biasCorrectedVals] ++
           [alias ret biasCorrectedVals name]
       | _ => [])
  -- ScaledDistributionMapping
  | .aowSDM =>
      (match c with
       | .sdm _ _ true => [call .sdmRel dataArgs [(ret, ret)]]
       | _ => [call .sdmAbs dataArgs [(ret, ret)]])
  | .sdmRel =>
      [fresh obs sort [obs], fresh cmHist sort [cmHist], fresh cmFuture fancyIndex [cmFuture],
       store obs, store cmHist, call .distCdf [] [(t1, ret)], store cmFuture, store cmFuture, fresh ret fancyIndex [cmFuture]]
  | .sdmAbs => [call .distCdf [] [(t1, ret)], fresh ret arith [obs, cmHist, cmFuture]]
  -- ISIMIP
  | .applyLocationISIMIP =>
      (match c with
       | .isimip _ w scale =>
           inferTimes c ++
           [fresh yearsObs libCall [timeObs], fresh yearsCmHist libCall [timeCmHist], fresh yearsCmFuture libCall [timeCmFuture],
            call .step1 ([(obsHist, obs), (cmHist, cmHist), (cmFuture, cmFuture), (timeObsHist, timeObs),
                          (timeCmHist, timeCmHist), (timeCmFuture, timeCmFuture)])
                        ([(obs, obsHist), (cmHist, cmHist), (cmFuture, cmFuture)] ++
                          (if scale then [(debiasedAnnualCycle, debiasedAnnualCycle)] else [])),
            fresh debiasedCmFuture zerosLike [cmFuture], call .markUnassigned [(x, debiasedCmFuture)] []] ++
           (if w then
              [call .idxWindow [] [(idx, ret)],
               fresh wObs fancyIndex [obs], fresh wHist fancyIndex [cmHist], fresh wFut fancyIndex [cmFuture],
               fresh wYObs fancyIndex [yearsObs], fresh wYHist fancyIndex [yearsCmHist], fresh wYFut fancyIndex [yearsCmFuture]]
            else
              [fresh wObs boolIndex [obs], fresh wHist boolIndex [cmHist], fresh wFut boolIndex [cmFuture],
               fresh wYObs boolIndex [yearsObs], fresh wYHist boolIndex [yearsCmHist], fresh wYFut boolIndex [yearsCmFuture]]) ++
           [callWin [(obsHist, wObs), (cmHist, wHist), (cmFuture, wFut)] res] ++
           onIf w [call .uniqueMask [] [(mask, ret)], fresh res2 boolIndex [res]] ++
           [store debiasedCmFuture,
            call .step8 [(cmFuture, debiasedCmFuture), (debiasedAnnualCycle, debiasedAnnualCycle), (timeCmFuture, timeCmFuture)]
                        [(debiasedCmFuture, ret)],
            alias ret debiasedCmFuture name]
       | _ => [])
  | .step1 =>
      (match c with
       | .isimip _ _ true =>
           [fresh obsHist arith [obsHist, timeObsHist], fresh cmHist arith [cmHist, timeCmHist],
            fresh cmFuture arith [cmFuture, timeCmFuture], call .step1Debiased [] [(debiasedAnnualCycle, ret)]]
       | _ => [])
  | .step1Debiased => [fresh debiasedAnnualCycle copy [], store debiasedAnnualCycle, alias ret debiasedAnnualCycle name]
  | .isiAow =>
      let three : List (V × V) := [(obsHist, obsHist), (cmHist, cmHist), (cmFuture, cmFuture)]
      [call .step2 three three,
       call .step3 three (three ++ [(trendCmFuture, trendCmFuture)]),
       call .step4 three three,
       call .step5 three [(obsFuture, ret)],
       call .step6 (three ++ [(obsFuture, obsFuture)]) [(cmFuture, ret)],
       call .step7 [(cmFuture, cmFuture), (trendCmFuture, trendCmFuture)] [(cmFuture, ret)],
       alias ret cmFuture name]
  | .step2 =>
      (match c with
       | .isimipWindow true _ _ _ _ _ =>
           [call .step2Impute [(x, obsHist)] [(obsHist, ret)], call .step2Impute [(x, cmHist)] [(cmHist, ret)],
            call .step2Impute [(x, cmFuture)] [(cmFuture, ret)]]
       | _ => [])
  | .step2Impute => [draw .isimipImpute, store x, store x, alias ret x name]         -- `x[mask] = …` on the ARGUMENT, returned as is
  | .step3 =>
      [fresh trendCmFuture zerosLike [cmFuture]] ++
      (match c with
       | .isimipWindow _ true _ _ _ _ =>
           [call .step3Remove [(x, obsHist)] [(obsHist, ret)], call .step3Remove [(x, cmHist)] [(cmHist, ret)],
            call .step3Remove [(x, cmFuture)] [(cmFuture, ret), (trendCmFuture, ret2)]]
       | _ => [])
  | .step3Remove => [fresh trend zerosLike [x], store trend, fresh ret arith [x, trend], alias ret2 trend name]
  | .step4 =>
      (match c with
       | .isimipWindow _ _ lower upper _ _ =>
           onIf lower [call .step4Lower [(vals, obsHist)] [(obsHist, ret)], call .step4Lower [(vals, cmHist)] [(cmHist, ret)],
                       call .step4Lower [(vals, cmFuture)] [(cmFuture, ret)]] ++
           onIf upper [call .step4Upper [(vals, obsHist)] [(obsHist, ret)], call .step4Upper [(vals, cmHist)] [(cmHist, ret)],
                       call .step4Upper [(vals, cmFuture)] [(cmFuture, ret)]]
       | _ => [])
  | .step4Lower => [draw .isimipLower, store vals, alias ret vals name]               -- `vals[mask] = …` on the ARGUMENT
  | .step4Upper => [draw .isimipUpper, store vals, alias ret vals name]
  | .step5 =>
      (match c with
       | .isimipWindow _ _ _ _ true _ =>
           [fresh obsFuture copy [obsHist], fresh t1 boolIndex [obsHist], fresh t2 boolIndex [cmHist], fresh t3 boolIndex [cmFuture],
            call .step5Transfer [(obsHist, t1), (cmHist, t2), (cmFuture, t3)] [(res, ret)],
            store obsFuture, alias ret obsFuture name]
       | _ => [call .step5Transfer [(obsHist, obsHist), (cmHist, cmHist), (cmFuture, cmFuture)] [(ret, ret)]])
  | .step5Transfer =>
      (match c with
       | .isimipWindow _ _ _ _ _ .mixed =>
           [fresh gamma zerosLike [obsHist], store gamma, store gamma, fresh ret arith [gamma, obsHist, cmHist, cmFuture]]
       | .isimipWindow _ _ _ _ _ .bounded =>
           [fresh returnVals emptyLike [], call .markUnassigned [(x, returnVals)] [],
            store returnVals, store returnVals, store returnVals, store returnVals,
            fresh returnVals arith [returnVals], alias ret returnVals name]
       | _ => [fresh ret arith [obsHist, cmHist, cmFuture]])
  | .step6 =>
      [fresh cmFutureSorted fancyIndex [cmFuture], fresh sorted sort [obsHist], fresh sorted sort [obsFuture],
       fresh sorted sort [cmHist], fresh mappedVals copy [cmFutureSorted],
       call .step6MaskLower [] [(mask, ret)], call .step6MaskUpper [] [(mask, ret)],
       call .distCdf [] [(t1, ret)],   -- the parametric branch of `_step6_adjust_values_between_thresholds` (and its KS test)
       store mappedVals, store mappedVals, store mappedVals, fresh ret fancyIndex [mappedVals]]
  | .step6MaskLower => [fresh mask zerosLike [], store mask, alias ret mask name]
  | .step6MaskUpper => [fresh mask zerosLike [], store mask, alias ret mask name]
  | .step7 =>
      (match c with
       | .isimipWindow _ true _ _ _ _ => [fresh ret arith [cmFuture, trendCmFuture]]
       | _ => [alias ret cmFuture name])
  | .step8 =>
      (match c with
       | .isimip _ _ true => [fresh ret arith [cmFuture, debiasedAnnualCycle, timeCmFuture]]
       | _ => [alias ret cmFuture name])

/-- the call a user makes -/
def windowParams : List (V × V) := [(obsHist, obsHist), (cmHist, cmHist), (cmFuture, cmFuture)]

def entryProg (c : Cfg) : List Stmt :=
  match c with
  | .isimipWindow .. => [call .isiAow windowParams [(result, ret)]]
  | _ => match c.entry with
    | .applyLocation _ => [call c.applyLocationFn (dataArgs ++ timeArgs) [(result, ret)]]
    | .apply _ _ => [call c.applyFn (dataArgs ++ timeArgs) [(result, ret)]]

/-! ## abstract interpretation: provenance of every name, refusing stores into caller buffers -/

/-- environments are keyed by the constructor index of the variable (cheap to compare in the kernel) -/
abbrev AEnv := List (Nat × Prov)

def alookN : AEnv → Nat → Option Prov
  | [], _ => none
  | (k, p) :: t, v => cond (Nat.beq k v) (some p) (alookN t v)

def alook (e : AEnv) (v : V) : Option Prov := alookN e v.ctorIdx

/-- parameters bound to the provenance of the caller's variables; an unbound variable (`None`) binds nothing -/
def abindArgs (e : AEnv) : List (V × V) → AEnv
  | [] => []
  | (p, a) :: t => match alook e a with
      | some pr => (p.ctorIdx, pr) :: abindArgs e t
      | none => abindArgs e t

/-- bind the returned names in the caller's environment; a returned name that the callee never bound is an error -/
def abindRets (callee e : AEnv) : List (V × V) → Option AEnv
  | [] => some e
  | (d, r) :: t => match alook callee r with
      | some pr => abindRets callee ((d.ctorIdx, pr) :: e) t
      | none => none

def allBound (e : AEnv) (l : List V) : Bool := l.all (fun v => (alook e v).isSome)

/-- the contract of `Stmt.callWin`: exactly the three data parameters, each bound to a buffer the library owns -/
def contractEnv : AEnv := [(obsHist.ctorIdx, .own), (cmHist.ctorIdx, .own), (cmFuture.ctorIdx, .own)]

/-- `check c fuel prog env`: the environment after the program, or `none` if a name is unbound, the fuel runs out,
    or — the point — a `store` targets a buffer whose provenance is not `own`. -/
def check (c : Cfg) : Nat → List Stmt → AEnv → Option AEnv
  | 0, _, _ => none
  | _ + 1, [], e => some e
  | f + 1, .alias d s _ :: r, e => match alook e s with
      | some p => check c f r ((d.ctorIdx, p) :: e)
      | none => none
  | f + 1, .fresh d _ srcs :: r, e => if allBound e srcs then check c f r ((d.ctorIdx, .own) :: e) else none
  | f + 1, .store t :: r, e => match alook e t with
      | some .own => check c f r e
      | _ => none
  | f + 1, .draw _ :: r, e => check c f r e
  | f + 1, .call fn args rets :: r, e => match check c f (body c fn) (abindArgs e args) with
      | some e' => (match abindRets e' e rets with
          | some e'' => check c f r e''
          | none => none)
      | none => none
  | f + 1, .callWin args d :: r, e =>
      if abindArgs e args = contractEnv then check c f r ((d.ctorIdx, .own) :: e) else none

/-- the caller's six arrays (the time arrays only when given) -/
def initEnvOf (times : Bool) : List (Nat × Nat) :=
  [(obs.ctorIdx, 0), (cmHist.ctorIdx, 1), (cmFuture.ctorIdx, 2)] ++
  (if times then [(timeObs.ctorIdx, 3), (timeCmHist.ctorIdx, 4), (timeCmFuture.ctorIdx, 5)] else [])

/-- the window function is entered with three buffers that are not the caller's (ids 6, 7, 8) -/
def windowEnv : List (Nat × Nat) := [(obsHist.ctorIdx, 6), (cmHist.ctorIdx, 7), (cmFuture.ctorIdx, 8)]

def Cfg.initEnv : Cfg → List (Nat × Nat)
  | .isimipWindow .. => windowEnv
  | c => initEnvOf c.entry.times

def absEnv (env : List (Nat × Nat)) : AEnv := env.map (fun vb => (vb.1, provOf vb.2))

abbrev fuel : Nat := 400

/-- every store of the configuration goes to a buffer the library allocated itself -/
def safe (c : Cfg) : Bool := (check c fuel (entryProg c) (absEnv c.initEnv)).isSome

/-- … and the array handed back to the user is a fresh one as well -/
def resultOwn (c : Cfg) : Bool :=
  match check c fuel (entryProg c) (absEnv c.initEnv) with
  | some e => alook e result == some .own
  | none => false

/-- the guarantee side of the `callWin` contract: from three own buffers the window function stores only into own
    buffers and returns an own buffer -/
def contractOk (ci : Cfg) : Bool :=
  match check ci fuel (body ci .isiAow) contractEnv with
  | some e => alook e ret == some .own
  | none => false

/-! ### the provenance table (what tier B compares with `np.shares_memory` at the entry of each function) -/

structure TraceItem where
  fn : Fn
  param : V
  prov : Prov
  deriving DecidableEq, Repr

def traceArgs (fn : Fn) (e : AEnv) : List (V × V) → List TraceItem
  | [] => []
  | (p, a) :: t => match alook e a with
      | some pr => ⟨fn, p, pr⟩ :: traceArgs fn e t
      | none => traceArgs fn e t

/-- same walk as `check`, collecting (function, parameter, provenance) at every call -/
def trace (c : Cfg) : Nat → List Stmt → AEnv → Option (AEnv × List TraceItem)
  | 0, _, _ => none
  | _ + 1, [], e => some (e, [])
  | f + 1, .alias d s _ :: r, e => match alook e s with
      | some p => trace c f r ((d.ctorIdx, p) :: e)
      | none => none
  | f + 1, .fresh d _ _ :: r, e => trace c f r ((d.ctorIdx, .own) :: e)
  | f + 1, .store _ :: r, e => trace c f r e
  | f + 1, .draw _ :: r, e => trace c f r e
  | f + 1, .call fn args rets :: r, e => match trace c f (body c fn) (abindArgs e args) with
      | some (e', tr1) => (match abindRets e' e rets with
          | some e'' => (match trace c f r e'' with
              | some (e3, tr2) => some (e3, traceArgs fn e args ++ tr1 ++ tr2)
              | none => none)
          | none => none)
      | none => none
  | f + 1, .callWin args d :: r, e => match trace c f r ((d.ctorIdx, .own) :: e) with
      | some (e3, tr2) => some (e3, traceArgs .isiAow e args ++ tr2)
      | none => none

/-! ## concrete semantics: a heap of buffers, names bound to buffer ids -/

abbrev CEnv := List (Nat × Nat)

structure St (α : Type) where
  env : CEnv
  heap : List (List α)
  rng : Nat := 0          -- how many values have been drawn from numpy's global generator so far

def clookN : CEnv → Nat → Option Nat
  | [], _ => none
  | (k, b) :: t, v => cond (Nat.beq k v) (some b) (clookN t v)

def clook (e : CEnv) (v : V) : Option Nat := clookN e v.ctorIdx

def cbindArgs (e : CEnv) : List (V × V) → CEnv
  | [] => []
  | (p, a) :: t => match clook e a with
      | some b => (p.ctorIdx, b) :: cbindArgs e t
      | none => cbindArgs e t

def cbindRets (callee e : CEnv) : List (V × V) → Option CEnv
  | [] => some e
  | (d, r) :: t => match clook callee r with
      | some b => cbindRets callee ((d.ctorIdx, b) :: e) t
      | none => none

/-- big-step execution.  What is written (`v`) and how many values a draw consumes (`n`) are arbitrary: the theorems
    hold for every content.  `G` is the guard valuation of the instance (which random steps its settings switch on):
    a draw whose guard is off consumes nothing. -/
inductive Exec {α : Type} (G : RngGuard → Bool) : Cfg → List Stmt → St α → St α → Prop
  | nil (c : Cfg) (s : St α) : Exec G c [] s s
  | alias {c d src op r s t b} : clook s.env src = some b → Exec G c r ⟨(d.ctorIdx, b) :: s.env, s.heap, s.rng⟩ t →
      Exec G c (.alias d src op :: r) s t
  | fresh {c d op srcs r s t} (v : List α) : Exec G c r ⟨(d.ctorIdx, s.heap.length) :: s.env, s.heap ++ [v], s.rng⟩ t →
      Exec G c (.fresh d op srcs :: r) s t
  | store {c tgt r s t b} (v : List α) : clook s.env tgt = some b → Exec G c r ⟨s.env, s.heap.set b v, s.rng⟩ t →
      Exec G c (.store tgt :: r) s t
  | draw {c g r s t} (n : Nat) : (G g = false → n = 0) → Exec G c r ⟨s.env, s.heap, s.rng + n⟩ t →
      Exec G c (.draw g :: r) s t
  | call {c fn args rets r s t0 env1 t} : Exec G c (body c fn) ⟨cbindArgs s.env args, s.heap, s.rng⟩ t0 →
      cbindRets t0.env s.env rets = some env1 → Exec G c r ⟨env1, t0.heap, t0.rng⟩ t →
      Exec G c (.call fn args rets :: r) s t
  | callWin {c ci args d r s t0 b t} : ci.isInner = true →
      Exec G ci (body ci .isiAow) ⟨cbindArgs s.env args, s.heap, s.rng⟩ t0 → clook t0.env ret = some b →
      Exec G c r ⟨(d.ctorIdx, b) :: s.env, t0.heap, t0.rng⟩ t →
      Exec G c (.callWin args d :: r) s t

/-! ## the hand-written write-site table: why each target is not one of the caller's buffers -/

inductive Just
  | modelled (fn : Fn) (v : V)     -- a `store v` in `body c fn`; every configuration that reaches it is checked (`safe`)
  | hook                           -- `_verif_mark_unassigned` (verification hook, IBICUS_VERIF=1 only); also modelled: `store x` on fresh buffers
  | notReached (why : String)      -- not on a path from `apply(parallel=False)` / `apply_location`
  deriving DecidableEq, Repr

private def fDeb := "ibicus/debias/_debiaser.py"
private def fIsi := "ibicus/debias/_isimip.py"
private def fSdm := "ibicus/debias/_scaled_distribution_mapping.py"
private def fMath := "ibicus/utils/_math_utils.py"
private def fUtils := "ibicus/utils/_utils.py"
private def sdmRelName := "ScaledDistributionMapping._apply_on_window_relative_sdm"
private def qmce := "quantile_map_non_parametically_with_constant_extrapolation"
private def s5t := "ISIMIP._step5_transfer_trend"

/-- a site justified by a modelled store: function and variable names are the model's own (`Fn.py`, `V.py`), so
    the tie `Gen.WriteSites.sites = sites` checks them against the source -/
private def m (file : String) (fn : Fn) (v : V) (kind : WriteKind) (key : String) (occ : Nat) : WriteSite × Just :=
  (⟨file, fn.py, v.py, kind, key, occ⟩, .modelled fn v)

def sitesJ : List (WriteSite × Just) := [
  -- result buffer of the year loop: np.empty_like(cm_future)
  m "ibicus/debias/_cdft.py" .aowCDFt .debiasedCmFuture .subscriptAssign "debiased_cm_future[mask_years_to_debias]" 1,
  -- np.empty(output_size)
  m fDeb .mapOverLocations .output .subscriptAssign "output[:, i, j]" 1,
  (⟨fDeb, "Debiaser.parallel_map_over_locations", "output", .subscriptAssign, "output[:, index[0], index[1]]", 1⟩,
    .notReached "parallel=True is C05's subject; output = np.empty(output_size) is allocated after the pool has returned"),
  -- np.empty_like(obs)
  m "ibicus/debias/_delta_change.py" .applyLocationDC .debiasedCmFuture .subscriptAssign "debiased_cm_future[indices_bias_corrected_values]" 1,
  -- annual_cycle_cm_future.copy()
  m fIsi .step1Debiased .debiasedAnnualCycle .subscriptAssign "debiased_annual_cycle[index]" 1,
  -- writes into its ARGUMENT; at the only call sites (`step2` from `_apply_on_window`) that is obs[idx] / obs[mask]: a copy
  m fIsi .step2Impute .x .subscriptAssign "x[mask_values_to_impute]" 1,
  m fIsi .step2Impute .x .subscriptAssign "x[mask_values_to_impute]" 2,
  -- np.zeros_like(x)
  m fIsi .step3Remove .trend .subscriptAssign "trend[years == unique_year]" 1,
  -- write into their ARGUMENT: the window copy, possibly already replaced by step 3's `x - trend`
  m fIsi .step4Lower .vals .subscriptAssign "vals[mask_vals_beyond_lower_threshold]" 1,
  m fIsi .step4Upper .vals .subscriptAssign "vals[mask_vals_beyond_upper_threshold]" 1,
  -- np.zeros_like(obs_hist)
  m fIsi .step5Transfer .gamma .subscriptAssign "gamma[condition1]" 1,
  m fIsi .step5Transfer .gamma .subscriptAssign "gamma[condition2]" 1,
  -- np.empty_like(q_cm_future)
  m fIsi .step5Transfer .returnVals .subscriptAssign "return_vals[mask_negative_bias]" 1,
  m fIsi .step5Transfer .returnVals .subscriptAssign "return_vals[mask_zero_bias]" 1,
  m fIsi .step5Transfer .returnVals .subscriptAssign "return_vals[mask_positive_bias]" 1,
  m fIsi .step5Transfer .returnVals .subscriptAssign "return_vals[mask_additive_correction]" 1,
  -- np.zeros_like(cm_future_sorted, dtype=bool)
  m fIsi .step6MaskLower .mask .subscriptAssign "mask[0:nr]" 1,
  m fIsi .step6MaskUpper .mask .subscriptAssign "mask[cm_future_sorted.size - nr:]" 1,
  -- obs_hist.copy()
  m fIsi .step5 .obsFuture .subscriptAssign "obs_future[mask_for_values_between_thresholds_obs_hist]" 1,
  -- cm_future_sorted.copy()
  m fIsi .step6 .mappedVals .subscriptAssign "mapped_vals[mask_for_entries_to_set_to_lower_bound]" 1,
  m fIsi .step6 .mappedVals .subscriptAssign "mapped_vals[mask_for_entries_to_set_to_upper_bound]" 1,
  m fIsi .step6 .mappedVals .subscriptAssign "mapped_vals[mask_for_entries_not_set_to_either_bound]" 1,
  -- np.zeros_like(cm_future) (running-window mode and month mode)
  m fIsi .applyLocationISIMIP .debiasedCmFuture .subscriptAssign "debiased_cm_future[indices_bias_corrected_values]" 1,
  m fIsi .applyLocationISIMIP .debiasedCmFuture .subscriptAssign "debiased_cm_future[mask_i_month_in_cm_future]" 1,
  -- cm_future ± ppf(…) (arithmetic result)
  m "ibicus/debias/_quantile_delta_mapping.py" .qdmSteps .biasCorrectedVals .subscriptAssign "bias_corrected_vals[bias_corrected_vals < self.censoring_threshold]" 1,
  -- np.empty_like(cm_future)
  m "ibicus/debias/_quantile_delta_mapping.py" .aowQDM .debiasedCmFuture .subscriptAssign "debiased_cm_future[mask_years_to_debias]" 1,
  m "ibicus/debias/_running_window_debiaser.py" .applyLocationRW .debiasedCmFuture .subscriptAssign "debiased_cm_future[indices_bias_corrected_values]" 1,
  -- the names obs / cm_hist / cm_future were rebound to np.sort(obs) / np.sort(cm_hist) / cm_future[argsort] first
  m fSdm .sdmRel .obs .subscriptAssign "obs[np.logical_not(mask_rainy_days_obs)]" 1,
  m fSdm .sdmRel .cmHist .subscriptAssign "cm_hist[np.logical_not(mask_rainy_days_cm_hist)]" 1,
  m fSdm .sdmRel .cmFuture .subscriptAssign "cm_future[:cm_future.size - expected_nr_rainy_days_cm_future]" 1,
  m fSdm .sdmRel .cmFuture .subscriptAssign "cm_future[cm_future.size - expected_nr_rainy_days_cm_future:]" 1,
  -- pandas helper of the evaluate module (a dict and a DataFrame column)
  (⟨fUtils, "_unpack_df_of_numpy_arrays", "expanded_row", .subscriptAssign, "expanded_row[index]", 1⟩, .notReached "helper of ibicus.evaluate (metrics are not in scope); writes a local dict"),
  (⟨fUtils, "_unpack_df_of_numpy_arrays", "expanded_row", .subscriptAssign, "expanded_row[index]", 2⟩, .notReached "helper of ibicus.evaluate (metrics are not in scope); writes a local dict"),
  (⟨fUtils, "_unpack_df_of_numpy_arrays", "expanded_df", .subscriptAssign, "expanded_df[numpy_column_name]", 1⟩, .notReached "helper of ibicus.evaluate (metrics are not in scope); writes a DataFrame built by pd.concat"),
  -- np.zeros_like(x).astype(bool)
  m fUtils .uniqueMask .mask .subscriptAssign "mask[indices]" 1,
  (⟨fUtils, "_verif_mark_unassigned", "x", .methodInPlace, "x.fill()", 1⟩, .hook),
  -- iecdf(…) result (np.quantile / fancy-indexed sorted sample)
  m fMath .qmConstExtrap .mappedVals .subscriptAssign "mapped_vals[vals_under]" 1,
  m fMath .qmConstExtrap .mappedVals .subscriptAssign "mapped_vals[vals_above]" 1,
  -- np.mod(np.arange(…), 366)
  m "ibicus/utils/_running_window_mode.py" .idxWindow .windowRange .subscriptAssign "window_range[window_range == 0]" 1]

def sites : List WriteSite := sitesJ.map (·.1)

/-- stores of a program, as (function, variable) -/
def storesOf (fn : Fn) : List Stmt → List (Fn × V)
  | [] => []
  | .store v :: r => (fn, v) :: storesOf fn r
  | _ :: r => storesOf fn r

/-- a `modelled fn v` justification is backed by the program text: the store exists in some branch -/
def justBacked (witness : List Cfg) : WriteSite × Just → Bool
  | (_, .modelled fn v) => witness.any (fun c => (storesOf fn (body c fn)).contains (fn, v))
  | (s, .hook) => s.fn.toList == Fn.markUnassigned.py.toList
  | (_, .notReached _) => true

/-- the (function, variable) pairs the table declares as modelled stores (the hook's `x` included) -/
def modelledPairs : List (Fn × V) :=
  sitesJ.filterMap (fun sj => match sj.2 with
    | .modelled fn v => some (fn, v)
    | .hook => some (.markUnassigned, .x)
    | .notReached _ => none)

/-- every store of every body corresponds to a listed write site -/
def storesListed (c : Cfg) : Bool :=
  allFns.all (fun fn => (storesOf fn (body c fn)).all (fun p => modelledPairs.contains p))

/-! ## what the per-window functions are handed -/

/-- every argument at the call sites of `apply_on_window` / `_apply_on_within_year_window` / `_apply_on_window` /
    `_apply_debiasing_steps`, with the numpy operation it is (read off the source: `indices_*` come from
    `np.where(...)[0]` — integer arrays, fancy indexing; `mask_*` are comparisons / `np.isin` — boolean indexing) -/
def callArgsJ : List (CallArg × NpOp) := [
  (⟨"ibicus/debias/_cdft.py", "CDFt.apply_on_window", "_apply_debiasing_steps", "obs", "obs", .name⟩, .name),
  (⟨"ibicus/debias/_cdft.py", "CDFt.apply_on_window", "_apply_debiasing_steps", "cm_hist", "cm_hist", .name⟩, .name),
  (⟨"ibicus/debias/_cdft.py", "CDFt.apply_on_window", "_apply_debiasing_steps", "cm_future", "cm_future[mask_years_in_window]", .indexByName⟩, .boolIndex),
  (⟨"ibicus/debias/_cdft.py", "CDFt.apply_on_window", "_apply_debiasing_steps", "arg0", "obs", .name⟩, .name),
  (⟨"ibicus/debias/_cdft.py", "CDFt.apply_on_window", "_apply_debiasing_steps", "arg1", "cm_hist", .name⟩, .name),
  (⟨"ibicus/debias/_cdft.py", "CDFt.apply_on_window", "_apply_debiasing_steps", "arg2", "cm_future", .name⟩, .name),
  (⟨"ibicus/debias/_delta_change.py", "DeltaChange.apply_location", "_apply_on_within_year_window", "obs", "obs[indices_window_obs]", .indexByName⟩, .fancyIndex),
  (⟨"ibicus/debias/_delta_change.py", "DeltaChange.apply_location", "_apply_on_within_year_window", "cm_hist", "cm_hist[indices_window_cm_hist]", .indexByName⟩, .fancyIndex),
  (⟨"ibicus/debias/_delta_change.py", "DeltaChange.apply_location", "_apply_on_within_year_window", "cm_future", "cm_future[indices_window_cm_future]", .indexByName⟩, .fancyIndex),
  (⟨"ibicus/debias/_delta_change.py", "DeltaChange.apply_location", "_apply_on_within_year_window", "arg0", "obs", .name⟩, .name),
  (⟨"ibicus/debias/_delta_change.py", "DeltaChange.apply_location", "_apply_on_within_year_window", "arg1", "cm_hist", .name⟩, .name),
  (⟨"ibicus/debias/_delta_change.py", "DeltaChange.apply_location", "_apply_on_within_year_window", "arg2", "cm_future", .name⟩, .name),
  (⟨"ibicus/debias/_isimip.py", "ISIMIP.apply_location", "_apply_on_window", "obs_hist", "obs[indices_window_obs]", .indexByName⟩, .fancyIndex),
  (⟨"ibicus/debias/_isimip.py", "ISIMIP.apply_location", "_apply_on_window", "cm_hist", "cm_hist[indices_window_cm_hist]", .indexByName⟩, .fancyIndex),
  (⟨"ibicus/debias/_isimip.py", "ISIMIP.apply_location", "_apply_on_window", "cm_future", "cm_future[indices_window_cm_future]", .indexByName⟩, .fancyIndex),
  (⟨"ibicus/debias/_isimip.py", "ISIMIP.apply_location", "_apply_on_window", "years_obs_hist", "years_obs[indices_window_obs]", .indexByName⟩, .fancyIndex),
  (⟨"ibicus/debias/_isimip.py", "ISIMIP.apply_location", "_apply_on_window", "years_cm_hist", "years_cm_hist[indices_window_cm_hist]", .indexByName⟩, .fancyIndex),
  (⟨"ibicus/debias/_isimip.py", "ISIMIP.apply_location", "_apply_on_window", "years_cm_future", "years_cm_future[indices_window_cm_future]", .indexByName⟩, .fancyIndex),
  (⟨"ibicus/debias/_isimip.py", "ISIMIP.apply_location", "_apply_on_window", "obs_hist", "obs[mask_i_month_in_obs]", .indexByName⟩, .boolIndex),
  (⟨"ibicus/debias/_isimip.py", "ISIMIP.apply_location", "_apply_on_window", "cm_hist", "cm_hist[mask_i_month_in_cm_hist]", .indexByName⟩, .boolIndex),
  (⟨"ibicus/debias/_isimip.py", "ISIMIP.apply_location", "_apply_on_window", "cm_future", "cm_future[mask_i_month_in_cm_future]", .indexByName⟩, .boolIndex),
  (⟨"ibicus/debias/_isimip.py", "ISIMIP.apply_location", "_apply_on_window", "years_obs_hist", "years_obs[mask_i_month_in_obs]", .indexByName⟩, .boolIndex),
  (⟨"ibicus/debias/_isimip.py", "ISIMIP.apply_location", "_apply_on_window", "years_cm_hist", "years_cm_hist[mask_i_month_in_cm_hist]", .indexByName⟩, .boolIndex),
  (⟨"ibicus/debias/_isimip.py", "ISIMIP.apply_location", "_apply_on_window", "years_cm_future", "years_cm_future[mask_i_month_in_cm_future]", .indexByName⟩, .boolIndex),
  (⟨"ibicus/debias/_quantile_delta_mapping.py", "QuantileDeltaMapping.apply_on_window", "_apply_debiasing_steps", "cm_future", "cm_future[mask_years_in_window]", .indexByName⟩, .boolIndex),
  (⟨"ibicus/debias/_quantile_delta_mapping.py", "QuantileDeltaMapping.apply_on_window", "_apply_debiasing_steps", "fit_obs", "fit_obs", .name⟩, .name),
  (⟨"ibicus/debias/_quantile_delta_mapping.py", "QuantileDeltaMapping.apply_on_window", "_apply_debiasing_steps", "fit_cm_hist", "fit_cm_hist", .name⟩, .name),
  (⟨"ibicus/debias/_quantile_delta_mapping.py", "QuantileDeltaMapping.apply_on_window", "_apply_debiasing_steps", "cm_future", "cm_future", .name⟩, .name),
  (⟨"ibicus/debias/_quantile_delta_mapping.py", "QuantileDeltaMapping.apply_on_window", "_apply_debiasing_steps", "fit_obs", "fit_obs", .name⟩, .name),
  (⟨"ibicus/debias/_quantile_delta_mapping.py", "QuantileDeltaMapping.apply_on_window", "_apply_debiasing_steps", "fit_cm_hist", "fit_cm_hist", .name⟩, .name),
  (⟨"ibicus/debias/_running_window_debiaser.py", "RunningWindowDebiaser.apply_location", "apply_on_window", "obs", "obs[indices_window_obs]", .indexByName⟩, .fancyIndex),
  (⟨"ibicus/debias/_running_window_debiaser.py", "RunningWindowDebiaser.apply_location", "apply_on_window", "cm_hist", "cm_hist[indices_window_cm_hist]", .indexByName⟩, .fancyIndex),
  (⟨"ibicus/debias/_running_window_debiaser.py", "RunningWindowDebiaser.apply_location", "apply_on_window", "cm_future", "cm_future[indices_window_cm_future]", .indexByName⟩, .fancyIndex),
  (⟨"ibicus/debias/_running_window_debiaser.py", "RunningWindowDebiaser.apply_location", "apply_on_window", "time_obs", "time_obs[indices_window_obs]", .indexByName⟩, .fancyIndex),
  (⟨"ibicus/debias/_running_window_debiaser.py", "RunningWindowDebiaser.apply_location", "apply_on_window", "time_cm_hist", "time_cm_hist[indices_window_cm_hist]", .indexByName⟩, .fancyIndex),
  (⟨"ibicus/debias/_running_window_debiaser.py", "RunningWindowDebiaser.apply_location", "apply_on_window", "time_cm_future", "time_cm_future[indices_window_cm_future]", .indexByName⟩, .fancyIndex),
  (⟨"ibicus/debias/_running_window_debiaser.py", "RunningWindowDebiaser.apply_location", "apply_on_window", "arg0", "obs", .name⟩, .name),
  (⟨"ibicus/debias/_running_window_debiaser.py", "RunningWindowDebiaser.apply_location", "apply_on_window", "arg1", "cm_hist", .name⟩, .name),
  (⟨"ibicus/debias/_running_window_debiaser.py", "RunningWindowDebiaser.apply_location", "apply_on_window", "arg2", "cm_future", .name⟩, .name),
  (⟨"ibicus/debias/_running_window_debiaser.py", "RunningWindowDebiaser.apply_location", "apply_on_window", "time_obs", "time_obs", .name⟩, .name),
  (⟨"ibicus/debias/_running_window_debiaser.py", "RunningWindowDebiaser.apply_location", "apply_on_window", "time_cm_hist", "time_cm_hist", .name⟩, .name),
  (⟨"ibicus/debias/_running_window_debiaser.py", "RunningWindowDebiaser.apply_location", "apply_on_window", "time_cm_future", "time_cm_future", .name⟩, .name)]

def callArgs : List CallArg := callArgsJ.map (·.1)

/-- the classification is consistent with the syntactic shape: a bare name is name passing, `x[name]` is fancy or
    boolean indexing; no basic slice and nothing unrecognised is handed to a window function -/
def callArgOk : CallArg × NpOp → Bool
  | (a, op) => match a.shape with
      | .name => op == .name
      | .indexByName => op == .fancyIndex || op == .boolIndex
      | .basicSlice | .other => false

/-- ISIMIP's window function — which writes into its arguments (steps 2 and 4) — is never handed an alias -/
def isimipWindowArgsFresh : Bool :=
  callArgsJ.all (fun ao => !(ao.1.callee.toList == "_apply_on_window".toList) || !ao.2.aliases)

/-! ## where random numbers are drawn -/

/-- every call of `np.random.*` in the anchored files (all draw from numpy's GLOBAL generator), with its guard and the
    modelled function whose body carries the corresponding `draw`.  A configuration none of whose guards is on is
    DETERMINISTIC: its output may not depend on the generator's state and a call may not advance it. -/
def rngSitesJ : List (RngSite × RngGuard × Fn) := [
  (⟨"ibicus/debias/_cdft.py", Fn.cdftRandomize.py, "np.random.uniform", 1⟩, .cdftSSR, .cdftRandomize),
  (⟨"ibicus/debias/_isimip.py", Fn.step2Impute.py, "np.random.random", 1⟩, .isimipImpute, .step2Impute),
  (⟨"ibicus/debias/_isimip.py", Fn.step4Lower.py, "np.random.uniform", 1⟩, .isimipLower, .step4Lower),
  (⟨"ibicus/debias/_isimip.py", Fn.step4Upper.py, "np.random.uniform", 1⟩, .isimipUpper, .step4Upper),
  (⟨"ibicus/utils/_math_utils.py", "gen_PrecipitationHurdleModel.cdf", "np.random.uniform", 1⟩, .hurdleRandomization, .distCdf),
  (⟨"ibicus/utils/_math_utils.py", "gen_PrecipitationGammaLeftCensoredModel.cdf", "np.random.uniform", 1⟩, .censoredModel, .distCdf)]

def rngSites : List RngSite := rngSitesJ.map (·.1)

/-- the guards a configuration of the alias model switches on (the two distribution-level guards are settings of the
    `distribution` object, outside `Cfg`: the harness reads them off the instance) -/
def Cfg.rngGuards : Cfg → List RngGuard
  | .cdft _ _ _ true _ => [.cdftSSR]
  | .isimipWindow impute _ lower upper _ _ =>
      (if impute then [.isimipImpute] else []) ++ (if lower then [.isimipLower] else []) ++ (if upper then [.isimipUpper] else [])
  | _ => []

/-- draws of a program, as (function, guard) -/
def drawsOf (fn : Fn) : List Stmt → List (Fn × RngGuard)
  | [] => []
  | .draw g :: r => (fn, g) :: drawsOf fn r
  | _ :: r => drawsOf fn r

def drawPairs : List (Fn × RngGuard) := rngSitesJ.map (fun x => (x.2.2, x.2.1))

/-- every listed draw site is a `draw` of the body of its function (in some branch) -/
def drawsBacked (witness : List Cfg) : Bool :=
  drawPairs.all (fun p => witness.any (fun c => (drawsOf p.1 (body c p.1)).contains p))

/-- every `draw` of every body is a listed site; a draw that a settings flag of the configuration switches on (the
    CDFt and ISIMIP ones) occurs only in a configuration that declares the guard -/
def drawsListed (c : Cfg) : Bool :=
  allFns.all (fun fn => (drawsOf fn (body c fn)).all (fun p =>
    drawPairs.contains p &&
    (p.2 == .hurdleRandomization || p.2 == .censoredModel || c.rngGuards.contains p.2 ||
     -- the ISIMIP window helpers are only ever called under their flag (`step2` / `step4` branch on it)
     (fn == .step2Impute || fn == .step4Lower || fn == .step4Upper || fn == .cdftRandomize))))

/-- which functions call the flag-guarded helpers: only under the flag -/
def helperCallsGuarded (c : Cfg) : Bool :=
  let calls (fn : Fn) (callee : Fn) : Bool := (body c fn).any (fun st => match st with | .call f _ _ => f == callee | _ => false)
  allFns.all (fun fn =>
    (!calls fn .step2Impute || c.rngGuards.contains .isimipImpute) &&
    (!calls fn .step4Lower || c.rngGuards.contains .isimipLower) &&
    (!calls fn .step4Upper || c.rngGuards.contains .isimipUpper) &&
    (!calls fn .cdftRandomize || c.rngGuards.contains .cdftSSR))

/-! ## the `self.<attr> = …` table -/

def selfAssigns : List SelfAssign := [
  ⟨"ibicus/debias/_cdft.py", "CDFt", "__attrs_post_init__", "running_window_over_years_of_cm_future", .assign⟩,
  ⟨"ibicus/debias/_delta_change.py", "DeltaChange", "__attrs_post_init__", "running_window", .assign⟩,
  ⟨"ibicus/debias/_isimip.py", "ISIMIP", "__attrs_post_init__", "running_window", .assign⟩,
  ⟨"ibicus/debias/_quantile_delta_mapping.py", "QuantileDeltaMapping", "__attrs_post_init__", "running_window_over_years_of_cm_future", .assign⟩,
  ⟨"ibicus/debias/_quantile_delta_mapping.py", "QuantileDeltaMapping", "__attrs_post_init__", "cdf_threshold", .assign⟩,
  ⟨"ibicus/debias/_running_window_debiaser.py", "RunningWindowDebiaser", "__attrs_post_init__", "running_window", .assign⟩,
  ⟨"ibicus/utils/_running_window_mode.py", "RunningWindowOverYears", "__attrs_post_init__", "window_length_in_years", .assign⟩,
  ⟨"ibicus/utils/_running_window_mode.py", "RunningWindowOverYears", "__attrs_post_init__", "window_step_length_in_years", .assign⟩,
  ⟨"ibicus/utils/_running_window_mode.py", "RunningWindowOverDaysOfYear", "__attrs_post_init__", "window_length_in_days", .assign⟩,
  ⟨"ibicus/utils/_running_window_mode.py", "RunningWindowOverDaysOfYear", "__attrs_post_init__", "window_step_length_in_days", .assign⟩]

def globalState : List GlobalState := []

/-- (class, attribute) pairs that `__attrs_post_init__` may write: the derived attributes of the debiasers (the
    QuantileDeltaMapping `cdf_threshold` is a SETTING that is filled in when it is `None`), and the "make it odd"
    normalisation of the two window classes (done once, at construction of the window object) -/
def derivedAttrs : List (String × String) := [
  ("RunningWindowDebiaser", "running_window"), ("DeltaChange", "running_window"), ("ISIMIP", "running_window"),
  ("CDFt", "running_window_over_years_of_cm_future"), ("QuantileDeltaMapping", "running_window_over_years_of_cm_future"),
  ("QuantileDeltaMapping", "cdf_threshold"),
  ("RunningWindowOverYears", "window_length_in_years"), ("RunningWindowOverYears", "window_step_length_in_years"),
  ("RunningWindowOverDaysOfYear", "window_length_in_days"), ("RunningWindowOverDaysOfYear", "window_step_length_in_days")]

def selfAssignOk (s : SelfAssign) : Bool :=
  s.method.toList == "__attrs_post_init__".toList && s.kind == .assign &&
  derivedAttrs.any (fun ca => ca.1.toList == s.cls.toList && ca.2.toList == s.attr.toList)

end Model.Purity
