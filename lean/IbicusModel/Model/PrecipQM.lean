/-
  Layer N: the three precipitation models of `Model/Precip.lean` used as the `distribution` of parametric
  `QuantileMapping` (`ibicus/debias/_quantile_mapping.py`, `_standard_qm` and `apply_on_window`):

      ppf_obs( threshold_cdf_vals( cdf_cm_hist(x) ) )        (value by value; one random draw per value)

  The fitted amounts distributions of `cm_hist` and `obs` are two `Precip.Amounts` (parameters: scipy's fits are
  outside the model), the draws of `np.random.uniform` are an explicit list.  Definitions only; imports other
  `Model/` files only; executable.  Driver: `lean/drivers/DrvPrecipQM.lean` (tier B in `harness/c09.py`).
-/
import IbicusModel.Model.Stats
import IbicusModel.Model.Precip
import IbicusModel.Model.Debiasers

namespace Model.PrecipQM
open Model.Stats Model.Precip Model.Debiasers

/-- `_standard_qm` with the hurdle model: `(p0h, Ah)` = `distribution.fit(cm_hist)`, `(p0o, Ao)` = `distribution.fit(obs)` -/
def qmHurdle1 (Ah Ao : Amounts) (p0h p0o : Rat) (rand : Bool) (t u x : Rat) : Rat :=
  hurdlePpf Ao p0o (thresholdCdf t (hurdleCdf Ah p0h rand u x))

/-- `threshold_cdf_vals` on `ℚ ∪ {−∞}`: `np.maximum(np.minimum(-inf, 1 - t), t) = t` -/
def thresholdE (t : Rat) : ERat → ERat
  | .negInf => .fin t
  | .fin q => .fin (thresholdCdf t q)

/-- `_standard_qm` with the ignore-zeros model -/
def qmIz1 (Ah Ao : Amounts) (t x : Rat) : Rat := izPpf Ao (thresholdE t (izCdf Ah x))

/-- `_standard_qm` with the left-censored gamma model (`Ah`, `Ao` = gamma with the fit of `cm_hist` / `obs`) -/
def qmCens1 (Ah Ao : Amounts) (thr : Rat) (censor : Bool) (t u x : Rat) : Rat :=
  censPpf Ao thr censor (thresholdCdf t (censCdf Ah thr u x))

/-- `QuantileMapping.apply_on_window` around a value-wise randomised inner mapping `g draw value`
    (one draw per value, in the order of the values) -/
def window (d : Detrending) (H F : List Rat) (g : Rat → Rat → Rat) (us : List Rat) : List Rat :=
  match d with
  | .additive =>
    let delta := mean F - mean H
    List.zipWith (fun x u => g u (x - delta) + delta) F us
  | .multiplicative =>
    let delta := mean F / mean H
    List.zipWith (fun x u => g u (x / delta) * delta) F us
  | .no_detrending => List.zipWith (fun x u => g u x) F us

/-! ### executable instances for the driver -/

/-- the rational test double's `fit`: location 0, scale = mean of the wet values (harness: `MeanDouble`) -/
def meanFit (data : List Rat) : Amounts := ratFam 0 (mean (rainyDays data))

def hurdleWindow (d : Detrending) (rand : Bool) (t : Rat) (obs H F us : List Rat) : List Rat :=
  window d H F (fun u x => qmHurdle1 (meanFit H) (meanFit obs) (hurdleP0 H) (hurdleP0 obs) rand t u x) us

def izWindow (d : Detrending) (t : Rat) (obs H F : List Rat) : List Rat :=
  window d H F (fun _ x => qmIz1 (meanFit H) (meanFit obs) t x) (F.map (fun _ => 0))

/-- a function given by a table of (argument, value) pairs, evaluated at the nearest recorded argument
    (the recorded calls of `scipy.stats.gamma.cdf / ppf`) -/
def tableFn (tab : List (Rat × Rat)) (x : Rat) : Rat :=
  match tab with
  | [] => 0
  | p :: rest => (rest.foldl (fun best q => if Py.absQ (q.1 - x) < Py.absQ (best.1 - x) then q else best) p).2

def censWindow (d : Detrending) (thr : Rat) (censor : Bool) (t : Rat) (cdfTab ppfTab : List (Rat × Rat))
    (H F us : List Rat) : List Rat :=
  window d H F (fun u x => qmCens1 ⟨tableFn cdfTab, fun _ => 0⟩ ⟨fun _ => 0, tableFn ppfTab⟩ thr censor t u x) us

end Model.PrecipQM
