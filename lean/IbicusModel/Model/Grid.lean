/-
  Layer S, grid part: `Debiaser.apply` / `DeltaChange.apply`, `map_over_locations`,
  `parallel_map_over_locations`, `_run_func_on_location_and_catch_error` (C05, C13).

  Data-oblivious: polymorphic in the element type `α`, in the exception type `ε` and in the per-location
  function.  What is modelled, as the code has it:

  * arrays are `[t][i][j]`-nested lists (`Arr3`); `obs[:, i, j]` is `slice`;
  * an element of the floating output is `Val α` = a value the debiaser produced or the scalar `nan`
    that failsafe mode returns; the output buffer is `np.empty(output_size)`: every element starts as
    `none` ("never written", what the hook `IBICUS_VERIF=1` makes observable as NaN) and
    `output[:, i, j] = result` overwrites one column (`setColumn`: numpy broadcasting — a series of the
    buffer's time length, a length-1 series or a scalar; any other length is numpy's `ValueError`);
  * serial: a left fold over `np.ndindex(obs.shape[1:])` (C-order unravelling of `0 .. nx*ny-1`), the
    cell is computed and written before the next one is looked at, the first exception ends the loop;
  * parallel: `Pool.starmap` over the argument list built from
    `[(i, j) for i in range(nx) for j in range(ny)]`.  The pool is modelled with an explicit completion
    schedule `sched` (the order in which tasks *complete*, positions into the argument list): each
    completed task stores its result in the slot of its *argument index*; the first completed task that
    raised ends the map with its exception (`multiprocessing.pool.MapResult` keeps the first exception
    it is handed).  Write-back afterwards walks `enumerate(indices)`.
  Process start, pickling and per-worker RNG state are not modelled.
-/

namespace Model.Grid

/-- a grid cell `(i, j)` -/
abbrev Cell := Nat × Nat

/-- element of the floating output: a value computed by the debiaser, or the NaN of failsafe mode -/
inductive Val (α : Type) where
  | nan : Val α
  | val : α → Val α
deriving Repr, DecidableEq

/-- element of the output *buffer*: `none` = not written since `np.empty` -/
abbrev Elem (α : Type) := Option (Val α)

/-- `[t][i][j]` -/
abbrev Arr3 (β : Type) := List (List (List β))

/-- why `apply` did not return an array -/
inductive Err (ε : Type) where
  /-- the exception raised by `apply_location` at some cell, re-raised unchanged -/
  | cell : ε → Err ε
  /-- numpy `ValueError: could not broadcast input array` at `output[:, i, j] = result` -/
  | broadcast : Err ε
  /-- `IndexError` (indices are generated from the shape: unreachable, kept so that nothing is totalised away) -/
  | index : Err ε
  /-- a result slot of the pool was never filled (unreachable for schedules that complete every task) -/
  | incomplete : Err ε
deriving Repr, DecidableEq

/-- what `_run_func_on_location_and_catch_error` returns: the location's series, or the scalar `np.nan` -/
inductive CellResult (α : Type) where
  | series : List α → CellResult α
  | nan : CellResult α
deriving Repr, DecidableEq

/-- `_run_func_on_location_and_catch_error`: `try: return func(…) except Exception: if failsafe: return np.nan else: raise` -/
def runCatch {α ε} (failsafe : Bool) (r : Except ε (List α)) : Except (Err ε) (CellResult α) :=
  match r with
  | .ok v => .ok (.series v)
  | .error e => if failsafe then .ok .nan else .error (.cell e)

/-! ### arrays -/

/-- `a[t, i, j]` -/
def get3 {β} (a : Arr3 β) (t i j : Nat) : Option β :=
  (a[t]?).bind (fun p => (p[i]?).bind (fun r => r[j]?))

/-- `a[:, i, j]` (for an array of shape `(T, nx, ny)` and `i < nx`, `j < ny` this is the full column,
    see `Lemmas.Grid.slice_getElem?`; planes that have no `(i, j)` entry are an `IndexError` in numpy —
    they cannot occur because indices are generated from the shape, and every theorem about `slice`
    carries the `Shaped` guard) -/
def slice {β} (a : Arr3 β) (i j : Nat) : List β :=
  a.filterMap (fun p => (p[i]?).bind (fun r => r[j]?))

/-- `a.shape == (T, nx, ny)` -/
def Shaped {β} (a : Arr3 β) (T nx ny : Nat) : Prop :=
  a.length = T ∧ ∀ p ∈ a, p.length = nx ∧ ∀ r ∈ p, r.length = ny

/-- `np.empty((T, nx, ny))`: nothing written yet -/
def empty3 {α} (T nx ny : Nat) : Arr3 (Elem α) :=
  List.replicate T (List.replicate nx (List.replicate ny none))

/-- the raw write `output[t, i, j] = col[t]` for every `t` (lengths already checked) -/
def setCol {α} (a : Arr3 (Elem α)) (i j : Nat) (col : List (Val α)) : Arr3 (Elem α) :=
  List.zipWith (fun p v => p.modify i (fun r => r.set j (some v))) a col

/-- numpy broadcasting of the right-hand side of `output[:, i, j] = result` to the buffer's time length -/
def colOf {α ε} (T : Nat) (r : CellResult α) : Except (Err ε) (List (Val α)) :=
  match r with
  | .nan => .ok (List.replicate T .nan)
  | .series v =>
      if v.length = T then .ok (v.map .val)
      else match v with
        | [x] => .ok (List.replicate T (.val x))
        | _ => .error .broadcast

/-- `output[:, i, j] = result` on a buffer of shape `(T, nx, ny)` -/
def setColumn {α ε} (T nx ny : Nat) (out : Arr3 (Elem α)) (c : Cell) (r : CellResult α) :
    Except (Err ε) (Arr3 (Elem α)) :=
  if c.1 < nx ∧ c.2 < ny then (colOf T r).map (setCol out c.1 c.2) else .error .index

/-- the column that cell `c` contributes: `runCatch` followed by numpy's broadcasting (a specification
    device: `serialStep` / `applyParallel` below do not use it) -/
def cellCol {α ε} (f : Cell → Except ε (List α)) (failsafe : Bool) (T : Nat) (c : Cell) :
    Except (Err ε) (List (Val α)) :=
  match runCatch failsafe (f c) with
  | .ok r => colOf T r
  | .error e => .error e

/-! ### index enumerations -/

/-- `np.ndindex((nx, ny))`: C-order unravelling of the flat counter -/
def ndindex (nx ny : Nat) : List Cell :=
  (List.range (nx * ny)).map (fun k => (k / ny, k % ny))

/-- `[(i, j) for i in range(nx) for j in range(ny)]` -/
def pairIndices (nx ny : Nat) : List Cell :=
  (List.range nx).flatMap (fun i => (List.range ny).map (fun j => (i, j)))

/-! ### serial -/

/-- one iteration of the loop of `map_over_locations` -/
def serialStep {α ε} (f : Cell → Except ε (List α)) (failsafe : Bool) (T nx ny : Nat)
    (out : Arr3 (Elem α)) (c : Cell) : Except (Err ε) (Arr3 (Elem α)) := do
  let r ← runCatch failsafe (f c)
  setColumn T nx ny out c r

/-- `map_over_locations(func, output_size = (T, nx, ny), …)`; `f c` is `func` on the three columns of cell `c` -/
def applySerial {α ε} (f : Cell → Except ε (List α)) (failsafe : Bool) (T nx ny : Nat) :
    Except (Err ε) (Arr3 (Elem α)) :=
  (ndindex nx ny).foldlM (serialStep f failsafe T nx ny) (empty3 T nx ny)

/-! ### the pool -/

/-- all slots filled? -/
def allSome {γ} : List (Option γ) → Option (List γ)
  | [] => some []
  | none :: _ => none
  | some x :: t => (allSome t).map (x :: ·)

/-- tasks complete in the order `sched` (positions into `args`); a completed task's result goes to the slot
    of its argument index; the first completed task that raised ends the map with that exception
    (later results are discarded).  Positions that are no task are ignored. -/
def poolRun {β γ ε} (g : β → Except (Err ε) γ) (args : List β) (sched : List Nat) :
    Except (Err ε) (List (Option γ)) :=
  sched.foldlM (fun slots k =>
      match args[k]? with
      | none => .ok slots
      | some a => (g a).map (fun r => slots.set k (some r)))
    (List.replicate args.length none)

/-- `pool.starmap(g, args)` under completion schedule `sched` -/
def starmap {β γ ε} (g : β → Except (Err ε) γ) (args : List β) (sched : List Nat) : Except (Err ε) (List γ) := do
  let slots ← poolRun g args sched
  match allSome slots with
  | some rs => .ok rs
  | none => .error .incomplete

/-- a schedule that completes every task exactly once -/
def Complete (sched : List Nat) (n : Nat) : Prop := sched.Perm (List.range n)

/-- `parallel_map_over_locations`: all results first (`starmap`), then
    `for k, index in enumerate(indices): output[:, index[0], index[1]] = result[k]` -/
def applyParallel {α ε} (f : Cell → Except ε (List α)) (failsafe : Bool) (T nx ny : Nat) (sched : List Nat) :
    Except (Err ε) (Arr3 (Elem α)) := do
  let indices := pairIndices nx ny
  let result ← starmap (fun c => runCatch failsafe (f c)) indices sched
  (indices.zip result).foldlM (fun out cr => setColumn T nx ny out cr.1 cr.2) (empty3 T nx ny)

/-- how the locations are mapped: serially, or by a pool whose tasks complete in the given order -/
inductive Mode where
  | serial : Mode
  | parallel : List Nat → Mode

def applyGrid {α ε} (f : Cell → Except ε (List α)) (failsafe : Bool) (T nx ny : Nat) : Mode →
    Except (Err ε) (Arr3 (Elem α))
  | .serial => applySerial f failsafe T nx ny
  | .parallel sched => applyParallel f failsafe T nx ny sched

/-- the mode is one the runtime can produce: a pool's schedule completes every task exactly once -/
def ModeOk (m : Mode) (nx ny : Nat) : Prop :=
  match m with
  | .serial => True
  | .parallel sched => Complete sched (nx * ny)

/-- a location function that raises `err c` exactly on the cells of `S` and returns `clean c` elsewhere
    (every partial location function is of this form; used to quantify over *every subset* of failing cells) -/
def failAt {α ε} (S : Cell → Bool) (err : Cell → ε) (clean : Cell → List α) : Cell → Except ε (List α) :=
  fun c => if S c then .error (err c) else .ok (clean c)

/-! ### `apply` on data -/

/-- the per-location function `apply_location(obs, cm_hist, cm_future)` -/
abbrev LocFn (α ε : Type) := List α → List α → List α → Except ε (List α)

/-- `func(obs[:, i, j], cm_hist[:, i, j], cm_future[:, i, j])` -/
def cellFn {α ε} (loc : LocFn α ε) (obs hist fut : Arr3 α) (c : Cell) : Except ε (List α) :=
  loc (slice obs c.1 c.2) (slice hist c.1 c.2) (slice fut c.1 c.2)

/-- `Debiaser.apply`: `output_size = cm_future.shape` (spatial shape `(nx, ny)` common to the three inputs) -/
def debiaserApply {α ε} (loc : LocFn α ε) (failsafe : Bool) (obs hist fut : Arr3 α) (nx ny : Nat) (m : Mode) :
    Except (Err ε) (Arr3 (Elem α)) :=
  applyGrid (cellFn loc obs hist fut) failsafe fut.length nx ny m

/-- `DeltaChange.apply`: `output_size = obs.shape` -/
def deltaChangeApply {α ε} (loc : LocFn α ε) (failsafe : Bool) (obs hist fut : Arr3 α) (nx ny : Nat) (m : Mode) :
    Except (Err ε) (Arr3 (Elem α)) :=
  applyGrid (cellFn loc obs hist fut) failsafe obs.length nx ny m

/-! ### the pool in detail: chunking, and a debiaser instance that carries state

  `Pool.starmap(func, iterable)` cuts the argument list into consecutive chunks of `chunksize` tasks
  (`Pool._get_tasks`), default `chunksize = ceil(n / (4 * processes))` (`Pool._map_async`).  One chunk is one
  task of the pool: it is pickled together with `func` — here the bound method of the debiaser, i.e. a *copy of
  the instance* — and a worker runs `list(map(func, chunk))`: the tasks of a chunk run in order on that one copy,
  the first exception ends the chunk.  The chunk results are stored by chunk index and concatenated.
  The parent's instance is never touched by a parallel run.

  The instance state is modelled as a value `s : σ` that the location function may read and replace:
  `f s c = (result, s')`.  Serial: the state is threaded through the cells in `ndindex` order.  -/

/-- consecutive chunks of `k` elements, the last one possibly shorter (`fuel` ≥ length suffices) -/
def chunksAux {β} (k : Nat) : Nat → List β → List (List β)
  | 0, _ => []
  | fuel + 1, l =>
    match l with
    | [] => []
    | _ :: _ => l.take k :: chunksAux k fuel (l.drop k)

/-- `Pool._get_tasks(func, it, k)`: the chunks (for `k ≥ 1`; the library never passes 0 for a non-empty list) -/
def chunksOf {β} (k : Nat) (l : List β) : List (List β) := chunksAux k l.length l

/-- the default chunk size of `Pool._map_async` for `n` tasks and `p` worker processes -/
def defaultChunksize (n p : Nat) : Nat :=
  if n = 0 then 0 else if n % (p * 4) = 0 then n / (p * 4) else n / (p * 4) + 1

/-- a location function of an instance with state: the result and the state it leaves behind -/
abbrev StCell (σ α ε : Type) := σ → Cell → Except ε (List α) × σ

/-- the location function never changes the instance (also not when it raises) -/
def PureSt {σ α ε} (f : StCell σ α ε) : Prop := ∀ s c, (f s c).2 = s

/-- one iteration of the serial loop on an instance in state `st.2` -/
def serialStepSt {σ α ε} (f : StCell σ α ε) (failsafe : Bool) (T nx ny : Nat)
    (st : Arr3 (Elem α) × σ) (c : Cell) : Except (Err ε) (Arr3 (Elem α) × σ) :=
  match runCatch failsafe (f st.2 c).1 with
  | .error e => .error e
  | .ok r =>
    match setColumn T nx ny st.1 c r with
    | .error e => .error e
    | .ok out => .ok (out, (f st.2 c).2)

/-- serial run on an instance in state `s0`: the array and the state the instance is left in -/
def applySerialSt {σ α ε} (f : StCell σ α ε) (failsafe : Bool) (T nx ny : Nat) (s0 : σ) :
    Except (Err ε) (Arr3 (Elem α) × σ) :=
  (ndindex nx ny).foldlM (serialStepSt f failsafe T nx ny) (empty3 T nx ny, s0)

/-- one pool task: `list(map(func, chunk))` on a copy of the instance in state `s` -/
def chunkTask {σ α ε} (f : StCell σ α ε) (failsafe : Bool) : σ → List Cell → Except (Err ε) (List (CellResult α))
  | _, [] => .ok []
  | s, c :: cs =>
    match runCatch failsafe (f s c).1 with
    | .error e => .error e
    | .ok r =>
      match chunkTask f failsafe (f s c).2 cs with
      | .error e => .error e
      | .ok rs => .ok (r :: rs)

/-- `for k, index in enumerate(indices): output[:, index[0], index[1]] = result[k]` -/
def writeBack {α ε} (T nx ny : Nat) (res : List (CellResult α)) : Except (Err ε) (Arr3 (Elem α)) :=
  ((pairIndices nx ny).zip res).foldlM (fun out cr => setColumn T nx ny out cr.1 cr.2) (empty3 T nx ny)

/-- `parallel_map_over_locations` with chunk size `k`; `sched` = completion order of the *chunks*.
    Every chunk starts from a copy of the instance in the parent's state `s0`; the parent keeps `s0`. -/
def applyParallelSt {σ α ε} (f : StCell σ α ε) (failsafe : Bool) (T nx ny : Nat) (s0 : σ) (k : Nat)
    (sched : List Nat) : Except (Err ε) (Arr3 (Elem α) × σ) :=
  match starmap (chunkTask f failsafe s0) (chunksOf k (pairIndices nx ny)) sched with
  | .error e => .error e
  | .ok res =>
    match writeBack T nx ny res.flatten with
    | .error e => .error e
    | .ok out => .ok (out, s0)

/-! ### keyword arguments of `apply` -/

/-- `apply_location(obs, cm_hist, cm_future, **kwargs)` -/
abbrev LocFnKw (κ α ε : Type) := κ → LocFn α ε

/-- `Debiaser.apply(obs, cm_hist, cm_future, …, **kwargs)` -/
def debiaserApplyKw {κ α ε} (loc : LocFnKw κ α ε) (kw : κ) (failsafe : Bool) (obs hist fut : Arr3 α) (nx ny : Nat)
    (m : Mode) : Except (Err ε) (Arr3 (Elem α)) :=
  debiaserApply (loc kw) failsafe obs hist fut nx ny m

/-- `DeltaChange.apply(obs, cm_hist, cm_future, …, **kwargs)` -/
def deltaChangeApplyKw {κ α ε} (loc : LocFnKw κ α ε) (kw : κ) (failsafe : Bool) (obs hist fut : Arr3 α) (nx ny : Nat)
    (m : Mode) : Except (Err ε) (Arr3 (Elem α)) :=
  deltaChangeApply (loc kw) failsafe obs hist fut nx ny m

end Model.Grid
