/-
  A small numpy-expression language (C19 tier A).  `translator/extract_metrics.py` reads literal array expressions of
  `ibicus/evaluate/metrics.py` (the body of `_calculate_spell_lengths_one_location`, the `minimum_length` filter of
  `calculate_spell_length`) from the AST into terms of `E`; `denote` is the meaning given to every constructor
  (trusted base: these are the numpy / Python semantics of indexing, slicing, `!=`, `np.concatenate`, `np.where(..)[0]`,
  `np.diff`, boolean-mask selection on 1-d arrays).  Import-free apart from `Model/`, executable.

  Partiality is kept: an index out of range is `IndexError`, an operation applied to a value of the wrong kind
  `TypeError`, element-wise operations on arrays of different lengths `ValueError` (numpy's length-1 broadcasting is not
  modelled: it is an error here), a slice with a step `≤ 0` `unsupported`.
-/
import IbicusModel.Model.Metrics

namespace Model.NpExpr

inductive E where
  | arg                                     -- the array the expression is about (the function's parameter)
  | ivar                                    -- the integer scalar the expression refers to (e.g. `minimum_length`)
  | blit (b : Bool)                         -- `True` / `False`
  | ilit (k : Int)                          -- an integer literal
  | item (a : E) (k : Int)                  -- `a[k]`
  | nil                                     -- `[]`
  | cons (a r : E)                          -- list display `[a, *r]`
  | cat (a r : E)                           -- `np.concatenate((a, *r))` (right-nested, last part is the base)
  | slice (a : E) (lo hi step : Option Int) -- `a[lo:hi:step]`
  | neq (a b : E)                           -- `a != b`
  | gt (a b : E)                            -- `a > b` (array > scalar, or two arrays)
  | where0 (a : E)                          -- `np.where(a)[0]`
  | diff (a : E)                            -- `np.diff(a)`
  | sel (a m : E)                           -- `a[m]` with a Boolean mask `m`
deriving DecidableEq, Repr

inductive Val where
  | sb (b : Bool)
  | si (k : Int)
  | bs (l : List Bool)
  | is (l : List Int)
deriving DecidableEq, Repr

/-- Python indexing `l[k]` (negative `k` counts from the end) -/
def pyIndex {α} (l : List α) (k : Int) : Option α :=
  let n : Int := l.length
  if 0 ≤ k ∧ k < n then l[k.toNat]?
  else if -n ≤ k ∧ k < 0 then l[(k + n).toNat]?
  else none

/-- a slice bound clipped to `0 … n` the way Python does for a positive step -/
def normIdx (n : Nat) (k : Int) : Nat :=
  if k < 0 then (k + (n : Int)).toNat else min k.toNat n

/-- `l[lo:hi]` -/
def pySlice {α} (l : List α) (lo hi : Option Int) : List α :=
  let n := l.length
  let a := match lo with | none => 0 | some k => normIdx n k
  let b := match hi with | none => n | some k => normIdx n k
  (l.take b).drop a

/-- every `step`-th element, the next one taken after skipping `skip` -/
def stepAux {α} (step : Nat) : Nat → List α → List α
  | _, [] => []
  | 0, a :: t => a :: stepAux step (step - 1) t
  | skip + 1, _ :: t => stepAux step skip t

/-- `l[lo:hi:step]`; `none` for a step `≤ 0` -/
def pySliceStep {α} (l : List α) (lo hi step : Option Int) : Option (List α) :=
  match step with
  | none => some (pySlice l lo hi)
  | some s => if 0 < s then some (stepAux s.toNat 0 (pySlice l lo hi)) else none

def zipSame {α β} (f : α → α → β) (a b : List α) : Option (List β) :=
  if a.length = b.length then some (List.zipWith f a b) else none

/-- `a[m]`, `m` a Boolean mask of the same length -/
def selMask {α} (a : List α) (m : List Bool) : Option (List α) :=
  if a.length = m.length then some ((a.zip m).filterMap (fun p => if p.2 then some p.1 else none)) else none

def ofOpt {α} (err : String) : Option α → Except String α
  | some a => .ok a
  | none => .error err

/-- meaning of an expression; `x` is the value of `arg`, `p` the value of `ivar` -/
def denote (x : Val) (p : Int) : E → Except String Val
  | .arg => .ok x
  | .ivar => .ok (.si p)
  | .blit b => .ok (.sb b)
  | .ilit k => .ok (.si k)
  | .item a k =>
    match denote x p a with
    | .error e => .error e
    | .ok (.bs l) => ofOpt "IndexError" ((pyIndex l k).map .sb)
    | .ok (.is l) => ofOpt "IndexError" ((pyIndex l k).map .si)
    | .ok _ => .error "TypeError"
  | .nil => .ok (.bs [])
  | .cons a r =>
    match denote x p a with
    | .error e => .error e
    | .ok va =>
      match denote x p r with
      | .error e => .error e
      | .ok vr =>
        match va, vr with
        | .sb b, .bs l => .ok (.bs (b :: l))
        | _, _ => .error "TypeError"
  | .cat a r =>
    match denote x p a with
    | .error e => .error e
    | .ok va =>
      match denote x p r with
      | .error e => .error e
      | .ok vr =>
        match va, vr with
        | .bs l1, .bs l2 => .ok (.bs (l1 ++ l2))
        | .is l1, .is l2 => .ok (.is (l1 ++ l2))
        | _, _ => .error "TypeError"
  | .slice a lo hi step =>
    match denote x p a with
    | .error e => .error e
    | .ok (.bs l) => ofOpt "unsupported" ((pySliceStep l lo hi step).map .bs)
    | .ok (.is l) => ofOpt "unsupported" ((pySliceStep l lo hi step).map .is)
    | .ok _ => .error "TypeError"
  | .neq a b =>
    match denote x p a with
    | .error e => .error e
    | .ok va =>
      match denote x p b with
      | .error e => .error e
      | .ok vb =>
        match va, vb with
        | .bs l1, .bs l2 => ofOpt "ValueError" ((zipSame (fun u v => u != v) l1 l2).map .bs)
        | .is l1, .is l2 => ofOpt "ValueError" ((zipSame (fun u v => decide (u ≠ v)) l1 l2).map .bs)
        | _, _ => .error "TypeError"
  | .gt a b =>
    match denote x p a with
    | .error e => .error e
    | .ok va =>
      match denote x p b with
      | .error e => .error e
      | .ok vb =>
        match va, vb with
        | .is l, .si k => .ok (.bs (l.map (fun u => decide (u > k))))
        | .is l1, .is l2 => ofOpt "ValueError" ((zipSame (fun u v => decide (u > v)) l1 l2).map .bs)
        | _, _ => .error "TypeError"
  | .where0 a =>
    match denote x p a with
    | .error e => .error e
    | .ok (.bs l) => .ok (.is (Metrics.whereFrom 0 l))
    | .ok _ => .error "TypeError"
  | .diff a =>
    match denote x p a with
    | .error e => .error e
    | .ok (.is l) => .ok (.is (Metrics.diff l))
    | .ok _ => .error "TypeError"
  | .sel a m =>
    match denote x p a with
    | .error e => .error e
    | .ok va =>
      match denote x p m with
      | .error e => .error e
      | .ok vm =>
        match va, vm with
        | .is l, .bs k => ofOpt "IndexError" ((selMask l k).map .is)
        | .bs l, .bs k => ofOpt "IndexError" ((selMask l k).map .bs)
        | _, _ => .error "TypeError"

end Model.NpExpr
