import IbicusModel.Model.DebNames
/-
  Layer K: the input contract of `Debiaser.apply` / `DeltaChange.apply` (C14).
  Hand-written model of `ibicus/debias/_debiaser.py: _check_inputs_and_convert_if_possible`,
  `_check_output`, and of `ibicus/utils/_utils.py: check_time_information_and_raise_error`
  together with the places that call it.  Import-free, executable.

  The check sequence itself is *data*: `steps` is the ordered list of `(kind, argument, action)`
  that the code performs; `runChecks` interprets such a list on an abstract description of the
  three inputs.  `Gen.Contract.checkSteps` (regenerated from the source's AST on every run) is proved
  equal to `steps` in `Lemmas.GenContract`.
-/
namespace Model.Contract
open Model.DebNames

/-- argument position (`all` = the joint spatial-shape check, `output` = `_check_output`) -/
inductive Arg | obs | cmHist | cmFuture | all | output
  deriving DecidableEq, Repr

/-- what a step looks at (named after the helper predicate it calls) -/
inductive Kind
  | isNdarray          -- `_is_correct_type`          isinstance(x, np.ndarray)
  | floatDtype         -- `_has_float_dtype`          np.issubdtype(x.dtype, np.floating)
  | ndim3              -- `_has_correct_shape`        x.ndim == 3
  | sameSpatialShape   -- `_have_same_shape`          obs.shape[1:] == cm_hist.shape[1:] == cm_future.shape[1:]
  | infNan             -- `_contains_inf_nan`
  | outOfRange         -- `_not_if_or_nan_vals_outside_reasonable_physical_range`
  | masked             -- `_is_masked_array` (+ `_masked_array_contains_invalid_values` for the message)
  deriving DecidableEq, Repr

/-- what happens when the step's condition is met -/
inductive Action | raiseTypeError | raiseValueError | warn | warnAndConvert
  deriving DecidableEq, Repr

structure Step where
  kind : Kind
  arg : Arg
  action : Action
  deriving DecidableEq, Repr

/-- dtype classes: floating / integer or bool (or any dtype `astype(float)` accepts) / `astype(float)` raises -/
inductive DType | float | intBool | unconvertible
  deriving DecidableEq, Repr

/-- abstract description of one input array as far as the checks can see it -/
structure InputDesc where
  isNdarray : Bool          -- a masked array is an ndarray
  isMasked : Bool
  maskAny : Bool            -- masked array with at least one masked cell
  dtype : DType
  shape : List Nat          -- full shape `[t, x, y]`; `ndim = shape.length`, spatial shape = `shape.tail`
  hasInfNan : Bool          -- an unmasked cell is NaN / ±inf
  outOfRange : Bool         -- an unmasked finite cell is outside the debiaser's `reasonable_physical_range` (false if that is None)
  deriving DecidableEq, Repr

def DType.isFloat : DType → Bool | .float => true | _ => false

def DType.isUnconvertible : DType → Bool | .unconvertible => true | _ => false

def InputDesc.ndim (d : InputDesc) : Nat := d.shape.length
def InputDesc.spatial (d : InputDesc) : List Nat := d.shape.tail

abbrev Inputs := InputDesc × InputDesc × InputDesc

def getArg (x : Inputs) : Arg → InputDesc
  | .obs => x.1
  | .cmHist => x.2.1
  | _ => x.2.2

def setArg (x : Inputs) (a : Arg) (d : InputDesc) : Inputs :=
  match a with
  | .obs => (d, x.2.1, x.2.2)
  | .cmHist => (x.1, d, x.2.2)
  | .cmFuture => (x.1, x.2.1, d)
  | _ => x

/-- a warning: which check, about which argument; for `masked` the flag says which of the two messages
    ("contains cells with invalid data" = true / "contains no invalid data" = false) -/
structure Warn where
  kind : Kind
  arg : Arg
  flag : Bool := false
  deriving DecidableEq, Repr

inductive Err
  | typeError (k : Kind) (a : Arg)
  | valueError (k : Kind) (a : Arg)
  deriving DecidableEq, Repr

/-- state of the check sequence: warnings so far (in emission order) and the (possibly converted) inputs -/
structure St where
  warns : List Warn
  inputs : Inputs
  deriving DecidableEq, Repr

/-- result: warnings emitted (also those before an exception) and exception or converted inputs -/
structure Outcome where
  warns : List Warn
  result : Except Err Inputs
  deriving Repr

/-- does the step's condition hold (the `if` of the step is entered)? -/
def triggers (k : Kind) (a : Arg) (x : Inputs) : Bool :=
  match k with
  | .isNdarray => !(getArg x a).isNdarray
  | .floatDtype => !(getArg x a).dtype.isFloat
  | .ndim3 => (getArg x a).ndim != 3
  | .sameSpatialShape => !(x.1.spatial == x.2.1.spatial && x.1.spatial == x.2.2.spatial)
  | .infNan => (getArg x a).hasInfNan
  | .outOfRange => (getArg x a).outOfRange
  | .masked => (getArg x a).isMasked

/-- the conversion of a `warnAndConvert` step: `astype(float)` (may raise) / `filled(np.nan)` -/
def convert (k : Kind) (a : Arg) (x : Inputs) : Except Err Inputs :=
  let d := getArg x a
  match k with
  | .floatDtype =>
      match d.dtype with
      | .unconvertible => .error (.valueError .floatDtype a)
      | _ => .ok (setArg x a { d with dtype := .float })
  | .masked => .ok (setArg x a { d with isMasked := false, maskAny := false, hasInfNan := d.hasInfNan || d.maskAny })
  | _ => .ok x

def warnOf (k : Kind) (a : Arg) (x : Inputs) : Warn :=
  { kind := k, arg := a, flag := match k with | .masked => (getArg x a).maskAny | _ => false }

/-- one step: `.inl` = exception raised (with the warnings emitted so far), `.inr` = continue -/
def runStep (s : Step) (st : St) : Except (List Warn × Err) St :=
  if triggers s.kind s.arg st.inputs then
    match s.action with
    | .raiseTypeError => .error (st.warns, .typeError s.kind s.arg)
    | .raiseValueError => .error (st.warns, .valueError s.kind s.arg)
    | .warn => .ok { st with warns := st.warns ++ [warnOf s.kind s.arg st.inputs] }
    | .warnAndConvert =>
        let w := st.warns ++ [warnOf s.kind s.arg st.inputs]
        match convert s.kind s.arg st.inputs with
        | .error e => .error (w, e)
        | .ok x => .ok { warns := w, inputs := x }
  else .ok st

def runSteps : List Step → St → Except (List Warn × Err) St
  | [], st => .ok st
  | s :: rest, st => match runStep s st with
      | .error e => .error e
      | .ok st' => runSteps rest st'

/-- `_check_inputs_and_convert_if_possible` as an interpreter of a step list -/
def runChecks (steps : List Step) (x : Inputs) : Outcome :=
  match runSteps steps { warns := [], inputs := x } with
  | .error (w, e) => { warns := w, result := .error e }
  | .ok st => { warns := st.warns, result := .ok st.inputs }

/-- the step list the code performs (hand-written; `Gen.Contract.checkSteps` must equal it) -/
def steps : List Step := [
  ⟨.isNdarray, .obs, .raiseTypeError⟩, ⟨.isNdarray, .cmHist, .raiseTypeError⟩, ⟨.isNdarray, .cmFuture, .raiseTypeError⟩,
  ⟨.floatDtype, .obs, .warnAndConvert⟩, ⟨.floatDtype, .cmHist, .warnAndConvert⟩, ⟨.floatDtype, .cmFuture, .warnAndConvert⟩,
  ⟨.ndim3, .obs, .raiseValueError⟩, ⟨.ndim3, .cmHist, .raiseValueError⟩, ⟨.ndim3, .cmFuture, .raiseValueError⟩,
  ⟨.sameSpatialShape, .all, .raiseValueError⟩,
  ⟨.infNan, .obs, .warn⟩, ⟨.infNan, .cmHist, .warn⟩, ⟨.infNan, .cmFuture, .warn⟩,
  ⟨.outOfRange, .obs, .warn⟩, ⟨.outOfRange, .cmHist, .warn⟩, ⟨.outOfRange, .cmFuture, .warn⟩,
  ⟨.masked, .obs, .warnAndConvert⟩, ⟨.masked, .cmHist, .warnAndConvert⟩, ⟨.masked, .cmFuture, .warnAndConvert⟩]

/-- `_check_output`: two warning-only steps on the result -/
def outputSteps : List Step := [⟨.infNan, .output, .warn⟩, ⟨.outOfRange, .output, .warn⟩]

/-- `_check_output` on a description of the result (`getArg _ .output` reads the third component) -/
def runOutputCheck (steps : List Step) (out : InputDesc) : Outcome := runChecks steps (out, out, out)

/-- the source text of the helper predicates the kinds stand for (`ast.unparse` of their `return` expression) -/
def helperDefs : List (String × String) := [
  ("_is_correct_type", "isinstance(df, np.ndarray)"),
  ("_has_correct_shape", "df.ndim == 3"),
  ("_have_same_shape", "obs.shape[1:] == cm_hist.shape[1:] and obs.shape[1:] == cm_future.shape[1:]"),
  ("_contains_inf_nan", "np.any(np.logical_or(np.isnan(x), np.isinf(x)))"),
  ("_not_if_or_nan_vals_outside_reasonable_physical_range",
   "if self.reasonable_physical_range is not None: return not np.all((x >= self.reasonable_physical_range[0]) & (x <= self.reasonable_physical_range[1]) | np.isinf(x) | np.isnan(x)); return False"),
  ("_has_float_dtype", "np.issubdtype(x.dtype, np.floating)"),
  ("_is_masked_array", "isinstance(x, np.ma.core.MaskedArray)"),
  ("_masked_array_contains_invalid_values", "np.any(x.mask)"),
  ("_convert_to_float_dtype", "try: return x.astype(float); except Exception: raise ValueError"),
  ("_fill_masked_array_with_nan", "x.filled(np.nan)")]

/-! ### closed form of the accepted path (what the property promises for well-formed input) -/

def args3 : List Arg := [.obs, .cmHist, .cmFuture]

/-- the first of obs, cm_hist, cm_future (in this order) whose description satisfies `p` -/
def firstBad (p : InputDesc → Bool) (x : Inputs) : Option Arg := args3.find? (fun a => p (getArg x a))

def toFloat (d : InputDesc) : InputDesc := match d.dtype with | .float => d | _ => { d with dtype := .float }

def unmask (d : InputDesc) : InputDesc :=
  if d.isMasked then { d with isMasked := false, maskAny := false, hasInfNan := d.hasInfNan || d.maskAny } else d

/-- what reaches `apply_location`: float dtype, plain array, NaN where cells were masked -/
def convDesc (d : InputDesc) : InputDesc := unmask (toFloat d)

def mapInputs (g : InputDesc → InputDesc) (x : Inputs) : Inputs := (g x.1, g x.2.1, g x.2.2)

/-- warnings of one phase: one per argument (in order obs, cm_hist, cm_future) for which `p` holds -/
def warnIf (k : Kind) (p : InputDesc → Bool) (flag : InputDesc → Bool) (x : Inputs) (a : Arg) : List Warn :=
  bif p (getArg x a) then [{ kind := k, arg := a, flag := flag (getArg x a) }] else []

def phaseWarns (k : Kind) (p : InputDesc → Bool) (flag : InputDesc → Bool) (x : Inputs) : List Warn :=
  warnIf k p flag x .obs ++ warnIf k p flag x .cmHist ++ warnIf k p flag x .cmFuture

def dtypeWarns (x : Inputs) : List Warn := phaseWarns .floatDtype (fun d => !d.dtype.isFloat) (fun _ => false) x
def infNanWarns (x : Inputs) : List Warn := phaseWarns .infNan (fun d => d.hasInfNan) (fun _ => false) x
def rangeWarns (x : Inputs) : List Warn := phaseWarns .outOfRange (fun d => d.outOfRange) (fun _ => false) x
def maskedWarns (x : Inputs) : List Warn := phaseWarns .masked (fun d => d.isMasked) (fun d => d.maskAny) x

/-- all warnings of an accepted call, in emission order -/
def okWarns (x : Inputs) : List Warn := dtypeWarns x ++ infNanWarns x ++ rangeWarns x ++ maskedWarns x

/-- well-formed input: what the property calls acceptable -/
def WellFormed (x : Inputs) : Prop :=
  (∀ a ∈ args3, (getArg x a).isNdarray = true ∧ (getArg x a).dtype ≠ .unconvertible ∧ (getArg x a).ndim = 3) ∧
  x.1.spatial = x.2.1.spatial ∧ x.1.spatial = x.2.2.spatial

/-- the three classes of outcome the property distinguishes -/
inductive OutcomeClass | typeError | valueError | accepted
  deriving DecidableEq, Repr

def classOf (o : Outcome) : OutcomeClass :=
  match o.result with
  | .error (.typeError _ _) => .typeError
  | .error (.valueError _ _) => .valueError
  | .ok _ => .accepted

/-- the contract as a decision on the description of the three inputs -/
def specClass (x : Inputs) : OutcomeClass :=
  if (firstBad (fun d => !d.isNdarray) x).isSome then .typeError
  else if (firstBad (fun d => d.dtype.isUnconvertible) x).isSome || (firstBad (fun d => d.ndim != 3) x).isSome
      || !(x.1.spatial == x.2.1.spatial && x.1.spatial == x.2.2.spatial) then .valueError
  else .accepted

/-- replace the length of the time axis -/
def withTime (d : InputDesc) (t : Nat) : InputDesc := { d with shape := t :: d.shape.tail }

/-- `apply` = checks, then the map over locations on the *converted* inputs; an exception means `f` is never evaluated -/
def applyModel {β} (steps : List Step) (x : Inputs) (f : Inputs → β) : Except Err β :=
  match (runChecks steps x).result with
  | .error e => .error e
  | .ok y => .ok (f y)

/-! ### where `apply` runs the checks -/

/-- order facts about one `apply` method (statement order in its body) -/
structure ApplyShape where
  cls : String
  postInitFirst : Bool        -- first statement is `self.__attrs_post_init__()`
  checksBeforeMap : Bool      -- `_check_inputs_and_convert_if_possible` is called before any `(parallel_)map_over_locations`
  checkedArgsUsed : Bool      -- its result is bound to `obs, cm_hist, cm_future` and exactly these names are passed on
  outputChecked : Bool        -- `self._check_output(output)` is called after the map and before `return output`
  outputSizes : List String   -- every dispatch path (`callee:output_size`), in source order: the time axis of the result
  deriving DecidableEq, Repr

def applyShapes : List ApplyShape := [
  ⟨"Debiaser", true, true, true, true, ["parallel_map_over_locations:cm_future.shape", "map_over_locations:cm_future.shape"]⟩,
  ⟨"DeltaChange", true, true, true, true, ["parallel_map_over_locations:obs.shape", "map_over_locations:obs.shape"]⟩]

/-- the series whose time axis the result lives on: obs for DeltaChange (modified observations), cm_future otherwise -/
def outputAxis : Deb → Arg
  | .deltaChange => .obs
  | _ => .cmFuture

/-- the `apply` method a debiaser runs (`DeltaChange` overrides it, all others inherit `Debiaser.apply`) -/
def applyClassOf : Deb → String
  | .deltaChange => "DeltaChange"
  | _ => "Debiaser"

def axisName : Arg → String
  | .obs => "obs"
  | .cmHist => "cm_hist"
  | _ => "cm_future"

/-- serial and parallel dispatch both allocate the result on the documented time axis -/
def dispatchAxesOk (l : List ApplyShape) (d : Deb) : Bool :=
  match l.find? (fun s => s.cls == applyClassOf d) with
  | none => false
  | some s => s.outputSizes == ["parallel_map_over_locations:" ++ axisName (outputAxis d) ++ ".shape",
                                "map_over_locations:" ++ axisName (outputAxis d) ++ ".shape"]

/-- shape of the result of an accepted call: time length of the axis series, the common spatial shape -/
def outputShape (d : Deb) (x : Inputs) : List Nat := (getArg x (outputAxis d)).shape

/-- every `apply` reaches the checks before any location is processed -/
def applyOrderOk (l : List ApplyShape) : Bool := l.all (fun s => s.checksBeforeMap && s.checkedArgsUsed && s.outputChecked)

/-! ### time arrays -/

/-- `check_time_information_and_raise_error` on the six sizes -/
def checkTime (nObs nHist nFut tObs tHist tFut : Int) : Except String Unit :=
  if nObs ≠ tObs ∨ nHist ≠ tHist ∨ nFut ≠ tFut then .error "ValueError" else .ok ()

/-- a place where the length of time arrays is checked: class, method, the attribute guarding it ("" = unconditional),
    which check (`all3` = `check_time_information_and_raise_error`, `future` = the `np.size(time_cm_future) != cm_future.size` test),
    and whether it textually precedes every call of the per-window computation in that method -/
structure TimeSite where
  cls : String
  method : String
  guard : String
  check : String
  precedesCompute : Bool
  infer : String   -- how omitted time arrays are filled in *before* the check: `all3-if-any-none` = inside
                   -- `if time_obs is None or time_cm_hist is None or time_cm_future is None:` the three are rebound to
                   -- `infer_and_create_time_arrays_if_not_given(obs, cm_hist, cm_future, time_obs, time_cm_hist, time_cm_future)`;
                   -- `future-if-none` = `if time_cm_future is None: time_cm_future = create_array_of_consecutive_dates(cm_future.size)`
  deriving DecidableEq, Repr

def timeSites : List TimeSite := [
  ⟨"RunningWindowDebiaser", "apply_location", "running_window_mode", "all3", true, "all3-if-any-none"⟩,
  ⟨"DeltaChange", "apply_location", "running_window_mode", "all3", true, "all3-if-any-none"⟩,
  ⟨"ISIMIP", "apply_location", "", "all3", true, "all3-if-any-none"⟩,
  ⟨"CDFt", "apply_on_window", "running_window_mode_over_years_of_cm_future", "future", true, "future-if-none"⟩,
  ⟨"QuantileDeltaMapping", "apply_on_window", "running_window_mode_over_years_of_cm_future", "future", true, "future-if-none"⟩]

/-- `infer_and_create_time_arrays_if_not_given` on sizes: only the *missing* arrays are created (with the length of their
    series); an array that was given is passed through untouched, whatever its length -/
def inferTime (nObs nHist nFut : Int) (tObs tHist tFut : Option Int) : Int × Int × Int :=
  (tObs.getD nObs, tHist.getD nHist, tFut.getD nFut)

/-- the configuration as far as dates matter -/
structure TimeCfg where
  rwMode : Bool      -- running_window_mode
  yearMode : Bool    -- running_window_mode_over_years_of_cm_future (CDFt / QDM only)
  deriving DecidableEq, Repr

def hasYearWindows : Deb → Bool
  | .cdft | .quantileDeltaMapping => true
  | _ => false

/-- which of (time_obs, time_cm_hist, time_cm_future) have their length checked (= are consumed) -/
def timeChecked (d : Deb) (c : TimeCfg) : Bool × Bool × Bool :=
  match d with
  | .isimip => (true, true, true)
  | _ =>
    if c.rwMode then (true, true, true)
    else if hasYearWindows d && c.yearMode then (false, false, true)
    else (false, false, false)

/-- per debiaser: the class whose `apply_location` it runs (six inherit `RunningWindowDebiaser.apply_location`) -/
def applyLocationOwner : List (String × String) := [
  ("LinearScaling", "RunningWindowDebiaser"), ("DeltaChange", "DeltaChange"), ("QuantileMapping", "RunningWindowDebiaser"),
  ("ScaledDistributionMapping", "RunningWindowDebiaser"), ("CDFt", "RunningWindowDebiaser"), ("ECDFM", "RunningWindowDebiaser"),
  ("QuantileDeltaMapping", "RunningWindowDebiaser"), ("ISIMIP", "ISIMIP")]

/-- does a time-check site lie on the path debiaser `d` runs?  An `apply_location` site: iff it is in the class whose
    `apply_location` the debiaser runs; an `apply_on_window` site: iff it is the debiaser's own class -/
def siteOnPath (owners : List (String × String)) (s : TimeSite) (d : Deb) : Bool :=
  if s.method == "apply_location" then owners.any (fun p => p.1 == d.className && p.2 == s.cls)
  else s.cls == d.className

def siteGuardHolds (g : String) (c : TimeCfg) : Bool :=
  if g == "" then true
  else if g == "running_window_mode" then c.rwMode
  else if g == "running_window_mode_over_years_of_cm_future" then c.yearMode
  else false

def siteChecks (s : TimeSite) : Bool × Bool × Bool :=
  if s.check == "all3" then (true, true, true) else if s.check == "future" then (false, false, true) else (false, false, false)

/-- which time arrays have their length checked, *computed from the table of check sites* -/
def checkedFromSites (sites : List TimeSite) (owners : List (String × String)) (d : Deb) (c : TimeCfg) : Bool × Bool × Bool :=
  sites.foldl (fun acc s =>
    if siteOnPath owners s d && siteGuardHolds s.guard c then
      (acc.1 || (siteChecks s).1, acc.2.1 || (siteChecks s).2.1, acc.2.2 || (siteChecks s).2.2)
    else acc) (false, false, false)

/-- outcome of the time checks of one location: sizes of the three series and of the three time arrays
    (a time array that is not given is inferred with the right length, i.e. `t = n`) -/
def timeOutcome (d : Deb) (c : TimeCfg) (nObs nHist nFut tObs tHist tFut : Int) : Except String Unit :=
  let (co, ch, cf) := timeChecked d c
  if (co && nObs != tObs) || (ch && nHist != tHist) || (cf && nFut != tFut) then .error "ValueError" else .ok ()

/-- the time checks with *partial* time information (`none` = the keyword was not passed): inference, then the check -/
def timeOutcomeP (d : Deb) (c : TimeCfg) (nObs nHist nFut : Int) (tObs tHist tFut : Option Int) : Except String Unit :=
  let t := inferTime nObs nHist nFut tObs tHist tFut
  timeOutcome d c nObs nHist nFut t.1 t.2.1 t.2.2

end Model.Contract
