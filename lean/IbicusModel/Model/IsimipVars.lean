/-
  Layer K (C10): the ISIMIP settings of `ibicus/debias/_isimip_options.py` as the `Cfg` of `Model/Isimip.lean`.
  * `Val`, `merge`, `toCfg`: how `ISIMIP.from_variable(v)` turns the two settings dictionaries into attributes
    (`{**isimip3_general_settings, **isimip3_variable_settings[v]}`; attributes not mentioned keep the class defaults,
    which are the defaults of `Cfg`);
  * `boundedVariables`: the hand-written table of the seven bounded variables (the property's quantifier), each with the
    `Cfg` it runs with.  Tier A (`Gen/IsimipVars.lean`, `Lemmas/GenIsimipVars.lean`): the regenerated dictionaries give
    exactly these configurations.
  Import-free (Model/ only), executable.
-/
import IbicusModel.Model.Isimip

namespace Model.IsimipVars
open Model.Isimip Model.Stats

/-- a settings value: boolean, integer, bound / threshold, string (also: the name of a `scipy.stats` distribution) -/
inductive Val where
  | b (x : Bool) | n (x : Int) | r (x : ExtRat) | s (x : String)
deriving DecidableEq, Repr

def lookup (t : List (String × Val)) (k : String) : Option Val := (t.find? (fun p => p.1 == k)).map (·.2)

/-- `{**general, **variable}`: the variable's entry wins -/
def merge (general vs : List (String × Val)) : List (String × Val) := vs ++ general

def getB (t : List (String × Val)) (k : String) (d : Bool) : Bool := match lookup t k with | some (.b x) => x | _ => d
def getR (t : List (String × Val)) (k : String) (d : ExtRat) : ExtRat := match lookup t k with | some (.r x) => x | _ => d
def getN (t : List (String × Val)) (k : String) (d : Nat) : Nat := match lookup t k with | some (.n x) => x.toNat | _ => d
def getS (t : List (String × Val)) (k : String) (d : String) : String := match lookup t k with | some (.s x) => x | _ => d

def trendOf : String → Option TrendMethod
  | "additive" => some .additive | "multiplicative" => some .multiplicative | "mixed" => some .mixed | "bounded" => some .bounded
  | _ => none

def ecdfOf : String → Option EcdfMethod
  | "step_function" => some .step | "linear_interpolation" => some .linear | _ => none

def iecdfOf : String → Option IecdfMethod
  | "inverted_cdf" => some .inverted_cdf | "averaged_inverted_cdf" => some .averaged_inverted_cdf
  | "closest_observation" => some .closest_observation | "interpolated_inverted_cdf" => some .interpolated_inverted_cdf
  | "hazen" => some .hazen | "weibull" => some .weibull | "linear" => some .linear
  | "median_unbiased" => some .median_unbiased | "normal_unbiased" => some .normal_unbiased | _ => none

def npqmOf : String → Option NpqmMode
  | "normal" => some .normal | "isimipv3.0" => some .isimipv30 | _ => none

/-- the attributes `_apply_on_window` reads, from a merged settings table (`none`: an entry the model cannot read) -/
def toCfg (t : List (String × Val)) : Option Cfg := do
  let tm ← trendOf (getS t "trend_preservation_method" "")
  let em ← ecdfOf (getS t "ecdf_method" "linear_interpolation")
  let im ← iecdfOf (getS t "iecdf_method" "linear")
  let mode ← npqmOf (getS t "mode_non_parametric_qm" "normal")
  let dist := getS t "distribution" ""
  pure { trendMethod := tm, nonparametricQm := getB t "nonparametric_qm" false, detrending := getB t "detrending" false,
         lowerBound := getR t "lower_bound" .negInf, lowerThreshold := getR t "lower_threshold" .negInf,
         upperBound := getR t "upper_bound" .posInf, upperThreshold := getR t "upper_threshold" .posInf,
         imputeMissingValues := getB t "impute_missing_values" false,
         detrendingWithSignificanceTest := getB t "detrending_with_significance_test" true,
         trendTransferOnlyWithinThreshold := getB t "trend_transfer_only_for_values_within_threshold" true,
         biasCorrectFrequencies := getB t "bias_correct_frequencies_of_values_beyond_thresholds" true,
         eventLikelihoodAdjustment := getB t "event_likelihood_adjustment" false,
         ksTest := getB t "ks_test_for_goodness_of_cdf_fit" true,
         ecdfMethod := em, iecdfMethod := im, modeNpqm := mode,
         riceOrWeibull := dist == "rice" || dist == "weibull_min",
         scaleByAnnualCycle := getB t "scale_by_annual_cycle_of_upper_bounds" false,
         windowLengthAnnualCycle := getN t "window_length_annual_cycle_of_upper_bounds" 31 }

/-- **the seven bounded variables** with the configuration `ISIMIP.from_variable` gives them.  Thresholds are the exact
    rationals of the doubles the code uses (`0.01`, `0.1 / 86400`, `0.0001`, `0.9999`, `99.99`). -/
def boundedVariables : List (String × Cfg) := [
  ("hurs", { trendMethod := .bounded, detrending := false, modeNpqm := .isimipv30, lowerBound := .fin 0, lowerThreshold := .fin (5764607523034235 / 576460752303423488),
             upperBound := .fin 100, upperThreshold := .fin (7036170730324623 / 70368744177664),
             nonparametricQm := true, trendTransferOnlyWithinThreshold := false, biasCorrectFrequencies := false }),
  ("pr", { trendMethod := .mixed, detrending := false, modeNpqm := .isimipv30, nonparametricQm := false, lowerBound := .fin 0, lowerThreshold := .fin (5465701947765793 / 4722366482869645213696) }),
  ("prsnratio", { trendMethod := .bounded, detrending := false, modeNpqm := .isimipv30, lowerBound := .fin 0, lowerThreshold := .fin (7378697629483821 / 73786976294838206464),
                  upperBound := .fin 1, upperThreshold := .fin (4503149267407759 / 4503599627370496),
                  imputeMissingValues := true, nonparametricQm := true }),
  ("rsds", { trendMethod := .bounded, detrending := false, modeNpqm := .isimipv30, lowerBound := .fin 0, lowerThreshold := .fin (7378697629483821 / 73786976294838206464),
             upperBound := .fin 1, upperThreshold := .fin (4503149267407759 / 4503599627370496),
             scaleByAnnualCycle := true, nonparametricQm := true }),
  ("sfcwind", { trendMethod := .mixed, detrending := false, modeNpqm := .isimipv30, nonparametricQm := false, lowerBound := .fin 0, lowerThreshold := .fin (5764607523034235 / 576460752303423488),
                riceOrWeibull := true }),
  ("tasrange", { trendMethod := .mixed, detrending := false, modeNpqm := .isimipv30, nonparametricQm := false, lowerBound := .fin 0, lowerThreshold := .fin (5764607523034235 / 576460752303423488),
                 riceOrWeibull := true }),
  ("tasskew", { trendMethod := .bounded, detrending := false, modeNpqm := .isimipv30, lowerBound := .fin 0, lowerThreshold := .fin (7378697629483821 / 73786976294838206464),
                upperBound := .fin 1, upperThreshold := .fin (4503149267407759 / 4503599627370496),
                nonparametricQm := true })]

end Model.IsimipVars
