/-
  Line protocol shared by the model drivers: one operation per line,
  `cmd tok tok …`; lists are comma separated (`-` = empty list), rationals are `num/den` or integers.
-/
namespace Proto

def parseInt? (s : String) : Option Int := s.toInt?

def parseRat? (s : String) : Option Rat :=
  match s.splitOn "/" with
  | [n] => n.toInt?.map (fun (z : Int) => (z : Rat))
  | [n, d] => do
      let a ← n.toInt?
      let b ← d.toInt?
      if b = 0 then none else some ((a : Rat) / (b : Rat))
  | _ => none

def parseList? {α} (p : String → Option α) (s : String) : Option (List α) :=
  if s = "-" then some [] else (s.splitOn ",").mapM p

def showRat (q : Rat) : String :=
  if q.den = 1 then toString q.num else toString q.num ++ "/" ++ toString q.den

def showList {α} (f : α → String) (l : List α) : String :=
  if l.isEmpty then "-" else ",".intercalate (l.map f)

def showOptList {α} (f : α → String) (l : List (Option α)) : String :=
  showList (fun o => match o with | some a => f a | none => "none") l

partial def loop (h : IO.FS.Stream) (step : String → String) : IO Unit := do
  let line ← h.getLine
  if line.isEmpty then return ()
  IO.println (step (line.trimAscii.toString))
  loop h step

end Proto
