/-
  The first statement of `Debiaser.apply` / `DeltaChange.apply`, `self.__attrs_post_init__()`: the instance re-derives its helper
  objects (running windows over days of year / over years) from its settings — `refresh : σ → σ` — and THEN the location function
  of that very instance is mapped, by the serial loop or by the pool.  So a grid run depends on what the history of the instance
  (settings assigned after construction, earlier runs) left in it only through `refresh`.
  (That `apply` begins with this statement is tied to the source by the regenerated `ApplySpec.pre` of `Model/GridLoops.lean`;
  the behaviour is exercised on the real code by the call-sequence cases of `harness/c05.py`.)
-/
import IbicusModel.Model.Grid

namespace Model.Grid

/-- how the map is run: the serial loop, or the pool with chunk size `k` and completion order `sched` of the chunks -/
inductive RunMode where
  | serial : RunMode
  | pool : Nat → List Nat → RunMode

/-- `apply` on an instance in state `s0`: `self.__attrs_post_init__()`, then the map of `self.apply_location` -/
def applyRefresh {σ α ε} (refresh : σ → σ) (f : StCell σ α ε) (failsafe : Bool) (T nx ny : Nat) (s0 : σ) :
    RunMode → Except (Err ε) (Arr3 (Elem α) × σ)
  | .serial => applySerialSt f failsafe T nx ny (refresh s0)
  | .pool k sched => applyParallelSt f failsafe T nx ny (refresh s0) k sched

/-- NOT what the code does (kept for a negative example): the helper objects are re-derived on a copy which only the serial
    branch maps, the pool maps the instance itself; the instance keeps `s0` -/
def applyRefreshCopy {σ α ε} (refresh : σ → σ) (f : StCell σ α ε) (failsafe : Bool) (T nx ny : Nat) (s0 : σ) :
    RunMode → Except (Err ε) (Arr3 (Elem α) × σ)
  | .serial => (applySerialSt f failsafe T nx ny (refresh s0)).map (fun r => (r.1, s0))
  | .pool k sched => applyParallelSt f failsafe T nx ny s0 k sched

end Model.Grid
