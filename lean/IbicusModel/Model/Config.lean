import IbicusModel.Model.DebNames
/-
  Layer K: configuration of the debiasers (C15).  Hand-written model of
  `ibicus/variables.py` (`str_to_variable_class`, `map_variable_str_to_variable_class`),
  `Debiaser._from_variable`, the `from_variable` / `for_precipitation` constructors, the attrs field lists with their
  validators and converters, `__attrs_post_init__` of every debiaser (which derived attributes are (re)built from which
  settings) and the ISIMIP bound defaults / `has_*` properties.  Import-free, executable.

  All tables below are *hand-written copies*; `Gen.Config` regenerates them from the source's AST on every run and
  `Lemmas.GenConfig` proves the two equal.
-/
namespace Model.Config
open Model.DebNames

/-! ### strings: ASCII lower-casing and comparison that the kernel can evaluate -/

/-- `str.lower()` on one ASCII character -/
def lowerC (c : Char) : Char := if 'A' ≤ c ∧ c ≤ 'Z' then Char.ofNat (c.toNat + 32) else c
def upperC (c : Char) : Char := if 'a' ≤ c ∧ c ≤ 'z' then Char.ofNat (c.toNat - 32) else c

/-- `s.lower()` (as a character list) -/
def lowerName (s : String) : List Char := s.toList.map lowerC
def upperStr (s : String) : String := String.ofList (s.toList.map upperC)
/-- `s.capitalize()`-like mixed case: first letter upper, every third letter upper -/
def mixedStr (s : String) : String :=
  String.ofList (s.toList.zipIdx.map (fun p => if p.2 % 3 = 0 then upperC p.1 else p.1))

def streq (a b : String) : Bool := a.toList == b.toList
def memS (v : String) (l : List String) : Bool := l.any (streq v)
def lookupS {α} (k : String) : List (String × α) → Option α
  | [] => none
  | (k', v) :: t => if streq k k' then some v else lookupS k t

/-! ### variables -/

/-- `str_to_variable_class`: accepted (lower-case) key ↦ `Variable` object (named by its Python identifier) -/
def varKeys : List (String × String) := [
  ("hurs", "hurs"), ("pr", "pr"), ("prsn", "prsn"), ("prsnratio", "prsnratio"), ("ps", "psl"), ("psl", "psl"),
  ("rlds", "rlds"), ("rsds", "rsds"), ("sfcwind", "sfcwind"), ("tas", "tas"), ("tasmin", "tasmin"), ("tasmax", "tasmax"),
  ("tasrange", "tasrange"), ("tasskew", "tasskew")]

/-- the 14 variable names of the support matrix -/
def names : List String := varKeys.map (·.1)

structure MapVariableShape where
  lowerFirst : Bool          -- first statement: `variable_str = variable_str.lower()`
  unknownValueError : Bool   -- `if variable_str not in str_to_variable_class.keys(): raise ValueError`
  returnsLookup : Bool       -- `return str_to_variable_class.get(variable_str)`
  otherStatements : Nat
  deriving DecidableEq, Repr

def mapVariableShape : MapVariableShape := ⟨true, true, true, 0⟩

/-- `map_variable_str_to_variable_class`: `none` = `ValueError` -/
def lookupVar (name : String) : Option String :=
  (varKeys.find? (fun p => p.1.toList == lowerName name)).map (·.2)

/-! ### `_from_variable` -/

structure FromVariableShape where
  mapsStrings : Bool           -- a non-`Variable` argument goes through `map_variable_str_to_variable_class`
  defaultFirst : Bool          -- in `default_settings_variable` ⇒ those settings, no warning
  experimentalWarns : Bool     -- else in `experimental_default_setting_variable` ⇒ `warnings.warn("… experimental …")` + those settings
  otherwiseValueError : Bool   -- else `raise ValueError`
  mergeOrder : List String     -- later entries win
  deriving DecidableEq, Repr

def fromVariableShape : FromVariableShape :=
  ⟨true, true, true, true, ["variable", "reasonable_physical_range", "**default_settings_general", "**variable_settings", "**kwargs"]⟩

inductive Support | silent | experimental | valueError
  deriving DecidableEq, Repr

def defaultVars : List (String × List String) := [
  ("LinearScaling", ["tas", "pr", "tasmin", "tasmax"]),
  ("DeltaChange", ["tas", "pr", "tasmin", "tasmax"]),
  ("QuantileMapping", ["tas", "pr"]),
  ("ScaledDistributionMapping", ["tas", "pr"]),
  ("CDFt", ["tas", "pr", "tasmin", "tasmax"]),
  ("ECDFM", ["tas", "pr"]),
  ("QuantileDeltaMapping", ["tas", "pr"]),
  ("ISIMIP", ["hurs", "pr", "prsnratio", "psl", "rsds", "rlds", "sfcwind", "tas", "tasrange", "tasskew"])]

def experimentalVars : List (String × List String) := [
  ("LinearScaling", ["hurs", "psl", "rlds", "rsds", "sfcwind"]),
  ("DeltaChange", ["hurs", "psl", "rlds", "rsds", "sfcwind"]),
  ("QuantileMapping", ["hurs", "psl", "rlds", "sfcwind", "tasmin", "tasmax"]),
  ("ScaledDistributionMapping", ["tasmin", "tasmax"]),
  ("CDFt", ["hurs", "psl", "rlds", "rsds", "sfcwind", "tasrange", "tasskew"]),
  ("ECDFM", ["hurs", "psl", "rlds", "sfcwind", "tasmin", "tasmax"]),
  ("QuantileDeltaMapping", ["hurs", "psl", "rlds", "sfcwind", "tasmin", "tasmax"]),
  ("ISIMIP", [])]

def defaultsOf (d : Deb) : List String := (lookupS d.className defaultVars).getD []
def experimentalOf (d : Deb) : List String := (lookupS d.className experimentalVars).getD []

/-- the decision of `_from_variable` for a `Variable` object -/
def classify (defaults experimental : List String) (v : String) : Support :=
  if memS v defaults then .silent else if memS v experimental then .experimental else .valueError

/-- what the user passes: a name (any case) or a `Variable` object -/
inductive VarArg | name (s : String) | obj (v : String)
  deriving Repr

/-- the `Variable` object an argument stands for (`none`: unknown name ⇒ `ValueError`) -/
def resolve : VarArg → Option String
  | .name s => lookupVar s
  | .obj v => some v

/-- `D.from_variable(arg)` through the plain `_from_variable` path -/
def fromVariable (d : Deb) (a : VarArg) : Support :=
  match resolve a with
  | none => .valueError
  | some v => classify (defaultsOf d) (experimentalOf d) v

/-- what each `from_variable` does before calling `_from_variable` -/
def fromVariableBody : List (String × String) := [
  ("LinearScaling", "plain"), ("DeltaChange", "plain"), ("QuantileMapping", "plain"), ("ScaledDistributionMapping", "plain"),
  ("CDFt", "plain"), ("ECDFM", "plain"),
  ("QuantileDeltaMapping", "if isinstance(variable, str) and variable.lower() == 'pr' or variable is pr: censoring_threshold = kwargs.pop('censoring_threshold', None) if censoring_threshold is not None: return QuantileDeltaMapping.for_precipitation(censoring_threshold, **kwargs)"),
  ("ISIMIP", "plain")]

def forPrecipitation : List (String × String) := [
  ("QuantileMapping", "cls(**{**parameters, **kwargs})"),
  ("ScaledDistributionMapping", "cls.from_variable('pr', pr_lower_threshold=pr_lower_threshold, **kwargs)"),
  ("ECDFM", "cls(**{**parameters, **kwargs})"),
  ("QuantileDeltaMapping", "super()._from_variable(cls, 'pr', default_settings, censoring_threshold=censoring_threshold, distribution=distribution, **kwargs)")]

/-- `D.for_precipitation(...)`: `none` = the class has no such constructor -/
def forPrecip : Deb → Option Support
  | .quantileMapping | .ecdfm => some .silent                                              -- direct construction
  | .scaledDistributionMapping => some (fromVariable .scaledDistributionMapping (.name "pr"))   -- `cls.from_variable("pr", …)`
  | .quantileDeltaMapping => some (classify (defaultsOf .quantileDeltaMapping) [] "pr")    -- `_from_variable(cls, "pr", default_settings, …)`
  | _ => none

/-- is the argument "pr" in the sense of QDM's detour (`variable.lower() == "pr"` or `variable is pr`) -/
def isPr : VarArg → Bool
  | .name s => lowerName s == "pr".toList
  | .obj v => streq v "pr"

/-- `D.from_variable(arg, **kwargs)` including QDM's detour through `for_precipitation` when a `censoring_threshold`
    keyword (not `None`) is given -/
def fromVariableK (d : Deb) (a : VarArg) (censoringKw : Bool) : Support :=
  match d with
  | .quantileDeltaMapping => if isPr a && censoringKw then (forPrecip d).getD .valueError else fromVariable d a
  | _ => fromVariable d a

/-! ### the documented support table -/

def docColumns : List String :=
  ["LinearScaling", "DeltaChange", "QuantileMapping", "ScaledDistributionMapping", "CDFt", "ECDFM", "QuantileDeltaMapping", "ISIMIP"]

def docRows : List (String × List String) := [
  ("hurs", ["(x)", "(x)", "(x)", "", "(x)", "(x)", "(x)", "x"]),
  ("pr", ["x", "x", "x", "x", "x", "x", "x", "x"]),
  ("prsnratio", ["", "", "", "", "", "", "", "x"]),
  ("psl", ["(x)", "(x)", "(x)", "", "(x)", "(x)", "(x)", "x"]),
  ("rlds", ["(x)", "(x)", "(x)", "", "(x)", "(x)", "(x)", "x"]),
  ("rsds", ["(x)", "(x)", "", "", "(x)", "", "", "x"]),
  ("sfcWind", ["(x)", "(x)", "(x)", "", "(x)", "(x)", "(x)", "x"]),
  ("tas", ["x", "x", "x", "x", "x", "x", "x", "x"]),
  ("tasmin", ["x", "x", "(x)", "(x)", "x", "(x)", "(x)", ""]),
  ("tasmax", ["x", "x", "(x)", "(x)", "x", "(x)", "(x)", ""]),
  ("tasrange", ["", "", "", "", "(x)", "", "", "x"]),
  ("tasskew", ["", "", "", "", "(x)", "", "", "x"])]

def markSupport (m : String) : Support :=
  if streq m "x" then .silent else if streq m "(x)" then .experimental else .valueError

def columnOf (d : Deb) : Option Nat := docColumns.findIdx? (fun c => streq c d.className)

/-- what the table says for debiaser `d` and variable name `name`: the row of the variable the name stands for
    (a row label stands for a variable the same way a name does, so `ps` reads the `psl` row); no row = unsupported -/
def supportDoc (d : Deb) (name : String) : Support :=
  match lookupVar name, columnOf d with
  | some v, some c =>
      match docRows.find? (fun r => match lookupVar r.1 with | some v' => streq v v' | none => false) with
      | some r => markSupport (r.2.getD c "")
      | none => .valueError
  | _, _ => .valueError

/-! ### keyword arguments: `child_class(**{**parameters, **kwargs})` -/

def setKV {α} (a : List (String × α)) (k : String) (v : α) : List (String × α) :=
  match a with
  | [] => [(k, v)]
  | (k', v') :: t => if k' = k then (k, v) :: t else (k', v') :: setKV t k v

def getKV {α} (a : List (String × α)) (k : String) : Option α :=
  match a with
  | [] => none
  | (k', v') :: t => if k' = k then some v' else getKV t k

/-- `{**a, **b}` -/
def merge {α} (a b : List (String × α)) : List (String × α) := b.foldl (fun acc p => setKV acc p.1 p.2) a

/-- the keyword dictionary `_from_variable` builds: name and range of the Variable, then the general defaults, then the
    variable's defaults, then the caller's keyword arguments (later entries win) -/
def paramsOf {α} (name range : α) (general varSettings kwargs : List (String × α)) : List (String × α) :=
  merge (merge (merge [("variable", name), ("reasonable_physical_range", range)] general) varSettings) kwargs

def hasKey {α} (a : List (String × α)) (k : String) : Bool := a.any (fun p => p.1 == k)

/-! ### attrs fields, validators, converters -/

inductive Validator
  | instBool | instInt | instFloat | instStr | instDict | instFloatOrNone | instDistribution | instDistributionOrNone
  | gt0 | oneOf (l : List String) | custom
  deriving DecidableEq, Repr

structure Field where
  name : String
  default : Option String    -- source text of the default; `none` = required
  validators : List Validator
  converter : String         -- "", "float" or "int"
  deriving DecidableEq, Repr

/-- setting values (`other` = objects the model does not look into: distributions, dicts, lists) -/
inductive Val | none | b (x : Bool) | i (x : Int) | q (x : Rat) | s (x : String) | other (tag : String)
  | np (x : Rat)   -- a numpy scalar that is neither a Python `int` nor a Python `float` (np.int64, np.float32, np.bool_): `float()` and
                   -- `int()` convert it, `isinstance(_, int | float | bool)` is false (np.float64 *is* a `float` and is encoded as `q`)
  deriving DecidableEq, Repr

/-- a validator's verdict: `none` = passes, `some cls` = the exception class attrs raises -/
def checkVal : Validator → Val → Option String
  | .instBool, .b _ => none
  | .instBool, _ => some "TypeError"
  | .instInt, .i _ => none
  | .instInt, .b _ => none                      -- `isinstance(True, int)`
  | .instInt, _ => some "TypeError"
  | .instFloat, .q _ => none
  | .instFloat, _ => some "TypeError"           -- an int is not a float
  | .instStr, .s _ => none
  | .instStr, _ => some "TypeError"
  | .instDict, .other t => if streq t "dict" then none else some "TypeError"
  | .instDict, _ => some "TypeError"
  | .instFloatOrNone, .q _ => none
  | .instFloatOrNone, .none => none
  | .instFloatOrNone, _ => some "TypeError"
  | .instDistribution, .other t => if streq t "distribution" then none else some "TypeError"
  | .instDistribution, _ => some "TypeError"
  | .instDistributionOrNone, .other t => if streq t "distribution" then none else some "TypeError"
  | .instDistributionOrNone, .none => none
  | .instDistributionOrNone, _ => some "TypeError"
  | .gt0, .i x => if x > 0 then none else some "ValueError"
  | .gt0, .b x => if x then none else some "ValueError"
  | .gt0, .q x => if x > 0 then none else some "ValueError"
  | .gt0, .np x => if x > 0 then none else some "ValueError"
  | .gt0, _ => some "TypeError"
  | .oneOf l, .s x => if memS x l then none else some "ValueError"
  | .oneOf _, _ => some "ValueError"
  | .custom, _ => none                          -- not modelled (reasonable_physical_range)

/-- attrs converters run before the validators -/
def truncQ (x : Rat) : Int := if x < 0 then -((-x).floor) else x.floor

def convertVal (conv : String) (v : Val) : Except String Val :=
  if streq conv "float" then
    match v with
    | .q x => .ok (.q x)
    | .np x => .ok (.q x)
    | .i x => .ok (.q x)
    | .b x => .ok (.q (if x then 1 else 0))
    | .s _ => .error "ValueError"
    | _ => .error "TypeError"
  else if streq conv "int" then
    match v with
    | .i x => .ok (.i x)
    | .b x => .ok (.i (if x then 1 else 0))
    | .q x => .ok (.i (truncQ x))
    | .np x => .ok (.i (truncQ x))
    | .s _ => .error "ValueError"
    | _ => .error "TypeError"
  else .ok v

/-- first failing validator of a field, in order -/
def firstFailure : List Validator → Val → Option String
  | [], _ => none
  | v :: t, x => match checkVal v x with
      | some e => some e
      | none => firstFailure t x

/-- convert + validate one explicitly given value of a field -/
def checkField (f : Field) (x : Val) : Except String Val :=
  match convertVal f.converter x with
  | .error e => .error e
  | .ok y => match firstFailure f.validators y with
      | some e => .error e
      | none => .ok y

/-- attrs `__init__`: convert + validate every field, in field order (`args` lists the value of every field, defaults
    filled in); the first failure is the exception raised -/
def validateAll : List Field → List (String × Val) → Except String (List (String × Val))
  | [], _ => .ok []
  | f :: fs, args =>
      match getKV args f.name with
      | none => .error "TypeError"
      | some x =>
        match checkField f x with
        | .error e => .error e
        | .ok y =>
          match validateAll fs args with
          | .error e => .error e
          | .ok r => .ok ((f.name, y) :: r)

def rw3 : List Field := [
  ⟨"running_window_mode", some "False", [.instBool], ""⟩,
  ⟨"running_window_length", some "31", [.instInt, .gt0], ""⟩,
  ⟨"running_window_step_length", some "1", [.instInt, .gt0], ""⟩]

def ecdfMethods : List String := ["kernel_density", "linear_interpolation", "step_function"]
def iecdfMethods : List String :=
  ["inverted_cdf", "averaged_inverted_cdf", "closest_observation", "interpolated_inverted_cdf", "hazen", "weibull", "linear", "median_unbiased", "normal_unbiased"]

def base2 : List Field := [
  ⟨"variable", some "'unknown'", [.instStr], ""⟩,
  ⟨"reasonable_physical_range", some "None", [.custom], ""⟩]

/-- resolved attrs field list of every debiaser -/
def fields : List (String × List Field) := [
  ("LinearScaling", base2 ++ rw3 ++ [⟨"delta_type", none, [.oneOf ["additive", "multiplicative"]], ""⟩]),
  ("DeltaChange", base2 ++ [⟨"delta_type", none, [.oneOf ["additive", "multiplicative"]], ""⟩] ++ rw3),
  ("QuantileMapping", base2 ++ rw3 ++ [
    ⟨"distribution", some "None", [.instDistributionOrNone], ""⟩,
    ⟨"mapping_type", some "'nonparametric'", [.oneOf ["parametric", "nonparametric"]], ""⟩,
    ⟨"detrending", some "'no_detrending'", [.oneOf ["additive", "multiplicative", "no_detrending"]], ""⟩,
    ⟨"cdf_threshold", some "1e-10", [.instFloat], ""⟩]),
  ("ScaledDistributionMapping", base2 ++ [
    ⟨"distribution", none, [.instDistribution], ""⟩,
    ⟨"mapping_type", none, [.oneOf ["absolute", "relative"]], ""⟩,
    ⟨"pr_lower_threshold", some "0.1 / 86400", [.instFloat], ""⟩,
    ⟨"distribution_fit_kwargs", some "{}", [.instDict], ""⟩,
    ⟨"cdf_threshold", some "1e-10", [.instFloat], ""⟩,
    ⟨"running_window_mode", some "False", [.instBool], ""⟩,
    ⟨"running_window_length", some "91", [.instInt, .gt0], ""⟩,
    ⟨"running_window_step_length", some "1", [.instInt, .gt0], ""⟩]),
  ("CDFt", base2 ++ [
    ⟨"SSR", some "False", [.instBool], ""⟩,
    ⟨"delta_shift", some "'additive'", [.oneOf ["additive", "multiplicative", "no_shift"]], ""⟩,
    ⟨"apply_by_month", some "True", [.instBool], ""⟩,
    ⟨"running_window_mode", some "True", [.instBool], ""⟩,
    ⟨"running_window_length", some "31", [.instInt, .gt0], ""⟩,
    ⟨"running_window_step_length", some "31", [.instInt, .gt0], ""⟩,
    ⟨"running_window_mode_over_years_of_cm_future", some "True", [.instBool], ""⟩,
    ⟨"running_window_over_years_of_cm_future_length", some "17", [.instInt], ""⟩,
    ⟨"running_window_over_years_of_cm_future_step_length", some "9", [.instInt], ""⟩,
    ⟨"ecdf_method", some "'linear_interpolation'", [.oneOf ecdfMethods], ""⟩,
    ⟨"iecdf_method", some "'linear'", [.oneOf iecdfMethods], ""⟩]),
  ("ECDFM", base2 ++ [
    ⟨"distribution", none, [.instDistribution], ""⟩,
    ⟨"cdf_threshold", some "1e-10", [.instFloat], ""⟩,
    ⟨"running_window_mode", some "False", [.instBool], ""⟩,
    ⟨"running_window_length", some "91", [.instInt, .gt0], ""⟩,
    ⟨"running_window_step_length", some "1", [.instInt, .gt0], ""⟩]),
  ("QuantileDeltaMapping", base2 ++ [
    ⟨"distribution", none, [.instDistribution], ""⟩,
    ⟨"trend_preservation", none, [.oneOf ["absolute", "relative"]], ""⟩,
    ⟨"censor_values_to_zero", some "False", [.instBool], ""⟩,
    ⟨"censoring_threshold", some "0.05 / 86400", [.instFloat], "float"⟩,
    ⟨"running_window_mode", some "True", [.instBool], ""⟩,
    ⟨"running_window_length", some "91", [.instInt, .gt0], ""⟩,
    ⟨"running_window_step_length", some "31", [.instInt, .gt0], ""⟩,
    ⟨"running_window_mode_over_years_of_cm_future", some "True", [.instBool], ""⟩,
    ⟨"running_window_over_years_of_cm_future_length", some "31", [.instInt, .gt0], ""⟩,
    ⟨"running_window_over_years_of_cm_future_step_length", some "1", [.instInt, .gt0], ""⟩,
    ⟨"ecdf_method", some "'linear_interpolation'", [.oneOf ecdfMethods], ""⟩,
    ⟨"cdf_threshold", some "None", [.instFloatOrNone], ""⟩]),
  ("ISIMIP", base2 ++ [
    ⟨"trend_preservation_method", none, [.oneOf ["additive", "multiplicative", "mixed", "bounded"]], ""⟩,
    ⟨"distribution", none, [.instDistributionOrNone], ""⟩,
    ⟨"nonparametric_qm", none, [.instBool], ""⟩,
    ⟨"detrending", none, [.instBool], ""⟩,
    ⟨"lower_bound", some "-np.inf", [.instFloat], "float"⟩,
    ⟨"lower_threshold", some "-np.inf", [.instFloat], "float"⟩,
    ⟨"upper_bound", some "np.inf", [.instFloat], "float"⟩,
    ⟨"upper_threshold", some "np.inf", [.instFloat], "float"⟩,
    ⟨"scale_by_annual_cycle_of_upper_bounds", some "False", [.instBool], ""⟩,
    ⟨"window_length_annual_cycle_of_upper_bounds", some "31", [.instInt], "int"⟩,
    ⟨"impute_missing_values", some "False", [.instBool], ""⟩,
    ⟨"detrending_with_significance_test", some "True", [.instBool], ""⟩,
    ⟨"trend_transfer_only_for_values_within_threshold", some "True", [.instBool], ""⟩,
    ⟨"bias_correct_frequencies_of_values_beyond_thresholds", some "True", [.instBool], ""⟩,
    ⟨"event_likelihood_adjustment", some "False", [.instBool], ""⟩,
    ⟨"ks_test_for_goodness_of_cdf_fit", some "True", [.instBool], ""⟩,
    ⟨"ecdf_method", some "'linear_interpolation'", [.oneOf ecdfMethods], ""⟩,
    ⟨"iecdf_method", some "'linear'", [.oneOf iecdfMethods], ""⟩,
    ⟨"mode_non_parametric_qm", some "'normal'", [.oneOf ["normal", "isimipv3.0"]], ""⟩,
    ⟨"running_window_mode", some "True", [.instBool], ""⟩,
    ⟨"running_window_length", some "31", [.instInt, .gt0], ""⟩,
    ⟨"running_window_step_length", some "1", [.instInt, .gt0], ""⟩])]

def fieldsOf (d : Deb) : List Field := (lookupS d.className fields).getD []
def fieldOf (d : Deb) (name : String) : Option Field := (fieldsOf d).find? (fun f => streq f.name name)

/-! ### instance state: settings (attrs fields) and derived attributes -/

/-- a derived attribute: the class it is an instance of and the setting values it was built from -/
structure Built where
  cls : String
  args : List Val
  deriving DecidableEq, Repr

/-- an instance: the attrs fields and the derived (non-field) attributes; `extra t = none` = attribute absent -/
structure Inst where
  fields : List (String × Val)
  extra : String → Option Built

/-- one statement of an `__attrs_post_init__` -/
inductive Rule
  | raiseIfGt (a b : String)                                    -- `if self.a > self.b: raise ValueError`
  | build (target flag : String) (sources : List String) (cls : String)   -- `if self.flag: self.target = cls(self.s₁, …)`
  | fillNone (target a b : String)                              -- `if self.target is None: self.target = 1 / (self.a * self.b + 1)`
  | raiseIfNoneAndNot (a flag : String)                         -- `if self.a is None and not self.flag: raise ValueError`
  deriving DecidableEq, Repr

def rwRules : List Rule := [
  .raiseIfGt "running_window_step_length" "running_window_length",
  .build "running_window" "running_window_mode" ["running_window_length", "running_window_step_length"] "RunningWindowOverDaysOfYear"]

def yearRule : Rule :=
  .build "running_window_over_years_of_cm_future" "running_window_mode_over_years_of_cm_future"
    ["running_window_over_years_of_cm_future_length", "running_window_over_years_of_cm_future_step_length"] "RunningWindowOverYears"

/-- `__attrs_post_init__` of every debiaser, `super()` calls inlined -/
def postInit : List (String × List Rule) := [
  ("LinearScaling", rwRules),
  ("DeltaChange", [.build "running_window" "running_window_mode" ["running_window_length", "running_window_step_length"] "RunningWindowOverDaysOfYear"]),
  ("QuantileMapping", rwRules),
  ("ScaledDistributionMapping", rwRules),
  ("CDFt", rwRules ++ [yearRule]),
  ("ECDFM", rwRules),
  ("QuantileDeltaMapping", rwRules ++ [yearRule, .fillNone "cdf_threshold" "running_window_length" "running_window_over_years_of_cm_future_length"]),
  ("ISIMIP", [.build "running_window" "running_window_mode" ["running_window_length", "running_window_step_length"] "RunningWindowOverDaysOfYear",
              .raiseIfNoneAndNot "distribution" "nonparametric_qm"])]

def rulesOf (d : Deb) : List Rule := (lookupS d.className postInit).getD []

/-- which `apply` methods start with `self.__attrs_post_init__()` -/
def applyRederives : List (String × Bool) := [("Debiaser", true), ("DeltaChange", true)]

def get (f : List (String × Val)) (k : String) : Val := (getKV f k).getD .none

def setExtra (e : String → Option Built) (t : String) (v : Built) : String → Option Built :=
  fun k => if k = t then some v else e k

/-- a rule that only validates or (re)builds a non-field attribute from the fields -/
def Rule.isPure : Rule → Bool
  | .fillNone _ _ _ => false
  | _ => true

/-- "make it odd" of both running-window classes -/
def normOdd (n : Int) : Int := if n % 2 = 0 then n + 1 else n

/-- constructing a `RunningWindowOverDaysOfYear` / `RunningWindowOverYears` from `(length, step)`: both must be positive
    integers (their own attrs validators) and, after the "make it odd" normalisation, `step ≤ length` (their `__attrs_post_init__`) -/
def buildCheck : List Val → Except String Unit
  | [.i l, .i s] => if l ≤ 0 ∨ s ≤ 0 then .error "ValueError" else if normOdd s > normOdd l then .error "ValueError" else .ok ()
  | _ => .error "TypeError"

/-- the validation part of a rule (on the fields alone); type confusion is a `TypeError` as in Python -/
def checkRule (r : Rule) (f : List (String × Val)) : Except String Unit :=
  match r with
  | .raiseIfGt a b => match get f a, get f b with
      | .i x, .i y => if x > y then .error "ValueError" else .ok ()
      | _, _ => .error "TypeError"
  | .build _ flag sources _ => match get f flag with
      | .b true => buildCheck (sources.map (get f))
      | .b false => .ok ()
      | _ => .error "TypeError"
  | .fillNone target a b => match get f target with
      | .none => (match get f a, get f b with
          | .i _, .i _ => .ok ()
          | _, _ => .error "TypeError")
      | _ => .ok ()
  | .raiseIfNoneAndNot a flag => match get f a, get f flag with
      | .none, .b false => .error "ValueError"
      | _, _ => .ok ()

def deriveStep (r : Rule) (i : Inst) : Except String Inst :=
  match checkRule r i.fields with
  | .error e => .error e
  | .ok () =>
    match r with
    | .build target flag sources cls =>
        if get i.fields flag = .b true then
          .ok { i with extra := setExtra i.extra target ⟨cls, sources.map (get i.fields)⟩ }
        else .ok i
    | .fillNone target a b =>
        (match get i.fields target, get i.fields a, get i.fields b with
         | .none, .i x, .i y => .ok { i with fields := setKV i.fields target (.q (1 / ((x * y + 1 : Int) : Rat))) }
         | _, _, _ => .ok i)
    | _ => .ok i

/-- `__attrs_post_init__` -/
def derive : List Rule → Inst → Except String Inst
  | [], i => .ok i
  | r :: rs, i => match deriveStep r i with
      | .error e => .error e
      | .ok j => derive rs j

def noExtra : String → Option Built := fun _ => none

/-- construction from validated field values: `__init__` then `__attrs_post_init__` -/
def construct (rs : List Rule) (base : List (String × Val)) : Except String Inst := derive rs ⟨base, noExtra⟩

/-- `inst.k = v` (attribute assignment of a field; validators as at construction are applied by the caller) -/
def assign (i : Inst) (k : String) (v : Val) : Inst := { i with fields := setKV i.fields k v }

/-- `inst.k = x` as attrs performs it (`on_setattr` of `attrs.define` defaults to convert + validate): the field's converter
    and validators run exactly as in `__init__`; an attribute that is not a field is just set (not modelled here) -/
def assignChecked (d : Deb) (i : Inst) (k : String) (x : Val) : Except String Inst :=
  match fieldOf d k with
  | none => .error "not-a-field"
  | some f => match checkField f x with
      | .error e => .error e
      | .ok y => .ok (assign i k y)

/-- options of the `@attrs.define(...)` decorator of every class in the debiaser hierarchy (no `on_setattr` override anywhere) -/
def defineOptions : List (String × List String) := [
  ("Debiaser", ["slots=False", "kw_only=True"]), ("RunningWindowDebiaser", ["slots=False", "kw_only=True"]),
  ("LinearScaling", ["slots=False"]), ("DeltaChange", ["slots=False"]), ("QuantileMapping", ["slots=False"]),
  ("ScaledDistributionMapping", ["slots=False"]), ("CDFt", ["slots=False"]), ("ECDFM", ["slots=False"]),
  ("QuantileDeltaMapping", ["slots=False"]), ("ISIMIP", ["slots=False"])]

/-- the derived attributes the run reads: for every `build` rule whose flag is on, the attribute must exist -/
def activeExtra : List Rule → Inst → Except String (List (String × Built))
  | [], _ => .ok []
  | .build target flag _ _ :: rs, i =>
      if get i.fields flag = .b true then
        match i.extra target with
        | none => .error "AttributeError"
        | some v => (match activeExtra rs i with
            | .error e => .error e
            | .ok l => .ok ((target, v) :: l))
      else activeExtra rs i
  | _ :: rs, i => activeExtra rs i

/-- what a run of the debiaser can depend on: the fields and the active derived attributes -/
abbrev View := List (String × Val) × List (String × Built)

def view (rs : List Rule) (i : Inst) : Except String View :=
  match activeExtra rs i with
  | .error e => .error e
  | .ok l => .ok (i.fields, l)

/-- `apply`: (re-derive if the method starts with `__attrs_post_init__()`), then run on what the run can see -/
def applyView (rs : List Rule) (rederive : Bool) (i : Inst) : Except String View :=
  if rederive then
    match derive rs i with
    | .error e => .error e
    | .ok j => view rs j
  else view rs i

/-- what a user does to an instance between construction and the last `apply` -/
inductive Op | assign (k : String) (v : Val) | apply
  deriving DecidableEq, Repr

/-- `apply` re-derives *in place* (the instance keeps the rebuilt attributes); an assignment changes one field -/
def stepOp (rs : List Rule) (i : Inst) : Op → Except String Inst
  | .assign k v => .ok (assign i k v)
  | .apply => derive rs i

def runOps (rs : List Rule) : Inst → List Op → Except String Inst
  | i, [] => .ok i
  | i, o :: os => match stepOp rs i o with
      | .error e => .error e
      | .ok j => runOps rs j os

/-- the fields after a history: only the assignments matter -/
def fieldsAfter : List (String × Val) → List Op → List (String × Val)
  | f, [] => f
  | f, .assign k v :: os => fieldsAfter (setKV f k v) os
  | f, .apply :: os => fieldsAfter f os

/-- sequencing: construction may fail -/
def andThen {β} (c : Except String Inst) (g : Inst → Except String β) : Except String β :=
  match c with
  | .error e => .error e
  | .ok i => g i

/-! ### ISIMIP bounds over the extended reals -/

inductive ExtRat | negInf | fin (q : Rat) | posInf
  deriving DecidableEq, Repr

def ExtRat.neg : ExtRat → ExtRat
  | .negInf => .posInf
  | .fin q => .fin (-q)
  | .posInf => .negInf

def ExtRat.lt : ExtRat → ExtRat → Bool
  | .negInf, .negInf => false
  | .negInf, _ => true
  | .fin _, .negInf => false
  | .fin a, .fin b => decide (a < b)
  | .fin _, .posInf => true
  | .posInf, _ => false

def ExtRat.gt (a b : ExtRat) : Bool := ExtRat.lt b a
def ExtRat.le (a b : ExtRat) : Bool := !(ExtRat.lt b a)
def ExtRat.ge (a b : ExtRat) : Bool := !(ExtRat.lt a b)

def isimipDefaults : List (String × ExtRat) :=
  [("lower_bound", .negInf), ("lower_threshold", .negInf), ("upper_bound", .posInf), ("upper_threshold", .posInf)]

def isimipDocDefaults : List (String × ExtRat) :=
  [("lower_bound", .negInf), ("lower_threshold", .negInf), ("upper_bound", .posInf), ("upper_threshold", .posInf)]

def hasLowerThreshold (_lb lt _ub _ut : ExtRat) : Bool := ExtRat.gt lt .negInf
def hasLowerBound (lb _lt _ub _ut : ExtRat) : Bool := ExtRat.gt lb .negInf
def hasUpperThreshold (_lb _lt _ub ut : ExtRat) : Bool := ExtRat.lt ut .posInf
def hasUpperBound (_lb _lt ub _ut : ExtRat) : Bool := ExtRat.lt ub .posInf
def hasBound (lb lt ub ut : ExtRat) : Bool := hasUpperBound lb lt ub ut || hasLowerBound lb lt ub ut
def hasThreshold (lb lt ub ut : ExtRat) : Bool := hasUpperThreshold lb lt ub ut || hasLowerThreshold lb lt ub ut

/-- the four bound attributes of an ISIMIP instance built without bounds -/
def boundOf (tbl : List (String × ExtRat)) (k : String) : Option ExtRat := lookupS k tbl

/-- full construction: attrs validation of every field, then `__attrs_post_init__` -/
def constructChecked (d : Deb) (args : List (String × Val)) : Except String Inst :=
  match validateAll (fieldsOf d) args with
  | .error e => .error e
  | .ok a => derive (rulesOf d) ⟨a, noExtra⟩

end Model.Config
