/-
  Layer K/N (C10): one `ISIMIP` object used several times with its public attributes re-assigned in between
  (`debiaser.lower_threshold = …`, `debiaser.distribution = …`, `debiaser.nonparametric_qm = …`).
  The specification is cache-free: an apply reads the attributes as they are at that apply.
  `Assign` = one block of re-assignments (`none` = attribute left alone); `cfgAfter` folds the blocks; `run` is the
  session: a list of operations on the object, every apply recorded with the settings it ran with.
  Import-free (Model/ only), executable.  Tie: driver op `assigncfg` (the settings after the re-assignments, compared
  with the real object's attributes) + op `window` at those settings (compared with the real second / third apply).
-/
import IbicusModel.Model.Isimip

namespace Model.IsimipSession
open Model.Isimip

/-- one block of attribute re-assignments (`distribution` is visible to `_apply_on_window` through the family and
    through `riceOrWeibull`, the outcome of the type test in step 6) -/
structure Assign where
  lowerBound : Option ExtRat := none
  lowerThreshold : Option ExtRat := none
  upperBound : Option ExtRat := none
  upperThreshold : Option ExtRat := none
  nonparametricQm : Option Bool := none
  riceOrWeibull : Option Bool := none
  family : Option IsiFamily := none

/-- the attributes after the block -/
def Assign.on (a : Assign) (c : Cfg) : Cfg :=
  { c with lowerBound := a.lowerBound.getD c.lowerBound, lowerThreshold := a.lowerThreshold.getD c.lowerThreshold,
           upperBound := a.upperBound.getD c.upperBound, upperThreshold := a.upperThreshold.getD c.upperThreshold,
           nonparametricQm := a.nonparametricQm.getD c.nonparametricQm, riceOrWeibull := a.riceOrWeibull.getD c.riceOrWeibull }

def Assign.fam (a : Assign) (f : IsiFamily) : IsiFamily := a.family.getD f

/-- the settings after a list of blocks, applied in order -/
def cfgAfter (c : Cfg) (as : List Assign) : Cfg := as.foldl (fun c a => a.on c) c

/-- the inputs of one `_apply_on_window` call (with the oracles / draws of that call) -/
structure Call where
  o : Oracles
  d : Draws
  obs : List Rat
  H : List Rat
  F : List Rat
  yO : List Int := []
  yH : List Int := []
  yF : List Int := []

inductive Op where
  | assign (a : Assign)
  | apply (x : Call)

/-- what one apply of the session did: the settings and family it ran with, its inputs, its result -/
structure Applied where
  cfg : Cfg
  fam : IsiFamily
  call : Call
  result : Except String (List Rat)

/-- the session: an apply uses the settings current at that apply -/
def run : Cfg → IsiFamily → List Op → List Applied
  | _, _, [] => []
  | c, f, .assign a :: t => run (a.on c) (a.fam f) t
  | c, f, .apply x :: t =>
    { cfg := c, fam := f, call := x, result := applyOnWindow c f x.o x.d x.obs x.H x.F x.yO x.yH x.yF } :: run c f t

end Model.IsimipSession
