/-
  Layer N: bias and trend evaluation (`ibicus/evaluate/{marginal,trend,multivariate,correlation}.py`, property C20).

  **Per-location reading.**  Every dataset argument is ONE location's column of the `[time, i, j]` array
  (a `List Rat` over time); `np.mean(x, axis=0)`, `np.quantile(x, q, axis=0)`, the exceedance probability of a metric
  are per-location scalars.  The statistics that are not formulas of these modules are *parameters*
  (`Q : List Rat → Rat → Rat` for `np.quantile`, `P : List Rat → List Int → Rat` for
  `metric.calculate_exceedance_probability(x, time=t)`, `I` for the 0/1 instances, `yearOf` for `year(time)`), so every
  theorem holds for all of them.  How numpy spreads the per-location code over a grid (in particular the
  `np.all(… != 0)` guards of the multiplicative trends, which are decided for the whole grid) is `gridEval`.

  **Division is partial** (`Py.divE`): where the real code divides by zero numpy yields inf/NaN (and the public
  functions drop the row when an `inf` occurs); the model returns the error `"div0"`.  Python exceptions are the errors
  `"ValueError"`, `"ZeroDivisionError"`, `"UnboundLocalError"`.
-/
import IbicusModel.Model.Py

namespace Model.Evaluate
open Py (divE)

/-! ### marginal bias (`marginal.py`) -/

/-- percentage bias `100 * (cm − obs) / obs` -/
def pctBias (cm obs : Rat) : Except String Rat := divE (100 * (cm - obs)) obs

/-- absolute bias `cm − obs` -/
def absBias (cm obs : Rat) : Rat := cm - obs

/-- the `bias_type` dispatch of `_marginal_mean_bias` / `_marginal_quantile_bias` (two independent `if`s: any other
    string leaves the local unbound) -/
def marginalBias (biasType : String) (cm obs : Rat) : Except String Rat :=
  if biasType = "percentage" then pctBias cm obs
  else if biasType = "absolute" then .ok (absBias cm obs)
  else .error "UnboundLocalError"

/-- `_marginal_mean_bias(obs_data, cm_data, bias_type)` -/
def marginalMeanBias (obs cm : List Rat) (biasType : String) : Except String Rat :=
  marginalBias biasType (Py.mean cm) (Py.mean obs)

/-- `_marginal_quantile_bias(quantile, obs_data, cm_data, bias_type)` -/
def marginalQuantileBias (Q : List Rat → Rat → Rat) (q : Rat) (obs cm : List Rat) (biasType : String) : Except String Rat :=
  if q < 0 ∨ q > 1 then .error "ValueError" else marginalBias biasType (Q cm q) (Q obs q)

/-- `_marginal_metrics_bias(metric, obs_data, cm_data, time_obs_data, time_cm_data)` -/
def marginalMetricsBias (P : List Rat → List Int → Rat) (obs cm : List Rat) (tObs tCm : List Int) : Except String Rat :=
  pctBias (P cm tCm) (P obs tObs)

/-- `_marginal_metrics_absolute_bias`: difference in days per year -/
def marginalMetricsAbsoluteBias (P : List Rat → List Int → Rat) (obs cm : List Rat) (tObs tCm : List Int) : Rat :=
  365 * P cm tCm - 365 * P obs tObs

/-! ### trends (`trend.py`) -/

/-- trend of one statistic between the validation and the future period.  `guarded`: the quantile / metric paths
    raise `ZeroDivisionError` when the validation statistic is 0; the mean path divides without a guard. -/
def trend (guarded : Bool) (tt : String) (val fut : Rat) : Except String Rat :=
  if tt = "additive" then .ok (fut - val)
  else if tt = "multiplicative" then
    (if guarded = true ∧ val = 0 then .error "ZeroDivisionError" else divE fut val)
  else .error "ValueError"

/-- trend bias `100 * (bc_trend − raw_trend) / raw_trend`; in the guarded paths *both* validation statistics are
    tested before anything is divided -/
def trendBias (guarded : Bool) (tt : String) (rawV rawF bcV bcF : Rat) : Except String Rat :=
  if tt = "additive" then pctBias (bcF - bcV) (rawF - rawV)
  else if tt = "multiplicative" then
    (if guarded = true ∧ (bcV = 0 ∨ rawV = 0) then .error "ZeroDivisionError"
     else
      match divE bcF bcV with
      | .error e => .error e
      | .ok b =>
        match divE rawF rawV with
        | .error e => .error e
        | .ok r => pctBias b r)
  else .error "ValueError"

def meanTrendBias (tt : String) (rawV rawF bcV bcF : List Rat) : Except String Rat :=
  trendBias false tt (Py.mean rawV) (Py.mean rawF) (Py.mean bcV) (Py.mean bcF)

def meanTrend (tt : String) (bcV bcF : List Rat) : Except String Rat := trend false tt (Py.mean bcV) (Py.mean bcF)

def quantileTrendBias (Q : List Rat → Rat → Rat) (tt : String) (q : Rat) (rawV rawF bcV bcF : List Rat) : Except String Rat :=
  trendBias true tt (Q rawV q) (Q rawF q) (Q bcV q) (Q bcF q)

def quantileTrend (Q : List Rat → Rat → Rat) (tt : String) (q : Rat) (bcV bcF : List Rat) : Except String Rat :=
  trend true tt (Q bcV q) (Q bcF q)

def metricsTrendBias (P : List Rat → List Int → Rat) (tt : String) (rawV rawF bcV bcF : List Rat) (tV tF : List Int) :
    Except String Rat :=
  trendBias true tt (P rawV tV) (P rawF tF) (P bcV tV) (P bcF tF)

def metricsTrend (P : List Rat → List Int → Rat) (tt : String) (bcV bcF : List Rat) (tV tF : List Int) : Except String Rat :=
  trend true tt (P bcV tV) (P bcF tF)

/-! ### yearly exceedances (`marginal.py`) -/

/-- sums of consecutive blocks of the given lengths (`counts`), the last block taking whatever is left — what
    `np.split(x, cumsum(counts)[:-1])` followed by the per-section sum computes -/
def blockSums : List Int → List Int → List Int
  | [], x => [x.sum]
  | [_], x => [x.sum]
  | c :: c' :: cs, x => (x.take c.toNat).sum :: blockSums (c' :: cs) (x.drop c.toNat)

/-- `_yearly_exceedances` on one column: `years = year(time)`, `inst` = the 0/1 instances in time order -/
def yearlyExceedances (years inst : List Int) : List Int :=
  ((Py.splitAtIdx inst (Py.cumsum (Py.uniqueCounts years)).dropLast)).map List.sum

/-- `_mean_yearly_exceedances` -/
def meanYearlyExceedances (years inst : List Int) : Rat :=
  Py.mean ((yearlyExceedances years inst).map (fun (z : Int) => (z : Rat)))

/-- the split indices of the code before repair 7cffa2c:
    `[counts[0]] ++ [sum(counts[0:i+2]) for i in range(len(counts) − 2)]` -/
def legacyIndex (counts : List Int) : List Int :=
  counts.headD 0 :: (List.range (counts.length - 2)).map (fun i => (counts.take (i + 2)).sum)

def legacyYearlyExceedances (years inst : List Int) : List Int :=
  ((Py.splitAtIdx inst (legacyIndex (Py.uniqueCounts years)))).map List.sum

/-! ### conditional joint exceedance (`multivariate.py`) -/

/-- number of co-occurrences as `_calculate_chi` counts them: zeros of the first instance array are replaced by 2,
    then positions where the two arrays are equal are counted -/
def cooccurrence (i1 i2 : List Int) : Int :=
  ((List.zipWith (fun a b => decide (a = b)) (i1.map (fun v => if v = 0 then 2 else v)) i2).map
    (fun b => if b then (1 : Int) else 0)).sum

/-- `_calculate_chi` on one column of 0/1 instances -/
def chi (i1 i2 : List Int) : Except String Rat :=
  if i2.sum = 0 then .error "ValueError" else divE ((cooccurrence i1 i2 : Int) : Rat) ((i2.sum : Int) : Rat)

/-! ### how numpy spreads the per-location code over a grid -/

/-- the errors that are Python exceptions (they abort the whole call); `"div0"` is not one (inf/NaN at that location) -/
def isRaise (r : Except String Rat) : Bool :=
  match r with
  | .error e => e != "div0"
  | .ok _ => false

/-- Grid-level result of a function whose per-location reading is `f`: the trend type / quantile checks are global and
    the multiplicative guards are `np.all` over the locations, so one location that raises aborts the call (with the
    first such error in row-major order); otherwise every location carries its own value (`"div0"` = non-finite there). -/
def gridEval {κ} (cells : List κ) (f : κ → Except String Rat) : Except String (List (κ × Except String Rat)) :=
  match cells.find? (fun c => isRaise (f c)) with
  | some c => (match f c with | .error e => .error e | .ok _ => .error "unreachable")
  | none => .ok (cells.map (fun c => (c, f c)))

/-! ### RMSE between correlation maps (`correlation.py`) -/

/-- `sklearn.metrics.mean_squared_error` of two flattened maps of equal size -/
def mse (a b : List Rat) : Except String Rat :=
  divE ((List.zipWith (fun x y => (x - y) * (x - y)) a b).sum) (a.length : Rat)

/-- `math.sqrt(mean_squared_error(..))`, the square root being a parameter -/
def rmse (sqrt : Rat → Rat) (a b : List Rat) : Except String Rat := (mse a b).map sqrt

/-- for the correspondence: covariance and variances (× n², exact), from which the harness forms
    `r = cov / sqrt(var_x var_y)` in floating point -/
def cov (x y : List Rat) : Rat :=
  (x.length : Rat) * (List.zipWith (· * ·) x y).sum - x.sum * y.sum

/-! ### a simple threshold metric (executable stand-in for `ThresholdMetric`, overall / global thresholds) -/

inductive Metric where
  | higher (t : Rat) | lower (t : Rat) | between (a b : Rat) | outside (a b : Rat)

def Metric.holds : Metric → Rat → Bool
  | .higher t, x => decide (x > t)
  | .lower t, x => decide (x < t)
  | .between a b, x => decide (x > a) && decide (x < b)
  | .outside a b, x => decide (x < a) || decide (x > b)

/-- `calculate_instances_of_threshold_exceedance` -/
def Metric.instances (m : Metric) (x : List Rat) : List Int := x.map (fun v => if m.holds v then 1 else 0)

/-- `calculate_exceedance_probability`: `einsum("ijk -> jk", inst) / inst.shape[0]` (at least one time step) -/
def Metric.prob (m : Metric) (x : List Rat) : Rat := (((m.instances x).sum : Int) : Rat) / (x.length : Rat)

/-! ### what the public functions report -/

/-- `calculate_conditional_joint_threshold_exceedance`: `_calculate_chi(...) * 100` (percent) -/
def chiPercent (i1 i2 : List Int) : Except String Rat := (chi i1 i2).map (· * 100)

/-- `calculate_bias_days_metrics`, one location: the columns `CM`, `Obs`, `Bias = CM − Obs` (mean exceedance days per year) -/
def daysMetrics (yearsCm instCm yearsObs instObs : List Int) : Rat × Rat × Rat :=
  let c := meanYearlyExceedances yearsCm instCm
  let o := meanYearlyExceedances yearsObs instObs
  (c, o, c - o)

/-- **Row order of the result frames**: one block per debiaser (keyword order of `**cm_data` / `**debiased_cms`), inside a
    block one row per entry of `statistics` followed by `metrics`, in list order.  `val k j` is the quantity of entry `j`
    for debiaser `k`; the label (`"Mean"`, `"0.05 qn"`, `metric.name`) is only copied into the row. -/
def frameRows {κ ν} (keys : List κ) (n : Nat) (label : Nat → String) (val : κ → Nat → ν) : List (κ × String × ν) :=
  keys.flatMap (fun k => (List.range n).map (fun j => (k, label j, val k j)))

/-- the documented default arguments of the public functions (parameter, default as Python source text) -/
def documentedDefaults : List (String × String × String) :=
  [("calculate_marginal_bias", "statistics", "['mean', 0.05, 0.95]"),
   ("calculate_marginal_bias", "metrics", "[]"),
   ("calculate_marginal_bias", "percentage_or_absolute", "'percentage'"),
   ("calculate_bias_days_metrics", "metrics", "[]"),
   ("calculate_future_trend_bias", "statistics", "['mean', 0.05, 0.95]"),
   ("calculate_future_trend_bias", "trend_type", "'additive'"),
   ("calculate_future_trend_bias", "metrics", "[]"),
   ("calculate_future_trend_bias", "time_validate", "None"),
   ("calculate_future_trend_bias", "time_future", "None"),
   ("calculate_future_trend", "statistics", "['mean', 0.05, 0.95]"),
   ("calculate_future_trend", "trend_type", "'additive'"),
   ("calculate_future_trend", "metrics", "[]"),
   ("calculate_future_trend", "time_validate", "None"),
   ("calculate_future_trend", "time_future", "None")]

end Model.Evaluate
