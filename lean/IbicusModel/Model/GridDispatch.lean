/-
  What the property demands of `cls.apply(…, parallel, failsafe, **kwargs)` for the two classes that define `apply`
  (C05, C13): `spec`.

  That the code does this is tier A, semantic: `translator/extract_gridloops.py` regenerates the structure of the two
  `apply` methods, of the two map functions and of the catch wrapper (`Gen/GridLoops.lean`, names of locals and parameters
  resolved to roles), and `Lemmas.GenGridLoops.gen_apply_eq_spec` / `Props.C05.dispatch_correct` prove that what the
  regenerated specs denote is `spec`.  (The former textual tables `paths` / `facts` of this file — normalised source text
  of statements and call arguments — broke on a rename of a local variable and are retired.)
-/
import IbicusModel.Model.Grid

namespace Model.GridDispatch
open Model.Grid

/-- what the property demands of `cls.apply(…, parallel, failsafe, **kwargs)` -/
def spec {κ α ε} (cls : String) (parallel : Bool) (loc : LocFnKw κ α ε) (kw : κ) (failsafe : Bool) (obs hist fut : Arr3 α)
    (nx ny : Nat) (sched : List Nat) : Except (Err ε) (Arr3 (Elem α)) :=
  let m : Mode := if parallel then .parallel sched else .serial
  if cls = "DeltaChange" then deltaChangeApplyKw loc kw failsafe obs hist fut nx ny m
  else debiaserApplyKw loc kw failsafe obs hist fut nx ny m

end Model.GridDispatch
