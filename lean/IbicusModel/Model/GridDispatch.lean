/-
  The dispatch of `Debiaser.apply` / `DeltaChange.apply` onto the two map functions, as a table (C05, C13).

  `paths` / `facts` are the hand-written copies of what `translator/extract_griddispatch.py` regenerates from the
  current source into `Gen/GridDispatch.lean`; `Lemmas/GenGridDispatch.lean` proves them equal (tier A).  `interp` reads
  a call site's argument list as a call of the model `Model.Grid.applyGrid`: which time axis sizes the output, which
  mode, whether the failsafe flag and the keyword arguments are forwarded.  The theorems about `interp` (Props.C05 /
  Props.C13) therefore speak about the four call sites the code has *now*.
-/
import IbicusModel.Model.Grid

namespace Model.GridDispatch
open Model.Grid

/-- one call site `output = Debiaser.<map function>(…)` -/
structure Path where
  cls : String
  /-- branch of `if parallel:` -/
  parallel : Bool
  callee : String
  positional : List String
  /-- keyword arguments in source order: name, expression text -/
  keywords : List (String × String)
  /-- `**kwargs` forwarded -/
  starKwargs : Bool
deriving DecidableEq, Repr

/-- the four call sites (hand-written; `Lemmas.GenGridDispatch.paths` ties it to the source) -/
def paths : List Path := [
  ⟨"Debiaser", true, "Debiaser.parallel_map_over_locations", ["self.apply_location"], [("output_size", "cm_future.shape"), ("obs", "obs"), ("cm_hist", "cm_hist"), ("cm_future", "cm_future"), ("nr_processes", "nr_processes"), ("failsafe", "failsafe")], true⟩,
  ⟨"Debiaser", false, "Debiaser.map_over_locations", ["self.apply_location"], [("output_size", "cm_future.shape"), ("obs", "obs"), ("cm_hist", "cm_hist"), ("cm_future", "cm_future"), ("progressbar", "progressbar"), ("failsafe", "failsafe")], true⟩,
  ⟨"DeltaChange", true, "Debiaser.parallel_map_over_locations", ["self.apply_location"], [("output_size", "obs.shape"), ("obs", "obs"), ("cm_hist", "cm_hist"), ("cm_future", "cm_future"), ("nr_processes", "nr_processes"), ("failsafe", "failsafe")], true⟩,
  ⟨"DeltaChange", false, "Debiaser.map_over_locations", ["self.apply_location"], [("output_size", "obs.shape"), ("obs", "obs"), ("cm_hist", "cm_hist"), ("cm_future", "cm_future"), ("progressbar", "progressbar"), ("failsafe", "failsafe")], true⟩
]

/-- the statements of the catch wrapper and of the two map functions (hand-written; tied by `Lemmas.GenGridDispatch.facts`) -/
def facts : List (String × String) := [
  ("apply.Debiaser.signature", "self, obs, cm_hist, cm_future, progressbar=True, parallel=False, nr_processes=4, failsafe=False, **kwargs"),
  ("apply.Debiaser.returns", "output"),
  ("apply.Debiaser.inputs", "obs, cm_hist, cm_future = self._check_inputs_and_convert_if_possible(obs, cm_hist, cm_future)"),
  ("apply.DeltaChange.signature", "self, obs, cm_hist, cm_future, progressbar=True, parallel=False, nr_processes=4, failsafe=False, **kwargs"),
  ("apply.DeltaChange.returns", "output"),
  ("apply.DeltaChange.inputs", "obs, cm_hist, cm_future = self._check_inputs_and_convert_if_possible(obs, cm_hist, cm_future)"),
  ("catch.signature", "obs, cm_hist, cm_future, func, failsafe=False, **kwargs"),
  ("catch.try", "return func(obs, cm_hist, cm_future, **kwargs)"),
  ("catch.except", "Exception"),
  ("catch.test", "failsafe"),
  ("catch.failsafe_exits", "return np.nan"),
  ("catch.else", "raise"),
  ("serial.signature", "func, output_size, obs, cm_hist, cm_future, progressbar=True, failsafe=False, **kwargs"),
  ("serial.output", "np.empty(output_size, dtype=cm_future.dtype)"),
  ("serial.indices", "np.ndindex(obs.shape[1:])"),
  ("serial.loop", "for (i, j) in indices"),
  ("serial.assign_target", "output[:, i, j]"),
  ("serial.assign_value", "Debiaser._run_func_on_location_and_catch_error(obs[:, i, j], cm_hist[:, i, j], cm_future[:, i, j], func, failsafe=failsafe, **kwargs)"),
  ("serial.returns", "output"),
  ("parallel.signature", "func, output_size, obs, cm_hist, cm_future, nr_processes=4, failsafe=False, **kwargs"),
  ("parallel.pool", "Pool(processes=nr_processes) as pool"),
  ("parallel.result_target", "result"),
  ("parallel.map_function", "pool.starmap"),
  ("parallel.map_arg0", "partial(Debiaser._run_func_on_location_and_catch_error, func=func, failsafe=failsafe, **kwargs)"),
  ("parallel.map_arg1", "[(obs[:, i, j], cm_hist[:, i, j], cm_future[:, i, j]) for i, j in indices]"),
  ("parallel.map_keywords", ""),
  ("parallel.indices", "[(i, j) for i in range(obs.shape[1]) for j in range(obs.shape[2])]"),
  ("parallel.output", "np.empty(output_size, dtype=cm_future.dtype)"),
  ("parallel.writeback_loop", "for (k, index) in enumerate(indices)"),
  ("parallel.writeback", "output[:, index[0], index[1]] = result[k]"),
  ("parallel.returns", "output")
]

/-- the expression passed for keyword `k` -/
def kwOf (p : Path) (k : String) : Option String := (p.keywords.find? (fun kv => kv.1 == k)).map (fun kv => kv.2)

/-- which input's time axis sizes the output -/
inductive TimeAxis where
  | fut : TimeAxis
  | obs : TimeAxis
deriving DecidableEq, Repr

def timeAxis (p : Path) : Option TimeAxis :=
  match kwOf p "output_size" with
  | some s => if s = "cm_future.shape" then some .fut else if s = "obs.shape" then some .obs else none
  | none => none

/-- the map function called, consistent with the branch it is called in -/
def modeOf (p : Path) (sched : List Nat) : Option Mode :=
  if p.callee = "Debiaser.map_over_locations" ∧ p.parallel = false then some .serial
  else if p.callee = "Debiaser.parallel_map_over_locations" ∧ p.parallel = true then some (.parallel sched)
  else none

/-- the failsafe flag the map function receives: the caller's, or the signature default `False` when not passed -/
def failsafeOf (p : Path) (failsafe : Bool) : Option Bool :=
  match kwOf p "failsafe" with
  | some s => if s = "failsafe" then some failsafe else none
  | none => some false

/-- the three data arguments are passed through under their own names and the location function is the bound method -/
def dataOk (p : Path) : Bool :=
  p.positional == ["self.apply_location"] && kwOf p "obs" == some "obs" && kwOf p "cm_hist" == some "cm_hist" &&
    kwOf p "cm_future" == some "cm_future"

/-- what a call site computes, read off its argument list (`noKw`: what `apply_location` sees when `**kwargs` is not
    forwarded); `none` = the call site has a shape this reading does not cover -/
def interp {κ α ε} (p : Path) (loc : LocFnKw κ α ε) (kw noKw : κ) (failsafe : Bool) (obs hist fut : Arr3 α)
    (nx ny : Nat) (sched : List Nat) : Option (Except (Err ε) (Arr3 (Elem α))) :=
  if dataOk p then
    match timeAxis p, modeOf p sched, failsafeOf p failsafe with
    | some ax, some m, some fsv =>
        some (applyGrid (cellFn (loc (if p.starKwargs then kw else noKw)) obs hist fut) fsv
          (match ax with | .fut => fut.length | .obs => obs.length) nx ny m)
    | _, _, _ => none
  else none

/-- what the property demands of `cls.apply(…, parallel, failsafe, **kwargs)` -/
def spec {κ α ε} (cls : String) (parallel : Bool) (loc : LocFnKw κ α ε) (kw : κ) (failsafe : Bool) (obs hist fut : Arr3 α)
    (nx ny : Nat) (sched : List Nat) : Except (Err ε) (Arr3 (Elem α)) :=
  let m : Mode := if parallel then .parallel sched else .serial
  if cls = "DeltaChange" then deltaChangeApplyKw loc kw failsafe obs hist fut nx ny m
  else debiaserApplyKw loc kw failsafe obs hist fut nx ny m

/-- the value of a fact -/
def fact (k : String) : Option String := (facts.find? (fun kv => kv.1 == k)).map (fun kv => kv.2)

end Model.GridDispatch
