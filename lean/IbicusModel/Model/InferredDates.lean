/-
  Layer K: the time information ibicus *infers* when `time_obs` / `time_cm_hist` / `time_cm_future` is not given
  (`ibicus.utils.infer_and_create_time_arrays_if_not_given` → `create_array_of_consecutive_dates(n)`: `n` consecutive
  days starting on 1950-01-01), reduced to what the debiasers read from it: calendar year, day of year, month of every
  step.  Proleptic Gregorian calendar, exactly Python's `datetime`.  Import-free, executable.
  Tie: `drivers/DrvInferredDates.lean` against `year / day_of_year / month (create_array_of_consecutive_dates(n))`
  (harness/c02.py).
-/
namespace Model.InferredDates

def isLeap (y : Int) : Bool := (y % 4 == 0 && y % 100 != 0) || y % 400 == 0

def yearLen (y : Int) : Nat := if isLeap y then 366 else 365

/-- (year, day of year) of the day `off` days after 1 January of year `y`; `fuel` bounds the number of year steps -/
def dateFrom : Nat → Int → Nat → Int × Int
  | 0, y, off => (y, (off : Int) + 1)
  | fuel + 1, y, off => if off < yearLen y then (y, (off : Int) + 1) else dateFrom fuel (y + 1) (off - yearLen y)

/-- the `k`-th inferred date (`k = 0` is 1950-01-01); every year step consumes at least 365 days, so `k` steps suffice -/
def dateOf (k : Nat) : Int × Int := dateFrom k 1950 k

/-- month of day-of-year `d` (1-based) in a common / leap year -/
def monthOfDoy (leap : Bool) (d : Int) : Int :=
  let f : Int := if leap then 1 else 0
  if d ≤ 31 then 1 else if d ≤ 59 + f then 2 else if d ≤ 90 + f then 3 else if d ≤ 120 + f then 4
  else if d ≤ 151 + f then 5 else if d ≤ 181 + f then 6 else if d ≤ 212 + f then 7 else if d ≤ 243 + f then 8
  else if d ≤ 273 + f then 9 else if d ≤ 304 + f then 10 else if d ≤ 334 + f then 11 else 12

def inferredYears (n : Nat) : List Int := (List.range n).map (fun k => (dateOf k).1)
def inferredDoy (n : Nat) : List Int := (List.range n).map (fun k => (dateOf k).2)
def inferredMonths (n : Nat) : List Int :=
  (List.range n).map (fun k => monthOfDoy (isLeap (dateOf k).1) (dateOf k).2)

/-- the array a debiaser works with: the one derived from the given dates (calendar arithmetic on explicit dates is
    Python's: the model receives the integers), or the inferred one — a function of the series' *length* only -/
def resolve (given : Option (List Int)) (inferred : Nat → List Int) (n : Nat) : List Int :=
  match given with
  | some t => t
  | none => inferred n

end Model.InferredDates
