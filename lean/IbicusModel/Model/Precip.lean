/-
  Layer N: the three precipitation models of `ibicus/utils/_math_utils.py`
  (`gen_PrecipitationHurdleModel`, `gen_PrecipitationIgnoreZeroValuesModel`,
  `gen_PrecipitationGammaLeftCensoredModel`) over an abstract amounts family, and the three-way factory
  `ibicus.variables.map_standard_precipitation_method`.  Definitions only; import-free, executable.

  External numerics are parameters: the amounts distribution is a pair of functions (`cdfA`, `ppfA`); the
  distribution's `fit` (scipy's MLE / the Nelder–Mead fit of the censored gamma) is outside the model — the model
  says which data it is given.  Random draws (`np.random.uniform`) are an explicit argument `u`.
-/
namespace Model.Precip

/-- the amounts distribution with its fitted parameters applied: `distribution.cdf(·, *fit)`, `distribution.ppf(·, *fit)` -/
structure Amounts where
  cdfA : Rat → Rat
  ppfA : Rat → Rat

/-! ### hurdle model -/

/-- `rainy_days = data[data != 0]` (what is handed to `distribution.fit`) -/
def rainyDays (data : List Rat) : List Rat := data.filter (fun v => decide (v ≠ 0))

/-- `p0 = 1 - rainy_days.shape[0] / data.shape[0]` -/
def hurdleP0 (data : List Rat) : Rat := 1 - ((rainyDays data).length : Rat) / (data.length : Rat)

/-- `gen_PrecipitationHurdleModel.cdf` at one value; `u` is the draw of `np.random.uniform(0, p0)` for this position
    (used only when `rand` (= `cdf_randomization`) and `x = 0`) -/
def hurdleCdf (A : Amounts) (p0 : Rat) (rand : Bool) (u x : Rat) : Rat :=
  if x = 0 then (if rand then u else p0) else p0 + (1 - p0) * A.cdfA x

/-- `gen_PrecipitationHurdleModel.ppf` at one value: `np.where(q > p0, ppf((q - p0)/(1 - p0)), 0)` -/
def hurdlePpf (A : Amounts) (p0 q : Rat) : Rat :=
  if q > p0 then A.ppfA ((q - p0) / (1 - p0)) else 0

/-! ### ignore-zeros model: values in `ℚ ∪ {−∞}` -/

inductive ERat where
  | negInf
  | fin (q : Rat)
deriving DecidableEq, Repr

/-- `np.where(x == 0, -np.inf, distribution.cdf(x, *fit))` -/
def izCdf (A : Amounts) (x : Rat) : ERat := if x = 0 then .negInf else .fin (A.cdfA x)

/-- `np.where(q != -np.inf, distribution.ppf(q, *fit), 0)` -/
def izPpf (A : Amounts) (q : ERat) : Rat :=
  match q with
  | .negInf => 0
  | .fin q => A.ppfA q

/-! ### left-censored gamma model -/

/-- the argument handed to `scipy.stats.gamma.cdf`: `np.where(x < thr, uniform(0, thr), x)` -/
def censArg (thr u x : Rat) : Rat := if x < thr then u else x

def censCdf (A : Amounts) (thr u x : Rat) : Rat := A.cdfA (censArg thr u x)

/-- what is done to the result of `scipy.stats.gamma.ppf`: `np.where(vals < thr, 0, vals)` if `censor_in_ppf` -/
def censPost (thr : Rat) (censor : Bool) (v : Rat) : Rat := if censor && decide (v < thr) then 0 else v

def censPpf (A : Amounts) (thr : Rat) (censor : Bool) (q : Rat) : Rat := censPost thr censor (A.ppfA q)

/-- `fit`: the non-censored data `data[data > thr]` and the number of censored observations -/
def censFitArgs (thr : Rat) (data : List Rat) : List Rat × Nat :=
  let nc := data.filter (fun v => decide (v > thr))
  (nc, data.length - nc.length)

/-! ### `map_standard_precipitation_method` -/

inductive PrecipModel where
  | censored (thr : Rat)          -- gen_PrecipitationGammaLeftCensoredModel(censoring_threshold = thr), censor_in_ppf = True
  | hurdle (rand : Bool)          -- gen_PrecipitationHurdleModel(distribution, fit_kwds, cdf_randomization = rand)
  | ignoreZeros                   -- gen_PrecipitationIgnoreZeroValuesModel(distribution)
deriving DecidableEq, Repr

/-- the decision structure of the factory.  `isGamma` = `amounts_distribution == scipy.stats.gamma`.
    `thr = 0` passes the factory's own test (`censoring_threshold < 0`) but is rejected by the attrs validator
    `gt(0)` of the model class — also with a `ValueError`. -/
def mapStandard (modelType : String) (isGamma : Bool) (thr : Rat) (rand : Bool) : Except String PrecipModel :=
  if modelType = "censored" then
    if !isGamma then .error "ValueError"
    else if thr < 0 then .error "ValueError"
    else if thr ≤ 0 then .error "ValueError"
    else .ok (.censored thr)
  else if modelType = "hurdle" then .ok (.hurdle rand)
  else if modelType = "ignore_zeros" then .ok .ignoreZeros
  else .error "ValueError"

/-! ### the rational test-double family `F(x) = z/(1+z)`, `z = (x - loc)/scale` on `(loc, ∞)` — executable instance
    used by the driver; with `loc = 0` it satisfies the family laws (`Props.C17.ratFam_laws`) -/

/-- `rv_continuous.cdf`: 0 at and below the lower end of the support -/
def ratCdf (loc scale x : Rat) : Rat := if x ≤ loc then 0 else ((x - loc) / scale) / (1 + (x - loc) / scale)

/-- `rv_continuous.ppf`: `nan` (`none`) outside `[0, 1]`, the lower end of the support at 0, `+∞` (`none`) at 1 -/
def ratPpf? (loc scale p : Rat) : Option Rat :=
  if p < 0 ∨ p ≥ 1 then none else some (loc + scale * (p / (1 - p)))

def ratPpf (loc scale p : Rat) : Rat := loc + scale * (p / (1 - p))

def ratFam (loc scale : Rat) : Amounts := ⟨ratCdf loc scale, ratPpf loc scale⟩

/-! ### the array forms (what the real `cdf` / `ppf` methods compute on a vector): element-wise maps.
    `us` is the vector of draws `np.random.uniform(0, ·, x.shape)` — one per position, used only where the model says so -/

def hurdleCdfL (A : Amounts) (p0 : Rat) (rand : Bool) (us xs : List Rat) : List Rat :=
  List.zipWith (fun x u => hurdleCdf A p0 rand u x) xs us

def hurdlePpfL (A : Amounts) (p0 : Rat) (qs : List Rat) : List Rat := qs.map (hurdlePpf A p0)

def izCdfL (A : Amounts) (xs : List Rat) : List ERat := xs.map (izCdf A)

def izPpfL (A : Amounts) (qs : List ERat) : List Rat := qs.map (izPpf A)

def censArgL (thr : Rat) (us xs : List Rat) : List Rat := List.zipWith (fun x u => censArg thr u x) xs us

def censPostL (thr : Rat) (censor : Bool) (vs : List Rat) : List Rat := vs.map (censPost thr censor)

end Model.Precip
