/-
  Layer N, part 3: the per-window transfer functions of the seven non-ISIMIP debiasers over exact rationals
  (`LinearScaling`, `DeltaChange`, `QuantileMapping`, `ECDFM`, `QuantileDeltaMapping`,
  `ScaledDistributionMapping`, `CDFt`), transcribed from `/repo/ibicus/debias/*.py` in the code's order of
  operations.  Distribution families and random draws are parameters (`Model/Family.lean`, `u : List Rat`).

  Conventions
  * every function is total; where the Python code divides by a quantity that can be zero (or takes the mean of
    an empty array) the *guard predicate* is exposed next to the definition (`…Guard`), decidable, and the
    driver reports `undef` when it fails.  Lean's `x / 0 = 0` is never relied upon by a guarded theorem.
  * Python exceptions are `Except String` with the class name (`"ValueError"`).
  * functions are stated pointwise (`F.map …`) wherever the code is elementwise, so that the skeleton lifting
    lemmas apply; intermediate stages have names because the correspondence driver inspects them for
    decision-boundary events.
  Import-free (Model/ only), executable.
-/
import IbicusModel.Model.Family
import IbicusModel.Model.Skeleton

namespace Model.Debiasers
open Model.Stats Model.Family

/-! ### small helpers -/

/-- `np.sign` -/
def signQ (q : Rat) : Rat := if q < 0 then -1 else if 0 < q then 1 else 0

/-- `x - mean(x)` (`scipy.signal.detrend(x, type="constant")`) -/
def detrendConst (x : List Rat) : List Rat := x.map (fun v => v - mean x)

/-- the default `cdf_threshold = 1e-10` of `threshold_cdf_vals` -/
def defaultCdfThreshold : Rat := 1 / 10000000000

/-- elementwise `a - b`, `a * b`, `a / b` on arrays of equal length -/
def subL (a b : List Rat) : List Rat := List.zipWith (fun x y => x - y) a b
def mulL (a b : List Rat) : List Rat := List.zipWith (fun x y => x * y) a b
def divL (a b : List Rat) : List Rat := List.zipWith (fun x y => x / y) a b

/-! ### LinearScaling / DeltaChange -/

inductive DeltaType where
  | additive | multiplicative
deriving DecidableEq, Repr

/-- `LinearScaling.apply_on_window` -/
def linearScaling (d : DeltaType) (obs H F : List Rat) : List Rat :=
  match d with
  | .additive => F.map (fun x => x - (mean H - mean obs))
  | .multiplicative => F.map (fun x => x * (mean obs / mean H))

/-- `DeltaChange._apply_on_within_year_window` -/
def deltaChange (d : DeltaType) (obs H F : List Rat) : List Rat :=
  match d with
  | .additive => obs.map (fun x => x + (mean F - mean H))
  | .multiplicative => obs.map (fun x => x * (mean F / mean H))

/-- the means exist (non-empty samples) and, for the multiplicative form, `mean H ≠ 0` -/
def lsGuard (d : DeltaType) (obs H : List Rat) : Prop :=
  obs ≠ [] ∧ H ≠ [] ∧ (d = .multiplicative → mean H ≠ 0)
instance (d : DeltaType) (obs H : List Rat) : Decidable (lsGuard d obs H) := by
  unfold lsGuard; exact inferInstance

def dcGuard (d : DeltaType) (H F : List Rat) : Prop :=
  H ≠ [] ∧ F ≠ [] ∧ (d = .multiplicative → mean H ≠ 0)
instance (d : DeltaType) (H F : List Rat) : Decidable (dcGuard d H F) := by
  unfold dcGuard; exact inferInstance

/-- the string-dispatching form the code has (tier A: `Gen.Debiasers.ls_apply_on_window` equals this) -/
def linearScalingS (deltaType : String) (obs H F : List Rat) : Except String (List Rat) :=
  if deltaType = "additive" then .ok (linearScaling .additive obs H F)
  else if deltaType = "multiplicative" then .ok (linearScaling .multiplicative obs H F)
  else .error "ValueError"

def deltaChangeS (deltaType : String) (obs H F : List Rat) : Except String (List Rat) :=
  if deltaType = "additive" then .ok (deltaChange .additive obs H F)
  else if deltaType = "multiplicative" then .ok (deltaChange .multiplicative obs H F)
  else .error "ValueError"

/-! ### QuantileMapping -/

inductive Detrending where
  | additive | multiplicative | no_detrending
deriving DecidableEq, Repr

/-- `_standard_qm`, `mapping_type = "parametric"`: `ppf_obs(threshold(cdf_H(x)))` -/
def standardQMParam {P} (Fam : Family P) (t : Rat) (x obs H : List Rat) : List Rat :=
  let fo := Fam.fit obs
  let fh := Fam.fit H
  x.map (fun v => Fam.ppf fo (thresholdCdf t (Fam.cdf fh v)))

/-- `_standard_qm`, `mapping_type = "nonparametric"`:
    `quantile_map_non_parametically_with_constant_extrapolation(x=cm_hist, y=obs, vals=x)` with the default
    methods (`step_function`, `inverted_cdf`) -/
def standardQMNonparam (x obs H : List Rat) : List Rat := qmapExtrap .step .inverted_cdf H obs x

/-- `QuantileMapping.apply_on_window` for an arbitrary inner mapping `qm x obs H` (= `self._standard_qm`) -/
def quantileMapping (qm : List Rat → List Rat → List Rat → List Rat) (d : Detrending) (obs H F : List Rat) :
    List Rat :=
  match d with
  | .additive =>
    let delta := mean F - mean H
    (qm (F.map (fun x => x - delta)) obs H).map (fun y => y + delta)
  | .multiplicative =>
    let delta := mean F / mean H
    (qm (F.map (fun x => x / delta)) obs H).map (fun y => y * delta)
  | .no_detrending => qm F obs H

def qmParam {P} (Fam : Family P) (t : Rat) (d : Detrending) (obs H F : List Rat) : List Rat :=
  quantileMapping (standardQMParam Fam t) d obs H F

def qmNonparam (d : Detrending) (obs H F : List Rat) : List Rat :=
  quantileMapping standardQMNonparam d obs H F

/-- samples non-empty; multiplicative detrending divides by `mean H` and by `delta = mean F / mean H` -/
def qmGuard (d : Detrending) (obs H F : List Rat) : Prop :=
  obs ≠ [] ∧ H ≠ [] ∧ F ≠ [] ∧ (d = .multiplicative → mean H ≠ 0 ∧ mean F ≠ 0)
instance (d : Detrending) (obs H F : List Rat) : Decidable (qmGuard d obs H F) := by
  unfold qmGuard; exact inferInstance

/-- every fitted scale of a location–scale family is non-zero (the `cdf` divides by it) -/
def scalesOk (Fam : LocScaleFam) (samples : List (List Rat)) : Prop :=
  ∀ s ∈ samples, s ≠ [] ∧ Fam.scale s ≠ 0
instance (Fam : LocScaleFam) (samples : List (List Rat)) : Decidable (scalesOk Fam samples) := by
  unfold scalesOk; exact inferInstance

/-- parametric QM over a location–scale family divides by the fitted scale of `cm_hist` only
    (`cdf(x, *fit_cm_hist)`); `ppf(·, *fit_obs)` is total -/
def qmParamGuard (Fam : LocScaleFam) (d : Detrending) (obs H F : List Rat) : Prop :=
  qmGuard d obs H F ∧ Fam.scale H ≠ 0
instance (Fam : LocScaleFam) (d : Detrending) (obs H F : List Rat) : Decidable (qmParamGuard Fam d obs H F) := by
  unfold qmParamGuard; exact inferInstance

/-! ### ECDFM -/

/-- `ECDFM.apply_on_window`: `x + ppf_obs(τ) − ppf_H(τ)`, `τ = threshold(cdf_F(x))` -/
def ecdfm {P} (Fam : Family P) (t : Rat) (obs H F : List Rat) : List Rat :=
  let fo := Fam.fit obs
  let fh := Fam.fit H
  let ff := Fam.fit F
  F.map (fun x =>
    let q := thresholdCdf t (Fam.cdf ff x)
    x + Fam.ppf fo q - Fam.ppf fh q)

/-- ECDFM over a location–scale family divides by the fitted scale of `cm_future` only -/
def ecdfmGuard (Fam : LocScaleFam) (obs H F : List Rat) : Prop :=
  obs ≠ [] ∧ H ≠ [] ∧ F ≠ [] ∧ Fam.scale F ≠ 0
instance (Fam : LocScaleFam) (obs H F : List Rat) : Decidable (ecdfmGuard Fam obs H F) := by
  unfold ecdfmGuard; exact inferInstance

/-! ### QuantileDeltaMapping -/

inductive TrendPres where
  | absolute | relative
deriving DecidableEq, Repr

/-- `tau_t = threshold_cdf_vals(ecdf(cm_future, cm_future, method), cdf_threshold)` for an arbitrary
    empirical cdf `E sample point` -/
def qdmTau (E : List Rat → Rat → Rat) (t : Rat) (F : List Rat) : List Rat :=
  F.map (fun x => thresholdCdf t (E F x))

/-- the two delta formulas, for one value `x` with quantile `tau` -/
def qdmCore {P} (Fam : Family P) (tp : TrendPres) (fo fh : P) (x tau : Rat) : Rat :=
  match tp with
  | .absolute => x + Fam.ppf fo tau - Fam.ppf fh tau
  | .relative => x * Fam.ppf fo tau / Fam.ppf fh tau

/-- `bias_corrected_vals[bias_corrected_vals < censoring_threshold] = 0` when `censor_values_to_zero`
    (`none` = censoring off) -/
def qdmCensor (c : Option Rat) (v : Rat) : Rat :=
  match c with
  | none => v
  | some thr => if v < thr then 0 else v

/-- `_apply_debiasing_steps(cm_future, fit_obs, fit_cm_hist)` -/
def qdmStepsG {P} (Fam : Family P) (tp : TrendPres) (E : List Rat → Rat → Rat) (t : Rat) (c : Option Rat)
    (F : List Rat) (fo fh : P) : List Rat :=
  F.map (fun x => qdmCensor c (qdmCore Fam tp fo fh x (thresholdCdf t (E F x))))

def qdmSteps {P} (Fam : Family P) (tp : TrendPres) (em : EcdfMethod) (t : Rat) (c : Option Rat)
    (F : List Rat) (fo fh : P) : List Rat :=
  qdmStepsG Fam tp (ecdf1 em) t c F fo fh

/-- `apply_on_window` with `running_window_mode_over_years_of_cm_future = False` -/
def qdmWindow {P} (Fam : Family P) (tp : TrendPres) (em : EcdfMethod) (t : Rat) (c : Option Rat)
    (obs H F : List Rat) : List Rat :=
  qdmSteps Fam tp em t c F (Fam.fit obs) (Fam.fit H)

/-- the per-year-window function handed to `Skeleton.applyYears` -/
def qdmYearFn {P} (Fam : Family P) (tp : TrendPres) (em : EcdfMethod) (t : Rat) (c : Option Rat)
    (obs H : List Rat) : Skeleton.YearFn Rat :=
  fun Fw _ => .ok (qdmSteps Fam tp em t c Fw (Fam.fit obs) (Fam.fit H))

/-- `apply_on_window` with year windows (`L`, `S` already normalised by `Windows.postInit`) -/
def qdmWindowYears {P} (Fam : Family P) (tp : TrendPres) (em : EcdfMethod) (t : Rat) (c : Option Rat)
    (L S : Int) (years : List Int) (obs H F : List Rat) : Except String (List (Option Rat)) :=
  if years.length ≠ F.length then .error "ValueError"
  else Skeleton.applyYears (qdmYearFn Fam tp em t c obs H) L S years F

/-- `__attrs_post_init__`: `cdf_threshold = 1 / (running_window_length * years_length + 1)` when `None` -/
def qdmDefaultCdfThreshold (runningWindowLength yearsLength : Int) : Rat :=
  1 / ((runningWindowLength * yearsLength + 1 : Int) : Rat)

/-- QDM evaluates only `ppf` with the two fits (no division by a scale): the samples must be non-empty -/
def qdmGuard (obs H F : List Rat) : Prop := obs ≠ [] ∧ H ≠ [] ∧ F ≠ []
instance (obs H F : List Rat) : Decidable (qdmGuard obs H F) := by
  unfold qdmGuard; exact inferInstance

/-- relative QDM divides by `ppf_H(τ)` -/
def qdmRelGuard {P} (Fam : Family P) (E : List Rat → Rat → Rat) (t : Rat) (F : List Rat) (fh : P) : Prop :=
  ∀ x ∈ F, Fam.ppf fh (thresholdCdf t (E F x)) ≠ 0
instance {P} (Fam : Family P) (E : List Rat → Rat → Rat) (t : Rat) (F : List Rat) (fh : P) :
    Decidable (qdmRelGuard Fam E t F fh) := by
  unfold qdmRelGuard; exact inferInstance

/-! ### ScaledDistributionMapping — absolute -/

/-- `1 / (0.5 − |c − 0.5|)` -/
def sdmRecurrAbs (c : Rat) : Rat := 1 / (1 / 2 - Py.absQ (c - 1 / 2))

/-- `threshold_cdf_vals(np.sort(cdf(x_detrended, *fit)))` interpolated onto length `m` (used for obs and cm_hist) -/
def sdmAbsCdfIntpol (Fam : LocScaleFam) (x : List Rat) (m : Nat) : List Rat :=
  let xd := detrendConst x
  let fx := Fam.fit xd
  interpOnLength ((sortQ (xd.map (Fam.cdf fx))).map (thresholdCdf defaultCdfThreshold)) m

/-- `threshold_cdf_vals(cdf(cm_future_detrended, *fit)[argsort_cm_future])` -/
def sdmAbsCdfFut (Fam : LocScaleFam) (F : List Rat) : List Rat :=
  let fd := detrendConst F
  let ff := Fam.fit fd
  (takeIdx (fd.map (Fam.cdf ff)) (argsort fd)).map (thresholdCdf defaultCdfThreshold)

/-- step 5: `threshold(0.5 + sign(c_obs − 0.5) · |0.5 − 1 / max(1, ri_obs · ri_F / ri_H)|)` -/
def sdmAbsCdfScaled (cO cH cF : Rat) : Rat :=
  let riS := max 1 (sdmRecurrAbs cO * sdmRecurrAbs cF / sdmRecurrAbs cH)
  thresholdCdf defaultCdfThreshold (1 / 2 + signQ (cO - 1 / 2) * Py.absQ (1 / 2 - 1 / riS))

/-- `bias_corrected` of `_apply_on_window_absolute_sdm` (in the sorted order of `cm_future`) -/
def sdmAbsoluteSorted (Fam : LocScaleFam) (obs H F : List Rat) : List Rat :=
  let fo := Fam.fit (detrendConst obs)
  let fh := Fam.fit (detrendConst H)
  let ff := Fam.fit (detrendConst F)
  let cO := sdmAbsCdfIntpol Fam obs F.length
  let cH := sdmAbsCdfIntpol Fam H F.length
  let cF := sdmAbsCdfFut Fam F
  -- step 3
  let scaling := cF.map (fun c => (Fam.ppf ff c - Fam.ppf fh c) * fo.2 / fh.2)
  -- steps 4–5
  let cdfScaled := List.zipWith (fun co (p : Rat × Rat) => sdmAbsCdfScaled co p.1 p.2) cO (cH.zip cF)
  -- step 6
  List.zipWith (fun cs sc => Fam.ppf fo cs + sc) cdfScaled scaling

/-- `_apply_on_window_absolute_sdm` (current, repaired text: `… + trend − (mean(cm_hist) − mean(obs))`) -/
def sdmAbsolute (Fam : LocScaleFam) (obs H F : List Rat) : List Rat :=
  let bc := sdmAbsoluteSorted Fam obs H F
  let fd := detrendConst F
  let trend := subL F fd
  let meanBias := mean H - mean obs
  let back := takeIdx bc (rankOf fd)
  List.zipWith (fun b tr => b + tr - meanBias) back trend

/-- all three fitted scales non-zero (then every recurrence interval is finite as well: the thresholded
    cdf values lie in `[1e-10, 1 − 1e-10]`) -/
def sdmAbsGuard (Fam : LocScaleFam) (obs H F : List Rat) : Prop :=
  scalesOk Fam [detrendConst obs, detrendConst H, detrendConst F]
instance (Fam : LocScaleFam) (obs H F : List Rat) : Decidable (sdmAbsGuard Fam obs H F) := by
  unfold sdmAbsGuard; exact inferInstance

/-! ### ScaledDistributionMapping — relative -/

/-- `1 / (1 − c)` -/
def sdmRecurrRel (c : Rat) : Rat := 1 / (1 - c)

/-- rainy values of the *sorted* sample: `x[x >= pr_lower_threshold]` -/
def rainy (thr : Rat) (xSorted : List Rat) : List Rat := xSorted.filter (fun v => decide (v ≥ thr))

/-- `round(nF_rainy · (nO_rainy / nO) / (nH_rainy / nH))` — the argument of `round` -/
def sdmRelExpectedArg (nFr nOr nO nHr nH : Nat) : Rat :=
  (nFr : Rat) * ((nOr : Rat) / (nO : Rat)) / ((nHr : Rat) / (nH : Rat))

/-- the expected number of rainy days, never more than the rainy days present in `cm_future` -/
def sdmRelExpected (nFr nOr nO nHr nH : Nat) : Nat :=
  let e := Py.roundHalfEven (sdmRelExpectedArg nFr nOr nO nHr nH)
  if e > (nFr : Int) then nFr else e.toNat

/-- thresholded cdf values of the rainy values under their own fit -/
def sdmRelCdf {P} (Fam : Family P) (t : Rat) (r : List Rat) : List Rat :=
  let fr := Fam.fit r
  r.map (fun v => thresholdCdf t (Fam.cdf fr v))

/-- step 5: `threshold(1 − 1 / max(1, ri_obs · ri_F / ri_H))` (default threshold) -/
def sdmRelCdfScaled (cO cH cF : Rat) : Rat :=
  let riS := max 1 (sdmRecurrRel cO * sdmRecurrRel cF / sdmRecurrRel cH)
  thresholdCdf defaultCdfThreshold (1 - 1 / riS)

/-- `bc_initial` (for the rainy values of the sorted `cm_future`) -/
def sdmRelBcInitial {P} (Fam : Family P) (t : Rat) (rO rH rF : List Rat) : List Rat :=
  let fo := Fam.fit rO
  let fh := Fam.fit rH
  let ff := Fam.fit rF
  let cF := sdmRelCdf Fam t rF
  let cO := interpOnLength (sdmRelCdf Fam t rO) cF.length
  let cH := interpOnLength (sdmRelCdf Fam t rH) cF.length
  let scaling := cF.map (fun c => Fam.ppf ff c / Fam.ppf fh c)
  let cdfScaled := List.zipWith (fun co (p : Rat × Rat) => sdmRelCdfScaled co p.1 p.2) cO (cH.zip cF)
  List.zipWith (fun cs sc => Fam.ppf fo cs * sc) cdfScaled scaling

/-- `_apply_on_window_relative_sdm` (the in-place zeroing of the sorted copies of `obs` / `cm_hist` has no
    effect on the result and is not modelled; `distribution_fit_kwargs` are ignored) -/
def sdmRelative {P} (Fam : Family P) (thr t : Rat) (obs H F : List Rat) : Except String (List Rat) :=
  let rO := rainy thr (sortQ obs)
  let rH := rainy thr (sortQ H)
  let fS := takeIdx F (argsort F)
  let rF := rainy thr fS
  if rO.length = 0 ∨ rH.length = 0 ∨ rF.length = 0 then .error "ValueError"
  else
    let expected := sdmRelExpected rF.length rO.length obs.length rH.length H.length
    let bc := sdmRelBcInitial Fam t rO rH rF
    let sortedOut := List.replicate (fS.length - expected) (0 : Rat) ++ bc.drop (bc.length - expected)
    .ok (takeIdx sortedOut (rankOf F))

/-- relative SDM divides by `ppf_H(c_F)` (besides the family's own guards) -/
def sdmRelDivGuard {P} (Fam : Family P) (thr t : Rat) (H F : List Rat) : Prop :=
  let rH := rainy thr (sortQ H)
  let rF := rainy thr (sortQ F)
  ∀ c ∈ sdmRelCdf Fam t rF, Fam.ppf (Fam.fit rH) c ≠ 0
instance {P} (Fam : Family P) (thr t : Rat) (H F : List Rat) : Decidable (sdmRelDivGuard Fam thr t H F) := by
  unfold sdmRelDivGuard; exact inferInstance

/-! ### CDFt -/

inductive DeltaShift where
  | additive | multiplicative | no_shift
deriving DecidableEq, Repr

/-- the shifted `(cm_hist, cm_future)` of `_apply_CDFt_mapping` -/
def cdftShifted (d : DeltaShift) (obs H F : List Rat) : List Rat × List Rat :=
  match d with
  | .additive =>
    let shift := mean obs - mean H
    (H.map (fun x => x + shift), F.map (fun x => x + shift))
  | .multiplicative =>
    let shift := mean obs / mean H
    (H.map (fun x => x * shift), F.map (fun x => x * shift))
  | .no_shift => (H, F)

/-- the four stages `iecdf_F'( ecdf_H'( iecdf_obs( ecdf_F'(F') ) ) )` for arbitrary `E sample point`,
    `Q sample prob` -/
def cdftStage1 (E : List Rat → Rat → Rat) (F' : List Rat) : List Rat := F'.map (E F')
def cdftStage2 (Q : List Rat → Rat → Rat) (obs p1 : List Rat) : List Rat := p1.map (Q obs)
def cdftStage3 (E : List Rat → Rat → Rat) (H' y : List Rat) : List Rat := y.map (E H')
def cdftStage4 (Q : List Rat → Rat → Rat) (F' p2 : List Rat) : List Rat := p2.map (Q F')

/-- `_apply_CDFt_mapping` -/
def cdftMappingG (E Q : List Rat → Rat → Rat) (d : DeltaShift) (obs H F : List Rat) : List Rat :=
  let HF := cdftShifted d obs H F
  cdftStage4 Q HF.2 (cdftStage3 E HF.1 (cdftStage2 Q obs (cdftStage1 E HF.2)))

def cdftMapping (d : DeltaShift) (em : EcdfMethod) (im : IecdfMethod) (obs H F : List Rat) : List Rat :=
  cdftMappingG (ecdf1 em) (iecdf1 im) d obs H F

def cdftGuard (d : DeltaShift) (obs H F : List Rat) : Prop :=
  obs ≠ [] ∧ H ≠ [] ∧ F ≠ [] ∧ (d = .multiplicative → mean H ≠ 0)
instance (d : DeltaShift) (obs H F : List Rat) : Decidable (cdftGuard d obs H F) := by
  unfold cdftGuard; exact inferInstance

/-! #### SSR (stochastic singularity removal) -/

/-- `_get_threshold`: the smallest positive value of the three samples, `0` when there is none -/
def ssrThreshold (obs H F : List Rat) : Rat :=
  let pos := obs.filter (fun v => decide (v > 0)) ++ H.filter (fun v => decide (v > 0)) ++
    F.filter (fun v => decide (v > 0))
  if pos.isEmpty then 0 else minQ pos

/-- `np.where(x == 0, np.random.uniform(0, threshold, x.size), x)`: one draw per element, used where `x == 0` -/
def ssrRandomize (x u : List Rat) : List Rat := List.zipWith (fun v r => if v = 0 then r else v) x u

/-- `_apply_SSR_steps_before_adjustment`: the draws are consumed in the order obs, cm_hist, cm_future -/
def ssrBefore (obs H F u : List Rat) : List Rat × List Rat × List Rat × Rat :=
  (ssrRandomize obs (u.take obs.length),
   ssrRandomize H ((u.drop obs.length).take H.length),
   ssrRandomize F ((u.drop (obs.length + H.length)).take F.length),
   ssrThreshold obs H F)

/-- `_set_values_below_threshold_to_zero` -/
def ssrAfter (thr : Rat) (x : List Rat) : List Rat := x.map (fun v => if v < thr then 0 else v)

/-- number of draws one call of `_apply_debiasing_steps` consumes with `SSR = True` -/
def ssrDrawCount (obs H F : List Rat) : Nat := obs.length + H.length + F.length

/-- what numpy documents about `np.random.uniform(0, thr)`: `0 ≤ u < thr` (and `u = 0` when `thr = 0`) -/
def ssrDrawsOk (thr : Rat) (u : List Rat) : Prop := ∀ r ∈ u, 0 ≤ r ∧ (r < thr ∨ (thr = 0 ∧ r = 0))

/-- `CDFt._apply_debiasing_steps` -/
def cdftStepsG (ssr : Bool) (E Q : List Rat → Rat → Rat) (d : DeltaShift) (obs H F u : List Rat) : List Rat :=
  if ssr then
    let b := ssrBefore obs H F u
    ssrAfter b.2.2.2 (cdftMappingG E Q d b.1 b.2.1 b.2.2.1)
  else cdftMappingG E Q d obs H F

def cdftSteps (ssr : Bool) (d : DeltaShift) (em : EcdfMethod) (im : IecdfMethod) (obs H F u : List Rat) :
    List Rat :=
  cdftStepsG ssr (ecdf1 em) (iecdf1 im) d obs H F u

/-- enough draws were supplied -/
def ssrGuard (ssr : Bool) (obs H F u : List Rat) : Prop := ssr = true → ssrDrawCount obs H F ≤ u.length
instance (ssr : Bool) (obs H F u : List Rat) : Decidable (ssrGuard ssr obs H F u) := by
  unfold ssrGuard; exact inferInstance

/-- per-year-window function without SSR (deterministic) -/
def cdftYearFn (d : DeltaShift) (em : EcdfMethod) (im : IecdfMethod) (obs H : List Rat) : Skeleton.YearFn Rat :=
  fun Fw _ => .ok (cdftMapping d em im obs H Fw)

/-- `apply_on_window` with year windows, `SSR = False` -/
def cdftWindowYears (d : DeltaShift) (em : EcdfMethod) (im : IecdfMethod) (L S : Int) (years : List Int)
    (obs H F : List Rat) : Except String (List (Option Rat)) :=
  if years.length ≠ F.length then .error "ValueError"
  else Skeleton.applyYears (cdftYearFn d em im obs H) L S years F

/-- With SSR every year window draws afresh: the per-window function additionally depends on the window
    centre (`draws c` = the draws of the window centred at `c`).  `applyYearsC` is `Skeleton.applyYears` with a
    centre-dependent per-window function; for a centre-independent function the two coincide
    (`Lemmas.GenDebiasers.applyYearsC_const`). -/
def applyYearsC {α} (g : Int → Skeleton.YearFn α) (L S : Int) (years : List Int) (fut : List α) :
    Except String (List (Option α)) :=
  Skeleton.runLoop (fun c => Skeleton.yearWrites (g c) L S years fut c) (Windows.yearCenters S years) fut.length

def cdftYearFnSSR (d : DeltaShift) (em : EcdfMethod) (im : IecdfMethod) (obs H : List Rat)
    (draws : Int → List Rat) : Int → Skeleton.YearFn Rat :=
  fun c Fw _ => .ok (cdftSteps true d em im obs H Fw (draws c))

def cdftWindowYearsSSR (d : DeltaShift) (em : EcdfMethod) (im : IecdfMethod) (L S : Int) (years : List Int)
    (obs H F : List Rat) (draws : Int → List Rat) : Except String (List (Option Rat)) :=
  if years.length ≠ F.length then .error "ValueError"
  else applyYearsC (cdftYearFnSSR d em im obs H draws) L S years F

end Model.Debiasers
