/-
  Layer S, tier A: a small DSL for the *structure* of the write-back loops of
  `RunningWindowDebiaser.apply_location`, `DeltaChange.apply_location`, `ISIMIP.apply_location` (running-window loop
  and month loop), the year-window loops of `CDFt.apply_on_window` / `QuantileDeltaMapping.apply_on_window`, and of the
  two generators `RunningWindowOverDaysOfYear.use` / `RunningWindowOverYears.use`.

  `translator/extract_loops.py` regenerates one `LoopSpec` / `GenSpec` value per loop from /repo's current AST
  (`Gen/Loops.lean`); this file holds the hand-written expected values and the denotation `denote` / `denoteYears` /
  `denoteGen` built from the primitives of `Model/Skeleton.lean` and `Model/Windows.lean`.  `Lemmas/GenLoops.lean` proves
  `Gen.Loops.X = Model.Loops.X` and `denote Model.Loops.X = Model.Skeleton.Y` — so the skeleton functions the C06 / C07 / C08
  theorems are stated on are the denotation of what the code says now.

  Names of local variables are not part of a spec: the extractor resolves every local to its *role* (which series,
  which index set) by following the assignments of the function.
-/
import IbicusModel.Model.Skeleton

namespace Model.Loops
open Model.Windows Model.Skeleton

/-- the three time series of `apply_location` -/
inductive Series | obs | hist | fut
  deriving DecidableEq, Repr

/-- index-set expressions, evaluated at the current loop value `c` (window centre / month / year-window centre).
    `window s`       `self.running_window.get_indices_vals_in_window(day_of_year(time_s), c)`
    `adjust s`       `self.running_window.get_indices_vals_to_adjust(day_of_year(time_s), c)` — also what `use(day_of_year(time_s))`
                     yields as its second component
    `whereMonth s`   the boolean mask `month(time_s) == c`
    `yearWindow s`   the boolean mask `get_if_in_chosen_years(year(time_s), years_in_window)`
    `yearAdjusted s` the boolean mask `get_if_in_chosen_years(year(time_s), years_to_debias)` -/
inductive Idx
  | window (s : Series)
  | adjust (s : Series)
  | whereMonth (s : Series)
  | yearWindow (s : Series)
  | yearAdjusted (s : Series)
  deriving DecidableEq, Repr

/-- what is selected from the window function's result before it is written.
    `all`                  the whole result
    `maskOf w a`           `np.logical_and(np.isin(w, a), get_mask_for_unique_subarray(w))`
    `yearAdjustedOf s sel` `get_if_in_chosen_years(year(time_s)[sel], years_to_debias)` -/
inductive Mask
  | all
  | maskOf (w a : Idx)
  | yearAdjustedOf (s : Series) (sel : Idx)
  deriving DecidableEq, Repr

/-- the array an argument of the per-window call is taken from: the values, the time axis, the years of a series, or
    a loop-invariant value the loop structure does not look into (named by the call that produced it) -/
inductive Src
  | data (s : Series)
  | time (s : Series)
  | years (s : Series)
  | opaque (name : String)
  deriving DecidableEq, Repr

/-- the whole array, or the array indexed by an index set -/
inductive Sel
  | whole
  | sub (i : Idx)
  deriving DecidableEq, Repr

/-- one keyword argument of the per-window call: `param = src[sel]` -/
structure Arg where
  param : String
  src : Src
  sel : Sel
  deriving DecidableEq, Repr

/-- what the `for` statement runs over -/
inductive Iter
  | useDoy (s : Series)            -- `self.running_window.use(day_of_year(time_s))`
  | monthRange (lo hi : Int)       -- `range(lo, hi)`
  | useYears (s : Series)          -- `self.running_window_over_years_of_cm_future.use(year(time_s))`
  deriving DecidableEq, Repr

/-- the structure of one write-back loop -/
structure LoopSpec where
  /-- the test of the `if` the loop sits under (`"not …"` for an else-branch; `""` when unconditional) -/
  guard : String
  /-- how the iterator object is constructed in `__attrs_post_init__` (`""` for `range`) -/
  iterObj : String
  /-- opaque calls executed before the loop (in order), that transform the series or only check them -/
  pre : List String
  iter : Iter
  /-- allocation of the result buffer: function and the series it is sized like -/
  alloc : String × Series
  /-- the per-window function -/
  callee : String
  args : List Arg
  /-- selection applied to the per-window result -/
  select : Mask
  /-- the indices of the result buffer written to -/
  target : Idx
  /-- opaque calls applied to the result buffer after the loop (in order) -/
  post : List String
  deriving DecidableEq, Repr

/-! ### expected values (what `Model/Skeleton.lean` was written from) -/

def timeInference : String := "infer_and_create_time_arrays_if_not_given"
def timeCheck : String := "check_time_information_and_raise_error"
def doyWindowObj : String :=
  "RunningWindowOverDaysOfYear(window_length_in_days=self.running_window_length, window_step_length_in_days=self.running_window_step_length)"
def yearWindowObj : String :=
  "RunningWindowOverYears(window_length_in_years=self.running_window_over_years_of_cm_future_length, window_step_length_in_years=self.running_window_over_years_of_cm_future_step_length)"

/-- `RunningWindowDebiaser.apply_location`, running-window branch -/
def loopRW : LoopSpec where
  guard := "self.running_window_mode"
  iterObj := doyWindowObj
  pre := [timeInference, timeCheck]
  iter := .useDoy .fut
  alloc := ("np.empty_like", .fut)
  callee := "self.apply_on_window"
  args := [⟨"obs", .data .obs, .sub (.window .obs)⟩, ⟨"cm_hist", .data .hist, .sub (.window .hist)⟩,
           ⟨"cm_future", .data .fut, .sub (.window .fut)⟩, ⟨"time_obs", .time .obs, .sub (.window .obs)⟩,
           ⟨"time_cm_hist", .time .hist, .sub (.window .hist)⟩, ⟨"time_cm_future", .time .fut, .sub (.window .fut)⟩]
  select := .maskOf (.window .fut) (.adjust .fut)
  target := .adjust .fut
  post := []

/-- `DeltaChange.apply_location`, running-window branch: everything runs over `obs` -/
def loopDC : LoopSpec where
  guard := "self.running_window_mode"
  iterObj := doyWindowObj
  pre := [timeInference, timeCheck]
  iter := .useDoy .obs
  alloc := ("np.empty_like", .obs)
  callee := "self._apply_on_within_year_window"
  args := [⟨"obs", .data .obs, .sub (.window .obs)⟩, ⟨"cm_hist", .data .hist, .sub (.window .hist)⟩,
           ⟨"cm_future", .data .fut, .sub (.window .fut)⟩]
  select := .maskOf (.window .obs) (.adjust .obs)
  target := .adjust .obs
  post := []

/-- `ISIMIP.apply_location`, running-window loop (between step 1 and step 8) -/
def loopIsimipRW : LoopSpec where
  guard := "self.running_window_mode"
  iterObj := doyWindowObj
  pre := [timeInference, timeCheck, "self.step1"]
  iter := .useDoy .fut
  alloc := ("np.zeros_like", .fut)
  callee := "self._apply_on_window"
  args := [⟨"obs_hist", .data .obs, .sub (.window .obs)⟩, ⟨"cm_hist", .data .hist, .sub (.window .hist)⟩,
           ⟨"cm_future", .data .fut, .sub (.window .fut)⟩, ⟨"years_obs_hist", .years .obs, .sub (.window .obs)⟩,
           ⟨"years_cm_hist", .years .hist, .sub (.window .hist)⟩, ⟨"years_cm_future", .years .fut, .sub (.window .fut)⟩]
  select := .maskOf (.window .fut) (.adjust .fut)
  target := .adjust .fut
  post := ["self.step8"]

/-- `ISIMIP.apply_location`, month loop -/
def loopIsimipMonths : LoopSpec where
  guard := "not self.running_window_mode"
  iterObj := ""
  pre := [timeInference, timeCheck, "self.step1"]
  iter := .monthRange 1 13
  alloc := ("np.zeros_like", .fut)
  callee := "self._apply_on_window"
  args := [⟨"obs_hist", .data .obs, .sub (.whereMonth .obs)⟩, ⟨"cm_hist", .data .hist, .sub (.whereMonth .hist)⟩,
           ⟨"cm_future", .data .fut, .sub (.whereMonth .fut)⟩, ⟨"years_obs_hist", .years .obs, .sub (.whereMonth .obs)⟩,
           ⟨"years_cm_hist", .years .hist, .sub (.whereMonth .hist)⟩, ⟨"years_cm_future", .years .fut, .sub (.whereMonth .fut)⟩]
  select := .all
  target := .whereMonth .fut
  post := ["self.step8"]

/-- `CDFt.apply_on_window`, loop over year windows of `cm_future` -/
def loopCDFt : LoopSpec where
  guard := "self.running_window_mode_over_years_of_cm_future"
  iterObj := yearWindowObj
  pre := ["create_array_of_consecutive_dates"]
  iter := .useYears .fut
  alloc := ("np.empty_like", .fut)
  callee := "self._apply_debiasing_steps"
  args := [⟨"obs", .data .obs, .whole⟩, ⟨"cm_hist", .data .hist, .whole⟩, ⟨"cm_future", .data .fut, .sub (.yearWindow .fut)⟩]
  select := .yearAdjustedOf .fut (.yearWindow .fut)
  target := .yearAdjusted .fut
  post := []

/-- `QuantileDeltaMapping.apply_on_window`, loop over year windows of `cm_future` -/
def loopQDM : LoopSpec where
  guard := "self.running_window_mode_over_years_of_cm_future"
  iterObj := yearWindowObj
  pre := ["self._get_obs_and_cm_hist_fits", "create_array_of_consecutive_dates"]
  iter := .useYears .fut
  alloc := ("np.empty_like", .fut)
  callee := "self._apply_debiasing_steps"
  args := [⟨"cm_future", .data .fut, .sub (.yearWindow .fut)⟩,
           ⟨"fit_obs", .opaque "self._get_obs_and_cm_hist_fits(obs, hist).0", .whole⟩,
           ⟨"fit_cm_hist", .opaque "self._get_obs_and_cm_hist_fits(obs, hist).1", .whole⟩]
  select := .yearAdjustedOf .fut (.yearWindow .fut)
  target := .yearAdjusted .fut
  post := []

/-! ### denotation of a loop -/

/-- the inputs of a loop: window length and step, the integer time key of every series the iterator and the index sets
    look at (days of year / months / years), and the values of every series at loop entry -/
structure Env (α : Type) where
  L : Int
  S : Int
  key : Series → List Int
  data : Series → List α

def pick {β : Type} (o h f : β) : Series → β
  | .obs => o
  | .hist => h
  | .fut => f

def denIdx {α} (e : Env α) (c : Int) : Idx → List Nat
  | .window s => idxWindow e.L (e.key s) c
  | .adjust s => idxAdjust e.S (e.key s) c
  | .whereMonth s => Py.whereTrue ((e.key s).map (fun x => decide (x = c)))
  | .yearWindow s => Py.whereTrue (yearMask (e.key s) (yearsInWindow e.L c))
  | .yearAdjusted s => Py.whereTrue (yearMask (e.key s) (yearsAdjusted e.S c))

/-- `get_mask_for_unique_subarray`: `True` exactly at the first occurrence of every value -/
def firstOccFrom (seen : List Nat) : List Nat → List Bool
  | [] => []
  | x :: xs => (!seen.contains x) :: firstOccFrom (x :: seen) xs

def uniqueMask (w : List Nat) : List Bool := firstOccFrom [] w

def denMask {α} (e : Env α) (c : Int) : Mask → List Bool
  | .all => []
  | .maskOf w a =>
    List.zipWith (fun x y => x && y) ((denIdx e c w).map (fun j => (denIdx e c a).contains j)) (uniqueMask (denIdx e c w))
  | .yearAdjustedOf s sel => yearMask (take (e.key s) (denIdx e c sel)) (yearsAdjusted e.S c)

/-- which slot of the per-window function a keyword fills: (values? , series).  `true` = the sample, `false` = the time
    information that accompanies the sample -/
def slotOf (param : String) : Option (Bool × Series) :=
  if param = "obs" ∨ param = "obs_hist" then some (true, .obs)
  else if param = "cm_hist" then some (true, .hist)
  else if param = "cm_future" then some (true, .fut)
  else if param = "time_obs" ∨ param = "years_obs_hist" then some (false, .obs)
  else if param = "time_cm_hist" ∨ param = "years_cm_hist" then some (false, .hist)
  else if param = "time_cm_future" ∨ param = "years_cm_future" then some (false, .fut)
  else none

def findSlot (args : List Arg) (slot : Bool × Series) : Option Arg :=
  args.find? (fun a => slotOf a.param == some slot)

def denSel {α} (e : Env α) (c : Int) (n : Nat) : Sel → List Nat
  | .whole => List.range n
  | .sub i => denIdx e c i

/-- the sample handed over for one slot and the positions (in the full series) it was taken at; the positions are
    those of the accompanying time argument when there is one -/
def slotVal {α} (e : Env α) (c : Int) (args : List Arg) (s : Series) : Except String (List α × List Nat) :=
  match findSlot args (true, s) with
  | none => .error "bad-spec"
  | some a =>
    match a.src with
    | .data s' =>
      let x := match a.sel with
        | .whole => e.data s'
        | .sub i => take (e.data s') (denIdx e c i)
      match findSlot args (false, s) with
      | none => .ok (x, denSel e c (e.data s').length a.sel)
      | some t =>
        match t.src with
        | .time s'' => .ok (x, denSel e c (e.data s'').length t.sel)
        | .years s'' => .ok (x, denSel e c (e.data s'').length t.sel)
        | _ => .error "bad-spec"
    | _ => .error "bad-spec"

/-- result selection and write of one iteration -/
def writeBack {α} (sp : LoopSpec) (e : Env α) (c : Int) (res : List α) : Except String (List (Nat × α)) :=
  match sp.select with
  | .all => pairsFor (denIdx e c sp.target) res
  | m => do
    let vals ← maskSelect res (denMask e c m)
    pairsFor (denIdx e c sp.target) vals

/-- one iteration of a loop whose per-window function receives the three samples -/
def loopWrites {α} (sp : LoopSpec) (f : WinFn α) (e : Env α) (c : Int) : Except String (List (Nat × α)) :=
  match slotVal e c sp.args .obs, slotVal e c sp.args .hist, slotVal e c sp.args .fut with
  | .ok (xo, io), .ok (xh, ih), .ok (xf, jf) => do
    let res ← f xo xh xf io ih jf
    writeBack sp e c res
  | _, _, _ => .error "bad-spec"

def iterValues {α} (e : Env α) : Iter → List Int
  | .useDoy s => useCenters e.S (e.key s)
  | .monthRange lo hi => Py.arange1 lo hi
  | .useYears s => yearCenters e.S (e.key s)

/-- the denotation of a loop over three-sample windows (`RunningWindowDebiaser`, `DeltaChange`, `ISIMIP`) -/
def denote {α} (sp : LoopSpec) (f : WinFn α) (e : Env α) : Except String (List (Option α)) :=
  runLoop (loopWrites sp f e) (iterValues e sp.iter) (e.data sp.alloc.2).length

/-- one iteration of a year-window loop: the per-window function sees the `cm_future` sample only; every other argument
    must be loop-invariant (it is closed over by `g`) -/
def yearLoopWrites {α} (sp : LoopSpec) (g : YearFn α) (e : Env α) (c : Int) : Except String (List (Nat × α)) :=
  if sp.args.any (fun a => slotOf a.param != some (true, .fut) && a.sel != .whole) then .error "bad-spec"
  else
    match slotVal e c sp.args .fut with
    | .error err => .error err
    | .ok (xf, jf) => do
      let res ← g xf jf
      writeBack sp e c res

/-- the denotation of a year-window loop (`CDFt`, `QuantileDeltaMapping`) -/
def denoteYears {α} (sp : LoopSpec) (g : YearFn α) (e : Env α) : Except String (List (Option α)) :=
  runLoop (yearLoopWrites sp g e) (iterValues e sp.iter) (e.data sp.alloc.2).length

/-! ### the generators `use` -/

/-- expressions of a generator body, at the current centre `c` and for the generator's argument `key` -/
inductive GenExpr
  | centre                       -- the loop variable
  | adjustIdx                    -- `self.get_indices_vals_to_adjust(key, c)`
  | yearsAdjusted                -- `self._get_years_in_window_that_are_adjusted(c)`
  | yearsInWindow                -- `self._get_years_in_window(c)`
  | chosenIn (a : GenExpr)       -- `get_if_in_chosen_years(a, key)` = `np.isin(a, key)`
  | whereOf (a : GenExpr)        -- `np.where(a)[0]`
  deriving DecidableEq, Repr

/-- where the centres come from -/
inductive CentreSrc
  | doyCentres                   -- `self._get_window_centers(key)`
  | yearCentresOfUnique          -- `self._get_years_forming_window_centers(np.unique(key))`
  deriving DecidableEq, Repr

structure GenSpec where
  centres : CentreSrc
  /-- `if <e>.size == 0: continue` in front of the yield -/
  skipIfEmpty : Option GenExpr
  /-- the yielded tuples, one per value of `self.returns` (`""` when the yield is unconditional) -/
  yields : List (String × List GenExpr)
  deriving DecidableEq, Repr

/-- `RunningWindowOverDaysOfYear.use` -/
def useDoy : GenSpec where
  centres := .doyCentres
  skipIfEmpty := some .adjustIdx
  yields := [("", [.centre, .adjustIdx])]

/-- `RunningWindowOverYears.use` -/
def useYears : GenSpec where
  centres := .yearCentresOfUnique
  skipIfEmpty := none
  yields := [("years", [.yearsAdjusted, .yearsInWindow]),
             ("mask", [.chosenIn .yearsAdjusted, .chosenIn .yearsInWindow]),
             ("indices", [.whereOf (.chosenIn .yearsAdjusted), .whereOf (.chosenIn .yearsInWindow)])]

inductive GenVal
  | int (c : Int)
  | ints (l : List Int)
  | idx (l : List Nat)
  | mask (l : List Bool)
  | bad
  deriving DecidableEq, Repr

def GenVal.isEmpty : GenVal → Bool
  | .int _ => false
  | .ints l => l.isEmpty
  | .idx l => l.isEmpty
  | .mask l => l.isEmpty
  | .bad => false

def denGenExpr (L S : Int) (key : List Int) (c : Int) : GenExpr → GenVal
  | .centre => .int c
  | .adjustIdx => .idx (idxAdjust S key c)
  | .yearsAdjusted => .ints (yearsAdjusted S c)
  | .yearsInWindow => .ints (yearsInWindow L c)
  | .chosenIn a =>
    match denGenExpr L S key c a with
    | .ints l => .mask (Py.isin l key)
    | _ => .bad
  | .whereOf a =>
    match denGenExpr L S key c a with
    | .mask m => .idx (Py.whereTrue m)
    | _ => .bad

def genCentres (g : GenSpec) (L S : Int) (key : List Int) : List Int :=
  let cs := match g.centres with
    | .doyCentres => centers S key
    | .yearCentresOfUnique => yearCenters S (Py.uniqueSorted key)
  match g.skipIfEmpty with
  | none => cs
  | some x => cs.filter (fun c => !(denGenExpr L S key c x).isEmpty)

/-- the sequence of tuples the generator yields for `self.returns = mode` -/
def denoteGen (g : GenSpec) (mode : String) (L S : Int) (key : List Int) : Except String (List (List GenVal)) :=
  match g.yields.find? (fun y => y.1 == mode) with
  | none => .error "ValueError"
  | some y => .ok ((genCentres g L S key).map (fun c => y.2.map (denGenExpr L S key c)))

end Model.Loops
