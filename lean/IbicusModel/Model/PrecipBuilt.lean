/-
  Layer N: what a constructor call of one of the three precipitation model classes of `ibicus/utils/_math_utils.py` fixes —
  every attrs field after defaults — and how it maps onto `Model.Precip.PrecipModel` (the value `mapStandard` returns).
  Target type of the regenerated factory `Gen.Precip.map_standard` (tier A of C17).  Definitions only; imports `Model/` only.
-/
import IbicusModel.Model.Precip

namespace Model.Precip

/-- `D` = the type of amounts distributions (`scipy.stats.rv_continuous` instances), `K` = keyword dictionaries for
    `distribution.fit`; `fit_kwds = none`: the argument was not passed, the class default (`{"floc": 0, "fscale": None}`,
    see `Gen.Precip.field_table`) applies -/
inductive Built (D K : Type) where
  | censored (censoring_threshold : Rat) (censor_in_ppf : Bool)
  | hurdle (distribution : D) (fit_kwds : Option K) (cdf_randomization : Bool)
  | ignoreZeros (distribution : D) (fit_kwds : Option K)

/-- the part `Model.Precip.mapStandard` talks about -/
def Built.toModel {D K : Type} : Built D K → PrecipModel
  | .censored thr _ => .censored thr
  | .hurdle _ _ r => .hurdle r
  | .ignoreZeros _ _ => .ignoreZeros

end Model.Precip
