/-
  Calendar tier A (C07 / C08 / C19 and every property that reads a time axis): the *structure* of the calendar helpers
  of `ibicus/utils/_utils.py` as data, and the meaning given to that data.

  `translator/extract_calendar.py` reads from the AST

    * `day`, `month`, `year`, `day_of_year`   → `PubFn`   (array coercion, the `datetime64` branch and its conversion
                                                 chain, the per-element function inside `try … except`, the vectoriser)
    * `season`                                → `SeasonFn` (which helper supplies the months, the month → season rows in
                                                 source order, the fall-through value, the vectoriser)
    * `create_array_of_consecutive_dates`     → `ConsecSpec` (the start-date literal, the coercion, unit of the stop offset,
                                                 the `np.arange` step, the conversion chain)
    * `get_yearly_means`, `get_years_and_yearly_means`, `get_mask_for_unique_subarray` → terms of `YE`

  into `Gen/CalendarFns.lean`; `Lemmas/GenCalendarFns.lean` proves every regenerated value equal to the expected value
  written here and the denotation of the expected value equal to `Model/Calendar.lean` / `Model/Isimip.lean` /
  `Model/Loops.lean`.

  Trusted base of the denotation (stated once, here):
    * `datetime.date.timetuple().tm_yday` is the proleptic Gregorian day of year (`Model.Calendar.dayOfYear`);
      `.year / .month / .day` are the fields of the date;
    * the difference of two dates of one type is a `timedelta` whose `.days` is the difference of their proleptic
      Gregorian ordinals (`ordinal`, Python's `_ymd2ord`);
    * `datetime64.astype("datetime64[D]")` keeps the calendar day a stamp falls on (floor), `.astype(object)` of a
      `datetime64[D]` array is an array of `datetime.date`; of another unit it is not modelled (`unmodelled`);
    * `np.arange(a, a + timedelta64(n, "D"))` on a `datetime64[D]` start is `n` consecutive days from `a`;
    * `np.vectorize(f)(a)` applies `f` to the elements in order and raises `ValueError` on a size-0 array;
    * `np.unique` sorts and removes duplicates, with `return_index=True` it also reports the first occurrence.
  Import-free apart from `Model/`, executable.
-/
import IbicusModel.Model.Calendar
import IbicusModel.Model.Isimip
import IbicusModel.Model.Loops
import IbicusModel.Model.PyElem

namespace Model.CalendarFns
open Model.Calendar

/-! ### the per-element accessors -/

/-- expression applied to one element `x` of the time axis (locals are substituted by the extractor) -/
inductive PE where
  | x                                        -- the element
  | int (n : Int)                            -- an integer literal
  | attr (e : PE) (a : String)               -- `e.a`
  | meth0 (e : PE) (m : String)              -- `e.m()`
  | typeCtor3 (e a b c : PE)                 -- `type(e)(a, b, c)`
  | pub (f : String) (e : PE)                -- a public helper of the same module on one element: `year(x)`
  | sub (a b : PE)                           -- `a - b`
  | add (a b : PE)                           -- `a + b`
deriving DecidableEq, Repr

/-- body of the `try:` of a per-element function -/
inductive Body where
  | ret (e : PE)                             -- `return e`
  | ifHasattr (a : String) (t f : Body)      -- `if hasattr(x, "a"): t  else: f`
deriving DecidableEq, Repr

/-- `def _f(x): try: <body>  except <catches>: raise <raises>(…)` and the wrapper it is rebound to
    (`"np.vectorize(_)"`; `"_"` = called directly) -/
structure ElemFn where
  body : Body
  catches : String
  raises : String
  vectorizer : String
deriving DecidableEq, Repr

/-- one step of the conversion of a `datetime64` array -/
inductive Conv where
  | astype (t : String)                      -- `.astype("<t>")`
  | astypeObject                             -- `.astype(object)`
deriving DecidableEq, Repr

/-- `def f(x): x = <coerce>(x); if <test>: x = x<conv…>; return <elem>(x)` — `test` is the source text of the branch
    test with the parameter written `_` -/
structure PubFn where
  coerce : String
  test : String
  conv : List Conv
  elem : ElemFn
deriving DecidableEq, Repr

/-- what an element of a time axis can be -/
inductive Elem where
  | date (y : Int) (m d : Nat)               -- `datetime.date` / `datetime.datetime` / cftime: fields and `timetuple()`
  | bare (y : Int) (m d : Nat)               -- a date type without `timetuple`: fields, constructor `(y, m, d)`, subtraction
  | other                                    -- anything else
deriving DecidableEq, Repr

inductive Val where
  | elem (e : Elem)
  | int (n : Int)
  | ttuple (y : Int) (m d : Nat)             -- `time.struct_time` of a date
  | delta (days : Int)                       -- `timedelta`
deriving DecidableEq, Repr

/-- days before 1 January of year `y` (Python's `_days_before_year`) -/
def daysBeforeYear (y : Int) : Int := 365 * (y - 1) + (y - 1) / 4 - (y - 1) / 100 + (y - 1) / 400

/-- proleptic Gregorian ordinal (Python's `_ymd2ord`) -/
def ordinal (y : Int) (m d : Nat) : Int := daysBeforeYear y + (dayOfYear y m d : Nat)

def fields : Elem → Option (Int × Nat × Nat)
  | .date y m d => some (y, m, d)
  | .bare y m d => some (y, m, d)
  | .other => none

def hasattr : Elem → String → Bool
  | .date _ _ _, a => a = "year" || a = "month" || a = "day" || a = "timetuple"
  | .bare _ _ _, a => a = "year" || a = "month" || a = "day"
  | .other, _ => false

/-- meaning of a per-element expression; `pubs f` is the meaning of the public helper `f` on one element -/
def denotePE (pubs : String → Option (Elem → Except String Int)) (x : Elem) : PE → Except String Val
  | .x => .ok (.elem x)
  | .int n => .ok (.int n)
  | .attr e a =>
    match denotePE pubs x e with
    | .error err => .error err
    | .ok (.elem el) =>
      match fields el with
      | some (y, m, d) =>
        if a = "year" then .ok (.int y) else if a = "month" then .ok (.int m) else if a = "day" then .ok (.int d)
        else .error "AttributeError"
      | none => .error "AttributeError"
    | .ok (.ttuple y m d) => if a = "tm_yday" then .ok (.int (dayOfYear y m d : Nat)) else .error "AttributeError"
    | .ok (.delta n) => if a = "days" then .ok (.int n) else .error "AttributeError"
    | .ok (.int _) => .error "AttributeError"
  | .meth0 e m =>
    match denotePE pubs x e with
    | .error err => .error err
    | .ok (.elem (.date y mo d)) => if m = "timetuple" then .ok (.ttuple y mo d) else .error "AttributeError"
    | .ok _ => .error "AttributeError"
  | .typeCtor3 e a b c =>
    match denotePE pubs x e, denotePE pubs x a, denotePE pubs x b, denotePE pubs x c with
    | .ok (.elem (.date _ _ _)), .ok (.int y), .ok (.int m), .ok (.int d) =>
      if 0 ≤ m ∧ 0 ≤ d ∧ valid y m.toNat d.toNat then .ok (.elem (.date y m.toNat d.toNat)) else .error "ValueError"
    | .ok (.elem (.bare _ _ _)), .ok (.int y), .ok (.int m), .ok (.int d) =>
      if 0 ≤ m ∧ 0 ≤ d ∧ valid y m.toNat d.toNat then .ok (.elem (.bare y m.toNat d.toNat)) else .error "ValueError"
    | _, _, _, _ => .error "TypeError"
  | .pub f e =>
    match denotePE pubs x e, pubs f with
    | .ok (.elem el), some g => (g el).map .int
    | _, _ => .error "TypeError"
  | .sub a b =>
    match denotePE pubs x a, denotePE pubs x b with
    | .ok (.int p), .ok (.int q) => .ok (.int (p - q))
    | .ok (.elem p), .ok (.elem q) =>
      match fields p, fields q with
      | some (y, m, d), some (y', m', d') => .ok (.delta (ordinal y m d - ordinal y' m' d'))
      | _, _ => .error "TypeError"
    | _, _ => .error "TypeError"
  | .add a b =>
    match denotePE pubs x a, denotePE pubs x b with
    | .ok (.int p), .ok (.int q) => .ok (.int (p + q))
    | _, _ => .error "TypeError"

def denoteBody (pubs : String → Option (Elem → Except String Int)) (x : Elem) : Body → Except String Val
  | .ret e => denotePE pubs x e
  | .ifHasattr a t f => if hasattr x a then denoteBody pubs x t else denoteBody pubs x f

/-- one call of the per-element function: an exception of the body is caught by `except Exception` and re-raised as
    `raises`; a handler for another class lets it through -/
def denoteElem (pubs : String → Option (Elem → Except String Int)) (f : ElemFn) (x : Elem) : Except String Int :=
  match denoteBody pubs x f.body with
  | .ok (.int n) => .ok n
  | .ok _ => .error "unmodelled"
  | .error e => if f.catches = "Exception" then .error f.raises else .error e

/-- a time axis: an object array, or a `datetime64[unit]` array (each stamp: the calendar day it falls on and the time
    of day in `unit`s) -/
inductive Arr where
  | obj (l : List Elem)
  | dt64 (unit : String) (l : List ((Int × Nat × Nat) × Nat))
deriving DecidableEq, Repr

def applyConv : Arr → Conv → Except String Arr
  | .dt64 _ l, .astype t => if t = "datetime64[D]" then .ok (.dt64 "D" (l.map (fun s => (s.1, 0)))) else .error "unmodelled"
  | .dt64 u l, .astypeObject =>
    if u = "D" then .ok (.obj (l.map (fun s => Elem.date s.1.1 s.1.2.1 s.1.2.2))) else .error "unmodelled"
  | .obj _, _ => .error "unmodelled"

def applyConvs : Arr → List Conv → Except String Arr
  | a, [] => .ok a
  | a, c :: cs => match applyConv a c with
    | .error e => .error e
    | .ok a' => applyConvs a' cs

/-- `np.vectorize(f)(a)` / `f(a)` -/
def vectorized (v : String) (g : Elem → Except String Int) : Arr → Except String (List Int)
  | .obj l => if v = "np.vectorize(_)" then (if l = [] then .error "ValueError" else l.mapM g) else .error "unmodelled"
  | .dt64 _ _ => .error "unmodelled"

/-- meaning of a public accessor on a time axis -/
def denotePub (pubs : String → Option (Elem → Except String Int)) (f : PubFn) (a : Arr) : Except String (List Int) :=
  if f.coerce = "np.array" ∧ f.test = "np.issubdtype(_.dtype, np.datetime64)" then
    match a with
    | .obj _ => vectorized f.elem.vectorizer (denoteElem pubs f.elem) a
    | .dt64 _ _ =>
      match applyConvs a f.conv with
      | .error e => .error e
      | .ok a' => vectorized f.elem.vectorizer (denoteElem pubs f.elem) a'
  else .error "unmodelled"

/-! #### expected values (what the source says at the pinned tree) -/

def attrFn (a : String) : PubFn where
  coerce := "np.array"
  test := "np.issubdtype(_.dtype, np.datetime64)"
  conv := [.astype "datetime64[D]", .astypeObject]
  elem := { body := .ret (.attr .x a), catches := "Exception", raises := "ValueError", vectorizer := "np.vectorize(_)" }

def dayFn : PubFn := attrFn "day"
def monthFn : PubFn := attrFn "month"
def yearFn : PubFn := attrFn "year"

def dayOfYearFn : PubFn where
  coerce := "np.array"
  test := "np.issubdtype(_.dtype, np.datetime64)"
  conv := [.astype "datetime64[D]", .astypeObject]
  elem := { body := .ifHasattr "timetuple" (.ret (.attr (.meth0 .x "timetuple") "tm_yday"))
                      (.ret (.add (.attr (.sub .x (.typeCtor3 .x (.pub "year" .x) (.int 1) (.int 1))) "days") (.int 1))),
            catches := "Exception", raises := "ValueError", vectorizer := "np.vectorize(_)" }

/-- the public helpers a per-element expression may call: only `year` -/
def noPubs : String → Option (Elem → Except String Int) := fun _ => none
def pubs : String → Option (Elem → Except String Int) :=
  fun f => if f = "year" then some (denoteElem noPubs yearFn.elem) else none

/-- the calendar dates of a time axis (`none`: an element without calendar fields) -/
def Arr.dates : Arr → Option (List (Int × Nat × Nat))
  | .obj l => l.mapM fields
  | .dt64 _ l => some (l.map (·.1))

/-! ### `season` -/

/-- `def season(x): x = <source>(x); def g(x): if x in r₁: return s₁ elif … else: return <dflt>; g = <vectorizer>(g);
    return g(x)` -/
structure SeasonFn where
  source : String
  rows : List (List Int × String)
  dflt : Option String
  vectorizer : String
deriving DecidableEq, Repr

def seasonOf (rows : List (List Int × String)) (dflt : Option String) (m : Int) : Option String :=
  match rows.find? (fun r => r.1.contains m) with
  | some r => some r.2
  | none => dflt

/-- meaning of `season` given the meaning of the helper that supplies the months -/
def denoteSeason (month : Arr → Except String (List Int)) (f : SeasonFn) (a : Arr) : Except String (List (Option String)) :=
  if f.source = "month" ∧ f.vectorizer = "np.vectorize(_)" then
    match month a with
    | .error e => .error e
    | .ok ms => if ms = [] then .error "ValueError" else .ok (ms.map (seasonOf f.rows f.dflt))
  else .error "unmodelled"

def seasonFn : SeasonFn where
  source := "month"
  rows := [([3, 4, 5], "Spring"), ([6, 7, 8], "Summer"), ([9, 10, 11], "Autumn"), ([12, 1, 2], "Winter")]
  dflt := none
  vectorizer := "np.vectorize(_)"

/-! ### `create_array_of_consecutive_dates` -/

/-- `def f(n, start=np.datetime64("<y-m-d>")): if not isinstance(start, np.datetime64): start = <coerce>(start);
    return np.arange(start, start + np.timedelta64(n, "<stopUnit>") [, step])<conv…>` -/
structure ConsecSpec where
  start : Int × Nat × Nat
  coerce : String
  stopUnit : String
  step : Option Int
  conv : List Conv
deriving DecidableEq, Repr

/-- every `k`-th element, starting with the first -/
def everyKth {α} (k : Nat) : Nat → List α → List α
  | _, [] => []
  | 0, a :: t => a :: everyKth k (k - 1) t
  | s + 1, _ :: t => everyKth k s t

/-- the dates the call `f(n)` (default start) returns -/
def denoteConsec (c : ConsecSpec) (n : Nat) : Except String (List Elem) :=
  let days := if c.stopUnit = "D" then some n else if c.stopUnit = "W" then some (7 * n) else none
  match days, c.step with
  | some k, none =>
    (applyConvs (.dt64 "D" ((run k c.start.1 c.start.2.1 c.start.2.2).map (fun p => (p, 0)))) c.conv).bind
      (fun a => match a with | .obj l => .ok l | _ => .error "unmodelled")
  | some k, some s =>
    if 0 < s then
      (applyConvs (.dt64 "D" ((everyKth s.toNat 0 (run k c.start.1 c.start.2.1 c.start.2.2)).map (fun p => (p, 0)))) c.conv).bind
        (fun a => match a with | .obj l => .ok l | _ => .error "unmodelled")
    else .error "unmodelled"
  | none, _ => .error "unmodelled"

def consecSpec : ConsecSpec where
  start := (1950, 1, 1)
  coerce := "np.datetime64"
  stopUnit := "D"
  step := none
  conv := [.astypeObject]

/-! ### yearly means and the mask of first occurrences -/

/-- array expressions of `get_yearly_means` / `get_years_and_yearly_means` / `get_mask_for_unique_subarray`
    (`p0`, `p1`: the parameters by position; `v`: the comprehension variable) -/
inductive YE where
  | p0 | p1 | v
  | unique (a : YE)                          -- `np.unique(a)`
  | uniqueIndex (a : YE)                     -- the index array of `np.unique(a, return_index=True)`
  | eq (a b : YE)                            -- `a == b`
  | sel (a m : YE)                           -- `a[m]`, `m` a Boolean mask
  | mean (a : YE)                            -- `np.mean(a)`
  | comp (body iter : YE)                    -- `np.array([body for v in iter])`
  | pair (a b : YE)                          -- `a, b`
  | zerosLikeBool (a : YE)                   -- `np.zeros_like(a).astype(bool)`
  | setTrueAt (a i : YE)                     -- `t = a; t[i] = True; t`
deriving DecidableEq, Repr

inductive YV where
  | ints (l : List Int)
  | rats (l : List Rat)
  | bools (l : List Bool)
  | idx (l : List Nat)
  | int (k : Int)
  | rat (q : Rat)
  | pair (a b : YV)
deriving DecidableEq, Repr

def collectRats : List YV → Option (List Rat)
  | [] => some []
  | .rat q :: t => (collectRats t).map (q :: ·)
  | _ => none

/-- `t[i] = True` for an index array `i` -/
def setTrueAtIdx (t : List Bool) (i : List Nat) : Except String (List Bool) :=
  if i.all (· < t.length) then .ok ((List.range t.length).map (fun k => t.getD k false || i.contains k)) else .error "IndexError"

def denoteYE (a0 a1 : YV) (v : Option YV) : YE → Except String YV
  | .p0 => .ok a0
  | .p1 => .ok a1
  | .v => match v with | some x => .ok x | none => .error "NameError"
  | .unique a =>
    match denoteYE a0 a1 v a with
    | .ok (.ints l) => .ok (.ints (Model.Isimip.uniqueYears l))
    | .ok _ => .error "unmodelled"
    | .error e => .error e
  | .uniqueIndex a =>
    match denoteYE a0 a1 v a with
    | .ok (.ints l) => .ok (.idx (PyElem.uniqueIndex l).2)
    | .ok _ => .error "unmodelled"
    | .error e => .error e
  | .eq a b =>
    match denoteYE a0 a1 v a, denoteYE a0 a1 v b with
    | .ok (.ints l), .ok (.int k) => .ok (.bools (l.map (fun t => decide (t = k))))
    | .error e, _ => .error e
    | _, .error e => .error e
    | _, _ => .error "unmodelled"
  | .sel a m =>
    match denoteYE a0 a1 v a, denoteYE a0 a1 v m with
    | .ok (.rats l), .ok (.bools b) => if l.length = b.length then .ok (.rats (Py.selectWhere l b)) else .error "IndexError"
    | .error e, _ => .error e
    | _, .error e => .error e
    | _, _ => .error "unmodelled"
  | .mean a =>
    match denoteYE a0 a1 v a with
    | .ok (.rats l) => if l = [] then .error "nan" else .ok (.rat (Model.Stats.mean l))
    | .ok _ => .error "unmodelled"
    | .error e => .error e
  | .comp body iter =>
    match denoteYE a0 a1 v iter with
    | .ok (.ints l) =>
      match l.mapM (fun k => denoteYE a0 a1 (some (.int k)) body) with
      | .ok vs => match collectRats vs with
        | some qs => .ok (.rats qs)
        | none => .error "unmodelled"
      | .error e => .error e
    | .ok _ => .error "unmodelled"
    | .error e => .error e
  | .pair a b =>
    match denoteYE a0 a1 v a, denoteYE a0 a1 v b with
    | .ok x, .ok y => .ok (.pair x y)
    | .error e, _ => .error e
    | _, .error e => .error e
  | .zerosLikeBool a =>
    match denoteYE a0 a1 v a with
    | .ok (.ints l) => .ok (.bools (l.map (fun _ => false)))
    | .ok (.rats l) => .ok (.bools (l.map (fun _ => false)))
    | .ok _ => .error "unmodelled"
    | .error e => .error e
  | .setTrueAt a i =>
    match denoteYE a0 a1 v a, denoteYE a0 a1 v i with
    | .ok (.bools t), .ok (.idx ix) => (setTrueAtIdx t ix).map .bools
    | .error e, _ => .error e
    | _, .error e => .error e
    | _, _ => .error "unmodelled"

/-- `get_yearly_means(x, years)`: `np.array([np.mean(x[years == v]) for v in np.unique(years)])` -/
def yearlyMeansE : YE := .comp (.mean (.sel .p0 (.eq .p1 .v))) (.unique .p1)

/-- `get_years_and_yearly_means(x, years)`: `np.unique(years), get_yearly_means(x, years)` -/
def yearsAndYearlyMeansE : YE := .pair (.unique .p1) yearlyMeansE

/-- `get_mask_for_unique_subarray(x)` -/
def uniqueMaskE : YE := .setTrueAt (.zerosLikeBool .p0) (.uniqueIndex .p0)

end Model.CalendarFns
