/- Axiom audit of the shared layer-N debiaser model: Gen = Model obligations and the non-vacuity witness. -/
import IbicusModel.Lemmas.Family
import IbicusModel.Lemmas.GenDebiasers

#print axioms Lemmas.GenDebiasers.ls_apply_on_window
#print axioms Lemmas.GenDebiasers.dc_apply_on_within_year_window
#print axioms Lemmas.GenDebiasers.linearScalingS_additive
#print axioms Lemmas.GenDebiasers.linearScalingS_multiplicative
#print axioms Lemmas.GenDebiasers.deltaChangeS_additive
#print axioms Lemmas.GenDebiasers.deltaChangeS_multiplicative
#print axioms Lemmas.GenDebiasers.applyYearsC_const
#print axioms Lemmas.GenDebiasers.cdftMapping_eq
#print axioms Lemmas.Family.ratSigmoid_laws
#print axioms Lemmas.Family.ppf_cdf
#print axioms Lemmas.Family.cdf_ppf
#print axioms Lemmas.Family.cdf_strictMono
#print axioms Lemmas.Family.ppf_strictMono
#print axioms Lemmas.Family.Ginv_strictMono
#print axioms Lemmas.Family.Ginv_half
#print axioms Lemmas.Family.fit_affine
#print axioms Lemmas.Family.fit_perm
#print axioms Lemmas.Family.cdf_affine
#print axioms Lemmas.Family.ppf_affine
