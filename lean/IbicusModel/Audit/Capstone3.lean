/- Axiom audit of capstone 3: C01 / C09 / C10 stated on the denotation of the regenerated per-window pieces
   (`Props/Capstone3.lean`).  Each property's own audit (`Audit/C01.lean`, `C09`, `C10`) lists the theorems about it. -/
import IbicusModel.Props.Capstone3
-- regenerated per-window piece = hand-written window function
#print axioms Props.Capstone3.regenWindowProg_denote
#print axioms Props.Capstone3.regenWindow_LS_additive
#print axioms Props.Capstone3.regenWindow_LS_multiplicative
#print axioms Props.Capstone3.regenWindow_DC_additive
#print axioms Props.Capstone3.regenWindow_DC_multiplicative
#print axioms Props.Capstone3.regenWindow_ECDFM_eq_model
#print axioms Props.Capstone3.regenWindow_QM_eq_model_param
#print axioms Props.Capstone3.regenWindow_QM_eq_model_nonparam
#print axioms Props.Capstone3.regenWindow_SDM_eq_model
#print axioms Props.Capstone3.regenWindow_SDM_relative_eq_model
#print axioms Props.Capstone3.regenWindow_CDFt_eq_model
#print axioms Props.Capstone3.regenWindow_CDFt_eq_model_nossr
#print axioms Props.Capstone3.regenWindow_QDM_eq_model
#print axioms Props.Capstone3.regenStep6_eq_model
#print axioms Props.Capstone3.regenWindow_ISIMIP_eq_model
-- C01
#print axioms Props.Capstone3.regenWindow_LS_mean_add
#print axioms Props.Capstone3.regenWindow_LS_mean_mult
#print axioms Props.Capstone3.regenWindow_DC_id_add
#print axioms Props.Capstone3.regenWindow_DC_id_mult
#print axioms Props.Capstone3.regenWindow_QM_param_fit
#print axioms Props.Capstone3.regenWindow_QM_param_fit_eq
#print axioms Props.Capstone3.regenWindow_QM_nonparam_perm
#print axioms Props.Capstone3.regenWindow_QM_nonparam_mean_bounds
#print axioms Props.Capstone3.regenWindow_QM_nonparam_mean_bound
#print axioms Props.Capstone3.regenWindow_ECDFM_fit
#print axioms Props.Capstone3.regenWindow_ECDFM_fit_eq
#print axioms Props.Capstone3.regenWindow_CDFt_perm
#print axioms Props.Capstone3.regenWindow_CDFt_clamped_perm
#print axioms Props.Capstone3.regenWindow_CDFt_mean_bound
#print axioms Props.Capstone3.regenWindow_SDM_abs_perm
#print axioms Props.Capstone3.regenWindow_QDM_mean_symm
-- C09
#print axioms Props.Capstone3.regenWindow_LS_add_strict_mono
#print axioms Props.Capstone3.regenWindow_LS_mult_mono
#print axioms Props.Capstone3.regenWindow_QM_param_mono_family_signed
#print axioms Props.Capstone3.regenWindow_QM_param_mono_signed
#print axioms Props.Capstone3.regenWindow_QM_param_mono
#print axioms Props.Capstone3.regenWindow_QM_nonparam_mono_signed
#print axioms Props.Capstone3.regenWindow_QM_nonparam_mono
#print axioms Props.Capstone3.regenWindow_orderPres_of_image
#print axioms Props.Capstone3.regenWindow_CDFt_mono
#print axioms Props.Capstone3.regenWindow_CDFt_ssr_order
#print axioms Props.Capstone3.regenWindow_CDFt_ssr_order_nonneg
#print axioms Props.Capstone3.regenStep6_mono
#print axioms Props.Capstone3.regenStep6_mono_unbounded
#print axioms Props.Capstone3.regenWindow_ISIMIP_mono
-- C10
#print axioms Props.Capstone3.regenWindow_LS_mult_nonneg
#print axioms Props.Capstone3.regenWindow_DC_mult_nonneg
#print axioms Props.Capstone3.regenWindow_SDM_relative_nonneg
#print axioms Props.Capstone3.regenWindow_SDM_relative_raises
#print axioms Props.Capstone3.regenWindow_CDFt_ssr_zero_or_ge
#print axioms Props.Capstone3.regenWindow_CDFt_ssr_nonneg
#print axioms Props.Capstone3.regenWindow_QDM_zero_or_ge
#print axioms Props.Capstone3.regenWindow_QDM_relative_nonneg
#print axioms Props.Capstone3.regenStep6_in_bounds
#print axioms Props.Capstone3.regenStep6_no_gap
#print axioms Props.Capstone3.regenStep6_pr_zero_or_ge
#print axioms Props.Capstone3.regenWindow_ISIMIP_in_bounds_no_gap
