/- Axiom audit of capstone 2: C06 / C07 / C08 stated on the composition of the regenerated pieces
   (`Props/Capstone2.lean`).  Each property's own audit (`Audit/C06.lean`, `C07`, `C08`) lists the theorems about that property. -/
import IbicusModel.Props.Capstone2
-- C07: every step assigned, written exactly once
#print axioms Props.Capstone2.runLoop_writes
#print axioms Props.Capstone2.regen_loopRW_writes
#print axioms Props.Capstone2.regen_loopIsimipRW_writes
#print axioms Props.Capstone2.regen_loopDC_writes
#print axioms Props.Capstone2.regen_loopRW_assigned_once
#print axioms Props.Capstone2.regen_loopIsimipRW_assigned_once
#print axioms Props.Capstone2.regen_loopDC_assigned_once
#print axioms Props.Capstone2.regen_loopIsimipMonths_all_assigned
#print axioms Props.Capstone2.regen_loopCDFt_all_assigned
#print axioms Props.Capstone2.regen_loopQDM_all_assigned
#print axioms Props.Capstone2.regenApplyLocation_LS_assigned_once
#print axioms Props.Capstone2.regenApplyLocation_DC_assigned_once
#print axioms Props.Capstone2.regenApplyLocation_CDFt_assigned_once
#print axioms Props.Capstone2.regenApplyLocation_CDFt_years_assigned_once
#print axioms Props.Capstone2.regenApplyLocation_QDM_assigned_once
#print axioms Props.Capstone2.regenApplyLocation_QDM_years_assigned_once
#print axioms Props.Capstone2.regenApplyLocation_QM_assigned_once
#print axioms Props.Capstone2.regenApplyLocation_ECDFM_assigned_once
#print axioms Props.Capstone2.regenApplyLocation_SDM_assigned_once
#print axioms Props.Capstone2.allAssigned_of_AllAssigned
#print axioms Props.Capstone2.regen_yearsWin_cdft_assigned
#print axioms Props.Capstone2.regen_yearsWin_qdm_assigned
#print axioms Props.Capstone2.step8Buffer_all_assigned
#print axioms Props.Capstone2.regenApplyLocation_ISIMIP_assigned_once
#print axioms Props.Capstone2.regenApplyLocation_ISIMIP_months_all_assigned
-- C08: seasonal locality
#print axioms Props.Capstone2.regen_loopRW_local
#print axioms Props.Capstone2.regen_loopIsimipRW_local
#print axioms Props.Capstone2.regen_loopDC_local
#print axioms Props.Capstone2.regenApplyLocation_LS_local
#print axioms Props.Capstone2.regenApplyLocation_DC_local
#print axioms Props.Capstone2.regenApplyLocation_CDFt_local
#print axioms Props.Capstone2.regenApplyLocation_CDFt_years_local
#print axioms Props.Capstone2.regenApplyLocation_QDM_local
#print axioms Props.Capstone2.regenApplyLocation_QDM_years_local
#print axioms Props.Capstone2.regenApplyLocation_QM_local
#print axioms Props.Capstone2.regenApplyLocation_ECDFM_local
#print axioms Props.Capstone2.regenApplyLocation_SDM_local
#print axioms Props.Capstone2.regenApplyLocation_ISIMIP_local
#print axioms Props.Capstone2.Demo.agree_demo
-- C06: time-order equivariance
#print axioms Props.Capstone2.regen_loopRW_time_order
#print axioms Props.Capstone2.regen_loopDC_time_order
#print axioms Props.Capstone2.regenApplyLocation_LS_time_order
#print axioms Props.Capstone2.regenApplyLocation_DC_time_order
#print axioms Props.Capstone2.regenApplyLocation_CDFt_time_order
#print axioms Props.Capstone2.regenApplyLocation_QDM_time_order
#print axioms Props.Capstone2.regenApplyLocation_QM_time_order
#print axioms Props.Capstone2.regenApplyLocation_ECDFM_time_order
#print axioms Props.Capstone2.regenApplyLocation_SDM_time_order
#print axioms Props.Capstone2.regenApplyLocation_CDFt_years_time_order
#print axioms Props.Capstone2.regenApplyLocation_QDM_years_time_order
#print axioms Props.Capstone2.regenApplyLocation_ISIMIP_time_order
#print axioms Props.Capstone2.regenApplyLocation_ISIMIP_detrending_time_order
#print axioms Props.Capstone2.regenApplyLocation_ISIMIP_months_time_order
#print axioms Lemmas.Capstone2.winOfYears_eq_project
#print axioms Lemmas.Capstone2.applyLocationRW_winOfYears_project
#print axioms Lemmas.Capstone2.winOfYears_time_order
