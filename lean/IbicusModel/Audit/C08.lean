import IbicusModel.Props.C08
import IbicusModel.Lemmas.GenWindows
import IbicusModel.Props.Calendar
import IbicusModel.Props.CalendarAgree
import IbicusModel.Lemmas.GenLoops
import IbicusModel.Props.Capstone2
-- property theorems
#print axioms Props.C08.window_mem_iff_circ
#print axioms Props.C08.adjust_close
#print axioms Props.C08.circNear_of_window
#print axioms Props.C08.locality_RW
#print axioms Props.C08.locality_DC
-- cover facts the locality statement relies on (exactly one centre adjusts a step; it lies in that centre's window)
#print axioms Props.C07.use_cover_unique
#print axioms Props.C07.doy_adjust_subset_window
-- tier A: regenerated kernels = model
#print axioms Lemmas.GenWindows.doy_post_init
#print axioms Lemmas.GenWindows.get_window_centers
#print axioms Lemmas.GenWindows.get_indices_vals_in_window
#print axioms Lemmas.GenWindows.get_indices_vals_to_adjust
-- calendar model (tied by the DrvCalendar correspondence): day of year in range, successor day, every day of year present
-- in a whole year, injectivity, the inferred calendar, the seasons
#print axioms Props.Calendar.dayOfYear_range
#print axioms Props.Calendar.valid_next
#print axioms Props.Calendar.dayOfYear_next
#print axioms Props.Calendar.dayOfYear_surjective
#print axioms Props.Calendar.dayOfYear_injective
#print axioms Props.Calendar.run_valid
#print axioms Props.Calendar.inferred_valid
#print axioms Props.Calendar.season_partition
-- the two models of the inferred calendar (successor-day iteration / year arithmetic) agree on year and day of year
#print axioms Props.CalendarAgree.inferred_agree
-- tier A: the structure of the real running-window loops / of `use` regenerated from the AST = the expected specs
#print axioms Lemmas.GenLoops.useDoy
#print axioms Lemmas.GenLoops.loopRW
#print axioms Lemmas.GenLoops.loopDC
#print axioms Lemmas.GenLoops.loopIsimipRW
-- … and the denotation of the expected specs is the skeleton the locality theorems are stated on
#print axioms Lemmas.GenLoops.denote_loopRW
#print axioms Lemmas.GenLoops.denote_loopDC
#print axioms Lemmas.GenLoops.denote_loopIsimipRW
#print axioms Lemmas.GenLoops.denoteGen_useDoy
#print axioms Lemmas.GenLoops.genCentres_useDoy
-- capstone 2 (BEGIN): the property on the composition of the regenerated pieces (`Props/Capstone2.lean`)
#print axioms Props.Capstone2.regen_loopRW_local
#print axioms Props.Capstone2.regen_loopIsimipRW_local
#print axioms Props.Capstone2.regen_loopDC_local
#print axioms Props.Capstone2.regenApplyLocation_LS_local
#print axioms Props.Capstone2.regenApplyLocation_DC_local
#print axioms Props.Capstone2.regenApplyLocation_CDFt_local
#print axioms Props.Capstone2.regenApplyLocation_CDFt_years_local
#print axioms Props.Capstone2.regenApplyLocation_QDM_local
#print axioms Props.Capstone2.regenApplyLocation_QDM_years_local
#print axioms Props.Capstone2.regenApplyLocation_QM_local
#print axioms Props.Capstone2.regenApplyLocation_ECDFM_local
#print axioms Props.Capstone2.regenApplyLocation_SDM_local
#print axioms Props.Capstone2.regenApplyLocation_ISIMIP_local
#print axioms Props.Capstone2.Demo.agree_demo
-- capstone 2 (END)
