import IbicusModel.Props.C11
-- property theorems
#print axioms Props.C11.pObsFuture_range
#print axioms Props.C11.pObsFuture_no_div0
#print axioms Props.C11.pObsFuture_hist_eq_future
#print axioms Props.C11.pObsFuture_hist_eq_future_or
#print axioms Props.C11.pObsFuture_hist_eq_future_close
#print axioms Props.C11.pObsFuture_hist_eq_obs
#print axioms Props.C11.pObsFuture_of_isclose
#print axioms Props.C11.pFuture_off
#print axioms Props.C11.nrToBound_off
#print axioms Props.C11.pFuture_range
#print axioms Props.C11.nrToBound_range
#print axioms Props.C11.nrToBound_nearest
#print axioms Props.C11.scale_sum
#print axioms Props.C11.scale_nonneg
#print axioms Props.C11.legacy_scale_counterexample
#print axioms Props.C11.finalCounts_valid
#print axioms Props.C11.rawCounts_range
#print axioms Props.C11.step6Counts_valid
#print axioms Props.C11.step6Counts_eq_round
#print axioms Props.C11.step6Counts_perm
#print axioms Props.C11.bound_counts
#print axioms Props.C11.bound_counts_strictly_inside
#print axioms Props.C11.step6_count
-- bridge integer kernel <-> rational form, closed form of the assignment
#print axioms Lemmas.IsimipFreq.roundHalfEven_div
#print axioms Lemmas.IsimipFreq.assignBounds_eq
-- tier A: regenerated kernels = model
#print axioms Lemmas.GenIsimipFreq.calculate_percent_values_beyond_threshold
#print axioms Lemmas.GenIsimipFreq.get_P_obs_future
#print axioms Lemmas.GenIsimipFreq.get_nr_of_entries_to_set_to_bound
#print axioms Lemmas.GenIsimipFreq.scale_nr_of_entries_to_set_to_bounds
