/- Axiom audit of C02: every property theorem of Props.C02, the helper theorems the instances rest on, and the tier-A
   obligations (`Gen.Debiasers` kernels regenerated from /repo = model) for LinearScaling / DeltaChange. -/
import IbicusModel.Props.C02
import IbicusModel.Lemmas.GenDebiasers
import IbicusModel.Lemmas.GenIsimipSteps
import IbicusModel.Lemmas.GenDebWin
import IbicusModel.Lemmas.GenDebWinSdm
-- property theorems
#print axioms Props.C02.ls_add_shift
#print axioms Props.C02.ls_mult_scale
#print axioms Props.C02.ls_add_mean_change
#print axioms Props.C02.ls_mult_mean_change
#print axioms Props.C02.dc_add_shift
#print axioms Props.C02.dc_mult_scale
#print axioms Props.C02.dc_add_mean_change
#print axioms Props.C02.dc_mult_mean_change
#print axioms Props.C02.qm_additive_detrending_shift
#print axioms Props.C02.qm_multiplicative_detrending_scale
#print axioms Props.C02.sdm_absolute_shift
#print axioms Props.C02.ecdfm_shift
#print axioms Props.C02.qdm_absolute_shiftG
#print axioms Props.C02.qdm_absolute_shift
#print axioms Props.C02.cdft_core_shift
#print axioms Props.C02.cdft_shiftG
#print axioms Props.C02.cdft_multiplicative_shiftG
#print axioms Props.C02.cdft_shift
#print axioms Props.C02.cdft_hist_shift
#print axioms Props.C02.cdft_steps_shift
#print axioms Props.C02.isimip_additive_shift
#print axioms Props.C02.isimip_family_laws
#print axioms Props.C02.isimip_step7_restores
#print axioms Props.C02.isimip_removed_trend_linear
#print axioms Props.C02.isimip_removed_trend_zero
#print axioms Props.C02.isimip_linear_trend_passes
#print axioms Props.C02.isimip_step7_step3_roundtrip
#print axioms Props.C02.windowed_shift
#print axioms Props.C02.windowed_shift_DC
#print axioms Props.C02.ls_windowed_shift
#print axioms Props.C02.dc_windowed_shift
#print axioms Props.C02.qm_windowed_shift
#print axioms Props.C02.sdm_windowed_shift
#print axioms Props.C02.ecdfm_windowed_shift
#print axioms Props.C02.qdm_windowed_shift
#print axioms Props.C02.cdft_windowed_shift
#print axioms Props.C02.cdft_years_shift
#print axioms Props.C02.qdm_years_shift
#print axioms Props.C02.cdft_season_years_shift
#print axioms Props.C02.qdm_season_years_shift
#print axioms Props.C02.isimip_windowed_shift
#print axioms Props.C02.isimip_months_shift
#print axioms Props.C02.windowed_scale
#print axioms Props.C02.windowed_scale_DC
#print axioms Props.C02.ls_windowed_scale
#print axioms Props.C02.dc_windowed_scale
#print axioms Props.C02.qm_windowed_scale
#print axioms Props.C02.cdftG_windowed_shift
#print axioms Props.C02.qdmG_windowed_shift
#print axioms Props.C02.isimip_output_minus_step6
#print axioms Props.C02.grid_equivariant
#print axioms Props.C02.grid_equivariant_DC
#print axioms Props.C02.grid_shift
#print axioms Props.C02.grid_scale
#print axioms Props.C02.isimip_trend_order_free
#print axioms Props.C02.isimip_removed_trend_order_free
#print axioms Props.C02.inferred_doy_wellformed
#print axioms Props.C02.inferred_length_only
#print axioms Props.C02.inferred_eq_explicit
#print axioms Props.C02.windowed_shift_inferred
#print axioms Props.C02.windowed_scale_inferred
#print axioms Props.C02.isimip_months_linear_trend_passes
-- the interfaces are inhabited: ShiftLaws for all 2 x 9 pairs and the histogram ecdf, IsiShiftLaws / LocScaleLaws for the executable family
#print axioms Lemmas.C02.shiftLaws_ecdf_iecdf
#print axioms Lemmas.C02.shiftLaws_hist_iecdf
#print axioms Lemmas.C02.isiShiftLaws_ofLocScale
#print axioms Lemmas.C02.isiShiftLaws_ratSigmoid
#print axioms Lemmas.Family.ratSigmoid_laws
-- the regression slope is modelled exactly: invariance under a constant (the p-value decision is the oracle)
#print axioms Lemmas.C02.linSlope_shift
#print axioms Lemmas.C02.step3_shift
#print axioms Lemmas.C02.step5_shift
#print axioms Lemmas.C02.step6_shift
#print axioms Lemmas.C02.step7_shift
-- tier A: regenerated kernels = model
#print axioms Lemmas.GenDebiasers.ls_apply_on_window
#print axioms Lemmas.GenDebiasers.dc_apply_on_within_year_window
#print axioms Lemmas.GenDebiasers.linearScalingS_additive
#print axioms Lemmas.GenDebiasers.linearScalingS_multiplicative
#print axioms Lemmas.GenDebiasers.deltaChangeS_additive
#print axioms Lemmas.GenDebiasers.deltaChangeS_multiplicative
#print axioms Props.C02.isimip_default_variables_shift
-- tier A: the additive variables of the regenerated ISIMIP settings table
#print axioms Lemmas.C02.additive_variables_cfg
#print axioms Lemmas.C02.additive_variables_complete
-- round 4: helper theorems the new property theorems rest on
#print axioms Lemmas.C02.applyOnWindow_add_linear
#print axioms Lemmas.C02.applyOnWindow_length
#print axioms Lemmas.C02.applyLocationMonths_pos
#print axioms Lemmas.C02.yearlyMeans_order_free
#print axioms Lemmas.C02.inferredDoy_range
#print axioms Lemmas.C02.slice_map3
-- tier A (ISIMIP steps 3 / 5 / 7 regenerated from `_isimip.py` = the model `isimip_additive_shift` is stated on)
#print axioms Lemmas.GenIsimipSteps.transfer_trend_eq
#print axioms Lemmas.GenIsimipSteps.transfer_trend_error
#print axioms Lemmas.GenIsimipSteps.remove_trend_eq
#print axioms Lemmas.GenIsimipSteps.step7_eq
-- tier A: the dataflow of the per-window transfer functions regenerated from /repo (Gen.DebWin) = expected program, and its denotation = Model.Debiasers
#print axioms Lemmas.GenDebWin.gen_cdft_apply_CDFt_mapping
#print axioms Lemmas.GenDebWin.gen_ecdfm_apply_on_window
#print axioms Lemmas.GenDebWin.gen_qdm_apply_debiasing_steps
#print axioms Lemmas.GenDebWin.gen_qdm_get_obs_and_cm_hist_fits
#print axioms Lemmas.GenDebWin.gen_qm_standard_qm
#print axioms Lemmas.GenDebWin.gen_qm_apply_on_window
#print axioms Lemmas.GenDebWin.gen_sdm_apply_on_window_absolute_sdm
#print axioms Lemmas.GenDebWin.gen_cdft_apply_debiasing_steps
#print axioms Lemmas.GenDebWin.gen_sdm_apply_on_window_relative_sdm
#print axioms Lemmas.GenDebWin.cdft_mapping_denote
#print axioms Lemmas.GenDebWin.cdft_mapping_denote_methods
#print axioms Lemmas.GenDebWin.cdft_bad_delta_shift
#print axioms Lemmas.GenDebWin.ecdfm_denote
#print axioms Lemmas.GenDebWin.qdm_denote
#print axioms Lemmas.GenDebWin.qdm_fits_denote
#print axioms Lemmas.GenDebWin.qdm_window_denote
#print axioms Lemmas.GenDebWin.qdm_bad_trend_preservation
#print axioms Lemmas.GenDebWin.qm_standard_param_denote
#print axioms Lemmas.GenDebWin.qm_standard_nonparam_denote
#print axioms Lemmas.GenDebWin.qm_param_denote
#print axioms Lemmas.GenDebWin.qm_nonparam_denote
#print axioms Lemmas.GenDebWin.qm_bad_detrending
#print axioms Lemmas.GenDebWin.qm_bad_mapping_type
#print axioms Lemmas.GenDebWin.sdm_abs_core
#print axioms Lemmas.GenDebWin.sdm_absolute_denote
#print axioms Lemmas.GenDebWin.cdft_steps_denote
#print axioms Lemmas.GenDebWin.cdft_steps_denote_methods
-- tier A (DebWin, continued): SDM relative denotes Model.Debiasers.sdmRelative; CDFt steps for a single draw list
#print axioms Lemmas.GenDebWinSdm.runBinds_append
#print axioms Lemmas.GenDebWinSdm.sdm_rel_core
#print axioms Lemmas.GenDebWinSdm.expected_int
#print axioms Lemmas.GenDebWinSdm.sdmRelExpected_le
#print axioms Lemmas.GenDebWinSdm.sdm_relative_denote
#print axioms Lemmas.GenDebWinSdm.sdm_relative_denote_raises
#print axioms Lemmas.GenDebWinSdm.sdm_relative_denote_ok
#print axioms Lemmas.GenDebWinSdm.sdm_relative_no_hidden_raise
#print axioms Lemmas.GenDebWinSdm.cdft_steps_denote_single
#print axioms Lemmas.GenDebWinSdm.cdft_steps_denote_methods_single
