import IbicusModel.Props.C04
import IbicusModel.Props.C04Gen
import IbicusModel.Props.Capstone
-- property theorems (per window, then whole series)
#print axioms Props.C04.sort_map_mono
#print axioms Props.C04.rank_map_mono
#print axioms Props.C04.ecdf_iecdf_affine
#print axioms Props.C04.ls_add_affine
#print axioms Props.C04.dc_add_affine
#print axioms Props.C04.ls_mult_scale_equivariant
#print axioms Props.C04.dc_mult_scale_equivariant
#print axioms Props.C04.ls_mult_not_shift_equivariant
#print axioms Props.C04.qm_param_affine
#print axioms Props.C04.qm_nonparam_affine
#print axioms Props.C04.ecdfm_affine
#print axioms Props.C04.qdm_abs_affine
#print axioms Props.C04.qdm_abs_years_affine
#print axioms Props.C04.sdm_abs_affine
#print axioms Props.C04.cdft_affine
#print axioms Props.C04.cdft_affine_any
#print axioms Props.C04.cdft_years_affine
#print axioms Props.C04.isimip_unbounded_flags
#print axioms Props.C04.linregress_slope_scales
#print axioms Props.C04.isimip_add_affine
#print axioms Props.C04.windowed_affine_RW
#print axioms Props.C04.windowed_affine_DC
#print axioms Props.C04.ls_windowed_affine
#print axioms Props.C04.dc_windowed_affine
#print axioms Props.C04.qm_param_windowed_affine
#print axioms Props.C04.qm_nonparam_windowed_affine
#print axioms Props.C04.ecdfm_windowed_affine
#print axioms Props.C04.sdm_windowed_affine
#print axioms Props.C04.qdm_windowed_affine
#print axioms Props.C04.cdft_windowed_affine
#print axioms Props.C04.isimip_winFn_affine
#print axioms Props.C04.isimip_windowed_affine_RW
#print axioms Props.C04.isimip_windowed_affine_months
-- round 4: multiplicative whole-series, histogram ecdf, grids, construction sequences
#print axioms Props.C04.ls_mult_windowed_scale
#print axioms Props.C04.dc_mult_windowed_scale
#print axioms Props.C04.cdft_affine_hist
#print axioms Props.C04.qdm_abs_affine_hist
#print axioms Props.C04.rangeBin_affine
#print axioms Props.C04.apply_grid_affine
#print axioms Props.C04.locRW_affine
#print axioms Props.C04.from_variable_state_const
#print axioms Props.C04.from_variable_history_free
#print axioms Props.C04.aliasing_counter_model_leaks
#print axioms Lemmas.C02.ecdfHist1_affine
#print axioms Lemmas.C04.eqAffineLaws_hist
#print axioms Props.C05.apply_cellwise
-- the general affine laws of the numeric toolkit the theorems stand on (Lemmas/StatsAffine.lean)
#print axioms Lemmas.StatsAffine.sortQ_map_affine
#print axioms Lemmas.StatsAffine.argsort_map_affine
#print axioms Lemmas.StatsAffine.rankOf_map_affine
#print axioms Lemmas.StatsAffine.ecdf1_map_affine
#print axioms Lemmas.StatsAffine.iecdf1_map_affine
#print axioms Lemmas.StatsAffine.interp1_map_xp
#print axioms Lemmas.StatsAffine.interp1_map_fp
#print axioms Lemmas.StatsAffine.qmapExtrap_map_affine
#print axioms Lemmas.StatsAffine.interpOnLength_map_affine
#print axioms Lemmas.StatsAffine.minQ_map_affine
#print axioms Lemmas.StatsAffine.maxQ_map_affine
-- the family laws are satisfiable (executable witness) and the derived affine laws
#print axioms Lemmas.Family.ratSigmoid_laws
#print axioms Lemmas.Family.fit_affine
#print axioms Lemmas.Family.cdf_affine
#print axioms Lemmas.Family.ppf_affine
-- lifting lemmas used
#print axioms Lemmas.Lift.applyLocationRW_equivariant
#print axioms Lemmas.Lift.applyLocationDC_equivariant
#print axioms Lemmas.C04.applyYears_equivariant2
#print axioms Lemmas.C04.applyLocationRW_equivariant_on
#print axioms Lemmas.C04.applyLocationMonths_equivariant_on
-- tier A: regenerated kernels = model
#print axioms Props.C04.isimip_flags_are_generated
#print axioms Props.C04.isimip_unbounded_flags_generated
#print axioms Props.C04.from_variable_builds_fresh_dict
#print axioms Lemmas.GenDebiasers.ls_apply_on_window
#print axioms Lemmas.GenDebiasers.dc_apply_on_within_year_window
#print axioms Lemmas.GenDebiasers.linearScalingS_additive
#print axioms Lemmas.GenDebiasers.linearScalingS_multiplicative
#print axioms Lemmas.GenDebiasers.deltaChangeS_additive
#print axioms Lemmas.GenDebiasers.deltaChangeS_multiplicative
-- capstone: C04 on the composition of the regenerated pieces (Props/Capstone.lean; the `_eq_model` theorems they rest on are listed in Audit/C02.lean)
#print axioms Props.Capstone.regenApplyLocation_LS_affine
#print axioms Props.Capstone.regenApplyLocation_LS_mult_scale
#print axioms Props.Capstone.regenApplyLocation_DC_affine
#print axioms Props.Capstone.regenApplyLocation_DC_mult_scale
#print axioms Props.Capstone.regenApplyLocation_ECDFM_affine
#print axioms Props.Capstone.regenApplyLocation_QM_affine_param
#print axioms Props.Capstone.regenApplyLocation_QM_affine_nonparam
#print axioms Props.Capstone.regenApplyLocation_SDM_affine
#print axioms Props.Capstone.regenApplyLocation_CDFt_affine
#print axioms Props.Capstone.regenApplyLocation_QDM_affine
#print axioms Props.Capstone.regenApplyLocation_CDFt_years_affine
#print axioms Props.Capstone.regenApplyLocation_QDM_years_affine
#print axioms Props.Capstone.regenApplyLocation_ISIMIP_affine
#print axioms Props.Capstone.regenApplyLocation_ISIMIP_months_affine
