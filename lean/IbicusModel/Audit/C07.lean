import IbicusModel.Props.C07
import IbicusModel.Props.Calendar
import IbicusModel.Props.CalendarAgree
import IbicusModel.Lemmas.GenLoops
import IbicusModel.Lemmas.GenCalendarFns
import IbicusModel.Props.Capstone2
-- property theorems
#print axioms Props.C07.postInit_ok
#print axioms Props.C07.postInit_error_iff
#print axioms Props.C07.doy_cover_unique
#print axioms Props.C07.use_cover_unique
#print axioms Props.C07.use_nonempty
#print axioms Props.C07.doy_adjust_subset_window
#print axioms Props.C07.centers_nodup
#print axioms Props.C07.years_cover_unique
#print axioms Props.C07.years_adjusted_subset_window
#print axioms Props.C07.yearCenters_nonempty_adjust
#print axioms Props.C07.applyLocationRW_written_once
#print axioms Props.C07.applyLocationRW_all_some
#print axioms Props.C07.applyLocationDC_all_some
#print axioms Props.C07.applyYears_all_some
#print axioms Props.C07.applyLocationMonths_all_some
#print axioms Props.C07.composed_cover_unique
#print axioms Props.C07.legacy_doy_counterexample
#print axioms Props.C07.legacy_years_counterexample
-- tier A: regenerated kernels = model
#print axioms Lemmas.GenWindows.doy_post_init
#print axioms Lemmas.GenWindows.years_post_init
#print axioms Lemmas.GenWindows.get_window_centers
#print axioms Lemmas.GenWindows.get_indices_vals_in_window
#print axioms Lemmas.GenWindows.get_indices_vals_to_adjust
#print axioms Lemmas.GenWindows.get_years_in_window
#print axioms Lemmas.GenWindows.get_years_in_window_that_are_adjusted
#print axioms Lemmas.GenWindows.get_years_forming_window_centers
-- calendar model (tied by the DrvCalendar correspondence): day of year in range, successor day, every day of year present
-- in a whole year, injectivity, the inferred calendar, the seasons
#print axioms Props.Calendar.dayOfYear_range
#print axioms Props.Calendar.valid_next
#print axioms Props.Calendar.dayOfYear_next
#print axioms Props.Calendar.dayOfYear_surjective
#print axioms Props.Calendar.dayOfYear_injective
#print axioms Props.Calendar.run_valid
#print axioms Props.Calendar.inferred_valid
#print axioms Props.Calendar.season_partition
-- the two models of the inferred calendar (successor-day iteration / year arithmetic) agree on year and day of year
#print axioms Props.CalendarAgree.inferred_agree
-- tier A: the structure of the real write-back loops / `use` generators regenerated from the AST = the expected specs
#print axioms Lemmas.GenLoops.useDoy
#print axioms Lemmas.GenLoops.useYears
#print axioms Lemmas.GenLoops.loopRW
#print axioms Lemmas.GenLoops.loopDC
#print axioms Lemmas.GenLoops.loopIsimipRW
#print axioms Lemmas.GenLoops.loopIsimipMonths
#print axioms Lemmas.GenLoops.loopCDFt
#print axioms Lemmas.GenLoops.loopQDM
-- … and the denotation of the expected specs is the skeleton (`Model/Skeleton.lean`) / the centre lists (`Model/Windows.lean`)
#print axioms Lemmas.GenLoops.denote_loopRW
#print axioms Lemmas.GenLoops.denote_loopDC
#print axioms Lemmas.GenLoops.denote_loopIsimipRW
#print axioms Lemmas.GenLoops.denote_loopIsimipMonths
#print axioms Lemmas.GenLoops.denote_loopCDFt
#print axioms Lemmas.GenLoops.denote_loopQDM
#print axioms Lemmas.GenLoops.denoteGen_useDoy
#print axioms Lemmas.GenLoops.denoteGen_useYears
#print axioms Lemmas.GenLoops.genCentres_useDoy
#print axioms Lemmas.GenLoops.genCentres_useYears
-- calendar tier A: the structure of day_of_year / month / year / day / season, create_array_of_consecutive_dates,
-- get_(years_and_)yearly_means, get_mask_for_unique_subarray regenerated from the AST = the expected values …
#print axioms Lemmas.GenCalendarFns.gen_day
#print axioms Lemmas.GenCalendarFns.gen_month
#print axioms Lemmas.GenCalendarFns.gen_year
#print axioms Lemmas.GenCalendarFns.gen_dayOfYear
#print axioms Lemmas.GenCalendarFns.gen_season
#print axioms Lemmas.GenCalendarFns.gen_consec
#print axioms Lemmas.GenCalendarFns.gen_yearlyMeans
#print axioms Lemmas.GenCalendarFns.gen_yearsAndYearlyMeans
#print axioms Lemmas.GenCalendarFns.gen_uniqueMask
-- … and their denotation is `Model/Calendar.lean` / `Model/InferredDates.lean` / `Model/Isimip.lean` / `Model/Loops.lean`
#print axioms Lemmas.GenCalendarFns.day_denote
#print axioms Lemmas.GenCalendarFns.month_denote
#print axioms Lemmas.GenCalendarFns.year_denote
#print axioms Lemmas.GenCalendarFns.dayOfYear_denote
#print axioms Lemmas.GenCalendarFns.pub_denote_empty
#print axioms Lemmas.GenCalendarFns.month_denote_other
#print axioms Lemmas.GenCalendarFns.dayOfYear_denote_other
#print axioms Lemmas.GenCalendarFns.season_table
#print axioms Lemmas.GenCalendarFns.seasonOf_none
#print axioms Lemmas.GenCalendarFns.season_denote
#print axioms Lemmas.GenCalendarFns.consec_denote
#print axioms Lemmas.GenCalendarFns.year_consec
#print axioms Lemmas.GenCalendarFns.dayOfYear_consec
#print axioms Lemmas.GenCalendarFns.yearlyMeans_denote
#print axioms Lemmas.GenCalendarFns.yearsAndYearlyMeans_denote
#print axioms Lemmas.GenCalendarFns.uniqueMask_denote
-- capstone 2 (BEGIN): the property on the composition of the regenerated pieces (`Props/Capstone2.lean`)
#print axioms Props.Capstone2.runLoop_writes
#print axioms Props.Capstone2.regen_loopRW_writes
#print axioms Props.Capstone2.regen_loopIsimipRW_writes
#print axioms Props.Capstone2.regen_loopDC_writes
#print axioms Props.Capstone2.regen_loopRW_assigned_once
#print axioms Props.Capstone2.regen_loopIsimipRW_assigned_once
#print axioms Props.Capstone2.regen_loopDC_assigned_once
#print axioms Props.Capstone2.regen_loopIsimipMonths_all_assigned
#print axioms Props.Capstone2.regen_loopCDFt_all_assigned
#print axioms Props.Capstone2.regen_loopQDM_all_assigned
#print axioms Props.Capstone2.regenApplyLocation_LS_assigned_once
#print axioms Props.Capstone2.regenApplyLocation_DC_assigned_once
#print axioms Props.Capstone2.regenApplyLocation_CDFt_assigned_once
#print axioms Props.Capstone2.regenApplyLocation_CDFt_years_assigned_once
#print axioms Props.Capstone2.regenApplyLocation_QDM_assigned_once
#print axioms Props.Capstone2.regenApplyLocation_QDM_years_assigned_once
#print axioms Props.Capstone2.regenApplyLocation_QM_assigned_once
#print axioms Props.Capstone2.regenApplyLocation_ECDFM_assigned_once
#print axioms Props.Capstone2.regenApplyLocation_SDM_assigned_once
#print axioms Props.Capstone2.allAssigned_of_AllAssigned
#print axioms Props.Capstone2.regen_yearsWin_cdft_assigned
#print axioms Props.Capstone2.regen_yearsWin_qdm_assigned
#print axioms Props.Capstone2.step8Buffer_all_assigned
#print axioms Props.Capstone2.regenApplyLocation_ISIMIP_assigned_once
#print axioms Props.Capstone2.regenApplyLocation_ISIMIP_months_all_assigned
-- capstone 2 (END)
