import IbicusModel.Props.C12
import IbicusModel.Lemmas.GenPurity
-- property theorems: (A) alias model
#print axioms Props.C12.inputs_preserved
#print axioms Props.C12.result_is_fresh
#print axioms Props.C12.store_into_caller_rejected
#print axioms Props.C12.mutants_rejected
#print axioms Props.C12.sites_justified
#print axioms Props.C12.stores_listed
#print axioms Props.C12.callArgs_classified
#print axioms Props.C12.rng_sites_guarded
#print axioms Props.C12.generator_moves_only_under_guard
#print axioms Props.C12.deterministic_leaves_generator_untouched
#print axioms Props.C12.draw_sites_tied
#print axioms Props.C12.trusted_alias_classification
-- property theorems: (B) instance model
#print axioms Props.C12.selfAssigns_in_post_init
#print axioms Props.C12.no_global_state
#print axioms Props.C12.derive_idem
#print axioms Props.C12.apply_settings_fixed
#print axioms Props.C12.output_depends_only_on
#print axioms Props.C12.apply_repeatable
#print axioms Props.C12.apply_state_fixpoint
#print axioms Props.C12.applyLocation_state
#print axioms Props.C12.window_normalised_at_construction
#print axioms Props.C12.mixed_repeatable
#print axioms Props.C12.applyLocation_repeatable
#print axioms Props.C12.deterministic_any_draws
#print axioms Props.C12.excursion_invisible
#print axioms Props.C12.qdm_cdf_threshold_sticky
-- the lemmas the property theorems stand on
#print axioms Lemmas.Purity.check_sound
#print axioms Lemmas.Purity.contract_ok
#print axioms Lemmas.Purity.table
-- tier A: regenerated tables = model tables
#print axioms Lemmas.GenWriteSites.sites
#print axioms Lemmas.GenWriteSites.selfAssigns
#print axioms Lemmas.GenWriteSites.globalState
#print axioms Lemmas.GenWriteSites.callArgs
#print axioms Lemmas.GenWriteSites.rngSites
-- tier A: the provenance programs regenerated from the source (Gen/Purity.lean) are accepted by the checker of Model/PurityProg
#print axioms Lemmas.PurityProg.check_sound
#print axioms Lemmas.PurityProg.accepted_sound
#print axioms Lemmas.PurityProg.store_into_caller_rejected
#print axioms Lemmas.PurityProg.checker_not_vacuous
#print axioms Lemmas.GenPurity.gen_LinearScaling_accepted
#print axioms Lemmas.GenPurity.gen_QuantileMapping_accepted
#print axioms Lemmas.GenPurity.gen_ECDFM_accepted
#print axioms Lemmas.GenPurity.gen_CDFt_accepted
#print axioms Lemmas.GenPurity.gen_QuantileDeltaMapping_accepted
#print axioms Lemmas.GenPurity.gen_ScaledDistributionMapping_accepted
#print axioms Lemmas.GenPurity.gen_DeltaChange_accepted
#print axioms Lemmas.GenPurity.gen_ISIMIP_accepted
#print axioms Lemmas.GenPurity.gen_inputs_preserved
