import IbicusModel.Props.C09
import IbicusModel.Lemmas.GenDebiasers
import IbicusModel.Lemmas.GenStatsKernels
import IbicusModel.Lemmas.GenIsimipFreq
import IbicusModel.Props.Capstone3
-- property theorems
#print axioms Props.C09.image_orderPres
#print axioms Props.C09.ls_add_strict_mono
#print axioms Props.C09.ls_mult_mono
#print axioms Props.C09.ls_mult_guard_of_nonneg
#print axioms Props.C09.legacy_ls_mult_reverses
#print axioms Props.C09.qm_param_mono_family
#print axioms Props.C09.qm_param_mono
#print axioms Props.C09.qm_param_mono_saturating
#print axioms Props.C09.clipping_is_needed
#print axioms Props.C09.qmapExtrap_mono_generic
#print axioms Props.C09.qmapExtrap_all_pairs
#print axioms Props.C09.qmapExtrap_kernel_density
#print axioms Props.C09.qm_nonparam_mono
#print axioms Props.C09.qmWrap_mono_signed
#print axioms Props.C09.qm_param_mono_family_signed
#print axioms Props.C09.qm_param_mono_signed
#print axioms Props.C09.qm_nonparam_mono_signed
#print axioms Props.C09.abs_rescaling_reverses
#print axioms Props.C09.cdft_mono
#print axioms Props.C09.cdft_mono_model
#print axioms Props.C09.cdft_mono_kernel_density
#print axioms Props.C09.cdft_ssr_order
#print axioms Props.C09.cdft_ssr_order_model
#print axioms Props.C09.cdft_ssr_order_nonneg
#print axioms Props.C09.step4_lower_order
#print axioms Props.C09.step4_upper_order
#print axioms Props.C09.step4_order
#print axioms Props.C09.step6_mono
#print axioms Props.C09.step6_mono_unbounded
#print axioms Props.C09.window_mono
#print axioms Props.C09.step6_ela_can_reorder
#print axioms Props.C09.hurdle_qm_order
#print axioms Props.C09.hurdle_window_order
#print axioms Props.C09.iz_qm_order
#print axioms Props.C09.iz_window_order
#print axioms Props.C09.censored_qm_order
#print axioms Props.C09.censored_window_order
#print axioms Props.C09.censored_qm_subthreshold_pair_can_invert
#print axioms Props.C09.fixedArgs_floc
-- the lemmas that carry the weight (shape of step 6, every branch of the adjustment, instances of the laws)
#print axioms Lemmas.C09.step6Full_eq
#print axioms Lemmas.C09.step6After_shape
#print axioms Lemmas.C09.adjustBetween_spec
#print axioms Lemmas.C09.randomizeMasked_spec
#print axioms Lemmas.C09.eqLaws_model
#print axioms Lemmas.C09.eqLaws_hist
#print axioms Lemmas.C09.isiLaws_tas
#print axioms Lemmas.C09.isiLaws_hurs_uniform
#print axioms Lemmas.C09.isiLaws_ela
#print axioms Lemmas.C09.precipLaws_ratFam
#print axioms Lemmas.C09.precipWindow_orderPres
-- reused C16 / C11 laws the proofs rest on
#print axioms Props.C16.qmapExtrap_mono
#print axioms Props.C16.iecdf_mono
#print axioms Props.C16.ecdf_mono
#print axioms Props.C16.thresholdCdf_range
#print axioms Props.C11.finalCounts_valid
-- tier A: regenerated kernels = model
#print axioms Lemmas.GenDebiasers.ls_apply_on_window
#print axioms Lemmas.GenDebiasers.linearScalingS_additive
#print axioms Lemmas.GenDebiasers.linearScalingS_multiplicative
#print axioms Lemmas.GenDebiasers.cdftMapping_eq
#print axioms Lemmas.GenDebiasers.standardQMNonparam_eq
#print axioms Lemmas.GenStatsKernels.threshold_cdf_vals
#print axioms Lemmas.GenIsimipFreq.get_P_obs_future
#print axioms Lemmas.GenIsimipFreq.get_nr_of_entries_to_set_to_bound
#print axioms Lemmas.GenIsimipFreq.scale_nr_of_entries_to_set_to_bounds
-- capstone 3: C09 stated on the denotation of the regenerated per-window pieces (`Props/Capstone3.lean`)
#print axioms Props.Capstone3.regenWindowProg_denote
#print axioms Props.Capstone3.regenWindow_LS_additive
#print axioms Props.Capstone3.regenWindow_LS_multiplicative
#print axioms Props.Capstone3.regenWindow_QM_eq_model_param
#print axioms Props.Capstone3.regenWindow_QM_eq_model_nonparam
#print axioms Props.Capstone3.regenWindow_CDFt_eq_model
#print axioms Props.Capstone3.regenWindow_CDFt_eq_model_nossr
#print axioms Props.Capstone3.regenStep6_eq_model
#print axioms Props.Capstone3.regenWindow_ISIMIP_eq_model
#print axioms Props.Capstone3.regenWindow_LS_add_strict_mono
#print axioms Props.Capstone3.regenWindow_LS_mult_mono
#print axioms Props.Capstone3.regenWindow_QM_param_mono_family_signed
#print axioms Props.Capstone3.regenWindow_QM_param_mono_signed
#print axioms Props.Capstone3.regenWindow_QM_param_mono
#print axioms Props.Capstone3.regenWindow_QM_nonparam_mono_signed
#print axioms Props.Capstone3.regenWindow_QM_nonparam_mono
#print axioms Props.Capstone3.regenWindow_orderPres_of_image
#print axioms Props.Capstone3.regenWindow_CDFt_mono
#print axioms Props.Capstone3.regenWindow_CDFt_ssr_order
#print axioms Props.Capstone3.regenWindow_CDFt_ssr_order_nonneg
#print axioms Props.Capstone3.regenStep6_mono
#print axioms Props.Capstone3.regenStep6_mono_unbounded
#print axioms Props.Capstone3.regenWindow_ISIMIP_mono
