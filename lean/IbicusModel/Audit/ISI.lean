import IbicusModel.Lemmas.IsimipModel

#print axioms Lemmas.IsimipModel.has_nothing_of_infinite
#print axioms Lemmas.IsimipModel.hasLowerThreshold_posInf
#print axioms Lemmas.IsimipModel.maskBetween_of_infinite
#print axioms Lemmas.IsimipModel.valuesBetween_of_infinite
#print axioms Lemmas.IsimipModel.step3_of_not_detrending
#print axioms Lemmas.IsimipModel.step7_of_not_detrending
#print axioms Lemmas.IsimipModel.annualTrend_zero_of_sigtest_off
#print axioms Lemmas.IsimipModel.step4_of_no_bound_threshold_pair
#print axioms Lemmas.IsimipModel.zipWith_sub_add_cancel
#print axioms Lemmas.IsimipModel.dailyTrend_length
#print axioms Lemmas.IsimipModel.step7_step3_roundtrip
#print axioms Lemmas.IsimipModel.step7_eq_add
#print axioms Lemmas.IsimipModel.step6_eq
#print axioms Lemmas.IsimipModel.applyOnWindow_eq
