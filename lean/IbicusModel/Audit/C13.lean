import IbicusModel.Props.C13
-- property theorems
#print axioms Props.C13.failAt_complete
#print axioms Props.C13.failsafe_isolates
#print axioms Props.C13.failsafe_subset
#print axioms Props.C13.failsafe_never_cell_error
#print axioms Props.C13.no_failsafe_no_array
#print axioms Props.C13.no_failsafe_propagates
#print axioms Props.C13.no_failsafe_propagates_parallel
#print axioms Props.C13.no_failsafe_parallel_first_completed
