import IbicusModel.Props.C13
import IbicusModel.Lemmas.GenGridLoops
-- property theorems
#print axioms Props.C13.failAt_complete
#print axioms Props.C13.failsafe_isolates
#print axioms Props.C13.failsafe_subset
#print axioms Props.C13.failsafe_never_cell_error
#print axioms Props.C13.no_failsafe_no_array
#print axioms Props.C13.no_failsafe_propagates
#print axioms Props.C13.no_failsafe_propagates_parallel
#print axioms Props.C13.no_failsafe_parallel_first_completed
#print axioms Props.C13.failsafe_flag_irrelevant_serial
#print axioms Props.C13.failsafe_flag_irrelevant
#print axioms Props.C13.deltachange_failsafe_isolates
#print axioms Props.C13.debiaser_failsafe_isolates
#print axioms Props.C13.failsafe_isolates_chunked
#print axioms Props.C13.failsafe_isolates_stateful_serial
#print axioms Props.C13.no_failsafe_no_array_chunked
#print axioms Props.C13.dispatch_forwards_failsafe
#print axioms Props.C13.catch_wrapper_statements
#print axioms Props.C13.catch_wrapper_denotes
-- tier A, semantic: structure of the catch wrapper / map functions / apply regenerated from the source = expected spec,
-- and denotation of the expected spec = the functions of Model/Grid.lean the theorems above are stated on
#print axioms Lemmas.GenGridLoops.catchSpec
#print axioms Lemmas.GenGridLoops.serialSpec
#print axioms Lemmas.GenGridLoops.parallelSpec
#print axioms Lemmas.GenGridLoops.applyDebiaser
#print axioms Lemmas.GenGridLoops.applyDeltaChange
#print axioms Lemmas.GenGridLoops.denote_catch
#print axioms Lemmas.GenGridLoops.denote_cellCall
#print axioms Lemmas.GenGridLoops.denote_cellCall_default
#print axioms Lemmas.GenGridLoops.denote_serial
#print axioms Lemmas.GenGridLoops.evalCells_indexList
#print axioms Lemmas.GenGridLoops.denote_parallel
#print axioms Lemmas.GenGridLoops.denote_branch
#print axioms Lemmas.GenGridLoops.denote_applyDebiaser
#print axioms Lemmas.GenGridLoops.denote_applyDeltaChange
#print axioms Lemmas.GenGridLoops.gen_apply_eq_spec
#print axioms Lemmas.GenGridLoops.catchResult_eq
#print axioms Lemmas.GenGridLoops.denote_cellCallSt
#print axioms Lemmas.GenGridLoops.denote_serialSt
#print axioms Lemmas.GenGridLoops.chunkRun_eq
#print axioms Lemmas.GenGridLoops.denote_parallelSt
