import IbicusModel.Props.C13
-- property theorems
#print axioms Props.C13.failAt_complete
#print axioms Props.C13.failsafe_isolates
#print axioms Props.C13.failsafe_subset
#print axioms Props.C13.failsafe_never_cell_error
#print axioms Props.C13.no_failsafe_no_array
#print axioms Props.C13.no_failsafe_propagates
#print axioms Props.C13.no_failsafe_propagates_parallel
#print axioms Props.C13.no_failsafe_parallel_first_completed
#print axioms Props.C13.failsafe_flag_irrelevant_serial
#print axioms Props.C13.failsafe_flag_irrelevant
#print axioms Props.C13.deltachange_failsafe_isolates
#print axioms Props.C13.debiaser_failsafe_isolates
#print axioms Props.C13.failsafe_isolates_chunked
#print axioms Props.C13.failsafe_isolates_stateful_serial
#print axioms Props.C13.no_failsafe_no_array_chunked
#print axioms Props.C13.dispatch_forwards_failsafe
#print axioms Props.C13.catch_wrapper_statements
-- tier A: dispatch table and map-function statements regenerated from the source = model
#print axioms Lemmas.GenGridDispatch.paths
#print axioms Lemmas.GenGridDispatch.facts
