import IbicusModel.Props.C14
-- property theorems
#print axioms Props.C14.type_first
#print axioms Props.C14.dtype_second
#print axioms Props.C14.ndim_third
#print axioms Props.C14.shape_fourth
#print axioms Props.C14.accepted
#print axioms Props.C14.time_lengths_unconstrained
#print axioms Props.C14.conversions_int
#print axioms Props.C14.conversions_masked
#print axioms Props.C14.warns_infNan
#print axioms Props.C14.warns_outOfRange
#print axioms Props.C14.clean_untouched
#print axioms Props.C14.output_warns
#print axioms Props.C14.error_before_locations
#print axioms Props.C14.apply_runs_checks_first
#print axioms Props.C14.time_mismatch
#print axioms Props.C14.time_ok
#print axioms Props.C14.time_consumers
#print axioms Props.C14.time_all3
-- tier A: regenerated data = model
#print axioms Lemmas.GenContract.checkSteps
#print axioms Lemmas.GenContract.returnsConverted
#print axioms Lemmas.GenContract.outputSteps
#print axioms Lemmas.GenContract.helperDefs
#print axioms Lemmas.GenContract.applyShapes
#print axioms Lemmas.GenContract.timeSites
#print axioms Lemmas.GenContract.check_time_information
