/- Axiom audit of C01 (bias removal when cm_future = cm_hist): every property theorem, the general toolkit lemmas it
   rests on, and the tier-A obligations `Gen = Model` of the two translated window functions. -/
import IbicusModel.Props.C01
-- property theorems
#print axioms Props.C01.ls_mean_add
#print axioms Props.C01.ls_mean_mult
#print axioms Props.C01.ls_mean
#print axioms Props.C01.dc_id
#print axioms Props.C01.dc_id_rw
#print axioms Props.C01.qm_param_fit
#print axioms Props.C01.qm_param_fit_eq
#print axioms Props.C01.ecdfm_fit
#print axioms Props.C01.ecdfm_fit_eq
#print axioms Props.C01.qm_param_mean_spread_ratSigmoid
#print axioms Props.C01.qm_nonparam_sortLike
#print axioms Props.C01.qm_nonparam_perm
#print axioms Props.C01.qm_nonparam_mean
#print axioms Props.C01.cdft_rank_transfer_clamped
#print axioms Props.C01.cdft_clamped_perm
#print axioms Props.C01.cdft_perm
#print axioms Props.C01.cdftShifted_additive_nodup
#print axioms Props.C01.cdftShifted_mean
#print axioms Props.C01.qdm_mean_symm
#print axioms Props.C01.qdm_mean_symm_loc_mean
#print axioms Props.C01.isimip_add_fit
#print axioms Props.C01.isimip_add_fit_eq
#print axioms Props.C01.isimip_annual_trend_centred
#print axioms Props.C01.sdm_abs_perm
#print axioms Props.C01.sdm_abs_mean
#print axioms Props.C01.legacy_sdm_eq
#print axioms Props.C01.legacy_sdm_abs_counterexample
#print axioms Props.C01.out_in_obs_range_partial
#print axioms Props.C01.cdft_out_in_shifted_range_partial
-- general facts used (Lemmas/StatsInverse.lean, Lemmas/C01.lean)
#print axioms Lemmas.Stats.iecdfLinear_ecdfLin_clamp
#print axioms Lemmas.C01.fit_lsMap
#print axioms Lemmas.C01.sum_symm_ecdf
#print axioms Lemmas.C01Isimip.step5_tas_self
#print axioms Lemmas.C01Isimip.step6_tas
#print axioms Lemmas.C01Isimip.step3_noTrend
#print axioms Lemmas.C01Sdm.interpOnLength_self
#print axioms Lemmas.C01Sdm.sdmAbsCdfScaled_same
#print axioms Lemmas.C01Sdm.sdmAbsolute_self
#print axioms Lemmas.Family.ratSigmoid_laws
-- tier A: regenerated kernels = model
#print axioms Lemmas.GenDebiasers.ls_apply_on_window
#print axioms Lemmas.GenDebiasers.dc_apply_on_within_year_window
