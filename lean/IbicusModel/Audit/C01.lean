/- Axiom audit of C01 (bias removal when cm_future = cm_hist): every property theorem, the general toolkit lemmas it
   rests on, and the tier-A obligations `Gen = Model` of the two translated window functions. -/
import IbicusModel.Props.C01
import IbicusModel.Lemmas.GenDebWin
-- property theorems
#print axioms Props.C01.ls_mean_add
#print axioms Props.C01.ls_mean_mult
#print axioms Props.C01.ls_mean
#print axioms Props.C01.dc_id
#print axioms Props.C01.dc_id_rw
#print axioms Props.C01.qm_param_fit
#print axioms Props.C01.qm_param_fit_eq
#print axioms Props.C01.ecdfm_fit
#print axioms Props.C01.ecdfm_fit_eq
#print axioms Props.C01.qm_param_mean_spread_ratSigmoid
#print axioms Props.C01.qm_nonparam_sortLike
#print axioms Props.C01.qm_nonparam_perm
#print axioms Props.C01.qm_nonparam_mean
#print axioms Props.C01.cdft_rank_transfer_clamped
#print axioms Props.C01.cdft_clamped_perm
#print axioms Props.C01.cdft_perm
#print axioms Props.C01.cdftShifted_additive_nodup
#print axioms Props.C01.cdftShifted_mean
#print axioms Props.C01.qdm_mean_symm
#print axioms Props.C01.qdm_mean_symm_loc_mean
#print axioms Props.C01.isimip_add_fit
#print axioms Props.C01.isimip_add_fit_eq
#print axioms Props.C01.isimip_annual_trend_centred
#print axioms Props.C01.sdm_abs_perm
#print axioms Props.C01.sdm_abs_mean
#print axioms Props.C01.legacy_sdm_eq
#print axioms Props.C01.legacy_sdm_abs_counterexample
#print axioms Props.C01.out_in_obs_range_partial
#print axioms Props.C01.cdft_out_in_shifted_range_partial
-- general facts used (Lemmas/StatsInverse.lean, Lemmas/C01.lean)
#print axioms Lemmas.Stats.iecdfLinear_ecdfLin_clamp
#print axioms Lemmas.C01.fit_lsMap
#print axioms Lemmas.C01.sum_symm_ecdf
#print axioms Lemmas.C01Isimip.step5_tas_self
#print axioms Lemmas.C01Isimip.step6_tas
#print axioms Lemmas.C01Isimip.step3_noTrend
#print axioms Lemmas.C01Sdm.interpOnLength_self
#print axioms Lemmas.C01Sdm.sdmAbsCdfScaled_same
#print axioms Lemmas.C01Sdm.sdmAbsolute_self
#print axioms Lemmas.Family.ratSigmoid_laws
-- tier A: regenerated kernels = model
#print axioms Lemmas.GenDebiasers.ls_apply_on_window
#print axioms Lemmas.GenDebiasers.dc_apply_on_within_year_window
-- unequal sample sizes: the proved bound on the residual mean bias (Props/C01.lean §7, Lemmas/C01Bound.lean)
#print axioms Props.C01.qm_nonparam_mean_bounds
#print axioms Props.C01.qm_nonparam_mean_bound
#print axioms Lemmas.C01Bound.gridMean_bounds
#print axioms Lemmas.C01Bound.qmNonparam_sum
#print axioms Props.C01.cdft_mean_bound
#print axioms Lemmas.C01Bound.linearGrid_bounds
#print axioms Lemmas.C01Bound.cdft_self_sum
-- tier A: the dataflow of the per-window transfer functions regenerated from /repo (Gen.DebWin) = expected program, and its denotation = Model.Debiasers
#print axioms Lemmas.GenDebWin.gen_cdft_apply_CDFt_mapping
#print axioms Lemmas.GenDebWin.gen_ecdfm_apply_on_window
#print axioms Lemmas.GenDebWin.gen_qdm_apply_debiasing_steps
#print axioms Lemmas.GenDebWin.gen_qdm_get_obs_and_cm_hist_fits
#print axioms Lemmas.GenDebWin.gen_qm_standard_qm
#print axioms Lemmas.GenDebWin.gen_qm_apply_on_window
#print axioms Lemmas.GenDebWin.gen_sdm_apply_on_window_absolute_sdm
#print axioms Lemmas.GenDebWin.gen_cdft_apply_debiasing_steps
#print axioms Lemmas.GenDebWin.gen_sdm_apply_on_window_relative_sdm
#print axioms Lemmas.GenDebWin.cdft_mapping_denote
#print axioms Lemmas.GenDebWin.cdft_mapping_denote_methods
#print axioms Lemmas.GenDebWin.cdft_bad_delta_shift
#print axioms Lemmas.GenDebWin.ecdfm_denote
#print axioms Lemmas.GenDebWin.qdm_denote
#print axioms Lemmas.GenDebWin.qdm_fits_denote
#print axioms Lemmas.GenDebWin.qdm_window_denote
#print axioms Lemmas.GenDebWin.qdm_bad_trend_preservation
#print axioms Lemmas.GenDebWin.qm_standard_param_denote
#print axioms Lemmas.GenDebWin.qm_standard_nonparam_denote
#print axioms Lemmas.GenDebWin.qm_param_denote
#print axioms Lemmas.GenDebWin.qm_nonparam_denote
#print axioms Lemmas.GenDebWin.qm_bad_detrending
#print axioms Lemmas.GenDebWin.qm_bad_mapping_type
#print axioms Lemmas.GenDebWin.sdm_abs_core
#print axioms Lemmas.GenDebWin.sdm_absolute_denote
#print axioms Lemmas.GenDebWin.cdft_steps_denote
#print axioms Lemmas.GenDebWin.cdft_steps_denote_methods
