import IbicusModel.Props.C10
import IbicusModel.Lemmas.GenDebiasers
import IbicusModel.Lemmas.GenIsimipFreq
import IbicusModel.Lemmas.GenIsimipVars
import IbicusModel.Lemmas.GenIsimipSteps
import IbicusModel.Lemmas.GenIsimipSteps2
import IbicusModel.Lemmas.GroupMax
import IbicusModel.Lemmas.GenDebWinSdm
import IbicusModel.Lemmas.GenIsimipStep6
import IbicusModel.Props.Capstone3
-- property theorems
#print axioms Props.C10.step5_bounded_in_range
#print axioms Props.C10.step5_in_range
#print axioms Props.C10.step5_bounded_clip_noop_in_range
#print axioms Props.C10.step6_good
#print axioms Props.C10.step6_in_bounds
#print axioms Props.C10.step6_no_gap
#print axioms Props.C10.step6_in_bounds_no_gap_fin
#print axioms Props.C10.step6_gap_without_guard
#print axioms Props.C10.isimip_pr_zero_or_ge
#print axioms Props.C10.window_in_bounds_no_gap
#print axioms Props.C10.location_rw_in_bounds_no_gap
#print axioms Props.C10.location_months_in_bounds_no_gap
#print axioms Props.C10.rsds_step8_nonneg
#print axioms Props.C10.rsds_cycle_nonneg
#print axioms Props.C10.rsds_location_nonneg
#print axioms Props.C10.ls_mult_nonneg
#print axioms Props.C10.dc_mult_nonneg
#print axioms Props.C10.rw_location_lift
#print axioms Props.C10.qm_hurdle_nonneg
#print axioms Props.C10.qm_mult_defined
#print axioms Props.C10.qm_censored_nonneg
#print axioms Props.C10.censored_ppf_zero_or_ge
#print axioms Props.C10.sdm_relative_nonneg
#print axioms Props.C10.sdm_relative_defined
#print axioms Props.C10.cdft_ssr_zero_or_ge
#print axioms Props.C10.cdft_ssr_threshold_is_min_positive
#print axioms Props.C10.cdft_ssr_nonneg
#print axioms Props.C10.cdft_ssr_years_zero_or_ge
#print axioms Props.C10.qdm_zero_or_ge
#print axioms Props.C10.qdm_years_zero_or_ge
#print axioms Props.C10.qdm_relative_nonneg
-- round 4: end-to-end statements (every bounded variable, sessions, every day assigned, CDFt / QDM through the windows)
#print axioms Props.C10.rsds_location_months_nonneg
#print axioms Props.C10.step6_good_of_pseudo
#print axioms Props.C10.bounded_variables_wellformed
#print axioms Props.C10.bounded_variable_window_in_bounds_no_gap
#print axioms Props.C10.bounded_variable_step6_total
#print axioms Props.C10.session_each_apply_judged_by_current_settings
#print axioms Props.C10.session_settings
#print axioms Props.C10.zero_or_ge_of_valid
#print axioms Props.C10.location_rw_every_day_valid
#print axioms Props.C10.location_months_every_day_valid
#print axioms Props.C10.location_rw_pr_zero_or_ge
#print axioms Props.C10.cdft_ssr_subsample_zero_or_ge
#print axioms Props.C10.cdft_ssr_location_rw_zero_or_ge
#print axioms Props.C10.cdft_ssr_location_rw_years_zero_or_ge
#print axioms Props.C10.qdm_location_rw_years_zero_or_ge
#print axioms Props.C10.qdm_location_rw_zero_or_ge
-- load-bearing lemmas: what step 6 writes, the lift through the write-back loops, totality (non-vacuity), the witness family
#print axioms Lemmas.C10.Good.inBounds_noGap
#print axioms Lemmas.C10.adjustBetween_spec
#print axioms Lemmas.C10.step6Full_good
#print axioms Lemmas.C10.step6_good
#print axioms Lemmas.C10.applyOnWindow_good
#print axioms Lemmas.C10.runLoop_forall
#print axioms Lemmas.C10.step6_total
#print axioms Lemmas.C10.uniformFam_rangeLaw
#print axioms Lemmas.C10.ratOdds_posOnRainy
#print axioms Lemmas.C10.ratFam_amountsNonneg
-- tier A: regenerated kernels = model
#print axioms Lemmas.GenDebiasers.ls_apply_on_window
#print axioms Lemmas.GenDebiasers.dc_apply_on_within_year_window
#print axioms Lemmas.GenIsimipFreq.calculate_percent_values_beyond_threshold
#print axioms Lemmas.GenIsimipFreq.get_P_obs_future
#print axioms Lemmas.GenIsimipFreq.get_nr_of_entries_to_set_to_bound
#print axioms Lemmas.GenIsimipFreq.scale_nr_of_entries_to_set_to_bounds
#print axioms Lemmas.GenIsimipVars.bounded_variables_eq
#print axioms Lemmas.GenIsimipVars.bounded_variables_complete
#print axioms Lemmas.C10.run_result
#print axioms Lemmas.C10.ssrThreshold_subsample
-- tier A (ISIMIP steps): per-element / list-level definitions regenerated from `_isimip.py` = model
#print axioms Lemmas.GenIsimipSteps.transfer_trend_additive
#print axioms Lemmas.GenIsimipSteps.transfer_trend_multiplicative
#print axioms Lemmas.GenIsimipSteps.transfer_trend_mixed
#print axioms Lemmas.GenIsimipSteps.transfer_trend_bounded
#print axioms Lemmas.GenIsimipSteps.transfer_trend_eq
#print axioms Lemmas.GenIsimipSteps.transfer_trend_error
#print axioms Lemmas.GenIsimipSteps.step7_eq
#print axioms Lemmas.GenIsimipSteps.get_mask_for_values_to_impute_eq
#print axioms Lemmas.GenIsimipSteps.get_mask_for_entries_to_set_to_lower_bound_eq
#print axioms Lemmas.GenIsimipSteps.get_mask_for_entries_to_set_to_upper_bound_eq
#print axioms Lemmas.GenIsimipSteps.randomize_lower_eq
#print axioms Lemmas.GenIsimipSteps.randomize_upper_eq
#print axioms Lemmas.GenIsimipSteps.remove_trend_eq
-- tier A (ISIMIP step 1 / step 8, rsds): scaling by the annual cycle of upper bounds regenerated from `_isimip.py` = model
#print axioms Lemmas.GenIsimipSteps2.mapM_zip_mul
#print axioms Lemmas.GenIsimipSteps2.getIdx_pred
#print axioms Lemmas.GenIsimipSteps2.getIdx_selectWhere_first
#print axioms Lemmas.GenIsimipSteps2.lookup_eq
#print axioms Lemmas.GenIsimipSteps2.scale_by_annual_cycle_of_upper_bounds_eq
#print axioms Lemmas.GenIsimipSteps2.rescale_by_annual_cycle_of_upper_bounds_eq
#print axioms Lemmas.GenIsimipSteps2.step8_eq
#print axioms Lemmas.GenIsimipSteps2.enumAssignFrom_pointwise
#print axioms Lemmas.GenIsimipSteps2.calculate_debiased_annual_cycle_of_upper_bounds_eq
#print axioms Lemmas.GenIsimipSteps2.get_annual_cycle_of_upper_bounds_eq_partial
-- tier A (DebWin): the dataflow of SDM relative / CDFt SSR regenerated from /repo (Gen.DebWin) = expected program, and its denotation = Model.Debiasers
#print axioms Lemmas.GenDebWin.gen_sdm_apply_on_window_relative_sdm
#print axioms Lemmas.GenDebWin.gen_cdft_apply_debiasing_steps
#print axioms Lemmas.GenDebWinSdm.runBinds_append
#print axioms Lemmas.GenDebWinSdm.sdm_rel_core
#print axioms Lemmas.GenDebWinSdm.expected_int
#print axioms Lemmas.GenDebWinSdm.sdmRelExpected_le
#print axioms Lemmas.GenDebWinSdm.sdm_relative_denote
#print axioms Lemmas.GenDebWinSdm.sdm_relative_denote_raises
#print axioms Lemmas.GenDebWinSdm.sdm_relative_denote_ok
#print axioms Lemmas.GenDebWinSdm.sdm_relative_no_hidden_raise
#print axioms Lemmas.GenDebWinSdm.cdft_steps_denote_single
#print axioms Lemmas.GenDebWinSdm.cdft_steps_denote_methods_single
#print axioms Lemmas.GenIsimipSteps2.step1_eq_partial
#print axioms Lemmas.GenIsimipSteps2.step8_wiring_eq
-- tier A, ISIMIP step 1 unconditional: the reduceat route on a sorted series = the per-day maxima (`GroupMax` proved), any sorting argsort
#print axioms Lemmas.GroupMax.groupMax_of_sorted
#print axioms Lemmas.GroupMax.sorts_stableArgsort
#print axioms Lemmas.GroupMax.sortedRoute_of_sorts
#print axioms Lemmas.GroupMax.get_annual_cycle_of_upper_bounds_eq
#print axioms Lemmas.GroupMax.step1_eq
-- tier A, ISIMIP part 3: `_step6_adjust_values_between_thresholds`, `step6`, the wrappers and `_apply_on_window` regenerated = model
#print axioms Lemmas.GenIsimipStep6.adjust_eq
#print axioms Lemmas.GenIsimipStep6.adjust_unbounded
#print axioms Lemmas.GenIsimipStep6.notMask_eq
#print axioms Lemmas.GenIsimipStep6.finalCounts_eq
#print axioms Lemmas.GenIsimipStep6.step6_eq
#print axioms Lemmas.GenIsimipStep6.get_values_between_thresholds_eq
#print axioms Lemmas.GenIsimipStep6.maskBeyondLower_fin
#print axioms Lemmas.GenIsimipStep6.maskBeyondUpper_fin
#print axioms Lemmas.GenIsimipStep6.maskBetween_fin
#print axioms Lemmas.GenIsimipStep6.step6_adjust_eq
#print axioms Lemmas.GenIsimipStep6.step2_off
#print axioms Lemmas.GenIsimipStep6.step2_on
#print axioms Lemmas.GenIsimipStep6.step3_eq
#print axioms Lemmas.GenIsimipStep6.step4_eq
#print axioms Lemmas.GenIsimipStep6.step5_eq
#print axioms Lemmas.GenIsimipStep6.apply_on_window_eq
-- capstone 3: C10 stated on the denotation of the regenerated per-window pieces (`Props/Capstone3.lean`)
#print axioms Props.Capstone3.regenWindowProg_denote
#print axioms Props.Capstone3.regenWindow_LS_additive
#print axioms Props.Capstone3.regenWindow_LS_multiplicative
#print axioms Props.Capstone3.regenWindow_DC_additive
#print axioms Props.Capstone3.regenWindow_DC_multiplicative
#print axioms Props.Capstone3.regenWindow_SDM_relative_eq_model
#print axioms Props.Capstone3.regenWindow_CDFt_eq_model
#print axioms Props.Capstone3.regenWindow_CDFt_eq_model_nossr
#print axioms Props.Capstone3.regenWindow_QDM_eq_model
#print axioms Props.Capstone3.regenStep6_eq_model
#print axioms Props.Capstone3.regenWindow_ISIMIP_eq_model
#print axioms Props.Capstone3.regenWindow_LS_mult_nonneg
#print axioms Props.Capstone3.regenWindow_DC_mult_nonneg
#print axioms Props.Capstone3.regenWindow_SDM_relative_nonneg
#print axioms Props.Capstone3.regenWindow_SDM_relative_raises
#print axioms Props.Capstone3.regenWindow_CDFt_ssr_zero_or_ge
#print axioms Props.Capstone3.regenWindow_CDFt_ssr_nonneg
#print axioms Props.Capstone3.regenWindow_QDM_zero_or_ge
#print axioms Props.Capstone3.regenWindow_QDM_relative_nonneg
#print axioms Props.Capstone3.regenStep6_in_bounds
#print axioms Props.Capstone3.regenStep6_no_gap
#print axioms Props.Capstone3.regenStep6_pr_zero_or_ge
#print axioms Props.Capstone3.regenWindow_ISIMIP_in_bounds_no_gap
