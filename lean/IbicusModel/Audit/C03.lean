/- Axiom audit of C03 (no-bias fixed point): every property theorem, the lemmas it rests on that are general facts
   about the numeric toolkit, and the tier-A obligations `Gen = Model` of the two translated window functions. -/
import IbicusModel.Props.C03
import IbicusModel.Lemmas.GenDebWin
import IbicusModel.Props.Capstone
-- property theorems (per window)
#print axioms Props.C03.ls_add_fixed_point
#print axioms Props.C03.ls_mult_fixed_point
#print axioms Props.C03.dc_identity_add
#print axioms Props.C03.dc_identity_mult
#print axioms Props.C03.dc_identity
#print axioms Props.C03.ecdfm_fixed_point
#print axioms Props.C03.qdm_absolute_fixed_point
#print axioms Props.C03.qdm_absolute_fixed_point_censored
#print axioms Props.C03.qdm_relative_fixed_point
#print axioms Props.C03.qdm_relative_fixed_point_censored
#print axioms Props.C03.qdm_censored_id_of_ge
#print axioms Props.C03.qdm_steps_fixed_point
#print axioms Props.C03.qdm_window_fixed_point
#print axioms Props.C03.qm_param_fixed_point
#print axioms Props.C03.qm_param_clipped_value
#print axioms Props.C03.qm_param_clipped_value_low
#print axioms Props.C03.cdft_fixed_point
#print axioms Props.C03.cdft_fixed_point_fails_step_inverted
#print axioms Props.C03.qm_param_fixed_point_general
#print axioms Props.C03.cdft_ssr_fixed_point
-- lifts to the window loops
#print axioms Props.C03.ls_add_fixed_point_rw
#print axioms Props.C03.ls_mult_fixed_point_rw
#print axioms Props.C03.ecdfm_fixed_point_rw
#print axioms Props.C03.qm_param_fixed_point_rw
#print axioms Props.C03.qdm_fixed_point_rw
#print axioms Props.C03.qdm_fixed_point_years
#print axioms Props.C03.cdft_fixed_point_rw
#print axioms Props.C03.cdft_fixed_point_years
#print axioms Props.C03.cdft_fixed_point_rw_years
#print axioms Props.C03.cdft_ssr_fixed_point_years
#print axioms Props.C03.cdft_ssr_fixed_point_rw
#print axioms Props.C03.qdm_fixed_point_rw_years
#print axioms Props.C03.dc_identity_rw
#print axioms Props.C03.dc_identity_rw_inferred
-- the interpolation / quantile inverse lemmas (Lemmas/StatsInverse.lean)
#print axioms Lemmas.Stats.interp_quantile_id
#print axioms Lemmas.Stats.quantile_interp_id
#print axioms Lemmas.Stats.ecdfLin_iecdfLinear
#print axioms Lemmas.Stats.iecdfLinear_ecdfLin
#print axioms Lemmas.Stats.quantile_at_own_rank
-- conditional lifts
#print axioms Lemmas.C03.applyLocationRW_fixed_on
#print axioms Lemmas.C03.applyYears_fixed_on
#print axioms Lemmas.C03.applyYearsC_fixed_on
#print axioms Lemmas.C03.ssrAfter_of_pos
-- the executable family satisfies the laws the parametric theorems assume (non-vacuity)
#print axioms Lemmas.Family.ratSigmoid_laws
-- tier A: regenerated kernels = model
#print axioms Lemmas.GenDebiasers.ls_apply_on_window
#print axioms Lemmas.GenDebiasers.dc_apply_on_within_year_window
-- tier A: the dataflow of the per-window transfer functions regenerated from /repo (Gen.DebWin) = expected program, and its denotation = Model.Debiasers
#print axioms Lemmas.GenDebWin.gen_cdft_apply_CDFt_mapping
#print axioms Lemmas.GenDebWin.gen_ecdfm_apply_on_window
#print axioms Lemmas.GenDebWin.gen_qdm_apply_debiasing_steps
#print axioms Lemmas.GenDebWin.gen_qdm_get_obs_and_cm_hist_fits
#print axioms Lemmas.GenDebWin.gen_qm_standard_qm
#print axioms Lemmas.GenDebWin.gen_qm_apply_on_window
#print axioms Lemmas.GenDebWin.gen_sdm_apply_on_window_absolute_sdm
#print axioms Lemmas.GenDebWin.gen_cdft_apply_debiasing_steps
#print axioms Lemmas.GenDebWin.gen_sdm_apply_on_window_relative_sdm
#print axioms Lemmas.GenDebWin.cdft_mapping_denote
#print axioms Lemmas.GenDebWin.cdft_mapping_denote_methods
#print axioms Lemmas.GenDebWin.cdft_bad_delta_shift
#print axioms Lemmas.GenDebWin.ecdfm_denote
#print axioms Lemmas.GenDebWin.qdm_denote
#print axioms Lemmas.GenDebWin.qdm_fits_denote
#print axioms Lemmas.GenDebWin.qdm_window_denote
#print axioms Lemmas.GenDebWin.qdm_bad_trend_preservation
#print axioms Lemmas.GenDebWin.qm_standard_param_denote
#print axioms Lemmas.GenDebWin.qm_standard_nonparam_denote
#print axioms Lemmas.GenDebWin.qm_param_denote
#print axioms Lemmas.GenDebWin.qm_nonparam_denote
#print axioms Lemmas.GenDebWin.qm_bad_detrending
#print axioms Lemmas.GenDebWin.qm_bad_mapping_type
#print axioms Lemmas.GenDebWin.sdm_abs_core
#print axioms Lemmas.GenDebWin.sdm_absolute_denote
#print axioms Lemmas.GenDebWin.cdft_steps_denote
#print axioms Lemmas.GenDebWin.cdft_steps_denote_methods
-- capstone: C03 on the composition of the regenerated pieces (Props/Capstone.lean; the `_eq_model` theorems they rest on are listed in Audit/C02.lean)
#print axioms Props.Capstone.regenApplyLocation_LS_fixed_point
#print axioms Props.Capstone.regenApplyLocation_LS_fixed_point_mult
#print axioms Props.Capstone.regenApplyLocation_DC_identity
#print axioms Props.Capstone.regenApplyLocation_DC_identity_mult
#print axioms Props.Capstone.regenApplyLocation_ECDFM_fixed_point
#print axioms Props.Capstone.regenApplyLocation_QM_fixed_point
#print axioms Props.Capstone.regenApplyLocation_CDFt_fixed_point
#print axioms Props.Capstone.regenApplyLocation_CDFt_fixed_point_ssr
#print axioms Props.Capstone.regenApplyLocation_QDM_fixed_point
#print axioms Props.Capstone.regenApplyLocation_CDFt_years_fixed_point
#print axioms Props.Capstone.regenApplyLocation_QDM_years_fixed_point
