/- Axiom audit of C03 (no-bias fixed point): every property theorem, the lemmas it rests on that are general facts
   about the numeric toolkit, and the tier-A obligations `Gen = Model` of the two translated window functions. -/
import IbicusModel.Props.C03
-- property theorems (per window)
#print axioms Props.C03.ls_add_fixed_point
#print axioms Props.C03.ls_mult_fixed_point
#print axioms Props.C03.dc_identity_add
#print axioms Props.C03.dc_identity_mult
#print axioms Props.C03.dc_identity
#print axioms Props.C03.ecdfm_fixed_point
#print axioms Props.C03.qdm_absolute_fixed_point
#print axioms Props.C03.qdm_absolute_fixed_point_censored
#print axioms Props.C03.qdm_relative_fixed_point
#print axioms Props.C03.qdm_relative_fixed_point_censored
#print axioms Props.C03.qdm_censored_id_of_ge
#print axioms Props.C03.qdm_steps_fixed_point
#print axioms Props.C03.qdm_window_fixed_point
#print axioms Props.C03.qm_param_fixed_point
#print axioms Props.C03.qm_param_clipped_value
#print axioms Props.C03.qm_param_clipped_value_low
#print axioms Props.C03.cdft_fixed_point
#print axioms Props.C03.cdft_fixed_point_fails_step_inverted
#print axioms Props.C03.qm_param_fixed_point_general
#print axioms Props.C03.cdft_ssr_fixed_point
-- lifts to the window loops
#print axioms Props.C03.ls_add_fixed_point_rw
#print axioms Props.C03.ls_mult_fixed_point_rw
#print axioms Props.C03.ecdfm_fixed_point_rw
#print axioms Props.C03.qm_param_fixed_point_rw
#print axioms Props.C03.qdm_fixed_point_rw
#print axioms Props.C03.qdm_fixed_point_years
#print axioms Props.C03.cdft_fixed_point_rw
#print axioms Props.C03.cdft_fixed_point_years
#print axioms Props.C03.cdft_fixed_point_rw_years
#print axioms Props.C03.cdft_ssr_fixed_point_years
#print axioms Props.C03.cdft_ssr_fixed_point_rw
#print axioms Props.C03.qdm_fixed_point_rw_years
#print axioms Props.C03.dc_identity_rw
-- the interpolation / quantile inverse lemmas (Lemmas/StatsInverse.lean)
#print axioms Lemmas.Stats.interp_quantile_id
#print axioms Lemmas.Stats.quantile_interp_id
#print axioms Lemmas.Stats.ecdfLin_iecdfLinear
#print axioms Lemmas.Stats.iecdfLinear_ecdfLin
#print axioms Lemmas.Stats.quantile_at_own_rank
-- conditional lifts
#print axioms Lemmas.C03.applyLocationRW_fixed_on
#print axioms Lemmas.C03.applyYears_fixed_on
#print axioms Lemmas.C03.applyYearsC_fixed_on
#print axioms Lemmas.C03.ssrAfter_of_pos
-- the executable family satisfies the laws the parametric theorems assume (non-vacuity)
#print axioms Lemmas.Family.ratSigmoid_laws
-- tier A: regenerated kernels = model
#print axioms Lemmas.GenDebiasers.ls_apply_on_window
#print axioms Lemmas.GenDebiasers.dc_apply_on_within_year_window
